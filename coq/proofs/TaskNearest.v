(* TaskNearest.v — C16: WHICH declaration of a task name a build offers. collect_tasks inserts, for the
   contexts of the builder's chain from the root down to the builder, the context's tasks and then the
   tasks of all selected modules; a later insert replaces an earlier one of the same name. Hence: a
   selected module's task beats every context's, and among contexts the one NEAREST to the builder wins. *)
From Coq Require Import Ascii String.
From Coq Require Import List Arith Bool NArith Lia.
Import ListNotations.
Require Import Laze.model.Base Laze.model.Env Laze.model.Expand Laze.model.Path Laze.model.Hash Laze.model.Allow
               Laze.model.Ninja Laze.model.Ctx Laze.model.Resolver Laze.model.Imports Laze.model.Generate.
Require Import Laze.proofs.BaseFacts Laze.proofs.StmtFacts.
Open Scope list_scope.

Section TaskNearest.
  Variable EV : str -> evr.
  Variable flat : fenv.
  Variable ms : list module.

  (* what one declaration becomes: the failed requirement, or the declaration evaluated in the build's env *)
  Definition task_result (t : task) : res (task + taskerr) :=
    match task_check flat ms t with
    | Some e => Ok (inr e)
    | None => rmap inl (task_eval EV flat t)
    end.

  Lemma task_insert_result acc nt :
    task_insert EV flat ms acc nt = rbind acc (fun l => rbind (task_result (snd nt)) (fun r => Ok (ainsert (fst nt) r l))).
  Proof.
    unfold task_insert, task_result. destruct acc as [l| | |]; cbn [rbind]; try reflexivity.
    destruct (task_check flat ms (snd nt)); cbn [rbind]; [reflexivity|].
    destruct (task_eval EV flat (snd nt)); reflexivity.
  Qed.

  Lemma fold_not_ok (seq : list (str * task)) acc : (forall l, acc <> Ok l) ->
    forall l, fold_left (task_insert EV flat ms) seq acc <> Ok l.
  Proof.
    revert acc. induction seq as [|x t IH]; intros acc Ha l; cbn [fold_left]; [apply Ha|].
    apply IH. intros l'. rewrite task_insert_result. destruct acc as [l0| | |]; cbn [rbind]; try discriminate.
    exfalso. exact (Ha l0 eq_refl).
  Qed.

  Definition decl_of (n : str) (seq : list (str * task)) : option (str * task) :=
    find (fun nt => str_eqb (fst nt) n) (rev seq).

  (* the last declaration of a name in the insertion sequence decides *)
  Lemma fold_last_wins : forall (seq : list (str * task)) l0 l n,
    fold_left (task_insert EV flat ms) seq (Ok l0) = Ok l ->
    match decl_of n seq with
    | Some nt => exists r, task_result (snd nt) = Ok r /\ alookup n l = Some r
    | None => alookup n l = alookup n l0
    end.
  Proof.
    induction seq as [|x t IH]; intros l0 l n HF.
    - cbn in HF. injection HF as <-. reflexivity.
    - cbn [fold_left] in HF. rewrite task_insert_result in HF. cbn [rbind] in HF.
      destruct (task_result (snd x)) as [r| | |] eqn:Er; cbn [rbind] in HF;
        try (exfalso; revert HF; apply fold_not_ok; intros; discriminate).
      specialize (IH _ _ n HF). unfold decl_of in *. cbn [rev]. rewrite find_app.
      destruct (find (fun nt => str_eqb (fst nt) n) (rev t)) as [nt|]; [exact IH|].
      cbn [find]. destruct (str_eqb (fst x) n) eqn:En.
      + apply str_eqb_eq in En. subst n. exists r. split; [exact Er|]. rewrite IH. apply alookup_ainsert_same.
      + rewrite IH. apply alookup_ainsert_other. intros E. subst n. rewrite str_eqb_refl in En. discriminate.
  Qed.
End TaskNearest.

Section Collect.
  Variable EV : str -> evr.

  (* the insertion sequence of collect_tasks *)
  Definition task_seq (cs : list context) (ms : list module) : list (str * task) :=
    flat_map (fun c => odflt [] (c_tasks c) ++ flat_map m_tasks ms) cs.

  Lemma fold_modules flat ms (l : list module) acc :
    fold_left (fun a m => fold_left (task_insert EV flat ms) (m_tasks m) a) l acc =
    fold_left (task_insert EV flat ms) (flat_map m_tasks l) acc.
  Proof.
    revert acc. induction l as [|m t IH]; intros acc; cbn [fold_left flat_map]; [reflexivity|].
    rewrite fold_left_app. apply IH.
  Qed.

  Lemma collect_tasks_seq b builder flat ms :
    collect_tasks EV b builder flat ms =
    fold_left (task_insert EV flat ms) (task_seq (ctxs_of b (parents_root_first b builder)) ms) (Ok []).
  Proof.
    unfold collect_tasks, task_seq. generalize (ctxs_of b (parents_root_first b builder)). intros cs.
    generalize (Ok (@nil (str * (task + taskerr)))). induction cs as [|c t IH]; intros acc; cbn [fold_left flat_map]; [reflexivity|].
    rewrite !fold_left_app. rewrite <- fold_modules. apply IH.
  Qed.

  Theorem collect_tasks_last_wins b builder flat ms tasks n :
    collect_tasks EV b builder flat ms = Ok tasks ->
    match decl_of n (task_seq (ctxs_of b (parents_root_first b builder)) ms) with
    | Some nt => exists r, task_result EV flat ms (snd nt) = Ok r /\ alookup n tasks = Some r
    | None => alookup n tasks = None
    end.
  Proof.
    rewrite collect_tasks_seq. intros HF. exact (fold_last_wins EV flat ms _ _ _ n HF).
  Qed.

  (* ---- reading the sequence ---- *)
  Definition declares (n : str) (l : list (str * task)) : bool := existsb (fun nt => str_eqb (fst nt) n) l.

  Lemma find_none_declares n l : declares n l = false -> find (fun nt : str * task => str_eqb (fst nt) n) (rev l) = None.
  Proof.
    intros Hd. destruct (find _ (rev l)) as [nt|] eqn:E; [|reflexivity]. exfalso.
    apply find_some in E. destruct E as [Hin He]. apply in_rev in Hin.
    unfold declares in Hd. assert (existsb (fun nt => str_eqb (fst nt) n) l = true) by (apply existsb_exists; exists nt; auto).
    congruence.
  Qed.

  Lemma declares_app n a b : declares n (a ++ b) = declares n a || declares n b.
  Proof. apply existsb_app. Qed.

  (* no selected module declares the name: the nearest context that declares it decides (its own last
     declaration of the name); contexts further from the builder — earlier in the chain — do not matter *)
  Theorem nearest_context_wins (pre post : list context) (c : context) ms n :
    declares n (flat_map m_tasks ms) = false ->
    (forall c', In c' post -> declares n (odflt [] (c_tasks c')) = false) ->
    declares n (odflt [] (c_tasks c)) = true ->
    decl_of n (task_seq (pre ++ c :: post) ms) = decl_of n (odflt [] (c_tasks c)).
  Proof.
    intros Hm Hpost Hc. unfold decl_of, task_seq. rewrite flat_map_app. cbn [flat_map]. rewrite !rev_app_distr.
    assert (Hp : find (fun nt : str * task => str_eqb (fst nt) n) (rev (flat_map (fun c0 => odflt [] (c_tasks c0) ++ flat_map m_tasks ms) post)) = None).
    { apply find_none_declares. induction post as [|p t IH]; [reflexivity|]. cbn [flat_map]. rewrite !declares_app.
      rewrite (Hpost p (or_introl eq_refl)), Hm. cbn. apply IH. intros c' Hc'. apply Hpost. right. exact Hc'. }
    rewrite !find_app. rewrite Hp. rewrite (find_none_declares n _ Hm).
    destruct (find (fun nt : str * task => str_eqb (fst nt) n) (rev (odflt [] (c_tasks c)))) as [nt|] eqn:E; [reflexivity|].
    exfalso. unfold declares in Hc. apply existsb_exists in Hc. destruct Hc as (nt & Hin & He).
    apply in_rev in Hin. pose proof (find_none _ _ E nt Hin) as Hf. cbn beta in Hf. congruence.
  Qed.

  (* some selected module declares the name and the chain is not empty: a module's declaration decides, whatever
     the contexts declare *)
  Theorem module_task_beats_contexts (pre : list context) (c : context) ms n :
    declares n (flat_map m_tasks ms) = true ->
    decl_of n (task_seq (pre ++ [c]) ms) = decl_of n (flat_map m_tasks ms).
  Proof.
    intros Hm. unfold decl_of, task_seq. rewrite flat_map_app. cbn [flat_map]. rewrite app_nil_r. rewrite !rev_app_distr.
    rewrite !find_app.
    destruct (find (fun nt : str * task => str_eqb (fst nt) n) (rev (flat_map m_tasks ms))) as [nt|] eqn:E; [reflexivity|].
    exfalso. unfold declares in Hm. apply existsb_exists in Hm. destruct Hm as (nt & Hin & He).
    apply in_rev in Hin. pose proof (find_none _ _ E nt Hin) as Hf. cbn beta in Hf. congruence.
  Qed.
End Collect.
