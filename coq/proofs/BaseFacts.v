(* BaseFacts.v — characterising lemmas for the utilities of model/Base.v *)
From Coq Require Import Ascii String.
From Coq Require Import List Arith Bool NArith Lia.
Import ListNotations.
Require Import Laze.model.Base.
Open Scope list_scope.

Lemma str_eqb_eq a b : str_eqb a b = true <-> a = b.
Proof.
  revert b; induction a as [|x a IH]; destruct b as [|y b]; cbn; split; intros H;
    try congruence; try discriminate.
  - apply andb_true_iff in H as [H1 H2]. apply Ascii.eqb_eq in H1. apply IH in H2. congruence.
  - inversion H; subst. rewrite Ascii.eqb_refl. apply IH. reflexivity.
Qed.

Lemma str_eqb_refl a : str_eqb a a = true.
Proof. apply str_eqb_eq. reflexivity. Qed.

Lemma str_eqb_neq a b : str_eqb a b = false <-> a <> b.
Proof.
  split.
  - intros H E. apply str_eqb_eq in E. congruence.
  - intros H. destruct (str_eqb a b) eqn:E; [apply str_eqb_eq in E; contradiction | reflexivity].
Qed.

Lemma str_eqb_sym a b : str_eqb a b = str_eqb b a.
Proof.
  destruct (str_eqb a b) eqn:E.
  - apply str_eqb_eq in E. subst. symmetry. apply str_eqb_refl.
  - symmetry. apply str_eqb_neq. apply str_eqb_neq in E. congruence.
Qed.

Lemma mem_str_In x l : mem_str x l = true <-> In x l.
Proof.
  unfold mem_str. rewrite existsb_exists. split.
  - intros [y [Hy E]]. apply str_eqb_eq in E. subst. exact Hy.
  - intros H. exists x. split; [exact H | apply str_eqb_refl].
Qed.

Lemma mem_str_false x l : mem_str x l = false <-> ~ In x l.
Proof.
  split.
  - intros H I. apply mem_str_In in I. congruence.
  - intros H. destruct (mem_str x l) eqn:E; [apply mem_str_In in E; contradiction | reflexivity].
Qed.

Lemma alookup_ainsert_same {V} k (v : V) l : alookup k (ainsert k v l) = Some v.
Proof.
  induction l as [|[k' v'] t IH]; cbn.
  - rewrite str_eqb_refl. reflexivity.
  - destruct (str_eqb k k') eqn:E; cbn; rewrite E; [reflexivity | exact IH].
Qed.

Lemma alookup_ainsert_other {V} k k2 (v : V) l : k2 <> k -> alookup k2 (ainsert k v l) = alookup k2 l.
Proof.
  intros N. induction l as [|[k' v'] t IH]; cbn.
  - apply str_eqb_neq in N. rewrite N. reflexivity.
  - destruct (str_eqb k k') eqn:E; cbn.
    + apply str_eqb_eq in E. subst k'. apply str_eqb_neq in N. rewrite N. reflexivity.
    + destruct (str_eqb k2 k'); [reflexivity | exact IH].
Qed.

Lemma intercalate_cons2 sep x y ys :
  intercalate sep (x :: y :: ys) = x ++ sep ++ intercalate sep (y :: ys).
Proof. reflexivity. Qed.

Lemma intercalate_cons sep x xs :
  intercalate sep (x :: xs) = x ++ flat_map (fun y => sep ++ y) xs.
Proof.
  revert x; induction xs as [|y ys IH]; intros x.
  - cbn. rewrite app_nil_r. reflexivity.
  - rewrite intercalate_cons2, IH. cbn [flat_map]. rewrite <- app_assoc. reflexivity.
Qed.
