(* OrderInv.v — C09: maps are observed per key, so their iteration order is unobservable. *)
From Coq Require Import Ascii String.
From Coq Require Import List Arith Bool NArith Lia Permutation.
Import ListNotations.
Require Import Laze.model.Base Laze.model.Env Laze.proofs.BaseFacts Laze.proofs.EnvFacts.
Open Scope list_scope.

Lemma alookup_notin {V} k (l : list (str * V)) : ~ In k (akeys l) -> alookup k l = None.
Proof.
  induction l as [|[k' v] t IH]; cbn; intros H; [reflexivity|].
  destruct (str_eqb k k') eqn:E; [apply str_eqb_eq in E; subst; exfalso; apply H; left; reflexivity|].
  apply IH. intros I. apply H. right. exact I.
Qed.

Lemma alookup_perm {V} (l l' : list (str * V)) k :
  NoDup (akeys l) -> Permutation l l' -> alookup k l = alookup k l'.
Proof.
  intros ND P. induction P as [| [k1 v1] l l' P IH | [k1 v1] [k2 v2] l | l1 l2 l3 P1 IH1 P2 IH2].
  - reflexivity.
  - cbn in *. inversion ND; subst. destruct (str_eqb k k1); [reflexivity|apply IH; assumption].
  - cbn in *. inversion ND as [|? ? N1 ND1]; subst. inversion ND1; subst.
    destruct (str_eqb k k2) eqn:E2; destruct (str_eqb k k1) eqn:E1; try reflexivity.
    apply str_eqb_eq in E1, E2. subst. exfalso. apply N1. left. reflexivity.
  - rewrite IH1 by exact ND. apply IH2.
    unfold akeys in *. eapply Permutation_NoDup; [apply Permutation_map; exact P1|exact ND].
Qed.

Theorem merge_perm self other other' k :
  NoDup (akeys other) -> Permutation other other' ->
  env_get k (merge self other) = env_get k (merge self other').
Proof.
  intros ND P. rewrite !merge_keywise.
  - unfold env_get. rewrite (alookup_perm other other' k ND P). reflexivity.
  - unfold akeys in *. eapply Permutation_NoDup; [apply Permutation_map; exact P|exact ND].
  - exact ND.
Qed.

Theorem flatten_lookup e k : alookup k (flatten e) = option_map flatten_key (env_get k e).
Proof.
  unfold flatten, env_get. induction e as [|[k' v] t IH]; cbn; [reflexivity|].
  destruct (str_eqb k k'); [reflexivity|exact IH].
Qed.
