(* EscapeFacts.v — C06: what laze writes into the path lists of a build statement is read back by
   ninja as the very path: escape_path (Ninja.v; blanks and colons escaped as ninja_syntax.py does)
   followed by a separator lexes to the original path and leaves the separator. Paths with `$`, `|` or a
   newline are outside the statement (ninja has no literal for `|`, and reads `$x` as a variable). *)
From Coq Require Import Ascii String.
From Coq Require Import List Arith Bool NArith Lia.
Import ListNotations.
Require Import Laze.model.Base Laze.model.Ninja.
Open Scope list_scope.

Definition ch_pipe : ascii := "|"%char.
Definition ch_nl : ascii := ascii_of_N 10.
Definition is_sep (c : ascii) : bool :=
  Ascii.eqb c ch_blank || Ascii.eqb c ch_colon || Ascii.eqb c ch_pipe || Ascii.eqb c ch_nl.

(* ninja's reader of one path (lexer.in.cc, ReadEvalString with path = true), on the escapes laze writes:
   `$ `, `$:` and `$$` are the characters themselves; an unescaped blank, colon, `|` or newline ends the path *)
Fixpoint read_path (s : str) : str * str :=
  match s with
  | [] => ([], [])
  | c :: t =>
      if Ascii.eqb c ch_dollar then
        match t with
        | d :: t' => if Ascii.eqb d ch_blank || Ascii.eqb d ch_colon || Ascii.eqb d ch_dollar
                     then let (p, r) := read_path t' in (d :: p, r)
                     else ([], s)                     (* a variable reference or another escape: not written by laze *)
        | [] => ([], s)
        end
      else if is_sep c then ([], s)
      else let (p, r) := read_path t in (c :: p, r)
  end.

Definition plain_char (c : ascii) : bool :=
  negb (Ascii.eqb c ch_dollar) && negb (Ascii.eqb c ch_pipe) && negb (Ascii.eqb c ch_nl).
Definition at_sep (rest : str) : Prop := match rest with [] => True | c :: _ => is_sep c = true end.

Lemma read_path_at_sep rest : at_sep rest -> read_path rest = ([], rest).
Proof.
  destruct rest as [|c t]; [reflexivity|]. cbn [at_sep read_path]. intros Hs.
  destruct (Ascii.eqb c ch_dollar) eqn:Ed.
  - apply Ascii.eqb_eq in Ed. subst c. discriminate Hs.
  - rewrite Hs. reflexivity.
Qed.

Theorem escape_read_back : forall p rest,
  forallb plain_char p = true -> at_sep rest -> read_path (escape_path p ++ rest) = (p, rest).
Proof.
  induction p as [|c t IH]; intros rest Hp Hs; [apply read_path_at_sep, Hs|].
  cbn [forallb] in Hp. apply andb_prop in Hp. destruct Hp as [Hc Ht]. specialize (IH rest Ht Hs).
  unfold plain_char in Hc. apply andb_prop in Hc. destruct Hc as [Hc Hnl]. apply andb_prop in Hc. destruct Hc as [Hd Hpipe].
  apply negb_true_iff in Hd, Hpipe, Hnl.
  cbn [escape_path]. destruct (Ascii.eqb c ch_blank) eqn:Eb.
  - apply Ascii.eqb_eq in Eb. subst c. cbn [app read_path]. rewrite IH. reflexivity.
  - destruct (Ascii.eqb c ch_colon) eqn:Ec.
    + apply Ascii.eqb_eq in Ec. subst c. cbn [app read_path]. rewrite IH. reflexivity.
    + rewrite Hd. cbn [app read_path]. rewrite Hd. unfold is_sep. rewrite Eb, Ec, Hpipe, Hnl. cbn [orb]. rewrite IH. reflexivity.
Qed.

(* consequently a list of escaped paths separated by blanks reads back element by element *)
Example escape_ex : read_path (escape_path (S_ "my file:x.c") ++ S_ " next") = (S_ "my file:x.c", S_ " next").
Proof. vm_compute. reflexivity. Qed.
