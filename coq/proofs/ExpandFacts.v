(* ExpandFacts.v — lemmas about model/Expand.v (C13) *)
From Coq Require Import Ascii String.
From Coq Require Import List Arith Bool NArith Lia.
Import ListNotations.
Require Import Laze.model.Base Laze.model.Env Laze.model.Expand Laze.proofs.BaseFacts.
Open Scope list_scope.

(* ---------- outcomes ---------- *)
Definition xerr (e : err) : Prop :=
  match e with EMissing _ | EUnclosed _ | ECycle _ | ETooDeep _ => True | _ => False end.
(* value or typed expansion error: not Panic, not Fuel *)
Definition total {A} (x : res A) : Prop :=
  match x with Ok _ => True | Err e => xerr e | Panic _ => False | Fuel => False end.

(* ---------- the scanner ---------- *)
Lemma split_rbrace_len s k t : split_rbrace s = Some (k, t) -> length k + length t < length s.
Proof.
  revert k t; induction s as [|c r IH]; cbn; intros k t H; [discriminate|].
  destruct (Ascii.eqb c ch_rbrace); [inversion H; subst; cbn; lia|].
  destruct (split_rbrace r) as [[k' t']|]; [|discriminate]. inversion H; subst.
  specialize (IH _ _ eq_refl). cbn. lia.
Qed.

Lemma scan_total : forall fuel pos prev s lit esc,
  length s < fuel -> total (scan fuel pos prev s lit esc).
Proof.
  induction fuel as [|fuel IH]; intros pos prev s lit esc H; [lia|]. cbn [scan].
  destruct s as [|c r]; [exact I|]. destruct r as [|d r']; [exact I|].
  cbn [length] in H.
  destruct (Ascii.eqb c ch_dollar && Ascii.eqb d ch_lbrace).
  - destruct (match prev with Some p => Ascii.eqb p ch_bslash | None => false end).
    + apply IH. cbn; lia.
    + destruct (split_rbrace r') as [[k t]|] eqn:E; [|exact I].
      apply split_rbrace_len in E.
      specialize (IH (pos + 3 + N.of_nat (length k))%N None t [] esc).
      destruct (scan fuel _ None t [] esc) as [[segs e]|e| |]; cbn in *; try exact I; apply IH; lia.
  - apply IH. cbn; lia.
Qed.

Lemma scan_fuel_irrel : forall f1 f2 pos prev s lit esc,
  length s < f1 -> length s < f2 ->
  scan f1 pos prev s lit esc = scan f2 pos prev s lit esc.
Proof.
  induction f1 as [|f1 IH]; intros f2 pos prev s lit esc H1 H2; [lia|].
  destruct f2 as [|f2]; [lia|]. cbn [scan].
  destruct s as [|c r]; [reflexivity|]. destruct r as [|d r']; [reflexivity|].
  cbn [length] in H1, H2.
  destruct (Ascii.eqb c ch_dollar && Ascii.eqb d ch_lbrace).
  - destruct (match prev with Some p => Ascii.eqb p ch_bslash | None => false end).
    + apply IH; cbn; lia.
    + destruct (split_rbrace r') as [[k t]|] eqn:E; [|reflexivity].
      apply split_rbrace_len in E.
      rewrite (IH f2) by lia. reflexivity.
  - apply IH; cbn; lia.
Qed.

(* contains "${" *)
Fixpoint has_db (s : str) : bool :=
  match s with
  | a :: t => match t with
              | b :: _ => (Ascii.eqb a ch_dollar && Ascii.eqb b ch_lbrace) || has_db t
              | [] => false end
  | [] => false
  end.

Lemma scan_no_db : forall fuel pos prev s lit esc,
  has_db s = false -> length s < fuel ->
  scan fuel pos prev s lit esc = Ok ([Lit (rev lit ++ s)], esc).
Proof.
  induction fuel as [|fuel IH]; intros pos prev s lit esc Hd Hl; [lia|]. cbn [scan].
  destruct s as [|c r]; [rewrite app_nil_r; reflexivity|].
  destruct r as [|d r'].
  - reflexivity.
  - cbn [has_db] in Hd. apply orb_false_iff in Hd as [Hd1 Hd2]. rewrite Hd1.
    rewrite IH; [|exact Hd2|cbn in *; lia]. cbn [rev]. rewrite <- app_assoc. reflexivity.
Qed.

(* ---------- substitution / totality ---------- *)
Definition mu (r : fenv) (seen : list str) : nat :=
  length (filter (fun k => negb (mem_str k seen)) (akeys r)).

Lemma filter_len_le {A} (p : A -> bool) l : length (filter p l) <= length l.
Proof. induction l as [|x t IH]; cbn; [lia|]. destruct (p x); cbn; lia. Qed.

Lemma filter_len_lt {A} (p q : A -> bool) l x :
  (forall y, p y = true -> q y = true) -> In x l -> q x = true -> p x = false ->
  length (filter p l) < length (filter q l).
Proof.
  intros Hpq. induction l as [|y t IH]; intros Hin Hq Hp; [contradiction|].
  assert (Hle : length (filter p t) <= length (filter q t)).
  { clear -Hpq. induction t as [|z t IH]; cbn; [lia|].
    destruct (p z) eqn:Ep; [rewrite (Hpq z Ep); cbn; lia|]. destruct (q z); cbn; lia. }
  cbn. destruct Hin as [->|Hin].
  - rewrite Hp, Hq. cbn. lia.
  - specialize (IH Hin Hq Hp). destruct (p y) eqn:Ep; [rewrite (Hpq y Ep); cbn; lia|].
    destruct (q y); cbn; lia.
Qed.

Lemma alookup_In {V} k (l : list (str * V)) v : alookup k l = Some v -> In k (akeys l).
Proof.
  induction l as [|[k' v'] t IH]; cbn; [discriminate|].
  destruct (str_eqb k k') eqn:E; intros H.
  - apply str_eqb_eq in E. left. symmetry. exact E.
  - right. apply IH. exact H.
Qed.

Lemma mu_decreases r seen k v :
  alookup k r = Some v -> mem_str k seen = false -> mu r (k :: seen) < mu r seen.
Proof.
  intros Hl Hs. unfold mu. apply filter_len_lt with (x := k).
  - intros y H. apply negb_true_iff in H. apply negb_true_iff.
    unfold mem_str in *. cbn [existsb] in H. apply orb_false_iff in H. apply H.
  - eapply alookup_In. exact Hl.
  - rewrite Hs. reflexivity.
  - unfold mem_str. cbn [existsb]. rewrite str_eqb_refl. reflexivity.
Qed.

Lemma missing_value_total pol k : total (missing_value pol k).
Proof. destruct pol; exact I. Qed.

Lemma subst_total r pol rec seen segs :
  (forall k v, mem_str k seen = false -> alookup k r = Some v -> total (rec (k :: seen) v)) ->
  total (subst r pol rec seen segs).
Proof.
  intros Hrec. induction segs as [|[l|k] t IH]; cbn [subst]; [exact I| |].
  - destruct (subst r pol rec seen t); cbn in *; try exact I; exact IH.
  - destruct (mem_str k seen) eqn:Es; [exact I|].
    destruct (Nat.leb max_depth (length seen)); [exact I|].
    destruct (alookup k r) as [v|] eqn:El.
    + specialize (Hrec k v Es El). destruct (rec (k :: seen) v); cbn in *; try exact Hrec; try exact I.
      destruct (subst r pol rec seen t); cbn in *; try exact I; exact IH.
    + pose proof (missing_value_total pol k) as Hm.
      destruct (missing_value pol k); cbn in *; try exact Hm; try exact I.
      destruct (subst r pol rec seen t); cbn in *; try exact I; exact IH.
Qed.

Lemma expand_rec_total r pol : forall fuel seen f,
  mu r seen < fuel -> total (expand_rec r pol fuel seen f).
Proof.
  induction fuel as [|fuel IH]; intros seen f H; [lia|]. cbn [expand_rec].
  pose proof (scan_total (S (length f)) 0 None f [] false (Nat.lt_succ_diag_r _)) as Hs.
  destruct (scan (S (length f)) 0 None f [] false) as [[segs esc]|e| |]; cbn in Hs; try exact Hs; try contradiction.
  assert (Ht : total (subst r pol (expand_rec r pol fuel) seen segs)).
  { apply subst_total. intros k v Hk Hl. apply IH. pose proof (mu_decreases r seen k v Hl Hk). lia. }
  destruct (subst r pol (expand_rec r pol fuel) seen segs); cbn in *; try exact Ht; exact I.
Qed.

Theorem expand_total r pol f : total (expand r pol f).
Proof.
  unfold expand. apply expand_rec_total. unfold mu.
  pose proof (filter_len_le (fun k => negb (mem_str k [])) (akeys r)) as H.
  unfold akeys in *. rewrite map_length in H. lia.
Qed.

(* ---------- identity ---------- *)
Theorem expand_identity r pol f : has_db f = false -> expand r pol f = Ok f.
Proof.
  intros H. unfold expand. cbn [expand_rec].
  rewrite scan_no_db by (auto; lia). cbn [rev app subst]. rewrite app_nil_r. reflexivity.
Qed.

(* ---------- decomposition at a reference ---------- *)
Definition last_byte (prev : option ascii) (l : str) : option ascii :=
  match rev l with c :: _ => Some c | [] => prev end.
Definition is_bslash (o : option ascii) : bool :=
  match o with Some p => Ascii.eqb p ch_bslash | None => false end.

Lemma last_byte_cons prev c l : last_byte prev (c :: l) = last_byte (Some c) l.
Proof.
  unfold last_byte. cbn [rev]. destruct (rev l) as [|x t] eqn:E; cbn; reflexivity.
Qed.

(* skipping literal text l (free of "${") in front of a '$' *)
Lemma scan_skip : forall l fuel pos prev rest lit esc,
  has_db l = false ->
  scan (length l + fuel) pos prev (l ++ ch_dollar :: rest) lit esc
  = scan fuel (pos + N.of_nat (length l)) (last_byte prev l) (ch_dollar :: rest) (rev l ++ lit) esc.
Proof.
  induction l as [|c l IH]; intros fuel pos prev rest lit esc Hd.
  - cbn. rewrite N.add_0_r. reflexivity.
  - cbn [length app plus]. cbn [scan].
    assert (Hstep : scan (length l + fuel) (pos + 1) (Some c) (l ++ ch_dollar :: rest) (c :: lit) esc
                    = scan fuel (pos + N.of_nat (S (length l))) (last_byte prev (c :: l)) (ch_dollar :: rest) (rev (c :: l) ++ lit) esc).
    { rewrite IH.
      - rewrite last_byte_cons. cbn [rev]. rewrite <- app_assoc. cbn [app].
        replace (pos + 1 + N.of_nat (length l))%N with (pos + N.of_nat (S (length l)))%N by (rewrite Nat2N.inj_succ; lia). reflexivity.
      - destruct l as [|d l']; [reflexivity|]. cbn [has_db] in Hd. apply orb_false_iff in Hd. apply Hd. }
    destruct l as [|d l'].
    + cbn [app]. cbn [app] in Hstep.
      replace (Ascii.eqb c ch_dollar && Ascii.eqb ch_dollar ch_lbrace) with false
        by (rewrite andb_false_r; reflexivity).
      exact Hstep.
    + cbn [app]. cbn [has_db] in Hd. apply orb_false_iff in Hd as [Hd1 _]. rewrite Hd1. exact Hstep.
Qed.

Lemma scan_at_ref fuel pos prev r' lit esc :
  is_bslash prev = false ->
  scan (S fuel) pos prev (ch_dollar :: ch_lbrace :: r') lit esc =
  match split_rbrace r' with
  | None => Err (EUnclosed pos)
  | Some (k, t) =>
      match scan fuel (pos + 3 + N.of_nat (length k)) None t [] esc with
      | Ok (segs, e) => Ok (Lit (rev lit) :: Ref k :: segs, e)
      | Err x => Err x | Panic n => Panic n | Fuel => Fuel
      end
  end.
Proof.
  intros H. cbn [scan].
  change (Ascii.eqb ch_dollar ch_dollar && Ascii.eqb ch_lbrace ch_lbrace) with true. cbv iota.
  unfold is_bslash in H. rewrite H. reflexivity.
Qed.

Lemma scan_at_esc fuel pos prev r' lit esc :
  is_bslash prev = true ->
  scan (S fuel) pos prev (ch_dollar :: ch_lbrace :: r') lit esc =
  scan fuel (pos + 1) (Some ch_dollar) (ch_lbrace :: r') (ch_dollar :: lit) true.
Proof.
  intros H. cbn [scan].
  change (Ascii.eqb ch_dollar ch_dollar && Ascii.eqb ch_lbrace ch_lbrace) with true. cbv iota.
  unfold is_bslash in H. rewrite H. reflexivity.
Qed.

(* a reference ${k} after literal text: one Lit, one Ref, then the scan of the rest *)
Theorem scan_ref (l k t : str) prev (lit : str) esc pos fuel :
  has_db l = false -> is_bslash (last_byte prev l) = false ->
  (forall c, In c k -> c <> ch_rbrace) ->
  length (l ++ ch_dollar :: ch_lbrace :: k ++ ch_rbrace :: t) < fuel ->
  scan fuel pos prev (l ++ ch_dollar :: ch_lbrace :: k ++ ch_rbrace :: t) lit esc =
  match scan (S (length t)) (pos + N.of_nat (length l) + 3 + N.of_nat (length k)) None t [] esc with
  | Ok (segs, e) => Ok (Lit (rev lit ++ l) :: Ref k :: segs, e)
  | Err x => Err x | Panic n => Panic n | Fuel => Fuel
  end.
Proof.
  intros Hd Hb Hk Hf.
  rewrite (scan_fuel_irrel fuel (length l + S (S (S (length k + S (length t)))))); [|exact Hf|].
  2:{ rewrite app_length. cbn [length]. rewrite app_length. cbn [length]. lia. }
  rewrite scan_skip by exact Hd. rewrite scan_at_ref by exact Hb.
  assert (Hs : split_rbrace (k ++ ch_rbrace :: t) = Some (k, t)).
  { clear -Hk. induction k as [|c k IH]; cbn.
    - reflexivity.
    - assert (Hc : Ascii.eqb c ch_rbrace = false).
      { apply Ascii.eqb_neq. apply Hk. left. reflexivity. }
      rewrite Hc. rewrite IH; [reflexivity|]. intros c' I. apply Hk. right. exact I. }
  rewrite Hs. rewrite (scan_fuel_irrel _ (S (length t))) by lia.
  rewrite rev_app_distr, rev_involutive. reflexivity.
Qed.

(* ---------- one reference: the general characterisation ---------- *)
Lemma has_db_false_scan t pos esc :
  has_db t = false -> scan (S (length t)) pos None t [] esc = Ok ([Lit t], esc).
Proof. intros H. rewrite scan_no_db by (auto; lia). reflexivity. Qed.

Lemma expand_rec_S r pol fuel seen f :
  expand_rec r pol (S fuel) seen f =
  match scan (S (length f)) 0 None f [] false with
  | Fuel => Fuel | Err e => Err e | Panic n => Panic n
  | Ok (segs, esc) =>
      match subst r pol (expand_rec r pol fuel) seen segs with
      | Ok x => Ok (if esc && negb (keeps_escapes pol) then unescape x else x)
      | e => e
      end
  end.
Proof. reflexivity. Qed.

Lemma nest3 (x : res str) (l t : str) :
  match
    match
      match x with Ok v0 => Ok (v0 ++ t ++ []) | Err e => Err e | Panic n => Panic n | Fuel => Fuel end
    with Ok y => Ok (l ++ y) | Err e => Err e | Panic n => Panic n | Fuel => Fuel end
  with Ok y => Ok y | Err e => Err e | Panic n => Panic n | Fuel => Fuel end
  = rbind x (fun v0 => Ok (l ++ v0 ++ t)).
Proof. destruct x; cbn [rbind]; rewrite ?app_nil_r; reflexivity. Qed.

Definition value_of (r : fenv) (pol : policy) (fuel : nat) (seen : list str) (k : str) : res str :=
  if mem_str k seen then Err (ECycle k)
  else if Nat.leb max_depth (length seen) then Err (ETooDeep k)
  else match alookup k r with
       | Some v => expand_rec r pol fuel (k :: seen) v
       | None => missing_value pol k
       end.

(* a string with exactly one (unescaped) reference expands to: text before, the value of the
   reference (recursively expanded, or what the missing-variable policy says), text after *)
Theorem expand_rec_one_ref (r : fenv) pol fuel seen (l k t : str) :
  has_db l = false -> is_bslash (last_byte None l) = false ->
  (forall c, In c k -> c <> ch_rbrace) -> has_db t = false ->
  expand_rec r pol (S fuel) seen (l ++ ch_dollar :: ch_lbrace :: k ++ ch_rbrace :: t)
  = rbind (value_of r pol fuel seen k) (fun v => Ok (l ++ v ++ t)).
Proof.
  intros Hl Hb Hk Ht. rewrite expand_rec_S.
  rewrite scan_ref by (auto; lia). rewrite has_db_false_scan by exact Ht.
  cbn [rev app subst]. unfold value_of.
  destruct (mem_str k seen); [reflexivity|].
  destruct (Nat.leb max_depth (length seen)); [reflexivity|].
  destruct (alookup k r) as [v|].
  - cbn [andb]. apply nest3.
  - cbn [andb]. apply nest3.
Qed.

(* a reference to a variable on the current expansion path is reported as a cycle *)
Theorem expand_rec_cycle (r : fenv) pol fuel seen (l k t : str) :
  has_db l = false -> is_bslash (last_byte None l) = false ->
  (forall c, In c k -> c <> ch_rbrace) -> has_db t = false ->
  In k seen ->
  expand_rec r pol (S fuel) seen (l ++ ch_dollar :: ch_lbrace :: k ++ ch_rbrace :: t) = Err (ECycle k).
Proof.
  intros Hl Hb Hk Ht Hin. rewrite expand_rec_one_ref by assumption.
  unfold value_of. apply mem_str_In in Hin. rewrite Hin. reflexivity.
Qed.

Definition ref (k : str) : str := ch_dollar :: ch_lbrace :: k ++ [ch_rbrace].

Lemma ref_shape k t : ch_dollar :: ch_lbrace :: k ++ ch_rbrace :: t = ref k ++ t.
Proof. unfold ref. cbn. rewrite <- app_assoc. reflexivity. Qed.

(* self-referential definition: ${k} with k := ...${k}... *)
Theorem expand_self_cycle (r : fenv) pol (l k t v : str) :
  (forall c, In c k -> c <> ch_rbrace) ->
  alookup k r = Some v ->
  v = l ++ ch_dollar :: ch_lbrace :: k ++ ch_rbrace :: t ->
  has_db l = false -> is_bslash (last_byte None l) = false -> has_db t = false ->
  expand r pol (ch_dollar :: ch_lbrace :: k ++ [ch_rbrace]) = Err (ECycle k).
Proof.
  intros Hk Hv Ev Hl Hb Ht. unfold expand.
  change (ch_dollar :: ch_lbrace :: k ++ [ch_rbrace]) with ([] ++ ch_dollar :: ch_lbrace :: k ++ ch_rbrace :: []).
  rewrite expand_rec_one_ref; auto.
  unfold value_of. cbn [mem_str existsb]. rewrite Hv.
  destruct r as [|kv r']; [discriminate|]. cbn [length].
  rewrite Ev. rewrite expand_rec_cycle; auto. left; reflexivity.
Qed.

(* the three policies for an unknown name *)
Theorem expand_missing (r : fenv) pol (l k t : str) :
  has_db l = false -> is_bslash (last_byte None l) = false ->
  (forall c, In c k -> c <> ch_rbrace) -> has_db t = false ->
  alookup k r = None ->
  expand r pol (l ++ ch_dollar :: ch_lbrace :: k ++ ch_rbrace :: t) =
  match pol with
  | PError => Err (EMissing k)
  | PIgnore | PDefer => Ok (l ++ (ch_dollar :: ch_lbrace :: k ++ [ch_rbrace]) ++ t)
  | PEmpty => Ok (l ++ t)
  end.
Proof.
  intros Hl Hb Hk Ht Hm. unfold expand. rewrite expand_rec_one_ref by assumption.
  unfold value_of. cbn [mem_str existsb]. rewrite Hm. destruct pol; reflexivity.
Qed.

(* a known name whose value contains no further reference is substituted exactly *)
Theorem expand_known (r : fenv) pol (l k t v : str) :
  has_db l = false -> is_bslash (last_byte None l) = false ->
  (forall c, In c k -> c <> ch_rbrace) -> has_db t = false ->
  alookup k r = Some v -> has_db v = false ->
  expand r pol (l ++ ch_dollar :: ch_lbrace :: k ++ ch_rbrace :: t) = Ok (l ++ v ++ t).
Proof.
  intros Hl Hb Hk Ht Hv Hd. unfold expand. rewrite expand_rec_one_ref by assumption.
  unfold value_of. cbn [mem_str existsb]. rewrite Hv.
  destruct r as [|kv r']; [discriminate|]. cbn [length expand_rec].
  rewrite scan_no_db by (auto; lia). cbn [rev app subst rbind andb]. rewrite app_nil_r. reflexivity.
Qed.

(* ---------- escapes ---------- *)
Definition no_dollar (s : str) : Prop := forallb (fun c => negb (Ascii.eqb c ch_dollar)) s = true.

Lemma no_dollar_has_db s : no_dollar s -> has_db s = false.
Proof.
  unfold no_dollar. induction s as [|a t IH]; intros H; [reflexivity|].
  cbn in H. apply andb_true_iff in H as [H1 H2]. cbn [has_db].
  destruct t as [|b t']; [reflexivity|].
  apply negb_true_iff in H1. rewrite H1. cbn [andb orb]. apply IH. exact H2.
Qed.

Lemma unescape_no_dollar t : no_dollar t -> unescape t = t.
Proof.
  unfold no_dollar. induction t as [|a t IH]; intros H; [reflexivity|].
  cbn in H. apply andb_true_iff in H as [H1 H2]. cbn [unescape].
  destruct t as [|b [|c r]]; try reflexivity.
  assert (Hb : Ascii.eqb b ch_dollar = false).
  { cbn in H2. apply andb_true_iff in H2 as [H2 _]. apply negb_true_iff in H2. exact H2. }
  rewrite Hb, andb_false_r. cbn [andb]. rewrite IH by exact H2. reflexivity.
Qed.

Lemma unescape_skip l t :
  no_dollar l -> unescape (l ++ ch_bslash :: ch_dollar :: ch_lbrace :: t) = l ++ ch_dollar :: ch_lbrace :: unescape t.
Proof.
  unfold no_dollar. induction l as [|a l IH]; intros H.
  - reflexivity.
  - cbn in H. apply andb_true_iff in H as [H1 H2]. cbn [app unescape].
    destruct l as [|b l'].
    + cbn [app]. change (Ascii.eqb ch_bslash ch_dollar) with false.
      rewrite andb_false_r. cbn [andb]. f_equal; try apply (IH H2).
    + cbn [app]. assert (Hb : Ascii.eqb b ch_dollar = false).
      { cbn in H2. apply andb_true_iff in H2 as [H2 _]. apply negb_true_iff in H2. exact H2. }
      destruct (l' ++ ch_bslash :: ch_dollar :: ch_lbrace :: t) as [|c r] eqn:E.
      { destruct l'; discriminate. }
      rewrite Hb, andb_false_r. cbn [andb]. f_equal.
      specialize (IH H2). cbn [app] in IH. rewrite E in IH. exact IH.
Qed.

Lemma last_byte_snoc prev l c : last_byte prev (l ++ [c]) = Some c.
Proof. unfold last_byte. rewrite rev_app_distr. reflexivity. Qed.

(* scanning  l \${ t  (l, t free of '$'): one literal, escapes flag set *)
Lemma scan_escape l t :
  no_dollar l -> no_dollar t ->
  scan (S (length (l ++ ch_bslash :: ch_dollar :: ch_lbrace :: t))) 0 None
       (l ++ ch_bslash :: ch_dollar :: ch_lbrace :: t) [] false
  = Ok ([Lit (l ++ ch_bslash :: ch_dollar :: ch_lbrace :: t)], true).
Proof.
  intros Hl Ht.
  replace (l ++ ch_bslash :: ch_dollar :: ch_lbrace :: t) with ((l ++ [ch_bslash]) ++ ch_dollar :: ch_lbrace :: t)
    by (rewrite <- app_assoc; reflexivity).
  rewrite (scan_fuel_irrel _ (length (l ++ [ch_bslash]) + S (S (S (length t))))).
  2:{ lia. }
  2:{ rewrite !app_length. cbn [length]. lia. }
  rewrite scan_skip.
  2:{ apply no_dollar_has_db. unfold no_dollar in *. rewrite forallb_app, Hl. reflexivity. }
  rewrite scan_at_esc.
  2:{ rewrite last_byte_snoc. reflexivity. }
  rewrite scan_no_db.
  - f_equal. f_equal. cbn [rev]. rewrite rev_app_distr, rev_involutive. cbn.
    rewrite <- !app_assoc. reflexivity.
  - cbn [has_db]. destruct t as [|b t']; [reflexivity|]. cbn [Ascii.eqb andb orb].
    change (Ascii.eqb ch_lbrace ch_dollar) with false. cbn [andb orb]. apply no_dollar_has_db. exact Ht.
  - cbn [length]. lia.
Qed.

(* \${...} stays the literal ${...} (late passes); the load-time pass (Defer) keeps the escape *)
Theorem expand_escape (r : fenv) pol (l t : str) :
  no_dollar l -> no_dollar t ->
  expand r pol (l ++ ch_bslash :: ch_dollar :: ch_lbrace :: t) =
  Ok (if keeps_escapes pol then l ++ ch_bslash :: ch_dollar :: ch_lbrace :: t
      else l ++ ch_dollar :: ch_lbrace :: t).
Proof.
  intros Hl Ht. unfold expand. cbn [expand_rec]. rewrite scan_escape by assumption.
  cbn [subst]. rewrite app_nil_r. cbn [andb].
  destruct (keeps_escapes pol); cbn [negb]; [reflexivity|].
  rewrite unescape_skip by exact Hl. rewrite unescape_no_dollar by exact Ht. reflexivity.
Qed.

(* two passes, as for an env value of a project: the load-time pass (Defer, early variables)
   followed by the generation-time pass delivers the literal ${...} *)
Theorem escape_two_passes (early late : fenv) pol (l t : str) :
  no_dollar l -> no_dollar t -> keeps_escapes pol = false ->
  rbind (expand early PDefer (l ++ ch_bslash :: ch_dollar :: ch_lbrace :: t)) (expand late pol)
  = Ok (l ++ ch_dollar :: ch_lbrace :: t).
Proof.
  intros Hl Ht Hp. rewrite expand_escape by assumption. cbn [keeps_escapes rbind].
  rewrite expand_escape by assumption. rewrite Hp. reflexivity.
Qed.

(* ---------- eval ---------- *)
(* [NA] says whether the protocol marker ENeedEv may occur: it can only come from EV itself *)
Definition etotalP (NA : Prop) {A} (x : res A) : Prop :=
  match x with Ok _ => True | Err (EExpr _) => True | Err (ENeedEv _) => NA | _ => False end.

Section EvalTotal.
  Variable EV : str -> evr.
  Variable NA : Prop.
  Hypothesis HNA : forall s, EV s = EvNeed -> NA.

  Lemma eval_loop_total rec L :
    (forall x, length x < L -> etotalP NA (rec x)) ->
    forall s prev opened level result changed,
      length s <= L ->
      (forall inner, opened = Some inner -> length inner + length s < L) ->
      etotalP NA (eval_loop rec s prev opened level result changed).
  Proof.
    intros Hrec. induction s as [|c t IH]; intros prev opened level result changed HL Hinv; [exact I|].
    cbn [eval_loop]. cbn [length] in HL.
    assert (HLt : length t <= L) by lia.
    destruct (Ascii.eqb c ch_dollar && match t with d :: _ => Ascii.eqb d ch_lparen | [] => false end
              && negb match prev with Some p => Ascii.eqb p ch_dollar | None => false end).
    - destruct level.
      + apply IH; [exact HLt|]. intros inner E. inversion E; subst. cbn [length]. lia.
      + apply IH; [exact HLt|]. intros inner E. destruct opened as [i0|]; [|discriminate].
        cbn in E. inversion E; subst. specialize (Hinv i0 eq_refl). cbn [length] in *. lia.
    - destruct opened as [inner|].
      + specialize (Hinv inner eq_refl). cbn [length] in Hinv.
        destruct (Ascii.eqb c ch_lparen).
        * apply IH; [exact HLt|]. intros i E. inversion E; subst. destruct level; cbn [length]; lia.
        * destruct (Ascii.eqb c ch_rparen && Nat.ltb 0 level).
          -- destruct level as [|[|n]].
             ++ apply IH; [exact HLt|]. intros i E. inversion E; subst. cbn [length]. lia.
             ++ assert (Hr : etotalP NA (rec (rev inner))). { apply Hrec. rewrite rev_length. lia. }
                destruct (rec (rev inner)) as [v|e| |]; cbn in Hr; try contradiction.
                ** apply IH; [exact HLt|]. intros i E. discriminate.
                ** destruct e; try contradiction; exact Hr.
             ++ apply IH; [exact HLt|]. intros i E. inversion E; subst. cbn [length]. lia.
          -- destruct level.
             ++ apply IH; [exact HLt|]. intros i E. inversion E; subst. lia.
             ++ apply IH; [exact HLt|]. intros i E. inversion E; subst. cbn [length]. lia.
      + apply IH; [exact HLt|]. intros i E. discriminate.
  Qed.

  Lemma eval_rec_total : forall fuel b input, length input < fuel -> etotalP NA (eval_rec EV fuel b input).
  Proof.
    induction fuel as [|fuel IH]; intros b input H; [lia|]. cbn [eval_rec].
    assert (Hl : etotalP NA (eval_loop (eval_rec EV fuel true) input None None 0 [] false)).
    { apply (eval_loop_total (eval_rec EV fuel true) (length input)).
      - intros x Hx. apply IH. lia.
      - lia.
      - intros i E. discriminate. }
    destruct (eval_loop (eval_rec EV fuel true) input None None 0 [] false) as [[res ch]|e| |];
      cbn in Hl; try contradiction.
    - destruct b; [|exact I]. destruct (EV res) eqn:E; cbn; try exact I. apply (HNA _ E).
    - destruct e; try contradiction; exact Hl.
  Qed.

  Theorem eval_totalP s : etotalP NA (eval EV s).
  Proof.
    unfold eval. destruct (contains_dollar_paren s); [|exact I]. apply eval_rec_total. lia.
  Qed.
End EvalTotal.

Definition etotal {A} (x : res A) : Prop := etotalP True x.
Theorem eval_total EV s : etotal (eval EV s).
Proof. apply eval_totalP. intros; exact I. Qed.

(* with the real evalexpr (which always answers) the protocol marker never occurs *)
Definition ev_real (EV : str -> evr) : Prop := forall s, EV s <> EvNeed.
Theorem eval_total_real EV s : ev_real EV -> etotalP False (eval EV s).
Proof. intros H. apply eval_totalP. intros x E. exact (H x E). Qed.

Theorem eval_identity EV s : contains_dollar_paren s = false -> eval EV s = Ok s.
Proof. intros H. unfold eval. rewrite H. reflexivity. Qed.

(* expand_eval: value or typed error, never Panic/Fuel *)
Definition xtotalP (NA : Prop) {A} (x : res A) : Prop :=
  match x with Ok _ => True
             | Err (EMissing _ | EUnclosed _ | ECycle _ | ETooDeep _ | EExpr _) => True
             | Err (ENeedEv _) => NA
             | _ => False end.

Theorem expand_eval_totalP (EV : str -> evr) (NA : Prop) (r : fenv) pol f :
  (forall s, EV s = EvNeed -> NA) -> xtotalP NA (expand_eval EV r pol f).
Proof.
  intros HNA. unfold expand_eval. pose proof (expand_total r pol f) as H.
  destruct (expand r pol f) as [v|e| |]; cbn in *; try contradiction.
  - pose proof (eval_totalP EV NA HNA v) as H2. destruct (eval EV v) as [w|e| |]; cbn in *; try contradiction; try exact I.
    destruct e; try contradiction; exact H2.
  - destruct e; try contradiction; exact I.
Qed.

Theorem expand_eval_total EV (r : fenv) pol f : ev_real EV -> xtotalP False (expand_eval EV r pol f).
Proof. intros H. apply expand_eval_totalP. intros x E. exact (H x E). Qed.

Theorem expand_eval_total_real : forall EV (r : fenv) pol f, ev_real EV ->
  match expand_eval EV r pol f with
  | Ok _ => True
  | Err (EMissing _ | EUnclosed _ | ECycle _ | ETooDeep _ | EExpr _) => True
  | _ => False
  end.
Proof.
  intros EV r pol f H. pose proof (expand_eval_total EV r pol f H) as T. unfold xtotalP in T.
  destruct (expand_eval EV r pol f) as [v|e| |]; [exact T | destruct e; exact T | exact T | exact T].
Qed.

Theorem eval_total_real' : forall EV s, ev_real EV ->
  match eval EV s with Ok _ => True | Err (EExpr _) => True | _ => False end.
Proof.
  intros EV s H. pose proof (eval_total_real EV s H) as T. unfold etotalP in T.
  destruct (eval EV s) as [v|e| |]; [exact T | destruct e; exact T | exact T | exact T].
Qed.

(* ---------- the depth limit (fix: a typed error instead of a stack overflow) ---------- *)
(* a reference met max_depth levels down is not followed: the recursion depth never exceeds max_depth *)
Theorem expand_rec_too_deep (r : fenv) pol fuel seen (l k t : str) :
  has_db l = false -> is_bslash (last_byte None l) = false ->
  (forall c, In c k -> c <> ch_rbrace) -> has_db t = false ->
  ~ In k seen -> max_depth <= length seen ->
  expand_rec r pol (S fuel) seen (l ++ ch_dollar :: ch_lbrace :: k ++ ch_rbrace :: t) = Err (ETooDeep k).
Proof.
  intros Hl Hb Hk Ht Hni Hd. rewrite expand_rec_one_ref by assumption. unfold value_of.
  destruct (mem_str k seen) eqn:Em; [exfalso; apply Hni, mem_str_In, Em|].
  apply Nat.leb_le in Hd. rewrite Hd. reflexivity.
Qed.
(* above the limit nothing changes: value_of follows the reference as before *)
Theorem value_of_below_limit (r : fenv) pol fuel seen k v :
  mem_str k seen = false -> length seen < max_depth -> alookup k r = Some v ->
  value_of r pol fuel seen k = expand_rec r pol fuel (k :: seen) v.
Proof.
  intros Hm Hd Hl. unfold value_of. rewrite Hm. apply Nat.leb_gt in Hd. rewrite Hd, Hl. reflexivity.
Qed.

(* ---------- the fuel of the model's expander is not part of its meaning ---------- *)
Definition le_xrec (r1 r2 : list str -> str -> res str) : Prop :=
  forall seen v, r1 seen v <> Fuel -> r2 seen v = r1 seen v.

Lemma subst_mono (r : fenv) pol rec1 rec2 seen : le_xrec rec1 rec2 -> forall segs,
  subst r pol rec1 seen segs <> Fuel -> subst r pol rec2 seen segs = subst r pol rec1 seen segs.
Proof.
  intros Hle. induction segs as [|[l|k] t IH]; intros Hn; cbn [subst] in *; [reflexivity| |].
  - assert (Ht : subst r pol rec1 seen t <> Fuel) by (intros E; rewrite E in Hn; apply Hn; reflexivity).
    rewrite (IH Ht). reflexivity.
  - destruct (mem_str k seen); [reflexivity|].
    destruct (Nat.leb max_depth (length seen)); [reflexivity|].
    destruct (alookup k r) as [v|].
    + assert (Hv : rec1 (k :: seen) v <> Fuel) by (intros E; rewrite E in Hn; apply Hn; reflexivity).
      rewrite (Hle _ _ Hv). destruct (rec1 (k :: seen) v); try reflexivity.
      assert (Ht : subst r pol rec1 seen t <> Fuel) by (intros E; rewrite E in Hn; apply Hn; reflexivity).
      rewrite (IH Ht). reflexivity.
    + destruct (missing_value pol k); try reflexivity.
      assert (Ht : subst r pol rec1 seen t <> Fuel) by (intros E; rewrite E in Hn; apply Hn; reflexivity).
      rewrite (IH Ht). reflexivity.
Qed.

Theorem expand_rec_step (r : fenv) pol : forall fuel, le_xrec (expand_rec r pol fuel) (expand_rec r pol (S fuel)).
Proof.
  induction fuel as [|fuel IH]; intros seen f Hn; [exfalso; apply Hn; reflexivity|].
  rewrite (expand_rec_S r pol (S fuel)). rewrite expand_rec_S in Hn |- *.
  destruct (scan (S (length f)) 0 None f [] false) as [[segs esc]| | |]; try reflexivity.
  assert (Hs : subst r pol (expand_rec r pol fuel) seen segs <> Fuel).
  { intros E. rewrite E in Hn. apply Hn. reflexivity. }
  rewrite (subst_mono r pol _ _ seen IH segs Hs). reflexivity.
Qed.

(* more fuel never changes an answer that is not "out of fuel" *)
Theorem expand_rec_mono (r : fenv) pol f f' seen s : f <= f' ->
  expand_rec r pol f seen s <> Fuel -> expand_rec r pol f' seen s = expand_rec r pol f seen s.
Proof.
  intros Hle. induction Hle as [|f' Hle IH]; intros Hn; [reflexivity|].
  rewrite (expand_rec_step r pol f' seen s); [apply IH, Hn|]. rewrite (IH Hn). exact Hn.
Qed.

(* hence: every amount of fuel from the model's bound on gives the answer of [expand], which is a proper one *)
Theorem expand_fuel_irrelevant (r : fenv) pol s f : S (length r) <= f ->
  expand_rec r pol f [] s = expand r pol s /\ expand r pol s <> Fuel.
Proof.
  intros Hf. assert (HT : expand r pol s <> Fuel).
  { pose proof (expand_total r pol s) as T. intros E. rewrite E in T. exact T. }
  split; [|exact HT]. unfold expand in *. apply expand_rec_mono; assumption.
Qed.
