(* LoadKeys.v — in a loaded bag every module is stored under its own name (the side condition
   keys_okb of the resolver theorems), derived from load instead of evaluated per project. *)
From Coq Require Import Ascii String.
From Coq Require Import List Arith Bool NArith Lia.
Import ListNotations.
Require Import Laze.model.Base Laze.model.Env Laze.model.Allow Laze.model.Ctx Laze.model.Load Laze.model.Checks.
Require Import Laze.proofs.BaseFacts Laze.proofs.LoadNames.
Open Scope list_scope.

Definition ctx_ok (c : context) : bool := forallb (fun km => str_eqb (m_name (snd km)) (fst km)) (c_modules c).

Lemma keys_okb_app b1 b2 : keys_okb (b1 ++ b2) = keys_okb b1 && keys_okb b2.
Proof. unfold keys_okb. apply forallb_app. Qed.

Lemma keys_okb_set_ctx b i c : keys_okb b = true -> ctx_ok c = true -> keys_okb (set_ctx b i c) = true.
Proof.
  unfold set_ctx. intros Hk Hc. rewrite keys_okb_app. apply andb_true_iff. split.
  - unfold keys_okb in *. rewrite forallb_forall in *. intros x Hx. apply Hk. eapply In_firstn. exact Hx.
  - change (c :: skipn (S i) b) with ([c] ++ skipn (S i) b). rewrite keys_okb_app. apply andb_true_iff. split.
    + unfold keys_okb. cbn. rewrite andb_true_r. exact Hc.
    + unfold keys_okb in *. rewrite forallb_forall in *. intros x Hx. apply Hk.
      rewrite <- (firstn_skipn (S i) b). apply in_or_app. right. exact Hx.
Qed.

Lemma keys_okb_get b i c : keys_okb b = true -> bag_get b i = Some c -> ctx_ok c = true.
Proof.
  unfold keys_okb, bag_get. intros Hk Hg. rewrite forallb_forall in Hk. apply Hk. eapply nth_error_In. exact Hg.
Qed.

Lemma fold_keys {A} (f : bag -> A -> bag) : (forall b a, keys_okb b = true -> keys_okb (f b a) = true) ->
  forall l b, keys_okb b = true -> keys_okb (fold_left f l b) = true.
Proof. intros Hf. induction l as [|a t IH]; intros b Hk; cbn [fold_left]; [exact Hk|]. apply IH, Hf, Hk. Qed.

Lemma inherit_env_keys b nm : keys_okb b = true -> keys_okb (inherit_env b nm) = true.
Proof.
  intros Hk. unfold inherit_env. destruct (snd nm); [exact Hk|].
  destruct (bag_get b (fst nm)) as [c|] eqn:Eg; [|exact Hk].
  destruct (c_parent_index c) as [p|]; [|exact Hk]. destruct (bag_get b p) as [pc|]; [|exact Hk].
  destruct (c_env pc); [|exact Hk]. apply keys_okb_set_ctx; [exact Hk|]. exact (keys_okb_get _ _ _ Hk Eg).
Qed.
Lemma inherit_var_options_keys b nm : keys_okb b = true -> keys_okb (inherit_var_options b nm) = true.
Proof.
  intros Hk. unfold inherit_var_options. destruct (snd nm); [exact Hk|].
  destruct (bag_get b (fst nm)) as [c|] eqn:Eg; [|exact Hk].
  destruct (c_var_options c); [exact Hk|]. destruct (c_parent_index c) as [p|]; [|exact Hk].
  destruct (bag_get b p) as [pc|]; [|exact Hk]. apply keys_okb_set_ctx; [exact Hk|]. exact (keys_okb_get _ _ _ Hk Eg).
Qed.
Lemma merge_provides_keys b : keys_okb b = true -> keys_okb (merge_provides b) = true.
Proof.
  unfold merge_provides. apply fold_keys. intros b0 nm Hk. unfold merge_provides_one. destruct (snd nm); [exact Hk|].
  destruct (bag_get b0 (fst nm)) as [c|] eqn:Eg; [|exact Hk]. apply keys_okb_set_ctx; [exact Hk|]. exact (keys_okb_get _ _ _ Hk Eg).
Qed.

Lemma add_module_keys b m b' : keys_okb b = true -> add_module b m = Ok b' -> keys_okb b' = true.
Proof.
  unfold add_module. intros Hk. destruct (bag_index b (m_context_name m)) as [i|]; [|discriminate].
  destruct (bag_get b i) as [c|] eqn:Eg; [|discriminate].
  destruct (alookup (m_name m) (c_modules c)); [discriminate|].
  intros E. injection E as <-. apply keys_okb_set_ctx; [exact Hk|].
  unfold ctx_ok. cbn [with_modules c_modules]. rewrite forallb_app. apply andb_true_iff. split.
  - exact (keys_okb_get _ _ _ Hk Eg).
  - cbn. rewrite andb_true_r. apply str_eqb_refl.
Qed.

Lemma finalize_keys b0 b : keys_okb b0 = true -> finalize b0 = Ok b -> keys_okb b = true.
Proof.
  unfold finalize. intros Hk.
  set (b1 := if mem_str (S_ "default") (bag_names b0) then b0 else b0 ++ [context_default]).
  assert (K1 : keys_okb b1 = true).
  { unfold b1. destruct (mem_str (S_ "default") (bag_names b0)); [exact Hk|]. rewrite keys_okb_app, Hk. vm_compute. reflexivity. }
  clearbody b1.
  destruct (resolve_parents (bag_names b1) (map c_parent_name b1)) as [ps|]; [|discriminate].
  destruct (negb (acyclic ps)); [discriminate|]. intros E. injection E as <-.
  apply fold_keys; [intros; apply inherit_var_options_keys; assumption|].
  apply fold_keys; [intros; apply inherit_env_keys; assumption|].
  (* with_parent_index keeps the modules *)
  unfold keys_okb in *. rewrite forallb_forall in *. intros c Hc. apply in_map_iff in Hc. destruct Hc as ([c0 p] & <- & Hin).
  cbn. apply K1. eapply in_combine_l. exact Hin.
Qed.

Lemma add_context_keys b c b' : keys_okb b = true -> ctx_ok c = true -> add_context b c = Ok b' -> keys_okb b' = true.
Proof.
  unfold add_context. intros Hk Hc. destruct (mem_str (c_name c) (bag_names b)); [discriminate|].
  intros E. injection E as <-. rewrite keys_okb_app, Hk. unfold keys_okb. cbn. rewrite andb_true_r. exact Hc.
Qed.

Lemma convert_context_ok y ib f root c m : convert_context y ib f root = Ok (c, m) -> ctx_ok c = true.
Proof.
  unfold convert_context. intros H.
  repeat match type of H with rbind ?X _ = _ => destruct X; cbn [rbind] in H; try discriminate end.
  injection H as <- _. reflexivity.
Qed.

Lemma add_modules_keys bd b d mods is_binary defaults b' :
  keys_okb b = true -> add_modules bd b d mods is_binary defaults = Ok b' -> keys_okb b' = true.
Proof.
  unfold add_modules. intros Hk HF.
  apply (fold_rbind_inv (fun x => keys_okb x = true)
           (fun b0 y => fold_left (fun acc c => rbind acc (fun b1 =>
                          rbind (convert_module bd y c is_binary (ld_file d) (ld_root d) defaults) (add_module b1)))
                          (contexts_of (ym_context y)) (Ok b0))) with (l := mods) (acc := Ok b); [|intros a E; injection E as <-; exact Hk|exact HF].
  intros a y a' Ha HF2.
  apply (fold_rbind_inv (fun x => keys_okb x = true)
           (fun b1 c => rbind (convert_module bd y c is_binary (ld_file d) (ld_root d) defaults) (add_module b1)))
    with (l := contexts_of (ym_context y)) (acc := Ok a); [|intros a0 E; injection E as <-; exact Ha|exact HF2].
  intros a0 c a1 Ha0 E. destruct (convert_module bd y c is_binary (ld_file d) (ld_root d) defaults) as [m| | |]; cbn [rbind] in E; try discriminate.
  exact (add_module_keys _ _ _ Ha0 E).
Qed.

Theorem load_keys_ok t pf bd b : load t pf bd = Ok b -> keys_okb b = true.
Proof.
  unfold load. intros HL.
  destruct (load_files _ t [(pf, (None, None))] 0 []) as [[docs fs]| | |]; cbn [rbind] in HL; try discriminate.
  match type of HL with rbind ?X _ = _ => destruct X as [[b0 cms]| | |] eqn:E1 end; cbn [rbind] in HL; try discriminate.
  assert (K0 : keys_okb b0 = true).
  { refine (fold_rbind_inv (fun p : bag * list module => keys_okb (fst p) = true) _ _ docs (Ok ([], [])) (b0, cms) _ E1);
      [|intros a E; injection E as <-; reflexivity].
    intros [ba cmsa] d [ba' cmsa'] Ha Hd. cbn [fst] in *.
    refine (fold_rbind_inv (fun p : bag * list module => keys_okb (fst p) = true) _ _ _ (Ok (ba, cmsa)) (ba', cmsa') _ Hd);
      [|intros a E; injection E as <-; exact Ha].
    intros [bb cmsb] lb [bb' cmsb'] Hb Hlb. cbn [fst] in *.
    refine (fold_rbind_inv (fun p : bag * list module => keys_okb (fst p) = true) _ _ _ (Ok (bb, cmsb)) (bb', cmsb') _ Hlb);
      [|intros a E; injection E as <-; exact Hb].
    intros [bc cmsc] y [bc' cmsc'] Hc Hy. cbn [fst] in *.
    destruct (convert_context y (snd lb || yc_is_builder y) (ld_file d) (ld_root d)) as [[c m]| | |] eqn:Ecc; cbn [rbind] in Hy; try discriminate.
    destruct (add_context bc c) as [bn| | |] eqn:Ea; cbn [rbind] in Hy; try discriminate.
    injection Hy as <- _. exact (add_context_keys _ _ _ Hc (convert_context_ok _ _ _ _ _ _ Ecc) Ea). }
  destruct (finalize b0) as [b1| | |] eqn:Ef; cbn [rbind] in HL; try discriminate.
  pose proof (finalize_keys _ _ K0 Ef) as K1.
  match type of HL with rbind ?X _ = _ => destruct X as [b2| | |] eqn:E2 end; cbn [rbind] in HL; try discriminate.
  assert (K2 : keys_okb b2 = true).
  { refine (fold_rbind_inv (fun x : bag => keys_okb x = true) (fun bx m => add_module bx m) _ cms (Ok b1) b2 _ E2);
      [|intros a E; injection E as <-; exact K1].
    intros a m a' Ha Hm. exact (add_module_keys _ _ _ Ha Hm). }
  match type of HL with rbind ?X _ = _ => destruct X as [[[b3 mm] am]| | |] eqn:E3 end; cbn [rbind] in HL; try discriminate.
  assert (K3 : keys_okb b3 = true).
  { refine (fold_rbind_inv (fun p : bag * list (nat * module) * list (nat * module) => keys_okb (fst (fst p)) = true)
              _ _ docs (Ok (b2, [], [])) (b3, mm, am) _ E3); [|intros a E; injection E as <-; exact K2].
    intros [[ba mma] ama] d [[ba' mma'] ama'] Ha Hd. cbn [fst] in *.
    destruct (get_defaults bd d mma false) as [mdef| | |]; cbn [rbind] in Hd; try discriminate.
    destruct (get_defaults bd d ama true) as [adef| | |]; cbn [rbind] in Hd; try discriminate.
    match type of Hd with rbind ?X _ = _ => destruct X as [b4| | |] eqn:E4 end; cbn [rbind] in Hd; try discriminate.
    match type of Hd with rbind ?X _ = _ => destruct X as [b5| | |] eqn:E5 end; cbn [rbind] in Hd; try discriminate.
    injection Hd as <- _ _.
    assert (K4 : keys_okb b4 = true).
    { destruct (d_modules (ld_doc d)) as [[l|]|]; try (injection E4 as <-; exact Ha). exact (add_modules_keys _ _ _ _ _ _ _ Ha E4). }
    destruct (d_apps (ld_doc d)) as [[l|]|]; try (injection E5 as <-; exact K4); exact (add_modules_keys _ _ _ _ _ _ _ K4 E5). }
  injection HL as <-. apply merge_provides_keys, K3.
Qed.

Require Import Laze.model.Resolver Laze.proofs.ResolverTotal.

(* for bags that come out of the loader the resolver's termination needs no side condition *)
Theorem resolver_terminates_loaded t pf bd b builder bname binary cli_selects disabled0 :
  load t pf bd = Ok b -> In binary (all_modules b) ->
  resolve_build b builder bname binary cli_selects disabled0 <> Fuel.
Proof.
  intros HL Hb. apply resolve_build_terminates; [exact (load_keys_ok _ _ _ _ HL)|apply in_map; exact Hb].
Qed.
