(* TaskEnv.v — C16: the tasks a configured build offers come from the contexts on the builder's chain
   and from the selected modules; a runnable one is its declaration with commands, exports and
   workdir expanded in the BUILD's flattened global environment (with ${out} = the build's output
   file); an unrunnable one carries the requirement that failed. *)
From Coq Require Import Ascii String.
From Coq Require Import List Arith Bool NArith Lia.
Import ListNotations.
Require Import Laze.model.Base Laze.model.Env Laze.model.Expand Laze.model.Path Laze.model.Hash Laze.model.Allow
               Laze.model.Ninja Laze.model.Ctx Laze.model.Resolver Laze.model.Imports Laze.model.Generate.
Require Import Laze.proofs.BaseFacts Laze.proofs.StmtFacts Laze.proofs.GenerateFacts Laze.proofs.WfFacts.
Open Scope list_scope.

Section TaskEnv.
  Variable H : list ascii -> N.
  Variable EV : str -> evr.

  Section Fold.
    Variable flat : fenv.
    Variable ms : list module.
    Variable src : str -> task -> Prop.       (* where a task declaration may come from *)

    Definition entry_ok (name : str) (v : task + taskerr) : Prop :=
      exists t0, src name t0 /\
        match v with
        | inl t' => task_check flat ms t0 = None /\ task_eval EV flat t0 = Ok t'
        | inr e => task_check flat ms t0 = Some e
        end.
    Definition good (l : list (str * (task + taskerr))) : Prop := forall name v, alookup name l = Some v -> entry_ok name v.
    Definition goodr (acc : res (list (str * (task + taskerr)))) : Prop := forall l, acc = Ok l -> good l.

    Lemma task_insert_good acc nt : goodr acc -> src (fst nt) (snd nt) -> goodr (task_insert EV flat ms acc nt).
    Proof.
      intros Ha Hs l Hl. unfold task_insert in Hl. destruct acc as [l0| | |]; cbn [rbind] in Hl; try discriminate.
      specialize (Ha l0 eq_refl).
      destruct (task_check flat ms (snd nt)) as [e|] eqn:Ec.
      - injection Hl as <-. intros name v Hv. destruct (str_eqb name (fst nt)) eqn:En.
        + apply str_eqb_eq in En. subst name. rewrite alookup_ainsert_same in Hv. injection Hv as <-.
          exists (snd nt). split; [exact Hs|exact Ec].
        + apply str_eqb_neq in En. rewrite alookup_ainsert_other in Hv by exact En. exact (Ha name v Hv).
      - destruct (task_eval EV flat (snd nt)) as [t'| | |] eqn:Ee; cbn [rbind] in Hl; try discriminate.
        injection Hl as <-. intros name v Hv. destruct (str_eqb name (fst nt)) eqn:En.
        + apply str_eqb_eq in En. subst name. rewrite alookup_ainsert_same in Hv. injection Hv as <-.
          exists (snd nt). split; [exact Hs|]. split; [exact Ec|exact Ee].
        + apply str_eqb_neq in En. rewrite alookup_ainsert_other in Hv by exact En. exact (Ha name v Hv).
    Qed.

    Lemma task_fold_good (l : list (str * task)) : forall acc, goodr acc -> (forall nt, In nt l -> src (fst nt) (snd nt)) ->
      goodr (fold_left (task_insert EV flat ms) l acc).
    Proof.
      induction l as [|nt t IH]; intros acc Ha Hl; cbn [fold_left]; [exact Ha|].
      apply IH; [apply task_insert_good; [exact Ha|apply Hl; left; reflexivity]|intros x Hx; apply Hl; right; exact Hx].
    Qed.
  End Fold.

  (* the declarations a build can draw its tasks from *)
  Definition task_source (b : bag) (builder : nat) (ms : list module) (name : str) (t0 : task) : Prop :=
    (exists c, In c (ctxs_of b (parents_root_first b builder)) /\ In (name, t0) (odflt [] (c_tasks c))) \/
    (exists m, In m ms /\ In (name, t0) (m_tasks m)).

  Lemma collect_tasks_good b builder flat ms tasks :
    collect_tasks EV b builder flat ms = Ok tasks -> good flat ms (task_source b builder ms) tasks.
  Proof.
    unfold collect_tasks. intros HC.
    assert (G : forall cs acc, (forall c, In c cs -> In c (ctxs_of b (parents_root_first b builder))) ->
                goodr flat ms (task_source b builder ms) acc ->
                goodr flat ms (task_source b builder ms)
                  (fold_left (fun acc c =>
                     let acc1 := fold_left (task_insert EV flat ms) (odflt [] (c_tasks c)) acc in
                     fold_left (fun a m => fold_left (task_insert EV flat ms) (m_tasks m) a) ms acc1) cs acc)).
    { induction cs as [|c t IH]; intros acc Hcs Ha; cbn [fold_left]; [exact Ha|].
      apply IH; [intros c0 Hc0; apply Hcs; right; exact Hc0|].
      assert (Ha1 : goodr flat ms (task_source b builder ms) (fold_left (task_insert EV flat ms) (odflt [] (c_tasks c)) acc)).
      { apply task_fold_good; [exact Ha|]. intros [n t0] Hin. left. exists c. split; [apply Hcs; left; reflexivity|exact Hin]. }
      revert Ha1. generalize (fold_left (task_insert EV flat ms) (odflt [] (c_tasks c)) acc).
      assert (Gm : forall (l : list module) a, (forall m, In m l -> In m ms) -> goodr flat ms (task_source b builder ms) a ->
                   goodr flat ms (task_source b builder ms) (fold_left (fun a m => fold_left (task_insert EV flat ms) (m_tasks m) a) l a)).
      { induction l as [|m r IHl]; intros a Hl Hga; cbn [fold_left]; [exact Hga|].
        apply IHl; [intros m0 Hm0; apply Hl; right; exact Hm0|].
        apply task_fold_good; [exact Hga|]. intros [n t0] Hin. right. exists m. split; [apply Hl; left; reflexivity|exact Hin]. }
      intros a Hga. apply Gm; [intros m Hm; exact Hm|exact Hga]. }
    apply (G _ (Ok []) (fun c Hc => Hc)); [|exact HC]. intros l [= <-] name v Hv. discriminate Hv.
  Qed.

  (* for a configured build *)
  Theorem configured_build_tasks b le builder binary select disable cli_env info entries :
    configure_build H EV b le builder binary select disable cli_env = Ok (Built info entries) ->
    exists bctx relpath rst gflat,
      bag_get b builder = Some bctx /\ m_relpath binary = Some relpath /\
      bi_modules info = map m_name (sel rst) /\
      flatten_with_opts_option (c_var_options bctx)
        (global_env b le builder bctx binary (sel rst) relpath cli_env) = Ok gflat /\
      good (ainsert (S_ "out") (bi_out info) gflat) (sel rst) (task_source b builder (sel rst)) (bi_tasks info).
  Proof.
    unfold configure_build. intros HC.
    destruct (bag_get b builder) as [bctx|] eqn:Eb; [|discriminate].
    inv_step HC. destruct (negb (allowed_bool a)); [discriminate|].
    destruct (m_context_id binary) as [bin_ctx|]; cbn [opt_unwrap rbind] in HC; [|discriminate].
    inv_step HC. destruct a0 as [anc|]; [|discriminate].
    destruct (shadowed b builder binary); [discriminate|].
    destruct (resolve_build b builder (c_name bctx) binary select _) as [rst| | |] eqn:Er; try discriminate.
    destruct (m_relpath binary) as [relpath|]; cbn [opt_unwrap rbind] in HC; [|discriminate].
    destruct (flatten_with_opts_option (c_var_options bctx) (global_env b le builder bctx binary (sel rst) relpath cli_env)) as [gflat| | |] eqn:Eg;
      cbn [rbind] in HC; try discriminate.
    exists bctx, relpath, rst, gflat.
    repeat (inv_step HC).
    all: repeat match type of HC with
                | (let '(_, _) := ?p in _) = _ => destruct p
                end; repeat (inv_step HC).
    all: try discriminate.
    injection HC as <- <-. cbn [bi_modules bi_out bi_tasks].
    split; [reflexivity|]. split; [reflexivity|]. split; [reflexivity|]. split; [exact Eg|].
    match goal with E : collect_tasks EV b builder _ _ = Ok _ |- _ => exact (collect_tasks_good _ _ _ _ _ E) end.
  Qed.

  (* what task_eval does with a declaration: commands, exports and workdir expanded in [flat] *)
  Theorem task_eval_spec flat t t' : task_eval EV flat t = Ok t' ->
    rmapM (expand_eval EV flat PEmpty) (t_cmd t) = Ok (t_cmd t') /\
    match t_export t with
    | Some l => exists l', rmapM (apply_export EV flat) l = Ok l' /\ t_export t' = Some l'
    | None => t_export t' = None end /\
    match t_workdir t with
    | Some w => exists w', expand_eval EV flat PEmpty w = Ok w' /\ t_workdir t' = Some w'
    | None => t_workdir t' = None end /\
    t_build t' = t_build t /\ t_required_vars t' = t_required_vars t /\ t_required_modules t' = t_required_modules t.
  Proof.
    unfold task_eval. intros HT.
    destruct (rmapM (expand_eval EV flat PEmpty) (t_cmd t)) as [cmd| | |]; cbn [rbind] in HT; try discriminate.
    destruct (t_export t) as [l|].
    - unfold rmap in HT. destruct (rmapM (apply_export EV flat) l) as [l'| | |]; cbn [rbind] in HT; try discriminate.
      destruct (t_workdir t) as [w|].
      + destruct (expand_eval EV flat PEmpty w) as [w'| | |]; cbn [rbind] in HT; try discriminate.
        injection HT as <-. cbn. split; [reflexivity|]. split; [eexists; split; reflexivity|]. split; [eexists; split; reflexivity|]. repeat split.
      + cbn [rbind] in HT. injection HT as <-. cbn. split; [reflexivity|]. split; [eexists; split; reflexivity|]. repeat split.
    - cbn [rbind] in HT. destruct (t_workdir t) as [w|].
      + unfold rmap in HT. destruct (expand_eval EV flat PEmpty w) as [w'| | |]; cbn [rbind] in HT; try discriminate.
        injection HT as <-. cbn. split; [reflexivity|]. split; [reflexivity|]. split; [eexists; split; reflexivity|]. repeat split.
      + cbn [rbind] in HT. injection HT as <-. cbn. repeat split.
  Qed.
End TaskEnv.
