(* ResolverTotal.v — the resolver terminates within its fuel: along one path of the recursion every
   module that is entered is a new name among the names the context can resolve, so the depth is
   bounded by the number of modules.  Rollbacks do not matter: depth only counts one path. *)
From Coq Require Import Ascii String.
From Coq Require Import List Arith Bool NArith Lia.
Import ListNotations.
Require Import Laze.model.Base Laze.model.Env Laze.model.Ctx Laze.model.Resolver.
Require Import Laze.proofs.BaseFacts Laze.proofs.StmtFacts.
Open Scope list_scope.

Section Total.
  Variable lookup : str -> option module.
  Variable provs : str -> option (list str).
  Variable U : list str.                                  (* the names that can be resolved *)
  Hypothesis lookup_U : forall n m, lookup n = Some m -> m_name m = n /\ In n U.

  Definition names (st : rstate) : list str := map m_name (sel st).
  Definition good (st : rstate) : Prop := NoDup (names st) /\ incl (names st) U.
  Definition grows (a b : rstate) : Prop := length (sel a) <= length (sel b).

  (* what the recursive call has to provide, for states with at least k selected modules *)
  Definition rec_total (rec : rstate -> module -> res rstate) (k : nat) : Prop :=
    forall st m, good st -> k <= length (sel st) -> In (m_name m) U ->
                 rec st m <> Fuel /\ (forall st', rec st m = Ok st' -> good st' /\ grows st st').

  Lemma good_len st : good st -> length (sel st) <= length U.
  Proof. intros [ND Hi]. unfold names in *. rewrite <- (map_length m_name). apply NoDup_incl_length; assumption. Qed.

  Lemma selected_In n st : selected n st = true <-> In n (names st).
  Proof.
    unfold selected, names. rewrite existsb_exists. split.
    - intros (m & Hm & E). apply str_eqb_eq in E. subst. apply in_map, Hm.
    - intros Hi. apply in_map_iff in Hi. destruct Hi as (m & <- & Hm). exists m. split; [exact Hm|apply str_eqb_refl].
  Qed.

  Lemma good_add_ifthen o d st : good st -> good (add_ifthen o d st).
  Proof. intros H. exact H. Qed.

  Lemma by_name_total rec k st n : rec_total rec k -> good st -> k <= length (sel st) ->
    by_name lookup rec st n <> Fuel /\ (forall st', by_name lookup rec st n = Ok st' -> good st' /\ grows st st').
  Proof.
    intros Hr Hg Hk. unfold by_name. destruct (lookup n) as [m|] eqn:El.
    - destruct (lookup_U _ _ El) as [Hn Hu]. apply Hr; [exact Hg|exact Hk|rewrite Hn; exact Hu].
    - split; [discriminate|intros st' E; discriminate].
  Qed.

  Lemma rlist_total rec k pn : rec_total rec k -> forall ps cur cnt, good cur -> k <= length (sel cur) ->
    rlist lookup rec pn ps cur cnt <> Fuel /\
    (forall st' c', rlist lookup rec pn ps cur cnt = Ok (st', c') -> good st' /\ grows cur st').
  Proof.
    intros Hr. induction ps as [|p ps IH]; intros cur cnt Hg Hk; cbn [rlist].
    - split; [discriminate|]. intros st' c' E. injection E as <- _. split; [exact Hg|unfold grows; lia].
    - destruct (selected p cur); [apply IH; assumption|].
      destruct (has_key pn (disabled cur)).
      + destruct (Nat.ltb 0 cnt); [|apply IH; assumption].
        split; [discriminate|]. intros st' c' E. injection E as <- _. split; [exact Hg|unfold grows; lia].
      + destruct (by_name_total rec k cur p Hr Hg Hk) as [Hnf Hok].
        destruct (by_name lookup rec cur p) as [c| | |] eqn:Eb.
        * destruct (Hok c eq_refl) as [Hgc Hgr].
          destruct (IH c (S cnt) Hgc (Nat.le_trans _ _ _ Hk Hgr)) as [H1 H2]. split; [exact H1|].
          intros st' c' E. destruct (H2 st' c' E) as [G1 G2]. split; [exact G1|unfold grows in *; lia].
        * apply IH; assumption.
        * split; [discriminate|intros st' c' E; discriminate].
        * exfalso. apply Hnf. reflexivity.
  Qed.

  Lemma deps_total rec k : rec_total rec k -> forall ds cur, good cur -> k <= length (sel cur) ->
    deps lookup provs rec ds cur <> Fuel /\
    (forall st', deps lookup provs rec ds cur = Ok st' -> good st' /\ grows cur st').
  Proof.
    intros Hr. induction ds as [|d ds IH]; intros cur Hg Hk; cbn [deps].
    - split; [discriminate|]. intros st' E. injection E as <-. split; [exact Hg|unfold grows; lia].
    - destruct (classify d cur) as [o d'|n opt].
      + destruct (IH (add_ifthen o d' cur) (good_add_ifthen _ _ _ Hg) Hk) as [H1 H2]. split; [exact H1|exact H2].
      + (* the provider attempt *)
        assert (Hpr : forall ps, rlist lookup rec n ps cur 0 <> Fuel /\
                       (forall st' c', rlist lookup rec n ps cur 0 = Ok (st', c') -> good st' /\ grows cur st'))
          by (intros ps; apply (rlist_total rec k n Hr ps cur 0 Hg Hk)).
        (* continue from a state cur1 that is good and has grown *)
        assert (Hcont : forall cur1 wp, good cur1 -> grows cur cur1 ->
                  (if wp && has_key n (disabled cur1) then deps lookup provs rec ds cur1
                   else match by_name lookup rec cur1 n with
                        | Ok cur2 => deps lookup provs rec ds cur2
                        | Err e => if opt || wp then deps lookup provs rec ds cur1 else Err e_resolve
                        | Panic k0 => Panic k0
                        | Fuel => Fuel
                        end) <> Fuel /\
                  (forall st', (if wp && has_key n (disabled cur1) then deps lookup provs rec ds cur1
                   else match by_name lookup rec cur1 n with
                        | Ok cur2 => deps lookup provs rec ds cur2
                        | Err e => if opt || wp then deps lookup provs rec ds cur1 else Err e_resolve
                        | Panic k0 => Panic k0
                        | Fuel => Fuel
                        end) = Ok st' -> good st' /\ grows cur st')).
        { intros cur1 wp Hg1 Hgr1. assert (Hk1 : k <= length (sel cur1)) by (unfold grows in Hgr1; lia).
          assert (Hd1 : deps lookup provs rec ds cur1 <> Fuel /\
                        (forall st', deps lookup provs rec ds cur1 = Ok st' -> good st' /\ grows cur st')).
          { destruct (IH cur1 Hg1 Hk1) as [A B]. split; [exact A|]. intros st' E. destruct (B st' E) as [G1 G2].
            split; [exact G1|unfold grows in *; lia]. }
          destruct (wp && has_key n (disabled cur1)); [exact Hd1|].
          destruct (by_name_total rec k cur1 n Hr Hg1 Hk1) as [Hnf Hok].
          destruct (by_name lookup rec cur1 n) as [cur2| | |] eqn:Eb.
          - destruct (Hok cur2 eq_refl) as [Hg2 Hgr2].
            destruct (IH cur2 Hg2 (Nat.le_trans _ _ _ Hk1 Hgr2)) as [A B]. split; [exact A|].
            intros st' E. destruct (B st' E) as [G1 G2]. split; [exact G1|unfold grows in *; lia].
          - destruct (opt || wp); [exact Hd1|]. split; [discriminate|intros st' E; discriminate].
          - split; [discriminate|intros st' E; discriminate].
          - exfalso. apply Hnf. reflexivity. }
        destruct (provs n) as [ps|].
        * destruct (Hpr ps) as [Hnf Hok].
          destruct (rlist lookup rec n ps cur 0) as [[c cnt]| | |] eqn:El.
          -- destruct (Hok c cnt eq_refl) as [Hgc Hgrc].
             destruct (Nat.ltb 0 cnt); [apply (Hcont c true Hgc Hgrc)|apply (Hcont cur false Hg)]. unfold grows; lia.
          -- split; [discriminate|intros st' E; discriminate].
          -- split; [discriminate|intros st' E; discriminate].
          -- exfalso. apply Hnf. reflexivity.
        * apply (Hcont cur false Hg). unfold grows; lia.
  Qed.

  Lemma good_enter st m : good st -> selected (m_name m) st = false -> In (m_name m) U -> good (enter st m).
  Proof.
    intros [ND Hi] Hs Hu. unfold good, names, enter, push. cbn [sel add_provby add_conflicts]. rewrite map_app. cbn [map]. split.
    - apply NoDup_app_single; [exact ND|]. intros Hin. apply (proj2 (selected_In _ _)) in Hin. congruence.
    - intros x Hx. apply in_app_or in Hx. destruct Hx as [Hx|[<-|[]]]; [apply Hi, Hx|exact Hu].
  Qed.

  (* with fuel f the resolver handles every state that has at least |U| + 1 - f modules selected *)
  Theorem resolve_total : forall f, rec_total (resolve_deep lookup provs f) (S (length U) - f).
  Proof.
    induction f as [|f IH]; intros st m Hg Hk Hu.
    - exfalso. pose proof (good_len st Hg). lia.
    - cbn [resolve_deep]. destruct (selected (m_name m) st) eqn:Es.
      + split; [discriminate|]. intros st' E. injection E as <-. split; [exact Hg|unfold grows; lia].
      + destruct (blocked st m); [split; [discriminate|intros st' E; discriminate]|].
        pose proof (good_enter st m Hg Es Hu) as Hg1.
        assert (Hl1 : length (sel (enter st m)) = S (length (sel st))).
        { unfold enter, push. cbn [sel]. rewrite app_length. cbn. lia. }
        destruct (deps_total (resolve_deep lookup provs f) (S (length U) - f) IH
                    (m_selects m ++ get_list (m_name m) (ifthen (enter st m))) (enter st m) Hg1) as [A B]; [lia|].
        split; [exact A|]. intros st' E. destruct (B st' E) as [G1 G2]. split; [exact G1|unfold grows in *; lia].
  Qed.
End Total.

(* ---------- for a bag ---------- *)
Require Import Laze.model.Allow Laze.model.Checks Laze.proofs.GenerateFacts.

Lemma find_module_in cs n m : find_module cs n = Some m -> exists c, In c cs /\ In m (map snd (c_modules c)).
Proof.
  induction cs as [|c t IH]; cbn [find_module]; [discriminate|].
  destruct (alookup n (c_modules c)) as [m'|] eqn:E.
  - intros H. injection H as <-. apply alookup_In_pair in E. destruct E as (k' & I & _).
    exists c. split; [left; reflexivity|]. apply in_map_iff. exists (k', m'). split; [reflexivity|exact I].
  - intros H. destruct (IH H) as (c' & Hc & Hm). exists c'. split; [right; exact Hc|exact Hm].
Qed.

Lemma resolve_module_in b builder n m : resolve_module b builder n = Some m -> In m (all_modules b).
Proof.
  unfold resolve_module. intros H. apply find_module_in in H. destruct H as (c & Hc & Hm).
  unfold ctxs_of in Hc. apply in_flat_map in Hc. destruct Hc as (i & _ & Hc).
  unfold bag_get in Hc. destruct (nth_error b i) as [c'|] eqn:E; [|destruct Hc]. destruct Hc as [<-|[]].
  unfold all_modules. apply in_flat_map. exists c'. split; [eapply nth_error_In; exact E|exact Hm].
Qed.

(* The resolver never runs out of its fuel: for every bag whose module keys are their names (what the
   loader builds), every builder, every binary of the bag, every command line. *)
Theorem resolve_build_terminates b builder bname binary cli_selects disabled0 :
  keys_okb b = true -> In (m_name binary) (map m_name (all_modules b)) ->
  resolve_build b builder bname binary cli_selects disabled0 <> Fuel.
Proof.
  intros Hk Hb. unfold resolve_build, resolver_fuel.
  set (U := map m_name (all_modules b)).
  assert (HU : forall n m, resolve_module b builder n = Some m -> m_name m = n /\ In n U).
  { intros n m Hl. pose proof (lookup_name_of_bag _ _ _ _ Hk Hl) as Hn. split; [exact Hn|].
    rewrite <- Hn. unfold U. apply in_map. exact (resolve_module_in _ _ _ _ Hl). }
  pose proof (resolve_total (resolve_module b builder)
                (fun n => match (match bag_get b builder with Some c => c_provided c | None => None end) with
                          | Some p => alookup n p | None => None end)
                U HU (S (S (length (all_modules b))))) as HT.
  assert (Hlen : length U = length (all_modules b)) by (unfold U; apply map_length).
  destruct (HT (init_state disabled0) (build_binary binary bname cli_selects)) as [Hnf _].
  - split; [constructor|intros x []].
  - rewrite Hlen. cbn [init_state sel length]. lia.
  - exact Hb.
  - exact Hnf.
Qed.
