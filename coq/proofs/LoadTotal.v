(* LoadTotal.v — the file work-list of the loader always finishes within its fuel: every step takes a
   new, distinct key (file name, import root); the file is a file of the tree and the root is absent or
   the directory of a file of the tree, so there are at most |files| * (|files| + 1) steps.
   In particular a file that includes itself, two files including each other, or imports that import
   each other cannot make the loader run forever. The proofs are in WorkList.v (load_files_never_fuel,
   loader_worklist_terminates, load_files_bound); this file re-exports them under the old name. *)
From Coq Require Import Ascii String.
From Coq Require Import List Arith Bool NArith Lia.
Import ListNotations.
Require Import Laze.model.Base Laze.model.Path Laze.model.Load Laze.model.Cache.
Require Export Laze.proofs.WorkList.
Require Import Laze.proofs.BaseFacts Laze.proofs.CacheInstance Laze.proofs.LoadFrame.
Open Scope list_scope.
