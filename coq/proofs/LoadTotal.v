(* LoadTotal.v — the file work-list of the loader always finishes within its fuel: every step takes a
   new, distinct file name that is a file of the tree, so there are at most as many steps as files.
   In particular a file that includes itself (or two files including each other) cannot make the
   loader run forever. *)
From Coq Require Import Ascii String.
From Coq Require Import List Arith Bool NArith Lia.
Import ListNotations.
Require Import Laze.model.Base Laze.model.Path Laze.model.Load Laze.model.Cache.
Require Import Laze.proofs.BaseFacts Laze.proofs.CacheInstance Laze.proofs.LoadFrame.
Open Scope list_scope.

Lemma firstn_S_nth {A} (l : list A) n x : nth_error l n = Some x -> firstn (S n) l = firstn n l ++ [x].
Proof.
  revert n. induction l as [|y t IH]; intros n Hn; [destruct n; discriminate|].
  destruct n as [|n]; cbn in *; [injection Hn as ->; reflexivity|]. f_equal. apply IH, Hn.
Qed.

Lemma In_firstn' {A} (x : A) : forall n l, In x (firstn n l) -> In x l.
Proof.
  induction n as [|n IH]; intros l Hi; [destruct Hi|]. destruct l as [|y t]; [destruct Hi|].
  cbn in Hi. destruct Hi as [->|Hi]; [left; reflexivity|right; apply IH, Hi].
Qed.
Lemma NoDup_firstn' {A} n (l : list A) : NoDup l -> NoDup (firstn n l).
Proof.
  revert n. induction l as [|x t IH]; intros n ND; [destruct n; constructor|].
  destruct n; cbn; [constructor|]. inversion ND as [|? ? Hx ND']; subst. constructor; [|apply IH, ND'].
  intros Hi. apply Hx. eapply In_firstn'. exact Hi.
Qed.

Lemma load_files_never_fuel : forall fuel (t : ytree) (pending : list finc) pos docs,
  NoDup (map fst pending) -> pos <= length pending ->
  (forall inc : finc, In inc (firstn pos pending) -> alookup (fst inc) t <> None) ->
  length t + 2 <= fuel + pos ->
  load_files fuel t pending pos docs <> Fuel.
Proof.
  induction fuel as [|f IH]; intros t pending pos docs ND Hpos Hin Hf.
  - (* no fuel left: impossible, the first [pos] names are distinct files of the tree *)
    exfalso.
    assert (Hlen : length (firstn pos pending) <= length t).
    { assert (ND' : NoDup (map fst (firstn pos pending))) by (rewrite <- firstn_map; apply NoDup_firstn', ND).
      assert (Hincl : incl (map fst (firstn pos pending)) (akeys t)).
      { intros n Hn. apply in_map_iff in Hn. destruct Hn as (inc & <- & Hi). apply alookup_In_keys, Hin, Hi. }
      pose proof (NoDup_incl_length ND' Hincl) as Hl. unfold akeys in Hl. rewrite !map_length in Hl. exact Hl. }
    rewrite firstn_length_le in Hlen by exact Hpos. cbn in Hf. lia.
  - rewrite load_files_S. destruct (nth_error pending pos) as [inc|] eqn:En; [|discriminate].
    destruct (alookup (fst inc) t) as [ds|] eqn:Ea; [|discriminate].
    assert (Hpl : pos < length pending) by (apply nth_error_Some; rewrite En; discriminate).
    apply IH.
    + apply (step_pending_ind (fun l => NoDup (map fst l))); [intros x l; apply finc_insert_nodup|exact ND].
    + destruct (step_pending_ext inc (length docs) ds pending) as [e ->]. rewrite app_length. lia.
    + destruct (step_pending_ext inc (length docs) ds pending) as [e ->].
      rewrite firstn_app. replace (S pos - length pending) with 0 by lia. rewrite firstn_O, app_nil_r.
      rewrite (firstn_S_nth _ _ _ En). intros x Hx. apply in_app_or in Hx. destruct Hx as [Hx|[<-|[]]]; [apply Hin, Hx|].
      rewrite Ea. discriminate.
    + lia.
Qed.

(* the loader's work-list never runs out of fuel, whatever the tree (self-including files included) *)
Theorem loader_worklist_terminates (t : ytree) pf : load_files (S (S (length t * 8))) t [(pf, None)] 0 [] <> Fuel.
Proof.
  apply load_files_never_fuel.
  - cbn. constructor; [intros []|constructor].
  - cbn. lia.
  - intros inc [].
  - lia.
Qed.
