(* FinalizeFacts.v — ContextBag::finalize: after it, the env of every context is the (final) env of
   its parent merged with its own (C04, the context layers).  The contexts are processed in an order
   sorted by their number of ancestors, so a parent is final before its children are merged. *)
From Coq Require Import Ascii String.
From Coq Require Import List Arith Bool NArith Lia Permutation Sorted.
Import ListNotations.
Require Import Laze.model.Base Laze.model.Env Laze.model.Allow Laze.model.Ctx.
Require Import Laze.proofs.BaseFacts.
Open Scope list_scope.

(* ---------- set_ctx ---------- *)
Lemma set_ctx_length (b : bag) i c : i < length b -> length (set_ctx b i c) = length b.
Proof.
  unfold set_ctx. intros Hi. rewrite app_length, firstn_length_le by lia. cbn [length]. rewrite skipn_length. lia.
Qed.
Lemma set_ctx_get (b : bag) c : forall i j, i < length b ->
  bag_get (set_ctx b i c) j = if Nat.eqb j i then Some c else bag_get b j.
Proof.
  unfold set_ctx, bag_get. induction b as [|x t IH]; intros i j Hi; [cbn in Hi; lia|].
  destruct i as [|i]; cbn [firstn skipn app].
  - destruct j; reflexivity.
  - destruct j as [|j]; [reflexivity|]. cbn [nth_error]. cbn in Hi. rewrite IH by lia. reflexivity.
Qed.
Lemma set_ctx_same (b : bag) i c : i < length b -> bag_get (set_ctx b i c) i = Some c.
Proof. intros Hi. rewrite set_ctx_get by exact Hi. rewrite Nat.eqb_refl. reflexivity. Qed.
Lemma set_ctx_other (b : bag) i j c : i < length b -> j <> i -> bag_get (set_ctx b i c) j = bag_get b j.
Proof. intros Hi Hne. rewrite set_ctx_get by exact Hi. apply Nat.eqb_neq in Hne. rewrite Hne. reflexivity. Qed.

(* ---------- the order: a sorted permutation of all indices ---------- *)
Lemma insert_by_count_perm x l : Permutation (insert_by_count x l) (x :: l).
Proof.
  induction l as [|y t IH]; cbn [insert_by_count]; [reflexivity|]. destruct (Nat.ltb (snd x) (snd y)); [reflexivity|].
  rewrite IH. apply perm_swap.
Qed.
Lemma sort_by_count_perm l : Permutation (sort_by_count l) l.
Proof.
  unfold sort_by_count. assert (G : forall acc, Permutation (fold_left (fun a x => insert_by_count x a) l acc) (acc ++ l)).
  { induction l as [|x t IH]; intros acc; cbn [fold_left]; [rewrite app_nil_r; reflexivity|].
    rewrite IH. rewrite insert_by_count_perm. cbn [app]. apply Permutation_cons_app. reflexivity. }
  rewrite G. reflexivity.
Qed.

Definition le_cnt (a b : nat * nat) : Prop := snd a <= snd b.
Lemma insert_by_count_sorted x l : StronglySorted le_cnt l -> StronglySorted le_cnt (insert_by_count x l).
Proof.
  induction 1 as [|y t Hs IH Hall]; cbn [insert_by_count]; [constructor; constructor|].
  destruct (Nat.ltb (snd x) (snd y)) eqn:E.
  - apply Nat.ltb_lt in E. constructor; [constructor; assumption|]. constructor; [unfold le_cnt; lia|].
    eapply Forall_impl; [|exact Hall]. intros a Ha. unfold le_cnt in *. lia.
  - apply Nat.ltb_ge in E. constructor; [exact IH|].
    eapply Permutation_Forall; [symmetry; apply insert_by_count_perm|]. constructor; [exact E|exact Hall].
Qed.
Lemma sort_by_count_sorted l : StronglySorted le_cnt (sort_by_count l).
Proof.
  unfold sort_by_count. assert (G : forall acc, StronglySorted le_cnt acc -> StronglySorted le_cnt (fold_left (fun a x => insert_by_count x a) l acc)).
  { induction l as [|x t IH]; intros acc Ha; cbn [fold_left]; [exact Ha|]. apply IH, insert_by_count_sorted, Ha. }
  apply G. constructor.
Qed.

(* ---------- depth: the number of ancestors, independent of spare fuel in acyclic bags ---------- *)
Definition parents_of (b : bag) : list (option nat) := map c_parent_index b.

Lemma nth_parents b i : nth_error (parents_of b) i = option_map c_parent_index (bag_get b i).
Proof. unfold parents_of, bag_get. rewrite nth_error_map. reflexivity. Qed.

Lemma count_stable b : forall n i f, chain_ends n (parents_of b) i = true -> n <= f ->
  count_parents f b i = count_parents n b i.
Proof.
  induction n as [|n IH]; intros i f Hc Hf.
  - destruct f as [|f]; [reflexivity|]. cbn [count_parents chain_ends] in *. rewrite nth_parents in Hc.
    destruct (bag_get b i) as [c|]; [|reflexivity]. cbn in Hc. destruct (c_parent_index c); [discriminate|reflexivity].
  - destruct f as [|f]; [lia|]. cbn [count_parents chain_ends] in *. rewrite nth_parents in Hc.
    destruct (bag_get b i) as [c|]; [|reflexivity]. cbn in Hc. destruct (c_parent_index c) as [p|]; [|reflexivity].
    f_equal. apply IH; [exact Hc|lia].
Qed.

Definition depth (b : bag) (i : nat) : nat := count_parents (length b) b i.

Lemma acyclic_chain b i : acyclic (parents_of b) = true -> i < length b -> chain_ends (length b) (parents_of b) i = true.
Proof.
  unfold acyclic. intros Ha Hi. rewrite forallb_forall in Ha. unfold parents_of in *. rewrite map_length in Ha.
  apply Ha. apply in_seq. lia.
Qed.

Lemma count_S f b i : count_parents (S f) b i =
  match bag_get b i with
  | Some c => match c_parent_index c with Some p => S (count_parents f b p) | None => 0 end
  | None => 0 end.
Proof. reflexivity. Qed.

Lemma depth_parent b i c p : acyclic (parents_of b) = true ->
  bag_get b i = Some c -> c_parent_index c = Some p -> depth b i = S (depth b p).
Proof.
  intros Ha Hg Hp. assert (Hi : i < length b) by (unfold bag_get in Hg; apply nth_error_Some; rewrite Hg; discriminate).
  pose proof (acyclic_chain b i Ha Hi) as Hc. unfold depth.
  destruct (length b) as [|n] eqn:En; [lia|].
  assert (Hcp : chain_ends n (parents_of b) p = true).
  { cbn [chain_ends] in Hc. rewrite nth_parents, Hg in Hc. cbn [option_map] in Hc. rewrite Hp in Hc. exact Hc. }
  rewrite (count_S n b i), Hg, Hp. f_equal. symmetry. apply (count_stable b n p (S n) Hcp). lia.
Qed.
Lemma depth_root b i c : bag_get b i = Some c -> c_parent_index c = None -> depth b i = 0.
Proof.
  intros Hg Hp. unfold depth. destruct (length b); [reflexivity|]. cbn [count_parents]. rewrite Hg, Hp. reflexivity.
Qed.

(* ---------- the order lists every index once, with its depth, sorted by depth ---------- *)
Lemma topo_order_perm b : Permutation (topo_order b) (map (fun i => (i, depth b i)) (seq 0 (length b))).
Proof. unfold topo_order. apply sort_by_count_perm. Qed.
Lemma topo_order_sorted b : StronglySorted le_cnt (topo_order b).
Proof. unfold topo_order. apply sort_by_count_sorted. Qed.
Lemma topo_order_In b x : In x (topo_order b) <-> fst x < length b /\ snd x = depth b (fst x).
Proof.
  rewrite (Permutation_in' (eq_refl x) (topo_order_perm b)). rewrite in_map_iff. split.
  - intros (i & <- & Hi). apply in_seq in Hi. cbn. split; [lia|reflexivity].
  - intros [Hl He]. exists (fst x). split; [destruct x; cbn in *; subst; reflexivity|apply in_seq; lia].
Qed.
Lemma topo_order_nodup b : NoDup (map fst (topo_order b)).
Proof.
  eapply Permutation_NoDup; [apply Permutation_map; symmetry; apply topo_order_perm|].
  rewrite map_map. cbn. rewrite map_id. apply seq_NoDup.
Qed.

Lemma StronglySorted_app_r {A} (R : A -> A -> Prop) l1 l2 : StronglySorted R (l1 ++ l2) -> StronglySorted R l2.
Proof. induction l1 as [|x t IH]; cbn; [tauto|]. intros H. inversion H; subst. apply IH. assumption. Qed.

(* ---------- the merge pass ---------- *)
(* the env a context ends up with, given its own env and its parent's final env *)
Definition inherited (parent_env own : option env) : option env :=
  match parent_env with
  | Some penv => Some (match own with Some o => merge penv o | None => penv end)
  | None => own
  end.

Section Pass.
  Variable b2 : bag.
  Hypothesis Hacyc : acyclic (parents_of b2) = true.

  (* context j of b is final: it is b2's context with the env its parent's (final) env gives it *)
  Definition spec (b : bag) (j : nat) : Prop :=
    forall c2, bag_get b2 j = Some c2 ->
      exists c, bag_get b j = Some c /\ c = with_env c2 (c_env c) /\
        match c_parent_index c2 with
        | None => c_env c = c_env c2
        | Some p => match bag_get b p with
                    | Some pc => c_env c = inherited (c_env pc) (c_env c2)
                    | None => c_env c = c_env c2 end
        end.

  Definition PInv (done : list (nat * nat)) (b : bag) : Prop :=
    length b = length b2 /\
    (forall j, ~ In j (map fst done) -> bag_get b j = bag_get b2 j) /\
    (forall j, In j (map fst done) -> spec b j /\
               forall c2 p, bag_get b2 j = Some c2 -> c_parent_index c2 = Some p -> p < length b2 -> In p (map fst done)).

  Lemma with_env_id c : with_env c (c_env c) = c.
  Proof. destruct c; reflexivity. Qed.

  Lemma pass_step done x todo b :
    topo_order b2 = done ++ x :: todo -> PInv done b -> PInv (done ++ [x]) (inherit_env b x).
  Proof.
    intros Ho (Hlen & Hun & Hdone).
    assert (Hx : In x (topo_order b2)) by (rewrite Ho; apply in_or_app; right; left; reflexivity).
    apply topo_order_In in Hx. destruct Hx as [Hi Hk]. destruct x as [i k]. cbn [fst snd] in *.
    pose proof (topo_order_nodup b2) as ND. rewrite Ho, map_app in ND. cbn [map fst] in ND.
    assert (Hnd : ~ In i (map fst done)).
    { intros Hin. apply NoDup_remove_2 in ND. apply ND. apply in_or_app. left. exact Hin. }
    assert (Hgi : bag_get b i = bag_get b2 i) by (apply Hun, Hnd).
    destruct (bag_get b2 i) as [c2|] eqn:Eg2;
      [|exfalso; unfold bag_get in Eg2; apply nth_error_None in Eg2; lia].
    (* the parent of i, if it is a context of the bag, is done *)
    assert (Hpd : forall p, c_parent_index c2 = Some p -> p < length b2 -> In p (map fst done)).
    { intros p Hp Hpl. pose proof (depth_parent b2 i c2 p Hacyc Eg2 Hp) as Hd.
      assert (Hpo : In (p, depth b2 p) (topo_order b2)) by (apply topo_order_In; cbn; split; [exact Hpl|reflexivity]).
      rewrite Ho in Hpo. apply in_app_or in Hpo. destruct Hpo as [Hpo|Hpo]; [apply in_map_iff; exists (p, depth b2 p); split; [reflexivity|exact Hpo]|].
      exfalso. pose proof (topo_order_sorted b2) as Hs. rewrite Ho in Hs.
      apply StronglySorted_app_r in Hs. inversion Hs as [|? ? _ Hall]; subst.
      destruct Hpo as [E|Hpo]; [injection E as E1 E2; lia|].
      rewrite Forall_forall in Hall. specialize (Hall _ Hpo). unfold le_cnt in Hall. cbn in Hall. lia. }
    (* what the step does *)
    assert (Hcases : (inherit_env b (i, k) = b /\ (match c_parent_index c2 with
                                                    | None => True
                                                    | Some p => match bag_get b p with
                                                                | Some pc => c_env pc = None
                                                                | None => True end end)) \/
                     (exists p pc penv, c_parent_index c2 = Some p /\ bag_get b p = Some pc /\ c_env pc = Some penv /\
                        inherit_env b (i, k) = set_ctx b i (with_env c2 (inherited (Some penv) (c_env c2))))).
    { unfold inherit_env. cbn [fst snd]. rewrite Hgi.
      destruct k as [|k'].
      - left. split; [reflexivity|]. destruct (c_parent_index c2) as [p|] eqn:Ep; [|exact I].
        pose proof (depth_parent b2 i c2 p Hacyc Eg2 Ep). lia.
      - destruct (c_parent_index c2) as [p|] eqn:Ep; [|left; split; [reflexivity|exact I]].
        destruct (bag_get b p) as [pc|] eqn:Egp; [|left; split; [reflexivity|exact I]].
        destruct (c_env pc) as [penv|] eqn:Eenv; [|left; split; [reflexivity|reflexivity]].
        right. exists p, pc, penv. split; [reflexivity|]. split; [exact Egp|]. split; [exact Eenv|]. reflexivity. }
    assert (Hib : i < length b) by lia.
    destruct Hcases as [[Hsame Hnone]|(p & pc & penv & Ep & Egp & Eenv & Hset)].
    - (* nothing changes *)
      rewrite Hsame. split; [exact Hlen|]. split.
      + intros j Hj. apply Hun. intros Hin. apply Hj. rewrite map_app. apply in_or_app. left. exact Hin.
      + intros j Hj. rewrite map_app in Hj. cbn [map fst] in Hj. apply in_app_or in Hj. destruct Hj as [Hj|[<-|[]]].
        * destruct (Hdone j Hj) as [Hs Hp]. split; [exact Hs|]. intros c2' p' E1 E2 E3. rewrite map_app. apply in_or_app. left. apply (Hp c2' p' E1 E2 E3).
        * split.
          -- intros c2' E. rewrite Eg2 in E. injection E as <-. exists c2. split; [exact Hgi|]. split; [symmetry; apply with_env_id|].
             destruct (c_parent_index c2) as [p|]; [|reflexivity]. destruct (bag_get b p) as [pc|]; [|reflexivity].
             rewrite Hnone. reflexivity.
          -- intros c2' p' E1 E2 E3. rewrite Eg2 in E1. injection E1 as <-. rewrite map_app. apply in_or_app. left. apply (Hpd p' E2 E3).
    - (* i gets its parent's env merged in *)
      rewrite Hset.
      assert (Hpl : p < length b2) by (rewrite <- Hlen; unfold bag_get in Egp; apply nth_error_Some; rewrite Egp; discriminate).
      assert (Hpin : In p (map fst done)) by (apply Hpd; assumption).
      assert (Hpi : p <> i) by (intros ->; contradiction).
      split; [rewrite set_ctx_length by exact Hib; exact Hlen|]. split.
      + intros j Hj. rewrite set_ctx_other; [apply Hun; intros Hin; apply Hj; rewrite map_app; apply in_or_app; left; exact Hin|exact Hib|].
        intros ->. apply Hj. rewrite map_app. apply in_or_app. right. left. reflexivity.
      + intros j Hj. rewrite map_app in Hj. cbn [map fst] in Hj. apply in_app_or in Hj. destruct Hj as [Hj|[<-|[]]].
        * assert (Hji : j <> i) by (intros ->; contradiction).
          destruct (Hdone j Hj) as [Hs Hp]. split.
          -- intros c2' E. destruct (Hs c2' E) as (c & Hc & Hw & Hm). exists c.
             split; [rewrite set_ctx_other by assumption; exact Hc|]. split; [exact Hw|].
             destruct (c_parent_index c2') as [p'|] eqn:Ep'; [|exact Hm].
             destruct (Nat.eq_dec p' i) as [->|Hne].
             ++ (* the parent of a finished context is finished: it cannot be i *)
                exfalso. apply Hnd. apply (Hp c2' i E Ep'). lia.
             ++ rewrite set_ctx_other by assumption. exact Hm.
          -- intros c2' p' E1 E2 E3. rewrite map_app. apply in_or_app. left. apply (Hp c2' p' E1 E2 E3).
        * split.
          -- intros c2' E. rewrite Eg2 in E. injection E as <-. eexists. split; [apply set_ctx_same; exact Hib|].
             split; [reflexivity|]. rewrite Ep. rewrite set_ctx_other by assumption. rewrite Egp, Eenv. reflexivity.
          -- intros c2' p' E1 E2 E3. rewrite Eg2 in E1. injection E1 as <-. rewrite map_app. apply in_or_app. left. apply (Hpd p' E2 E3).
  Qed.

  Lemma pass_all : forall todo done b, topo_order b2 = done ++ todo -> PInv done b ->
    PInv (done ++ todo) (fold_left inherit_env todo b).
  Proof.
    induction todo as [|x t IH]; intros done b Ho HI; cbn [fold_left]; [rewrite app_nil_r; exact HI|].
    replace (done ++ x :: t) with ((done ++ [x]) ++ t) by (rewrite <- app_assoc; reflexivity).
    apply IH; [rewrite <- app_assoc; exact Ho|]. eapply pass_step; eassumption.
  Qed.

  (* after the pass every context has its parent's final env merged under its own *)
  Theorem inherit_pass_spec : forall j, j < length b2 -> spec (fold_left inherit_env (topo_order b2) b2) j.
  Proof.
    intros j Hj.
    assert (H0 : PInv [] b2) by (split; [reflexivity|]; split; [reflexivity|intros x []]).
    pose proof (pass_all (topo_order b2) [] b2 eq_refl H0) as (_ & _ & Hd). cbn [app] in Hd.
    apply Hd. apply in_map_iff. exists (j, depth b2 j). split; [reflexivity|]. apply topo_order_In. cbn. split; [exact Hj|reflexivity].
  Qed.
End Pass.

(* ---------- finalize ---------- *)
Lemma resolve_parents_length names : forall l ps, resolve_parents names l = Some ps -> length ps = length l.
Proof.
  induction l as [|x t IH]; intros ps H; cbn [resolve_parents] in H; [injection H as <-; reflexivity|].
  destruct x as [p|].
  - destruct (index_of p names 0); [|discriminate]. destruct (resolve_parents names t) as [l'|]; [|discriminate].
    injection H as <-. cbn. f_equal. apply IH. reflexivity.
  - destruct (resolve_parents names t) as [l'|]; [|discriminate]. injection H as <-. cbn. f_equal. apply IH. reflexivity.
Qed.

Lemma combine_get (b1 : bag) (ps : list (option nat)) : length ps = length b1 -> forall j,
  bag_get (map (fun cp => with_parent_index (fst cp) (snd cp)) (combine b1 ps)) j =
  match bag_get b1 j, nth_error ps j with Some c, Some p => Some (with_parent_index c p) | _, _ => None end.
Proof.
  unfold bag_get. revert ps. induction b1 as [|c t IH]; intros ps Hl j.
  - destruct ps; [|discriminate]. destruct j; reflexivity.
  - destruct ps as [|p ps]; [discriminate|]. cbn in Hl. destruct j as [|j]; cbn; [reflexivity|]. apply IH. lia.
Qed.

Lemma parents_of_combine (b1 : bag) (ps : list (option nat)) : length ps = length b1 ->
  parents_of (map (fun cp => with_parent_index (fst cp) (snd cp)) (combine b1 ps)) = ps.
Proof.
  unfold parents_of. revert ps. induction b1 as [|c t IH]; intros ps Hl; [destruct ps; [reflexivity|discriminate]|].
  destruct ps as [|p ps]; [discriminate|]. cbn in *. f_equal. apply IH. lia.
Qed.

(* the var_options pass leaves env and parent alone *)
Definition envpar (c : context) := (c_env c, c_parent_index c).
Lemma ivo_envpar b nm j : option_map envpar (bag_get (inherit_var_options b nm) j) = option_map envpar (bag_get b j).
Proof.
  unfold inherit_var_options. destruct (snd nm); [reflexivity|].
  destruct (bag_get b (fst nm)) as [c|] eqn:Eg; [|reflexivity].
  destruct (c_var_options c); [reflexivity|]. destruct (c_parent_index c) as [p|] eqn:Ep; [|reflexivity].
  destruct (bag_get b p) as [pc|]; [|reflexivity].
  assert (Hi : fst nm < length b) by (unfold bag_get in Eg; apply nth_error_Some; rewrite Eg; discriminate).
  rewrite set_ctx_get by exact Hi. destruct (Nat.eqb j (fst nm)) eqn:E; [|reflexivity].
  apply Nat.eqb_eq in E. subst j. rewrite Eg. cbn. unfold envpar. cbn. rewrite Ep. reflexivity.
Qed.
Lemma ivo_fold_envpar l : forall b j, option_map envpar (bag_get (fold_left inherit_var_options l b) j) = option_map envpar (bag_get b j).
Proof. induction l as [|x t IH]; intros b j; cbn [fold_left]; [reflexivity|]. rewrite IH. apply ivo_envpar. Qed.

(* C04, the context layers: after finalize the env of a context is its parent's final env with its
   own declared env merged on top (lists append, singles replace; Env::merge) *)
Theorem finalize_env_inherited b0 bf : finalize b0 = Ok bf ->
  let b1 := if mem_str (S_ "default") (bag_names b0) then b0 else b0 ++ [context_default] in
  forall j c, bag_get bf j = Some c ->
    exists c1, bag_get b1 j = Some c1 /\
      match c_parent_index c with
      | None => c_env c = c_env c1
      | Some p => match bag_get bf p with
                  | Some pc => c_env c = inherited (c_env pc) (c_env c1)
                  | None => c_env c = c_env c1 end
      end.
Proof.
  unfold finalize. intros HF. cbv zeta.
  set (b1 := if mem_str (S_ "default") (bag_names b0) then b0 else b0 ++ [context_default]) in *.
  destruct (resolve_parents (bag_names b1) (map c_parent_name b1)) as [ps|] eqn:Er; [|discriminate].
  destruct (acyclic ps) eqn:Ea; unfold negb in HF; [|discriminate].
  injection HF as <-.
  assert (Hl : length ps = length b1) by (rewrite (resolve_parents_length _ _ _ Er); apply map_length).
  set (b2 := map (fun cp => with_parent_index (fst cp) (snd cp)) (combine b1 ps)).
  assert (Hp2 : parents_of b2 = ps) by (apply parents_of_combine, Hl).
  assert (Hac : acyclic (parents_of b2) = true) by (rewrite Hp2; exact Ea).
  set (b3 := fold_left inherit_env (topo_order b2) b2).
  intros j c Hg.
  (* back through the var_options pass *)
  pose proof (ivo_fold_envpar (topo_order b2) b3 j) as Hj. rewrite Hg in Hj. cbn [option_map] in Hj.
  destruct (bag_get b3 j) as [c3|] eqn:E3; [|discriminate]. cbn [option_map] in Hj. injection Hj as He Hpi.
  assert (Hjl : j < length b2).
  { destruct (Nat.lt_ge_cases j (length b2)) as [H|H]; [exact H|]. exfalso.
    pose proof (inherit_pass_spec b2 Hac) as _.
    assert (length b3 = length b2).
    { unfold b3. assert (G : forall l b, length (fold_left inherit_env l b) = length b).
      { induction l as [|x t IH]; intros b; cbn [fold_left]; [reflexivity|]. rewrite IH. unfold inherit_env.
        destruct (snd x); [reflexivity|]. destruct (bag_get b (fst x)) as [cx|] eqn:Ex; [|reflexivity].
        destruct (c_parent_index cx); [|reflexivity]. destruct (bag_get b n0); [|reflexivity]. destruct (c_env c0); [|reflexivity].
        apply set_ctx_length. unfold bag_get in Ex. apply nth_error_Some. rewrite Ex. discriminate. }
      apply G. }
    unfold bag_get in E3. assert (j < length b3) by (apply nth_error_Some; rewrite E3; discriminate). lia. }
  destruct (bag_get b2 j) as [c2|] eqn:E2; [|exfalso; unfold bag_get in E2; apply nth_error_None in E2; lia].
  destruct (inherit_pass_spec b2 Hac j Hjl c2 E2) as (c3' & E3' & Hw & Hm). fold b3 in E3', Hm. rewrite E3 in E3'. injection E3' as <-.
  (* c2 is b1's context with its parent index *)
  unfold b2 in E2. rewrite (combine_get b1 ps Hl) in E2.
  destruct (bag_get b1 j) as [c1|] eqn:E1; [|discriminate]. destruct (nth_error ps j) as [pj|]; [|discriminate].
  injection E2 as <-. exists c1. split; [reflexivity|].
  assert (Hpar : c_parent_index c = pj) by (rewrite Hpi, Hw; reflexivity).
  rewrite Hpar, He. cbn [with_parent_index c_parent_index c_env] in Hm.
  destruct pj as [p|]; [|exact Hm].
  pose proof (ivo_fold_envpar (topo_order b2) b3 p) as Hpp.
  destruct (bag_get b3 p) as [pc3|] eqn:Ep3.
  - destruct (bag_get (fold_left inherit_var_options (topo_order b2) b3) p) as [pc|]; [|discriminate].
    cbn [option_map] in Hpp. injection Hpp as Hpe _. rewrite Hpe. exact Hm.
  - destruct (bag_get (fold_left inherit_var_options (topo_order b2) b3) p); [discriminate|]. exact Hm.
Qed.

(* ---------- the same pass, generically: any update of a context from its parent's final state ---------- *)
Section GPass.
  Variable upd : context -> context -> option context.       (* self, final parent -> new self (None: unchanged) *)
  Hypothesis upd_parent : forall c pc c', upd c pc = Some c' -> c_parent_index c' = c_parent_index c.

  Definition gstep (b : bag) (nm : nat * nat) : bag :=
    match snd nm with
    | O => b
    | _ => match bag_get b (fst nm) with
           | Some c => match c_parent_index c with
                       | Some p => match bag_get b p with
                                   | Some pc => match upd c pc with Some c' => set_ctx b (fst nm) c' | None => b end
                                   | None => b end
                       | None => b end
           | None => b end
    end.

  Variable b2 : bag.
  Hypothesis Hacyc : acyclic (parents_of b2) = true.

  Definition gspec (b : bag) (j : nat) : Prop :=
    forall c2, bag_get b2 j = Some c2 ->
      exists c, bag_get b j = Some c /\ c_parent_index c = c_parent_index c2 /\
        match c_parent_index c2 with
        | None => c = c2
        | Some p => match bag_get b p with
                    | Some pc => c = match upd c2 pc with Some c' => c' | None => c2 end
                    | None => c = c2 end
        end.

  Definition GInv (done : list (nat * nat)) (b : bag) : Prop :=
    length b = length b2 /\
    (forall j, ~ In j (map fst done) -> bag_get b j = bag_get b2 j) /\
    (forall j, In j (map fst done) -> gspec b j /\
               forall c2 p, bag_get b2 j = Some c2 -> c_parent_index c2 = Some p -> p < length b2 -> In p (map fst done)).

  Lemma gpass_step done x todo b :
    topo_order b2 = done ++ x :: todo -> GInv done b -> GInv (done ++ [x]) (gstep b x).
  Proof.
    intros Ho (Hlen & Hun & Hdone).
    assert (Hx : In x (topo_order b2)) by (rewrite Ho; apply in_or_app; right; left; reflexivity).
    apply topo_order_In in Hx. destruct Hx as [Hi Hk]. destruct x as [i k]. cbn [fst snd] in *.
    pose proof (topo_order_nodup b2) as ND. rewrite Ho, map_app in ND. cbn [map fst] in ND.
    assert (Hnd : ~ In i (map fst done)).
    { intros Hin. apply NoDup_remove_2 in ND. apply ND. apply in_or_app. left. exact Hin. }
    assert (Hgi : bag_get b i = bag_get b2 i) by (apply Hun, Hnd).
    destruct (bag_get b2 i) as [c2|] eqn:Eg2;
      [|exfalso; unfold bag_get in Eg2; apply nth_error_None in Eg2; lia].
    assert (Hpd : forall p, c_parent_index c2 = Some p -> p < length b2 -> In p (map fst done)).
    { intros p Hp Hpl. pose proof (depth_parent b2 i c2 p Hacyc Eg2 Hp) as Hd.
      assert (Hpo : In (p, depth b2 p) (topo_order b2)) by (apply topo_order_In; cbn; split; [exact Hpl|reflexivity]).
      rewrite Ho in Hpo. apply in_app_or in Hpo. destruct Hpo as [Hpo|Hpo]; [apply in_map_iff; exists (p, depth b2 p); split; [reflexivity|exact Hpo]|].
      exfalso. pose proof (topo_order_sorted b2) as Hs. rewrite Ho in Hs.
      apply StronglySorted_app_r in Hs. inversion Hs as [|? ? _ Hall]; subst.
      destruct Hpo as [E|Hpo]; [injection E as E1 E2; lia|].
      rewrite Forall_forall in Hall. specialize (Hall _ Hpo). unfold le_cnt in Hall. cbn in Hall. lia. }
    assert (Hcases : (gstep b (i, k) = b /\ (match c_parent_index c2 with
                                             | None => True
                                             | Some p => match bag_get b p with
                                                         | Some pc => upd c2 pc = None
                                                         | None => True end end)) \/
                     (exists p pc c', c_parent_index c2 = Some p /\ bag_get b p = Some pc /\ upd c2 pc = Some c' /\
                        gstep b (i, k) = set_ctx b i c')).
    { unfold gstep. cbn [fst snd]. rewrite Hgi.
      destruct k as [|k'].
      - left. split; [reflexivity|]. destruct (c_parent_index c2) as [p|] eqn:Ep; [|exact I].
        pose proof (depth_parent b2 i c2 p Hacyc Eg2 Ep). lia.
      - destruct (c_parent_index c2) as [p|] eqn:Ep; [|left; split; [reflexivity|exact I]].
        destruct (bag_get b p) as [pc|] eqn:Egp; [|left; split; [reflexivity|exact I]].
        destruct (upd c2 pc) as [c'|] eqn:Eu; [|left; split; [reflexivity|reflexivity]].
        right. exists p, pc, c'. split; [reflexivity|]. split; [exact Egp|]. split; [exact Eu|]. reflexivity. }
    assert (Hib : i < length b) by lia.
    destruct Hcases as [[Hsame Hnone]|(p & pc & c' & Ep & Egp & Eu & Hset)].
    - rewrite Hsame. split; [exact Hlen|]. split.
      + intros j Hj. apply Hun. intros Hin. apply Hj. rewrite map_app. apply in_or_app. left. exact Hin.
      + intros j Hj. rewrite map_app in Hj. cbn [map fst] in Hj. apply in_app_or in Hj. destruct Hj as [Hj|[<-|[]]].
        * destruct (Hdone j Hj) as [Hs Hp]. split; [exact Hs|]. intros c2' p' E1 E2 E3. rewrite map_app. apply in_or_app. left. apply (Hp c2' p' E1 E2 E3).
        * split.
          -- intros c2' E. rewrite Eg2 in E. injection E as <-. exists c2. split; [exact Hgi|]. split; [reflexivity|].
             destruct (c_parent_index c2) as [p|]; [|reflexivity]. destruct (bag_get b p) as [pc|]; [|reflexivity].
             rewrite Hnone. reflexivity.
          -- intros c2' p' E1 E2 E3. rewrite Eg2 in E1. injection E1 as <-. rewrite map_app. apply in_or_app. left. apply (Hpd p' E2 E3).
    - rewrite Hset.
      assert (Hpl : p < length b2) by (rewrite <- Hlen; unfold bag_get in Egp; apply nth_error_Some; rewrite Egp; discriminate).
      assert (Hpin : In p (map fst done)) by (apply Hpd; assumption).
      assert (Hpi : p <> i) by (intros ->; contradiction).
      split; [rewrite set_ctx_length by exact Hib; exact Hlen|]. split.
      + intros j Hj. rewrite set_ctx_other; [apply Hun; intros Hin; apply Hj; rewrite map_app; apply in_or_app; left; exact Hin|exact Hib|].
        intros ->. apply Hj. rewrite map_app. apply in_or_app. right. left. reflexivity.
      + intros j Hj. rewrite map_app in Hj. cbn [map fst] in Hj. apply in_app_or in Hj. destruct Hj as [Hj|[<-|[]]].
        * assert (Hji : j <> i) by (intros ->; contradiction).
          destruct (Hdone j Hj) as [Hs Hp]. split.
          -- intros c2' E. destruct (Hs c2' E) as (c & Hc & Hw & Hm). exists c.
             split; [rewrite set_ctx_other by assumption; exact Hc|]. split; [exact Hw|].
             destruct (c_parent_index c2') as [p'|] eqn:Ep'; [|exact Hm].
             destruct (Nat.eq_dec p' i) as [->|Hne].
             ++ exfalso. apply Hnd. apply (Hp c2' i E Ep'). lia.
             ++ rewrite set_ctx_other by assumption. exact Hm.
          -- intros c2' p' E1 E2 E3. rewrite map_app. apply in_or_app. left. apply (Hp c2' p' E1 E2 E3).
        * split.
          -- intros c2' E. rewrite Eg2 in E. injection E as <-. exists c'. split; [apply set_ctx_same; exact Hib|].
             split; [exact (upd_parent _ _ _ Eu)|]. rewrite Ep. rewrite set_ctx_other by assumption. rewrite Egp, Eu. reflexivity.
          -- intros c2' p' E1 E2 E3. rewrite Eg2 in E1. injection E1 as <-. rewrite map_app. apply in_or_app. left. apply (Hpd p' E2 E3).
  Qed.

  Lemma gpass_all : forall todo done b, topo_order b2 = done ++ todo -> GInv done b ->
    GInv (done ++ todo) (fold_left gstep todo b).
  Proof.
    induction todo as [|x t IH]; intros done b Ho HI; cbn [fold_left]; [rewrite app_nil_r; exact HI|].
    replace (done ++ x :: t) with ((done ++ [x]) ++ t) by (rewrite <- app_assoc; reflexivity).
    apply IH; [rewrite <- app_assoc; exact Ho|]. eapply gpass_step; eassumption.
  Qed.

  Theorem gpass_spec : forall j, j < length b2 -> gspec (fold_left gstep (topo_order b2) b2) j.
  Proof.
    intros j Hj.
    assert (H0 : GInv [] b2) by (split; [reflexivity|]; split; [reflexivity|intros x []]).
    pose proof (gpass_all (topo_order b2) [] b2 eq_refl H0) as (_ & _ & Hd). cbn [app] in Hd.
    apply Hd. apply in_map_iff. exists (j, depth b2 j). split; [reflexivity|]. apply topo_order_In. cbn. split; [exact Hj|reflexivity].
  Qed.
End GPass.

(* ---------- var_options are inherited by contexts that declare none (C14) ---------- *)
Lemma count_parents_ext b b' : parents_of b = parents_of b' -> forall f i, count_parents f b i = count_parents f b' i.
Proof.
  intros Hp. induction f as [|f IH]; intros i; [reflexivity|]. rewrite !count_S.
  pose proof (nth_parents b i) as H1. pose proof (nth_parents b' i) as H2. rewrite Hp in H1. rewrite H1 in H2.
  destruct (bag_get b i) as [c|], (bag_get b' i) as [c'|]; cbn in H2; try discriminate; [|reflexivity].
  injection H2 as H2. rewrite H2. destruct (c_parent_index c'); [rewrite IH; reflexivity|reflexivity].
Qed.
Lemma topo_order_ext b b' : parents_of b = parents_of b' -> topo_order b = topo_order b'.
Proof.
  intros Hp. unfold topo_order.
  assert (Hl : length b = length b') by (rewrite <- (map_length c_parent_index b), <- (map_length c_parent_index b'); unfold parents_of in Hp; rewrite Hp; reflexivity).
  rewrite Hl. f_equal. apply map_ext. intros i. rewrite (count_parents_ext b b' Hp). reflexivity.
Qed.

Lemma inherit_env_parents b nm : parents_of (inherit_env b nm) = parents_of b.
Proof.
  unfold inherit_env. destruct (snd nm); [reflexivity|].
  destruct (bag_get b (fst nm)) as [c|] eqn:Eg; [|reflexivity].
  destruct (c_parent_index c) as [p|] eqn:Ep; [|reflexivity]. destruct (bag_get b p) as [pc|]; [|reflexivity].
  destruct (c_env pc); [|reflexivity].
  unfold parents_of, set_ctx. rewrite map_app. cbn [map with_env c_parent_index].
  rewrite <- (firstn_skipn (fst nm) b) at 3. rewrite map_app. f_equal.
  unfold bag_get in Eg.
  assert (Hs : skipn (fst nm) b = c :: skipn (S (fst nm)) b).
  { clear -Eg. revert b Eg. induction (fst nm) as [|n IH]; intros b Eg; destruct b as [|x t]; cbn in *; try discriminate.
    - injection Eg as ->. reflexivity.
    - apply IH, Eg. }
  rewrite Hs. reflexivity.
Qed.
Lemma inherit_env_fold_parents l : forall b, parents_of (fold_left inherit_env l b) = parents_of b.
Proof. induction l as [|x t IH]; intros b; cbn [fold_left]; [reflexivity|]. rewrite IH. apply inherit_env_parents. Qed.

Definition upd_vo (c pc : context) : option context :=
  match c_var_options c with Some _ => None | None => Some (with_var_options c (c_var_options pc)) end.

Lemma ivo_is_gstep b nm : inherit_var_options b nm = gstep upd_vo b nm.
Proof.
  unfold inherit_var_options, gstep, upd_vo. destruct (snd nm); [reflexivity|].
  destruct (bag_get b (fst nm)) as [c|]; [|reflexivity].
  destruct (c_var_options c); [|reflexivity].
  destruct (c_parent_index c) as [p|]; [|reflexivity]. destruct (bag_get b p); reflexivity.
Qed.

Lemma env_pass_var_options l : forall b j, option_map c_var_options (bag_get (fold_left inherit_env l b) j) = option_map c_var_options (bag_get b j).
Proof.
  induction l as [|x t IH]; intros b j; cbn [fold_left]; [reflexivity|]. rewrite IH.
  unfold inherit_env. destruct (snd x); [reflexivity|].
  destruct (bag_get b (fst x)) as [c|] eqn:Eg; [|reflexivity].
  destruct (c_parent_index c) as [p|]; [|reflexivity]. destruct (bag_get b p) as [pc|]; [|reflexivity].
  destruct (c_env pc); [|reflexivity].
  assert (Hi : fst x < length b) by (unfold bag_get in Eg; apply nth_error_Some; rewrite Eg; discriminate).
  rewrite set_ctx_get by exact Hi. destruct (Nat.eqb j (fst x)) eqn:E; [|reflexivity].
  apply Nat.eqb_eq in E. subst j. rewrite Eg. reflexivity.
Qed.

Theorem finalize_var_options_inherited b0 bf : finalize b0 = Ok bf ->
  let b1 := if mem_str (S_ "default") (bag_names b0) then b0 else b0 ++ [context_default] in
  forall j c, bag_get bf j = Some c ->
    exists c1, bag_get b1 j = Some c1 /\
      c_var_options c =
      match c_var_options c1 with
      | Some own => Some own
      | None => match c_parent_index c with
                | Some p => match bag_get bf p with Some pc => c_var_options pc | None => None end
                | None => None end
      end.
Proof.
  unfold finalize. intros HF. cbv zeta.
  set (b1 := if mem_str (S_ "default") (bag_names b0) then b0 else b0 ++ [context_default]) in *.
  destruct (resolve_parents (bag_names b1) (map c_parent_name b1)) as [ps|] eqn:Er; [|discriminate].
  destruct (acyclic ps) eqn:Ea; unfold negb in HF; [|discriminate].
  injection HF as <-.
  assert (Hl : length ps = length b1) by (rewrite (resolve_parents_length _ _ _ Er); apply map_length).
  set (b2 := map (fun cp => with_parent_index (fst cp) (snd cp)) (combine b1 ps)).
  assert (Hp2 : parents_of b2 = ps) by (apply parents_of_combine, Hl).
  set (b3 := fold_left inherit_env (topo_order b2) b2).
  assert (Hp3 : parents_of b3 = parents_of b2) by (apply inherit_env_fold_parents).
  assert (Hac3 : acyclic (parents_of b3) = true) by (rewrite Hp3, Hp2; exact Ea).
  assert (Hord : topo_order b2 = topo_order b3) by (symmetry; apply topo_order_ext, Hp3).
  rewrite Hord.
  assert (Hfold : forall l b, fold_left inherit_var_options l b = fold_left (gstep upd_vo) l b).
  { induction l as [|x t IH]; intros b; cbn [fold_left]; [reflexivity|]. rewrite ivo_is_gstep. apply IH. }
  rewrite Hfold. intros j c Hg.
  assert (Hupd : forall c0 pc c', upd_vo c0 pc = Some c' -> c_parent_index c' = c_parent_index c0).
  { intros c0 pc c' E. unfold upd_vo in E. destruct (c_var_options c0); [discriminate|]. injection E as <-. reflexivity. }
  set (bf := fold_left (gstep upd_vo) (topo_order b3) b3) in *.
  assert (Hjl : j < length b3).
  { assert (Hlen : length bf = length b3).
    { unfold bf. assert (G : forall l b, length (fold_left (gstep upd_vo) l b) = length b).
      { induction l as [|x t IH]; intros b; cbn [fold_left]; [reflexivity|]. rewrite IH. unfold gstep.
        destruct (snd x); [reflexivity|]. destruct (bag_get b (fst x)) as [cx|] eqn:Ex; [|reflexivity].
        destruct (c_parent_index cx); [|reflexivity]. destruct (bag_get b n0); [|reflexivity]. destruct (upd_vo cx c0); [|reflexivity].
        apply set_ctx_length. unfold bag_get in Ex. apply nth_error_Some. rewrite Ex. discriminate. }
      apply G. }
    rewrite <- Hlen. unfold bag_get in Hg. apply nth_error_Some. rewrite Hg. discriminate. }
  destruct (bag_get b3 j) as [c3|] eqn:E3; [|exfalso; unfold bag_get in E3; apply nth_error_None in E3; lia].
  destruct (gpass_spec upd_vo Hupd b3 Hac3 j Hjl c3 E3) as (c' & Ec' & Hpar & Hm). fold bf in Ec', Hm.
  rewrite Hg in Ec'. injection Ec' as <-.
  (* c3's var_options and parent are those of b1's context *)
  pose proof (env_pass_var_options (topo_order b2) b2 j) as Hvo. fold b3 in Hvo. rewrite E3 in Hvo. cbn [option_map] in Hvo.
  unfold b2 in Hvo. rewrite (combine_get b1 ps Hl) in Hvo.
  destruct (bag_get b1 j) as [c1|] eqn:E1; [|discriminate]. destruct (nth_error ps j) as [pj|]; [|discriminate].
  cbn [option_map with_parent_index c_var_options] in Hvo. injection Hvo as Hvo.
  exists c1. split; [reflexivity|]. rewrite Hpar. rewrite <- Hvo.
  destruct (c_parent_index c3) as [p|].
  - destruct (bag_get bf p) as [pc|].
    + rewrite Hm. unfold upd_vo. destruct (c_var_options c3) as [o|] eqn:Eo; [exact Eo|]. reflexivity.
    + rewrite Hm. destruct (c_var_options c3); reflexivity.
  - rewrite Hm. destruct (c_var_options c3); reflexivity.
Qed.
