(* LayerFacts.v — C04: which layers a variable passes through, in which order, on its way to
   link commands/tasks (global env) and to a module's compile commands (module env). *)
From Coq Require Import Ascii String.
From Coq Require Import List Arith Bool NArith Lia.
Import ListNotations.
Require Import Laze.model.Base Laze.model.Env Laze.model.Expand Laze.model.Path Laze.model.Hash
        Laze.model.Allow Laze.model.Ninja Laze.model.Ctx Laze.model.Resolver Laze.model.Imports
        Laze.model.Generate Laze.proofs.BaseFacts Laze.proofs.EnvFacts.
Open Scope list_scope.

Definition wf_env (e : env) : Prop := NoDup (akeys e).

Lemma akeys_ainsert_In {V} k (v : V) l x : In x (akeys (ainsert k v l)) <-> x = k \/ In x (akeys l).
Proof.
  induction l as [|[k' v'] t IH]; cbn.
  - intuition.
  - destruct (str_eqb k k') eqn:E; cbn.
    + apply str_eqb_eq in E. subst. intuition.
    + rewrite IH. intuition.
Qed.

Lemma wf_env_insert k v e : wf_env e -> wf_env (env_insert k v e).
Proof.
  unfold wf_env, env_insert. induction e as [|[k' v'] t IH]; cbn; intros H.
  - constructor; [intros []|constructor].
  - inversion H; subst. destruct (str_eqb k k') eqn:E; cbn.
    + constructor; assumption.
    + constructor; [|apply IH; assumption].
      intros I. change (In k' (akeys (ainsert k v t))) in I. apply akeys_ainsert_In in I as [->|I].
      * rewrite str_eqb_refl in E. discriminate.
      * contradiction.
Qed.

Lemma env_get_insert k k' v e :
  env_get k (env_insert k' v e) = if str_eqb k k' then Some v else env_get k e.
Proof.
  destruct (str_eqb k k') eqn:E.
  - apply str_eqb_eq in E. subst. apply env_get_insert_same.
  - apply env_get_insert_other. apply str_eqb_neq. exact E.
Qed.

Lemma fold_merge_map {A} (f : A -> env) l : forall init,
  fold_left (fun e m => merge e (f m)) l init = fold_left merge (map f l) init.
Proof. induction l as [|x t IH]; intros init; cbn; [reflexivity|apply IH]. Qed.

Definition reserved (k : str) : bool :=
  str_eqb k (S_ "contexts") || str_eqb k (S_ "modules") || str_eqb k (S_ "relroot") || str_eqb k (S_ "relpath").

Lemma reserved_env_get b builder ms relpath e k :
  reserved k = false -> env_get k (reserved_env b builder ms relpath e) = env_get k e.
Proof.
  unfold reserved, reserved_env. intros H.
  apply orb_false_iff in H as [H H4]. apply orb_false_iff in H as [H H3]. apply orb_false_iff in H as [H1 H2].
  rewrite !env_get_insert, H1, H2, H3, H4. reflexivity.
Qed.

(* the global env, layer by layer, for every variable that is not one of the four reserved ones *)
Theorem global_env_layers b le builder bctx binary ms relpath cli_env k :
  wf_env (odflt [] (c_env bctx)) ->
  Forall (fun m => wf_env (m_env_global m)) ms ->
  match cli_env with Some ce => wf_env ce | None => True end ->
  reserved k = false ->
  env_get k (global_env b le builder bctx binary ms relpath cli_env) =
  fold_left merge_opt
    ([env_get k (build_context_env bctx binary)]
       ++ map (fun m => env_get k (m_env_global m)) (rev ms)
       ++ [match cli_env with Some ce => env_get k ce | None => None end])
    (env_get k (base_env le)).
Proof.
  intros Wc Wm Wcli Hr. unfold global_env.
  assert (Wb : wf_env (build_context_env bctx binary)).
  { unfold build_context_env. apply wf_env_insert, wf_env_insert. exact Wc. }
  set (g0 := merge (base_env le) (build_context_env bctx binary)).
  set (g1 := fold_left (fun e m => merge e (m_env_global m)) (rev ms) g0).
  assert (E1 : env_get k g1 = fold_left merge_opt (map (fun m => env_get k (m_env_global m)) (rev ms)) (env_get k g0)).
  { subst g1. rewrite fold_merge_map. rewrite merge_layers_keywise.
    - rewrite map_map. reflexivity.
    - apply Forall_forall. intros l Hl. apply in_map_iff in Hl as (m & <- & Hm).
      rewrite Forall_forall in Wm. apply Wm. apply in_rev. exact Hm. }
  assert (E0 : env_get k g0 = merge_opt (env_get k (base_env le)) (env_get k (build_context_env bctx binary))).
  { subst g0. apply merge_keywise. exact Wb. }
  rewrite fold_left_app. cbn [fold_left]. rewrite fold_left_app. cbn [fold_left].
  rewrite <- E0, <- E1.
  destruct cli_env as [ce|].
  - rewrite merge_keywise by exact Wcli. rewrite reserved_env_get by exact Hr. reflexivity.
  - rewrite reserved_env_get by exact Hr. destruct (env_get k g1); reflexivity.
Qed.

(* the reserved variables are inserted after the modules' envs: they replace whatever was there,
   and only -D can still merge onto them *)
Theorem global_env_reserved b le builder bctx binary ms relpath cli_env :
  match cli_env with Some ce => wf_env ce | None => True end ->
  let g := global_env b le builder bctx binary ms relpath cli_env in
  let cli k := match cli_env with Some ce => env_get k ce | None => None end in
  env_get (S_ "relpath") g = merge_opt (Some (Single relpath)) (cli (S_ "relpath")) /\
  env_get (S_ "relroot") g = merge_opt (Some (Single (relroot relpath))) (cli (S_ "relroot")) /\
  env_get (S_ "contexts") g = merge_opt (Some (EList (map c_name (ctxs_of b (chain b builder))))) (cli (S_ "contexts")).
Proof.
  intros Wcli. cbn zeta. unfold global_env. destruct cli_env as [ce|].
  - rewrite !merge_keywise by exact Wcli. unfold reserved_env. rewrite !env_get_insert. cbn. auto.
  - unfold reserved_env. rewrite !env_get_insert. cbn. auto.
Qed.

(* ---------- module env ---------- *)
Lemma build_env_layers genv ms provs self k :
  str_eqb k (S_ "notify") = false ->
  Forall (fun m => wf_env (m_env_export m)) (imports_postorder ms provs self) ->
  wf_env (m_env_local self) ->
  forall e bd, build_env genv ms provs self = Ok (e, bd) ->
  env_get k e =
  fold_left merge_opt
    (map (fun d => env_get k (m_env_export d)) (imports_postorder ms provs self) ++ [env_get k (m_env_local self)])
    (env_get k genv).
Proof.
  intros Hk Wexp Wloc e bd. unfold build_env.
  set (deps := imports_postorder ms provs self) in *.
  set (step := fun (acc : res (env * option (list module))) (d : module) => _).
  assert (G : forall l acc e0 bd0 e1 bd1,
             Forall (fun m => wf_env (m_env_export m)) l ->
             acc = Ok (e0, bd0) -> fold_left step l acc = Ok (e1, bd1) ->
             env_get k e1 = fold_left merge_opt (map (fun d => env_get k (m_env_export d)) l) (env_get k e0)).
  { induction l as [|d t IH]; intros acc e0 bd0 e1 bd1 W Ea Hf.
    - cbn in Hf. subst acc. inversion Hf; subst. reflexivity.
    - inversion W as [|? ? Wd Wt]; subst. cbn [fold_left map] in *.
      remember (step (Ok (e0, bd0)) d) as acc1 eqn:Es.
      unfold step in Es. cbn [rbind] in Es.
      destruct (m_notify_all self) eqn:En.
      + cbn [rbind] in Es. rewrite (IH acc1 _ _ e1 bd1 Wt Es Hf).
        rewrite merge_keywise by exact Wd. reflexivity.
      + destruct (env_get (S_ "notify") (merge e0 (m_env_export d))) as [[s|l]|] eqn:Eg; cbn [rbind] in Es.
        * rewrite (IH acc1 _ _ e1 bd1 Wt Es Hf). rewrite env_get_insert, Hk.
          rewrite merge_keywise by exact Wd. reflexivity.
        * rewrite (IH acc1 _ _ e1 bd1 Wt Es Hf). rewrite env_get_insert, Hk.
          rewrite merge_keywise by exact Wd. reflexivity.
        * rewrite (IH acc1 _ _ e1 bd1 Wt Es Hf). rewrite env_get_insert, Hk.
          rewrite merge_keywise by exact Wd. reflexivity. }
  intros Hb.
  destruct (fold_left step deps (Ok (genv, None))) as [[e1 bd1]| | |] eqn:Ef; cbn [rbind] in Hb; try discriminate.
  injection Hb as He Hbd. subst e. rewrite merge_keywise by exact Wloc.
  rewrite fold_left_app. cbn [fold_left].
  rewrite <- (G deps (Ok (genv, None)) genv None e1 bd1 Wexp eq_refl Ef).
  assert (Hk' : forall x, x = S_ "notify" -> str_eqb k x = false) by (intros; subst; exact Hk).
  destruct (m_notify_all self); [|reflexivity]. rewrite env_get_insert.
  match goal with |- context [str_eqb k ?x] => rewrite (Hk' x eq_refl) end. reflexivity.
Qed.

(* ---------- C20: -D versus "at the end of the app's global env" ---------- *)
Lemma merge_opt_assoc a g c :
  ~ (is_list a = true /\ is_single g = true /\ is_list c = true) ->
  merge_opt (merge_opt a g) c = merge_opt a (merge_opt g c).
Proof.
  intros H. destruct a as [[a|a]|], g as [[g|g]|], c as [[c|c]|]; cbn in *; try reflexivity.
  - exfalso. apply H. auto.
  - rewrite app_assoc. reflexivity.
Qed.

(* the -D layer merged onto the layers below equals merging it into the last module layer first,
   for every variable where that is associative *)
Theorem define_as_last_layer acc (layers : list (option envkey)) g c :
  ~ (is_list (fold_left merge_opt layers acc) = true /\ is_single g = true /\ is_list c = true) ->
  fold_left merge_opt (layers ++ [g] ++ [c]) acc = fold_left merge_opt (layers ++ [merge_opt g c]) acc.
Proof.
  intros H. rewrite !fold_left_app. cbn [fold_left]. apply merge_opt_assoc. exact H.
Qed.

Example define_not_associative :
  merge_opt (merge_opt (Some (EList [S_ "ctx"])) (Some (Single (S_ "app")))) (Some (EList [S_ "cli"]))
  <> merge_opt (Some (EList [S_ "ctx"])) (merge_opt (Some (Single (S_ "app"))) (Some (EList [S_ "cli"]))).
Proof. cbn. discriminate. Qed.
