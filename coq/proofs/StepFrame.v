(* StepFrame.v — C05 at the level of statements: what the module loop emits for a module is a function
   of the module, ITS environment, its build-dep modules, and the exported files / download
   directories of the modules it depends on — not of the statements or objects accumulated so far,
   and not of any other module's environment.
   Technique: a simulation between the loop on the real state and the same step on a state whose
   statement and object lists are empty. *)
From Coq Require Import Ascii String.
From Coq Require Import List Arith Bool NArith Lia.
Import ListNotations.
Require Import Laze.model.Base Laze.model.Env Laze.model.Expand Laze.model.Path Laze.model.Hash Laze.model.Ninja
               Laze.model.Ctx Laze.model.Imports Laze.model.Generate.
Require Import Laze.proofs.BaseFacts Laze.proofs.StmtFacts Laze.proofs.WfFacts.
Open Scope list_scope.

(* inserting a list of statements into a statement set *)
Definition ins (ss acc : list stmt) : list stmt := fold_left (fun a e => sset_insert e a) ss acc.

Lemma has_text_existsb s l :
  existsb (fun x => str_eqb (show_stmt x) (show_stmt s)) l = true <-> In (show_stmt s) (map show_stmt l).
Proof.
  rewrite existsb_exists. split.
  - intros (y & Hy & Ey). apply str_eqb_eq in Ey. rewrite <- Ey. apply in_map, Hy.
  - intros Hin. apply in_map_iff in Hin as (y & Ey & Hy). exists y. split; [exact Hy|apply str_eqb_eq, Ey].
Qed.

Lemma sset_insert_present s l : In (show_stmt s) (map show_stmt l) -> sset_insert s l = l.
Proof. intros Hin. unfold sset_insert. apply has_text_existsb in Hin. rewrite Hin. reflexivity. Qed.
Lemma sset_insert_absent s l : ~ In (show_stmt s) (map show_stmt l) -> sset_insert s l = l ++ [s].
Proof.
  intros Hn. unfold sset_insert. destruct (existsb _ l) eqn:E; [|reflexivity].
  exfalso. apply Hn. apply has_text_existsb. exact E.
Qed.

Lemma ins_app a b acc : ins (a ++ b) acc = ins b (ins a acc).
Proof. unfold ins. apply fold_left_app. Qed.

(* inserting into the emitted list first, or into the accumulated set directly, is the same *)
Lemma ins_sset e R E0 : ins (sset_insert e R) E0 = sset_insert e (ins R E0).
Proof.
  destruct (in_dec (list_eq_dec ascii_dec) (show_stmt e) (map show_stmt R)) as [Hin|Hn].
  - rewrite (sset_insert_present e R Hin). symmetry. apply sset_insert_present.
    unfold ins. apply sset_fold_text. right. exact Hin.
  - rewrite (sset_insert_absent e R Hn), ins_app. reflexivity.
Qed.

Section Sim.
  Variable K : str -> Prop.          (* the keys of the exported-files table on which both sides agree *)
  Variable E0 : list stmt.
  Variable O0 : list str.

  Definition Sim (s r : loopst) : Prop :=
    ls_entries s = ins (ls_entries r) E0 /\ ls_objects s = O0 ++ ls_objects r /\
    ls_dldirs s = ls_dldirs r /\
    (forall n, K n -> alookup n (ls_depfiles s) = alookup n (ls_depfiles r)).

  Lemma sim_add_entry e s r : Sim s r -> Sim (add_entry e s) (add_entry e r).
  Proof.
    intros (He & Ho & Hd & Hk). unfold Sim, add_entry. cbn [ls_entries ls_objects ls_dldirs ls_depfiles].
    split; [rewrite He; symmetry; apply ins_sset|]. split; [exact Ho|]. split; [exact Hd|exact Hk].
  Qed.
  Lemma sim_add_object o s r : Sim s r -> Sim (add_object o s) (add_object o r).
  Proof.
    intros (He & Ho & Hd & Hk). unfold Sim, add_object. cbn [ls_entries ls_objects ls_dldirs ls_depfiles].
    split; [exact He|]. split; [rewrite Ho, app_assoc; reflexivity|]. split; [exact Hd|exact Hk].
  Qed.
  Lemma sim_add_dldir a b s r : Sim s r -> Sim (add_dldir a b s) (add_dldir a b r).
  Proof.
    intros (He & Ho & Hd & Hk). unfold Sim, add_dldir. cbn [ls_entries ls_objects ls_dldirs ls_depfiles].
    split; [exact He|]. split; [exact Ho|]. split; [rewrite Hd; reflexivity|exact Hk].
  Qed.
  Lemma sim_add_depfiles name files s r : K name -> Sim s r -> Sim (add_depfiles name files s) (add_depfiles name files r).
  Proof.
    intros Hkn (He & Ho & Hd & Hk). unfold Sim, add_depfiles. cbn [ls_entries ls_objects ls_dldirs ls_depfiles].
    split; [exact He|]. split; [exact Ho|]. split; [exact Hd|].
    intros n Hn. destruct (str_eqb n name) eqn:En.
    - apply str_eqb_eq in En. subst n. rewrite !alookup_ainsert_same, (Hk name Hkn). reflexivity.
    - apply str_eqb_neq in En. rewrite !alookup_ainsert_other by exact En. apply Hk, Hn.
  Qed.
  Lemma sim_fold_entries l : forall s r, Sim s r ->
    Sim (fold_left (fun s e => add_entry e s) l s) (fold_left (fun s e => add_entry e s) l r).
  Proof. induction l as [|e t IH]; intros s r HS; cbn [fold_left]; [exact HS|]. apply IH, sim_add_entry, HS. Qed.
End Sim.

Ltac kill_fold HF t := exfalso; clear -HF; induction t; cbn in HF; [discriminate|auto].

Section Steps.
  Variable H : list ascii -> N.
  Variable EV : str -> evr.
  Variable K : str -> Prop.
  Variable E0 : list stmt.
  Variable O0 : list str.
  Notation Sim := (Sim K E0 O0).

  Lemma compile_source_sim rules mr flat objdir bn an srcdir combined dh local tag s r source s' :
    compile_source H EV rules mr flat objdir bn an srcdir combined dh local tag s source = Ok s' -> Sim s r ->
    exists r', compile_source H EV rules mr flat objdir bn an srcdir combined dh local tag r source = Ok r' /\ Sim s' r'.
  Proof.
    unfold compile_source. intros HC HS. revert HC.
    destruct (expand_eval EV flat PEmpty (path_push srcdir source)) as [srcpath| | |]; cbn [rbind]; try discriminate.
    match goal with |- rbind ?X _ = _ -> _ => destruct X as [[rule nrule]| | |] end; cbn [rbind]; try discriminate.
    destruct (r_out rule) as [rout|]; cbn [rbind]; try discriminate.
    intros [= <-]. eexists. split; [reflexivity|].
    destruct local as [ld|]; [|destruct tag as [tf|]].
    - apply sim_add_entry, sim_add_object, sim_add_entry, HS.
    - apply sim_add_entry, sim_add_object, sim_add_entry, HS.
    - apply sim_add_object, sim_add_entry, HS.
  Qed.

  Lemma sources_pass_sim rules mr flat objdir bn an srcdir combined dh local tag : forall srcs s r s',
    fold_left (fun acc source => rbind acc (fun s =>
                 compile_source H EV rules mr flat objdir bn an srcdir combined dh local tag s source)) srcs (Ok s) = Ok s' ->
    Sim s r ->
    exists r', fold_left (fun acc source => rbind acc (fun s =>
                 compile_source H EV rules mr flat objdir bn an srcdir combined dh local tag s source)) srcs (Ok r) = Ok r' /\ Sim s' r'.
  Proof.
    induction srcs as [|src t IH]; intros s r s' HF HS; cbn [fold_left] in *.
    - injection HF as <-. exists r. split; [reflexivity|exact HS].
    - cbn [rbind] in *.
      destruct (compile_source H EV rules mr flat objdir bn an srcdir combined dh local tag s src) as [s1| | |] eqn:Ec;
        try (kill_fold HF t).
      destruct (compile_source_sim _ _ _ _ _ _ _ _ _ _ _ _ _ _ _ Ec HS) as (r1 & Er & HS1). rewrite Er.
      exact (IH _ _ _ HF HS1).
  Qed.

  Lemma rules_pass_sim rules flat : forall srcs mr s r mr' s',
    fold_left (fun acc source => rbind acc (fun '(mr, s) =>
                match extension source with
                | None => Err e_missing_ext
                | Some e =>
                    match alookup e rules with
                    | None => Err e_no_rule
                    | Some rule =>
                        rbind (to_ninja H EV flat rule) (fun nr =>
                        Ok (match alookup e mr with Some _ => mr | None => mr ++ [(e, nr)] end,
                            add_entry (SRule nr) s))
                    end
                end)) srcs (Ok (mr, s)) = Ok (mr', s') ->
    Sim s r ->
    exists r', fold_left (fun acc source => rbind acc (fun '(mr, s) =>
                match extension source with
                | None => Err e_missing_ext
                | Some e =>
                    match alookup e rules with
                    | None => Err e_no_rule
                    | Some rule =>
                        rbind (to_ninja H EV flat rule) (fun nr =>
                        Ok (match alookup e mr with Some _ => mr | None => mr ++ [(e, nr)] end,
                            add_entry (SRule nr) s))
                    end
                end)) srcs (Ok (mr, r)) = Ok (mr', r') /\ Sim s' r'.
  Proof.
    induction srcs as [|src t IH]; intros mr s r mr' s' HF HS; cbn [fold_left] in *.
    - injection HF as <- <-. exists r. split; [reflexivity|exact HS].
    - cbn [rbind] in *.
      destruct (extension src) as [e|]; [|kill_fold HF t].
      destruct (alookup e rules) as [rule|]; [|kill_fold HF t].
      destruct (to_ninja H EV flat rule) as [nr| | |]; cbn [rbind] in *; try (kill_fold HF t).
      apply (IH _ _ _ _ _ HF). apply sim_add_entry, HS.
  Qed.
End Steps.

Section Tail.
  Variable H : list ascii -> N.
  Variable EV : str -> evr.

  (* the part of module_step after the download directory lookup, as a function of its own *)
  Definition step_tail (rules : list (str * rule)) (ms : list module) (global_deps : list module)
             (objdir builder_name binary_name : str) (m : module) (mdeps : option (list module))
             (srcdir : str) (flat : fenv) (st : loopst) (src_tagfile : option str) : res loopst :=
      let have_global := match global_deps with [] => false | _ => true end in
      let mdeps1 := if have_global && negb (m_is_global_build_dep m)
                    then Some (fold_left (fun acc d => mset_insert d acc) (odflt [] mdeps) global_deps)
                    else mdeps in
      rbind (match mdeps1 with
             | Some l => rmap Some
                 (Ok (fold_left (fun files d => iset_union files (odflt [] (alookup (m_name d) (ls_depfiles st)))) l []))
             | None => Ok None end) (fun imported0 =>
      let imported := match imported0 with Some [] => None | o => o end in
      let st1 := match m_build_dep_files m with
                 | Some l => add_depfiles (m_name m) l st
                 | None => st end in
      let local_deps := m_build_dep_files m in
      let combined := match imported, m_build_dep_files m with
                      | None, None => None
                      | _, _ => Some (sort_paths (odflt [] imported ++ odflt [] (m_build_dep_files m))) end in
      let deps_hash := match combined with Some l => H (enc_usize (length l) ++ flat_map enc_path l) | None => 0%N end in
      match m_build m with
      | Some cb =>
          rbind (expand_eval EV flat PEmpty (intercalate (S_ " && ") (cb_cmd cb))) (fun cmd =>
          let r := named H {| nr_name := S_ "BUILD"; nr_command := cmd; nr_description := Some (S_ "BUILD ${out}");
                              nr_export := None; nr_deps := cb_gcc_deps cb; nr_rspfile := None;
                              nr_rspfile_content := None; nr_pool := None; nr_always := false |} in
          rbind (rmapM (fun s => expand_eval EV flat PEmpty (path_push srcdir s)) (all_sources m ms)) (fun srcs =>
          rbind (rmapM (fun o => expand_eval EV flat PEmpty o) (odflt [] (cb_out cb))) (fun outs =>
          let outs_hash := H (flat_map enc_path outs) in
          let b := {| nb_rule := nr_name r; nb_inputs := Some srcs; nb_outs := sort_paths outs;
                      nb_deps := option_map sort_paths combined; nb_env := None; nb_always := false |} in
          let alias_name := S_ "outs_" ++ show_dec outs_hash in
          let st2 := add_depfiles (m_name m) [alias_name] st1 in
          Ok (add_entry (SBuild (alias_multiple_build outs alias_name)) (add_entry (SBuild b) (add_entry (SRule r) st2))))))
      | None =>
          rbind (fold_left (fun acc source => rbind acc (fun '(mr, s) =>
                    match extension source with
                    | None => Err e_missing_ext
                    | Some ext =>
                        match alookup ext rules with
                        | None => Err e_no_rule
                        | Some rule =>
                            rbind (to_ninja H EV flat rule) (fun nr =>
                            Ok (match alookup ext mr with Some _ => mr | None => mr ++ [(ext, nr)] end,
                                add_entry (SRule nr) s))
                        end
                    end)) (all_sources m ms) (Ok ([], st1))) (fun '(module_rules, st2) =>
          fold_left (fun acc source => rbind acc (fun s =>
                       compile_source H EV rules module_rules flat objdir builder_name binary_name srcdir
                                      combined deps_hash local_deps src_tagfile s source))
                    (all_sources m ms) (Ok st2))
      end).

  Lemma module_step_unfold rules merge_opts ms gdeps objdir bn an st m menv mdeps :
    module_step H EV rules merge_opts ms gdeps objdir bn an st (m, menv, mdeps) =
    match m_srcdir m with
    | None => Ok st
    | Some srcdir =>
      rbind (flatten_with_opts_option merge_opts menv) (fun flat =>
      rbind (match m_download m with
             | Some d => download_stmts H EV rules flat m srcdir d
             | None => Ok [] end) (fun dl_stmts =>
      let st := fold_left (fun s e => add_entry e s) dl_stmts st in
      rbind (match m_download m with
             | Some d => Ok (st, None)
             | None => rmap (fun sx => (st, containing_path (ls_dldirs st) sx)) (expand_eval EV flat PIgnore srcdir)
             end) (fun '(st, src_tagfile) =>
      step_tail rules ms gdeps objdir bn an m mdeps srcdir flat st src_tagfile)))
    end.
  Proof. reflexivity. Qed.
End Tail.

Lemma fold_imported_ext (f g : module -> list str) : forall (l : list module) acc,
  (forall d, In d l -> f d = g d) ->
  fold_left (fun files d => iset_union files (f d)) l acc = fold_left (fun files d => iset_union files (g d)) l acc.
Proof.
  induction l as [|d t IH]; intros acc Hfg; cbn [fold_left]; [reflexivity|].
  rewrite (Hfg d (or_introl eq_refl)). apply IH. intros x Hx. apply Hfg. right. exact Hx.
Qed.

Lemma mset_fold_In (gd : list module) : forall acc y,
  In y (fold_left (fun acc d => mset_insert d acc) gd acc) -> In y acc \/ In y gd.
Proof.
  induction gd as [|d t IH]; intros acc y Hy; cbn [fold_left] in Hy; [left; exact Hy|].
  apply IH in Hy. destruct Hy as [Hy|Hy]; [|right; right; exact Hy].
  apply mset_insert_In in Hy. destruct Hy as [->|Hy]; [right; left; reflexivity|left; exact Hy].
Qed.

Section TailSim.
  Variable H : list ascii -> N.
  Variable EV : str -> evr.
  Variable K : str -> Prop.
  Variable E0 : list stmt.
  Variable O0 : list str.
  Notation Sim := (Sim K E0 O0).

  (* the keys a module reads in the exported-files table: its own, its build deps', the global ones' *)
  Definition reads_ok (m : module) (mdeps : option (list module)) (gdeps : list module) : Prop :=
    K (m_name m) /\ (forall d, In d (odflt [] mdeps) -> K (m_name d)) /\
    (m_is_global_build_dep m = false -> forall d, In d gdeps -> K (m_name d)).

  Lemma step_tail_sim rules ms gdeps objdir bn an m mdeps srcdir flat s r tag s' :
    step_tail H EV rules ms gdeps objdir bn an m mdeps srcdir flat s tag = Ok s' -> Sim s r -> reads_ok m mdeps gdeps ->
    exists r', step_tail H EV rules ms gdeps objdir bn an m mdeps srcdir flat r tag = Ok r' /\ Sim s' r'.
  Proof.
    unfold step_tail. intros HT HS (Kown & Kdeps & Kg). revert HT.
    set (mdeps1 := if _ && _ then _ else mdeps).
    assert (Hm1 : forall l, mdeps1 = Some l -> forall d, In d l -> K (m_name d)).
    { unfold mdeps1. intros l El d Hd.
      destruct (match gdeps with [] => false | _ => true end && negb (m_is_global_build_dep m)) eqn:Eg.
      - injection El as <-. apply mset_fold_In in Hd. destruct Hd as [Hd|Hd]; [|apply Kdeps, Hd].
        apply Kg; [|exact Hd]. apply andb_prop in Eg. destruct (m_is_global_build_dep m); [destruct Eg; discriminate|reflexivity].
      - apply Kdeps. rewrite El. exact Hd. }
    assert (Himp : match mdeps1 with
                   | Some l => rmap Some (Ok (fold_left (fun files d => iset_union files (odflt [] (alookup (m_name d) (ls_depfiles s)))) l []))
                   | None => Ok None end =
                   match mdeps1 with
                   | Some l => rmap Some (Ok (fold_left (fun files d => iset_union files (odflt [] (alookup (m_name d) (ls_depfiles r)))) l []))
                   | None => Ok None end).
    { destruct mdeps1 as [l|]; [|reflexivity]. f_equal. f_equal. apply fold_imported_ext.
      intros d Hd. rewrite (proj2 (proj2 (proj2 HS)) (m_name d) (Hm1 l eq_refl d Hd)). reflexivity. }
    rewrite Himp. clear Himp.
    match goal with |- rbind ?X _ = _ -> _ => destruct X as [imported0| | |] end; cbn [rbind]; try discriminate.
    match goal with |- context [match m_build_dep_files m with Some l => add_depfiles (m_name m) l s | None => s end] =>
      set (s1 := match m_build_dep_files m with Some l => add_depfiles (m_name m) l s | None => s end);
      set (r1 := match m_build_dep_files m with Some l => add_depfiles (m_name m) l r | None => r end) end.
    assert (HS1 : Sim s1 r1).
    { unfold s1, r1. destruct (m_build_dep_files m); [apply sim_add_depfiles; assumption|exact HS]. }
    clearbody s1 r1.
    destruct (m_build m) as [cb|].
    - destruct (expand_eval EV flat PEmpty (intercalate (S_ " && ") (cb_cmd cb))) as [cmd| | |]; cbn [rbind]; try discriminate.
      destruct (rmapM (fun s0 => expand_eval EV flat PEmpty (path_push srcdir s0)) (all_sources m ms)) as [srcs| | |]; cbn [rbind]; try discriminate.
      destruct (rmapM (fun o => expand_eval EV flat PEmpty o) (odflt [] (cb_out cb))) as [outs| | |]; cbn [rbind]; try discriminate.
      intros [= <-]. eexists. split; [reflexivity|].
      repeat apply sim_add_entry. apply sim_add_depfiles; assumption.
    - match goal with |- rbind ?X _ = _ -> _ => destruct X as [[mr s2]| | |] eqn:E1 end; cbn [rbind]; try discriminate.
      intros HF.
      destruct (rules_pass_sim H EV K E0 O0 _ _ _ _ _ _ _ _ E1 HS1) as (r2 & Er2 & HS2). rewrite Er2. cbn [rbind].
      exact (sources_pass_sim H EV K E0 O0 _ _ _ _ _ _ _ _ _ _ _ _ _ _ _ HF HS2).
  Qed.

  Theorem module_step_sim rules merge_opts ms gdeps objdir bn an s r m menv mdeps s' :
    module_step H EV rules merge_opts ms gdeps objdir bn an s (m, menv, mdeps) = Ok s' -> Sim s r -> reads_ok m mdeps gdeps ->
    exists r', module_step H EV rules merge_opts ms gdeps objdir bn an r (m, menv, mdeps) = Ok r' /\ Sim s' r'.
  Proof.
    rewrite !module_step_unfold. intros HM HS HR. revert HM.
    destruct (m_srcdir m) as [srcdir|]; [|intros [= <-]; exists r; split; [reflexivity|exact HS]].
    destruct (flatten_with_opts_option merge_opts menv) as [flat| | |]; cbn [rbind]; try discriminate.
    match goal with |- rbind ?X _ = _ -> _ => destruct X as [dl_stmts| | |] end; cbn [rbind]; try discriminate.
    cbv zeta.
    pose proof (sim_fold_entries K E0 O0 dl_stmts _ _ HS) as HS0.
    set (s0 := fold_left (fun s e => add_entry e s) dl_stmts s) in *.
    set (r0 := fold_left (fun s e => add_entry e s) dl_stmts r) in *.
    clearbody s0 r0.
    destruct (m_download m) as [d|].
    - cbn [rbind]. intros HT. exact (step_tail_sim _ _ _ _ _ _ _ _ _ _ _ _ _ _ HT HS0 HR).
    - rewrite (proj1 (proj2 (proj2 HS0))).
      unfold rmap. destruct (expand_eval EV flat PIgnore srcdir) as [sx| | |]; cbn [rbind]; try discriminate.
      intros HT. exact (step_tail_sim _ _ _ _ _ _ _ _ _ _ _ _ _ _ HT HS0 HR).
  Qed.
End TailSim.

(* ---------- the exported-files table: a step writes its own module's entry only ---------- *)
Section DepFrame.
  Variable H : list ascii -> N.
  Variable EV : str -> evr.

  Lemma compile_source_depfiles rules mr flat objdir bn an srcdir combined dh local tag s source s' :
    compile_source H EV rules mr flat objdir bn an srcdir combined dh local tag s source = Ok s' ->
    ls_depfiles s' = ls_depfiles s.
  Proof.
    unfold compile_source.
    destruct (expand_eval EV flat PEmpty (path_push srcdir source)) as [srcpath| | |]; cbn [rbind]; try discriminate.
    match goal with |- rbind ?X _ = _ -> _ => destruct X as [[rule nrule]| | |] end; cbn [rbind]; try discriminate.
    destruct (r_out rule) as [rout|]; cbn [rbind]; try discriminate.
    intros [= <-]. destruct local; [|destruct tag]; reflexivity.
  Qed.

  Lemma sources_pass_depfiles rules mr flat objdir bn an srcdir combined dh local tag : forall srcs s s',
    fold_left (fun acc source => rbind acc (fun s =>
                 compile_source H EV rules mr flat objdir bn an srcdir combined dh local tag s source)) srcs (Ok s) = Ok s' ->
    ls_depfiles s' = ls_depfiles s.
  Proof.
    induction srcs as [|src t IH]; intros s s' HF; cbn [fold_left] in *; [injection HF as <-; reflexivity|].
    cbn [rbind] in *.
    destruct (compile_source H EV rules mr flat objdir bn an srcdir combined dh local tag s src) as [s1| | |] eqn:Ec;
      try (kill_fold HF t).
    rewrite (IH _ _ HF). exact (compile_source_depfiles _ _ _ _ _ _ _ _ _ _ _ _ _ _ Ec).
  Qed.

  Lemma rules_pass_depfiles rules flat : forall srcs mr s mr' s',
    fold_left (fun acc source => rbind acc (fun '(mr, s) =>
                match extension source with
                | None => Err e_missing_ext
                | Some e =>
                    match alookup e rules with
                    | None => Err e_no_rule
                    | Some rule =>
                        rbind (to_ninja H EV flat rule) (fun nr =>
                        Ok (match alookup e mr with Some _ => mr | None => mr ++ [(e, nr)] end,
                            add_entry (SRule nr) s))
                    end
                end)) srcs (Ok (mr, s)) = Ok (mr', s') ->
    ls_depfiles s' = ls_depfiles s.
  Proof.
    induction srcs as [|src t IH]; intros mr s mr' s' HF; cbn [fold_left] in *; [injection HF as _ <-; reflexivity|].
    cbn [rbind] in *.
    destruct (extension src) as [e|]; [|kill_fold HF t].
    destruct (alookup e rules) as [rule|]; [|kill_fold HF t].
    destruct (to_ninja H EV flat rule) as [nr| | |]; cbn [rbind] in *; try (kill_fold HF t).
    rewrite (IH _ _ _ _ HF). reflexivity.
  Qed.

  Definition dframe (name : str) (st st' : loopst) : Prop :=
    forall n, n <> name -> alookup n (ls_depfiles st') = alookup n (ls_depfiles st).
  Lemma dframe_refl name st : dframe name st st. Proof. intros n _. reflexivity. Qed.
  Lemma dframe_add name files st : dframe name st (add_depfiles name files st).
  Proof. intros n Hn. unfold add_depfiles. cbn [ls_depfiles]. apply alookup_ainsert_other, Hn. Qed.
  Lemma dframe_trans name a b c : dframe name a b -> dframe name b c -> dframe name a c.
  Proof. intros F1 F2 n Hn. rewrite (F2 n Hn). apply F1, Hn. Qed.
  Lemma dframe_eq name a b : ls_depfiles b = ls_depfiles a -> dframe name a b.
  Proof. intros E n _. rewrite E. reflexivity. Qed.

  Lemma step_tail_dframe rules ms gdeps objdir bn an m mdeps srcdir flat s tag s' :
    step_tail H EV rules ms gdeps objdir bn an m mdeps srcdir flat s tag = Ok s' -> dframe (m_name m) s s'.
  Proof.
    unfold step_tail.
    match goal with |- rbind ?X _ = _ -> _ => destruct X as [imported0| | |] end; cbn [rbind]; try discriminate.
    match goal with |- context [match m_build_dep_files m with Some l => add_depfiles (m_name m) l s | None => s end] =>
      set (s1 := match m_build_dep_files m with Some l => add_depfiles (m_name m) l s | None => s end) end.
    assert (F1 : dframe (m_name m) s s1).
    { unfold s1. destruct (m_build_dep_files m); [apply dframe_add|apply dframe_refl]. }
    clearbody s1.
    destruct (m_build m) as [cb|].
    - destruct (expand_eval EV flat PEmpty (intercalate (S_ " && ") (cb_cmd cb))) as [cmd| | |]; cbn [rbind]; try discriminate.
      destruct (rmapM (fun s0 => expand_eval EV flat PEmpty (path_push srcdir s0)) (all_sources m ms)) as [srcs| | |]; cbn [rbind]; try discriminate.
      destruct (rmapM (fun o => expand_eval EV flat PEmpty o) (odflt [] (cb_out cb))) as [outs| | |]; cbn [rbind]; try discriminate.
      intros [= <-]. eapply dframe_trans; [exact F1|]. intros n Hn. unfold add_entry, add_depfiles. cbn [ls_depfiles].
      apply alookup_ainsert_other, Hn.
    - match goal with |- rbind ?X _ = _ -> _ => destruct X as [[mr s2]| | |] eqn:E1 end; cbn [rbind]; try discriminate.
      intros HF. apply rules_pass_depfiles in E1. apply sources_pass_depfiles in HF.
      eapply dframe_trans; [exact F1|]. apply dframe_eq. congruence.
  Qed.

  Lemma fold_entries_depfiles l : forall st, ls_depfiles (fold_left (fun s e => add_entry e s) l st) = ls_depfiles st.
  Proof. induction l as [|e t IH]; intros st; cbn [fold_left]; [reflexivity|]. rewrite IH. reflexivity. Qed.

  Theorem module_step_dframe rules merge_opts ms gdeps objdir bn an s m menv mdeps s' :
    module_step H EV rules merge_opts ms gdeps objdir bn an s (m, menv, mdeps) = Ok s' -> dframe (m_name m) s s'.
  Proof.
    rewrite module_step_unfold.
    destruct (m_srcdir m) as [srcdir|]; [|intros [= <-]; apply dframe_refl].
    destruct (flatten_with_opts_option merge_opts menv) as [flat| | |]; cbn [rbind]; try discriminate.
    match goal with |- rbind ?X _ = _ -> _ => destruct X as [dl_stmts| | |] end; cbn [rbind]; try discriminate.
    cbv zeta.
    destruct (m_download m) as [d|].
    - cbn [rbind]. intros HT. apply step_tail_dframe in HT. intros n Hn. rewrite (HT n Hn).
      rewrite fold_entries_depfiles. reflexivity.
    - unfold rmap. destruct (expand_eval EV flat PIgnore srcdir) as [sx| | |]; cbn [rbind]; try discriminate.
      intros HT. apply step_tail_dframe in HT. intros n Hn. rewrite (HT n Hn), fold_entries_depfiles. reflexivity.
  Qed.

  (* the selected modules enter a step through their names only (guards of optional sources), the
     global build deps only for modules that are not global build deps themselves *)
  Lemma all_sources_names m ms ms' : map m_name ms' = map m_name ms -> all_sources m ms' = all_sources m ms.
  Proof.
    intros Hn. unfold all_sources, optional_sources. f_equal. destruct (m_sources_optional m) as [l|]; [|reflexivity].
    apply flat_map_ext. intros kv.
    destruct (find_sel (fst kv) ms) as [x|] eqn:E1; destruct (find_sel (fst kv) ms') as [y|] eqn:E2; try reflexivity; exfalso.
    - assert (X : find_sel (fst kv) ms <> None) by (rewrite E1; discriminate).
      apply find_sel_selected in X. rewrite <- Hn in X. apply find_sel_selected in X. congruence.
    - assert (X : find_sel (fst kv) ms' <> None) by (rewrite E2; discriminate).
      apply find_sel_selected in X. rewrite Hn in X. apply find_sel_selected in X. congruence.
  Qed.

  Lemma module_step_params rules merge_opts ms ms' gdeps gdeps' objdir bn an st m menv mdeps :
    map m_name ms' = map m_name ms -> (m_is_global_build_dep m = true \/ gdeps' = gdeps) ->
    module_step H EV rules merge_opts ms' gdeps' objdir bn an st (m, menv, mdeps) =
    module_step H EV rules merge_opts ms gdeps objdir bn an st (m, menv, mdeps).
  Proof.
    intros Hn Hg. rewrite !module_step_unfold.
    assert (HT : forall srcdir flat st0 tag, step_tail H EV rules ms' gdeps' objdir bn an m mdeps srcdir flat st0 tag =
                                           step_tail H EV rules ms gdeps objdir bn an m mdeps srcdir flat st0 tag).
    { intros srcdir flat st0 tag. unfold step_tail. rewrite (all_sources_names m ms ms' Hn).
      destruct Hg as [Hg| ->]; [|reflexivity]. rewrite Hg. cbn [negb]. rewrite !andb_false_r. reflexivity. }
    destruct (m_srcdir m) as [srcdir|]; [|reflexivity].
    destruct (flatten_with_opts_option merge_opts menv) as [flat| | |]; cbn [rbind]; try reflexivity.
    match goal with |- rbind ?X _ = _ => destruct X as [dl_stmts| | |] end; cbn [rbind]; try reflexivity.
    cbv zeta.
    match goal with |- rbind ?X _ = _ => destruct X as [[st0 tag]| | |] end; cbn [rbind]; try reflexivity.
    apply HT.
  Qed.
End DepFrame.

(* ---------- two runs of the module loop ---------- *)
Require Import Laze.proofs.DownloadOrder.

Lemma Forall2_len {A B} (P : A -> B -> Prop) l l' : Forall2 P l l' -> length l = length l'.
Proof. induction 1; cbn; [reflexivity|f_equal; assumption]. Qed.

Definition emits (st st' : loopst) (L : list stmt) (O : list str) : Prop :=
  ls_entries st' = ins L (ls_entries st) /\ ls_objects st' = ls_objects st ++ O.

Lemma emits_text st st' L O q : emits st st' L O -> In q L -> has_text st' q.
Proof. intros [He _] Hq. unfold has_text. rewrite He. unfold ins. apply sset_fold_text. right. apply in_map, Hq. Qed.

Section TwoRuns.
  Variable H : list ascii -> N.
  Variable EV : str -> evr.
  Variable rules : list (str * rule).
  Variable merge_opts : option (list (str * mergeopt)).
  Variables objdir bn an : str.
  (* the two runs: selected modules, global build deps *)
  Variables ms ms' : list module.
  Variables gdeps gdeps' : list module.
  (* the modules that may differ between the runs (the edited module and its users) *)
  Variable U : str -> Prop.
  Hypothesis Hnames : map m_name ms' = map m_name ms.

  Notation K := (fun n => ~ U n).
  Notation triple := (module * env * option (list module))%type.

  (* position-wise relation of the two build orders: the same module names, source directories and
     downloads; outside U the very same module, environment and build deps, which reads the table of
     exported files only at keys outside U *)
  Definition R (a b : triple) : Prop :=
    let '(m, menv, mdeps) := a in let '(m', _, _) := b in
    m_name m' = m_name m /\ m_srcdir m' = m_srcdir m /\ m_download m' = m_download m /\
    (~ U (m_name m) -> b = a /\ reads_ok K m mdeps gdeps /\ (m_is_global_build_dep m = true \/ gdeps' = gdeps)).

  Definition I (sa sb : loopst) : Prop :=
    ls_dldirs sb = ls_dldirs sa /\ forall n, ~ U n -> alookup n (ls_depfiles sb) = alookup n (ls_depfiles sa).

  Lemma step_two a b sa sb sa' sb' :
    I sa sb -> R a b ->
    module_step H EV rules merge_opts ms gdeps objdir bn an sa a = Ok sa' ->
    module_step H EV rules merge_opts ms' gdeps' objdir bn an sb b = Ok sb' ->
    I sa' sb' /\ (~ U (m_name (fst (fst a))) -> exists L O, emits sa sa' L O /\ emits sb sb' L O).
  Proof.
    destruct a as [[m menv] mdeps], b as [[m' menv'] mdeps']. intros [Id Ik] (Rn & Rs & Rd & Ru) Ha Hb. cbn [fst].
    assert (Hout : ~ U (m_name m) ->
                   (exists L O, emits sa sa' L O /\ emits sb sb' L O) /\
                   alookup (m_name m) (ls_depfiles sb') = alookup (m_name m) (ls_depfiles sa')).
    { intros Hnu. destruct (Ru Hnu) as (Eb & Hreads & Hg). injection Eb as -> -> ->.
      rewrite (module_step_params H EV rules merge_opts ms ms' gdeps gdeps' objdir bn an sb m menv mdeps Hnames Hg) in Hb.
      set (r := {| ls_entries := []; ls_objects := []; ls_depfiles := ls_depfiles sa; ls_dldirs := ls_dldirs sa |}).
      assert (Sa : Sim K (ls_entries sa) (ls_objects sa) sa r).
      { unfold Sim, r. cbn. split; [reflexivity|]. split; [rewrite app_nil_r; reflexivity|]. split; [reflexivity|]. intros; reflexivity. }
      assert (Sb : Sim K (ls_entries sb) (ls_objects sb) sb r).
      { unfold Sim, r. cbn. split; [reflexivity|]. split; [rewrite app_nil_r; reflexivity|]. split; [exact Id|exact Ik]. }
      destruct (module_step_sim H EV K _ _ _ _ _ _ _ _ _ _ _ _ _ _ _ Ha Sa Hreads) as (ra & Era & Sa').
      destruct (module_step_sim H EV K _ _ _ _ _ _ _ _ _ _ _ _ _ _ _ Hb Sb Hreads) as (rb & Erb & Sb').
      assert (rb = ra) by congruence. subst rb.
      split.
      - exists (ls_entries ra), (ls_objects ra). split; split.
        + exact (proj1 Sa'). + exact (proj1 (proj2 Sa')). + exact (proj1 Sb'). + exact (proj1 (proj2 Sb')).
      - rewrite (proj2 (proj2 (proj2 Sb')) (m_name m) (proj1 Hreads)).
        rewrite (proj2 (proj2 (proj2 Sa')) (m_name m) (proj1 Hreads)). reflexivity. }
    split; [|intros Hnu; exact (proj1 (Hout Hnu))].
    split.
    - destruct (module_step_download H EV _ _ _ _ _ _ _ _ _ _ _ _ Ha) as (_ & Da & _).
      destruct (module_step_download H EV _ _ _ _ _ _ _ _ _ _ _ _ Hb) as (_ & Db & _).
      rewrite Da, Db. exact Id.
    - intros n Hn. destruct (str_eqb n (m_name m)) eqn:En.
      + apply str_eqb_eq in En. subst n. exact (proj2 (Hout Hn)).
      + apply str_eqb_neq in En.
        rewrite (module_step_dframe H EV _ _ _ _ _ _ _ _ _ _ _ _ Ha n En).
        assert (En' : n <> m_name m') by (rewrite Rn; exact En).
        rewrite (module_step_dframe H EV _ _ _ _ _ _ _ _ _ _ _ _ Hb n En'). apply Ik, Hn.
  Qed.

  Notation loop_a l s := (fold_left (fun acc mm => rbind acc (fun st0 => module_step H EV rules merge_opts ms gdeps objdir bn an st0 mm)) l (Ok s)).
  Notation loop_b l s := (fold_left (fun acc mm => rbind acc (fun st0 => module_step H EV rules merge_opts ms' gdeps' objdir bn an st0 mm)) l (Ok s)).

  Lemma loop_two : forall l l', Forall2 R l l' -> forall sa sb sa' sb',
    I sa sb -> loop_a l sa = Ok sa' -> loop_b l' sb = Ok sb' -> I sa' sb'.
  Proof.
    induction 1 as [|a b l l' Hab _ IH]; intros sa sb sa' sb' HI Ha Hb; cbn [fold_left] in *.
    - injection Ha as <-. injection Hb as <-. exact HI.
    - cbn [rbind] in *.
      destruct (module_step H EV rules merge_opts ms gdeps objdir bn an sa a) as [sa1| | |] eqn:Ea; try (kill_fold Ha l).
      destruct (module_step H EV rules merge_opts ms' gdeps' objdir bn an sb b) as [sb1| | |] eqn:Eb; try (kill_fold Hb l').
      exact (IH _ _ _ _ (proj1 (step_two _ _ _ _ _ _ HI Hab Ea Eb)) Ha Hb).
  Qed.

  (* Two runs of the module loop of a build whose build orders are related position by position:
     for a module outside U, at any position, the SAME list of statements (and objects) is emitted in
     both runs; every one of these statements is in the statement set of both builds. *)
  Theorem loop_statements_frame dirs l l' fa fb pre a post :
    Forall2 R l l' ->
    loop_a l {| ls_entries := []; ls_objects := []; ls_depfiles := []; ls_dldirs := dirs |} = Ok fa ->
    loop_b l' {| ls_entries := []; ls_objects := []; ls_depfiles := []; ls_dldirs := dirs |} = Ok fb ->
    l = pre ++ a :: post -> ~ U (m_name (fst (fst a))) ->
    exists pre' post' sa0 sa1 sb0 sb1 L O,
      l' = pre' ++ a :: post' /\ length pre' = length pre /\
      loop_a pre {| ls_entries := []; ls_objects := []; ls_depfiles := []; ls_dldirs := dirs |} = Ok sa0 /\
      module_step H EV rules merge_opts ms gdeps objdir bn an sa0 a = Ok sa1 /\
      loop_b pre' {| ls_entries := []; ls_objects := []; ls_depfiles := []; ls_dldirs := dirs |} = Ok sb0 /\
      module_step H EV rules merge_opts ms' gdeps' objdir bn an sb0 a = Ok sb1 /\
      emits sa0 sa1 L O /\ emits sb0 sb1 L O /\
      forall q, In q L -> has_text fa q /\ has_text fb q.
  Proof.
    intros HF Ha Hb -> Hnu.
    apply Forall2_app_inv_l in HF. destruct HF as (pre' & rest & Hpre & Hrest & ->).
    inversion Hrest as [|a0 b l0 post' Hab Hpost]; subst.
    destruct (loop_split H EV _ _ _ _ _ _ _ _ _ _ _ Ha) as (sa0 & Hpa & Hra).
    destruct (loop_split H EV _ _ _ _ _ _ _ _ _ _ _ Hb) as (sb0 & Hpb & Hrb).
    cbn [fold_left rbind] in Hra, Hrb.
    destruct (module_step H EV rules merge_opts ms gdeps objdir bn an sa0 a) as [sa1| | |] eqn:Ea; try (kill_fold Hra post).
    destruct (module_step H EV rules merge_opts ms' gdeps' objdir bn an sb0 b) as [sb1| | |] eqn:Eb; try (kill_fold Hrb post').
    assert (HI0 : I {| ls_entries := []; ls_objects := []; ls_depfiles := []; ls_dldirs := dirs |}
                    {| ls_entries := []; ls_objects := []; ls_depfiles := []; ls_dldirs := dirs |}) by (split; [reflexivity|intros; reflexivity]).
    pose proof (loop_two _ _ Hpre _ _ _ _ HI0 Hpa Hpb) as HI.
    destruct (step_two _ _ _ _ _ _ HI Hab Ea Eb) as [_ Hem]. destruct (Hem Hnu) as (L & O & Ema & Emb).
    assert (Eba : b = a).
    { destruct a as [[m menv] mdeps], b as [[m' menv'] mdeps']. destruct Hab as (_ & _ & _ & Ru). exact (proj1 (Ru Hnu)). }
    subst b.
    exists pre', post', sa0, sa1, sb0, sb1, L, O.
    split; [reflexivity|]. split; [symmetry; exact (Forall2_len _ _ _ Hpre)|].
    split; [exact Hpa|]. split; [exact Ea|]. split; [exact Hpb|]. split; [exact Eb|]. split; [exact Ema|]. split; [exact Emb|].
    intros q Hq. split.
    - apply (has_text_ext sa1); [exact (proj1 (loop_ext H EV _ _ _ _ _ _ _ _ _ _ Hra))|exact (emits_text _ _ _ _ _ Ema Hq)].
    - apply (has_text_ext sb1); [exact (proj1 (loop_ext H EV _ _ _ _ _ _ _ _ _ _ Hrb))|exact (emits_text _ _ _ _ _ Emb Hq)].
  Qed.
  (* related build orders have the same table of download directories *)
  Lemma R_dldirs_all : forall l l', Forall2 R l l' -> dldirs_all l' = dldirs_all l.
  Proof.
    intros l l' HF. unfold dldirs_all. generalize (@nil (str * str)).
    induction HF as [|a b l l' Hab _ IH]; intros acc; cbn [fold_left]; [reflexivity|].
    destruct a as [[m menv] mdeps], b as [[m' menv'] mdeps']. destruct Hab as (_ & Rs & Rd & _). cbn [fst].
    rewrite Rs, Rd. apply IH.
  Qed.
End TwoRuns.
