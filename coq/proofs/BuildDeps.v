(* BuildDeps.v — C19: the build dependencies of a module (second component of Module::build_env: the
   modules whose exported build-dep files its compile statements wait for) are exactly the is_build_dep
   modules among its import closure, other than itself. With ImportsClosure: exactly the selected
   is_build_dep modules reachable through active imports. *)
From Coq Require Import Ascii String.
From Coq Require Import List Arith Bool NArith Lia.
Import ListNotations.
Require Import Laze.model.Base Laze.model.Env Laze.model.Allow Laze.model.Ninja Laze.model.Ctx
        Laze.model.Resolver Laze.model.Imports Laze.proofs.BaseFacts Laze.proofs.FrameFacts.
Open Scope list_scope.

Definition is_dep_of (self d : module) : bool := negb (module_eqb d self) && m_is_build_dep d.
Definition bd_step (self : module) (bd : option (list module)) (d : module) : option (list module) :=
  if is_dep_of self d then Some (mset_insert d (odflt [] bd)) else bd.

Lemma benv_step_bd self acc d e bd : benv_step self acc d = Ok (e, bd) ->
  exists e0 bd0, acc = Ok (e0, bd0) /\ bd = bd_step self bd0 d.
Proof.
  unfold benv_step. destruct acc as [[e0 bd0]| | |]; cbn [rbind]; try discriminate.
  intros HS. exists e0, bd0. split; [reflexivity|].
  destruct (m_notify_all self); cbn [rbind] in HS.
  - injection HS as _ <-. reflexivity.
  - destruct (env_get (S_ "notify") (merge e0 (m_env_export d))) as [[s|l]|]; cbn [rbind] in HS; injection HS as _ <-; reflexivity.
Qed.

Lemma fold_benv_bd self : forall deps acc e bd, fold_left (benv_step self) deps acc = Ok (e, bd) ->
  exists e0 bd0, acc = Ok (e0, bd0) /\ bd = fold_left (bd_step self) deps bd0.
Proof.
  induction deps as [|d t IH]; intros acc e bd HF; cbn [fold_left] in *.
  - exists e, bd. split; [exact HF|reflexivity].
  - destruct (IH _ _ _ HF) as (e1 & bd1 & E1 & Ebd).
    destruct (benv_step_bd _ _ _ _ _ E1) as (e0 & bd0 & E0 & Eb). exists e0, bd0. split; [exact E0|]. subst bd1. exact Ebd.
Qed.

Lemma mset_insert_In x l y : In y (mset_insert x l) -> In y l \/ y = x.
Proof.
  unfold mset_insert. destruct (existsb (module_eqb x) l); [intros H; left; exact H|].
  intros H. apply in_app_or in H. destruct H as [H|[<-|[]]]; [left; exact H|right; reflexivity].
Qed.

Lemma mset_insert_has x l : exists y, In y (mset_insert x l) /\ module_eqb x y = true.
Proof.
  unfold mset_insert. destruct (existsb (module_eqb x) l) eqn:E.
  - apply existsb_exists in E. exact E.
  - exists x. split; [apply in_or_app; right; left; reflexivity|].
    unfold module_eqb. rewrite !str_eqb_refl. reflexivity.
Qed.

Lemma mset_insert_keeps x l y : In y l -> In y (mset_insert x l).
Proof. unfold mset_insert. destruct (existsb (module_eqb x) l); [auto|intros H; apply in_or_app; left; exact H]. Qed.

Lemma fold_bd_sound self : forall deps bd0 y, In y (odflt [] (fold_left (bd_step self) deps bd0)) ->
  In y (odflt [] bd0) \/ (In y deps /\ is_dep_of self y = true).
Proof.
  induction deps as [|d t IH]; intros bd0 y Hy; cbn [fold_left] in Hy; [left; exact Hy|].
  destruct (IH _ _ Hy) as [H0|[Ht Hd]]; [|right; split; [right; exact Ht|exact Hd]].
  unfold bd_step in H0. destruct (is_dep_of self d) eqn:Ed; [|left; exact H0]. cbn [odflt] in H0.
  apply mset_insert_In in H0. destruct H0 as [H0|E0]; [left; exact H0|subst y; right; split; [left; reflexivity|exact Ed]].
Qed.

Lemma fold_bd_keeps self : forall deps bd0 y, In y (odflt [] bd0) -> In y (odflt [] (fold_left (bd_step self) deps bd0)).
Proof.
  induction deps as [|d t IH]; intros bd0 y Hy; cbn [fold_left]; [exact Hy|]. apply IH.
  unfold bd_step. destruct (is_dep_of self d); [cbn [odflt]; apply mset_insert_keeps; exact Hy|exact Hy].
Qed.

Lemma fold_bd_complete self : forall deps bd0 d, In d deps -> is_dep_of self d = true ->
  exists y, In y (odflt [] (fold_left (bd_step self) deps bd0)) /\ module_eqb d y = true.
Proof.
  induction deps as [|x t IH]; intros bd0 d Hd Hdep; [destruct Hd|]. cbn [fold_left]. destruct Hd as [->|Hd]; [|apply IH; assumption].
  unfold bd_step at 2. rewrite Hdep.
  destruct (mset_insert_has d (odflt [] bd0)) as (y & Hy & Ey). exists y. split; [|exact Ey].
  apply fold_bd_keeps. exact Hy.
Qed.

(* the build deps of [self] *)
Theorem build_env_build_deps genv ms provs self e bd : build_env genv ms provs self = Ok (e, bd) ->
  (forall y, In y (odflt [] bd) -> In y (imports_postorder ms provs self) /\ is_dep_of self y = true) /\
  (forall d, In d (imports_postorder ms provs self) -> is_dep_of self d = true ->
             exists y, In y (odflt [] bd) /\ module_eqb d y = true).
Proof.
  unfold build_env. intros HB.
  change (fold_left _ (imports_postorder ms provs self) (Ok (genv, None)))
    with (fold_left (benv_step self) (imports_postorder ms provs self) (Ok (genv, None))) in HB.
  destruct (fold_left (benv_step self) (imports_postorder ms provs self) (Ok (genv, None))) as [[e0 bd0]| | |] eqn:EF;
    cbn [rbind] in HB; try discriminate. injection HB as _ <-.
  destruct (fold_benv_bd _ _ _ _ _ EF) as (e1 & bd1 & E1 & Ebd). injection E1 as _ <-. subst bd0. split.
  - intros y Hy. destruct (fold_bd_sound _ _ _ _ Hy) as [[]|H]; exact H.
  - intros d Hd Hdep. apply fold_bd_complete; assumption.
Qed.
