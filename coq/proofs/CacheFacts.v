(* CacheFacts.v — the cache machine of model/Cache.v: the coherence invariant holds after every
   history of runs, kills and edits; a hit reports what the cached generation produced for a tree
   that the current tree cannot be told apart from; the pinned order of operations is refuted. *)
From Coq Require Import Ascii String.
From Coq Require Import List Arith Bool NArith Lia.
Import ListNotations.
Require Import Laze.model.Base Laze.model.Cache.
Open Scope list_scope.

Section MachineFacts.
  Variables Tree Args TS R : Type.
  Variable precheck : Args -> res unit.
  Variable load_ts : Tree -> res TS.
  Variable gen : Tree -> Args -> res R.
  Variable ts_valid : TS -> Tree -> bool.
  Variable accepts : Args -> R -> Args -> bool.
  Variable view : Args -> R -> R.
  Variable is_local : Args -> bool.

  Notation world := (world Tree Args TS R).
  Notation slot := (slot Args TS R).
  Notation mrun := (mrun Tree Args TS R precheck load_ts gen ts_valid accepts view is_local).
  Notation mrun_pinned := (run_pinned Tree Args TS R precheck load_ts gen ts_valid accepts view is_local).
  Notation mstep := (mstep Tree Args TS R precheck load_ts gen ts_valid accepts view is_local).
  Notation lookup := (lookup Tree Args TS R ts_valid accepts view is_local).
  Notation get_slot := (get_slot Tree Args TS R).
  Notation set_slot := (set_slot Tree Args TS R).
  Notation fresh := (fresh Tree Args TS R).

  (* a cache, if present, was written by a complete run on SOME tree whose snapshot it carries, with
     the arguments it carries, and the ninja file next to it is the complete file of that run *)
  Definition slot_ok (l : bool) (s : slot) : Prop :=
    forall c, s_cache _ _ _ s = Some c ->
      exists t, load_ts t = Ok (c_ts _ _ _ c) /\ gen t (c_args _ _ _ c) = Ok (c_res _ _ _ c) /\
                precheck (c_args _ _ _ c) = Ok tt /\ is_local (c_args _ _ _ c) = l /\
                s_ninja _ _ _ s = NComplete (c_res _ _ _ c).
  Definition Inv (w : world) : Prop := slot_ok false (w_global _ _ _ _ w) /\ slot_ok true (w_local _ _ _ _ w).

  Lemma inv_fresh t : Inv (fresh t).
  Proof. split; intros c Hc; discriminate. Qed.

  Lemma get_set_same w l s : get_slot (set_slot w l s) l = s.
  Proof. destruct l; reflexivity. Qed.
  Lemma get_set_other w l s : get_slot (set_slot w l s) (negb l) = get_slot w (negb l).
  Proof. destruct l; reflexivity. Qed.
  Lemma tree_set w l s : w_tree _ _ _ _ (set_slot w l s) = w_tree _ _ _ _ w.
  Proof. destruct l; reflexivity. Qed.

  Lemma inv_slots w : Inv w <-> (forall l, slot_ok l (get_slot w l)).
  Proof. split; [intros [Hg Hl] [|]; assumption | intros H; split; [apply (H false) | apply (H true)]]. Qed.

  Lemma inv_set w l s : Inv w -> slot_ok l s -> Inv (set_slot w l s).
  Proof.
    intros HI Hs. apply inv_slots. intros l'. destruct (Bool.bool_dec l' l) as [->|Hne].
    - rewrite get_set_same. exact Hs.
    - assert (l' = negb l) as -> by (destruct l, l'; try reflexivity; exfalso; apply Hne; reflexivity).
      rewrite get_set_other. apply inv_slots. exact HI.
  Qed.

  Lemma slot_ok_nocache l n : slot_ok l {| s_ninja := n; s_cache := None |}.
  Proof. intros c Hc. discriminate. Qed.

  Lemma precheck_tt a u : precheck a = Ok u -> precheck a = Ok tt.
  Proof. destruct u. exact (fun H => H). Qed.

  (* one run, killed anywhere or not, keeps the invariant *)
  Lemma inv_run a k w : Inv w -> Inv (fst (mrun a k w)).
  Proof.
    intros HI. unfold Cache.mrun.
    destruct (precheck a) as [u| | |] eqn:Hp; try exact HI.
    destruct (lookup a w); [exact HI|].
    destruct (load_ts (w_tree _ _ _ _ w)) as [ts| | |] eqn:Hl; try exact HI.
    destruct (Nat.eqb k 1); [exact HI|].
    destruct (Nat.eqb k 2); [apply inv_set; [exact HI | apply slot_ok_nocache]|].
    destruct (Nat.eqb k 3); [apply inv_set; [exact HI | apply slot_ok_nocache]|].
    destruct (gen (w_tree _ _ _ _ w) a) as [r| | |] eqn:Hg;
      try (apply inv_set; [exact HI | apply slot_ok_nocache]).
    destruct (Nat.eqb k 4 || Nat.eqb k 5); [apply inv_set; [exact HI | apply slot_ok_nocache]|].
    destruct (Nat.eqb k 6); [apply inv_set; [exact HI | apply slot_ok_nocache]|].
    assert (Hs : slot_ok (is_local a) {| s_ninja := NComplete r;
                                         s_cache := Some {| c_args := a; c_ts := ts; c_res := r |} |}).
    { intros c Hc. injection Hc as <-. exists (w_tree _ _ _ _ w). cbn.
      repeat split; try assumption. exact (precheck_tt _ _ Hp). }
    destruct (Nat.eqb k 7); apply inv_set; assumption.
  Qed.

  Lemma inv_step w o : Inv w -> Inv (mstep w o).
  Proof.
    intros HI. destruct o as [a k|t|l]; [apply inv_run, HI| |].
    - destruct HI as [Hg Hl]. split; assumption.
    - apply inv_set; [exact HI|apply slot_ok_nocache].
  Qed.

  (* every world reachable from an empty build directory *)
  Theorem inv_history t0 ops : Inv (fold_left mstep ops (fresh t0)).
  Proof.
    assert (G : forall w, Inv w -> Inv (fold_left mstep ops w)).
    { induction ops as [|o ops' IH]; intros w Hw; [exact Hw|]. cbn [fold_left]. apply IH, inv_step, Hw. }
    apply G, inv_fresh.
  Qed.

  (* ---- what a hit means ---- *)
  (* the loader reads only the files it records, and a file's (len, mtime) determines its content *)
  Hypothesis frame : forall t1 t2 ts, load_ts t1 = Ok ts -> ts_valid ts t2 = true ->
                                      load_ts t2 = Ok ts /\ forall a, gen t2 a = gen t1 a.

  (* a run that is served from the cache: nothing is written, and the result handed to main is the
     view of the generation of the CURRENT tree for the cached arguments, whose complete ninja file
     is the one on disk *)
  Theorem hit_sound a k w w' r' :
    Inv w -> mrun a k w = (w', OHit r') ->
    w' = w /\
    exists c r, s_cache _ _ _ (get_slot w (is_local a)) = Some c /\ c_res _ _ _ c = r /\
                accepts (c_args _ _ _ c) r a = true /\ ts_valid (c_ts _ _ _ c) (w_tree _ _ _ _ w) = true /\
                load_ts (w_tree _ _ _ _ w) = Ok (c_ts _ _ _ c) /\
                gen (w_tree _ _ _ _ w) (c_args _ _ _ c) = Ok r /\
                s_ninja _ _ _ (get_slot w (is_local a)) = NComplete r /\
                r' = view a r.
  Proof.
    intros HI. unfold Cache.mrun.
    destruct (precheck a) as [u| | |] eqn:Hp; try discriminate.
    destruct (lookup a w) as [r0|] eqn:Hlk.
    - intros Heq. injection Heq as <- <-. split; [reflexivity|].
      unfold Cache.lookup in Hlk.
      destruct (s_cache _ _ _ (get_slot w (is_local a))) as [c|] eqn:Hc; [|discriminate].
      destruct (accepts (c_args _ _ _ c) (c_res _ _ _ c) a && ts_valid (c_ts _ _ _ c) (w_tree _ _ _ _ w)) eqn:Hv;
        [|discriminate].
      apply andb_true_iff in Hv. destruct Hv as [Hacc Hts]. injection Hlk as <-.
      destruct (proj1 (inv_slots w) HI (is_local a) c Hc) as (t & Hlt & Hgt & _ & _ & Hn).
      destruct (frame t (w_tree _ _ _ _ w) _ Hlt Hts) as [Hl2 Hg2].
      exists c, (c_res _ _ _ c). repeat split; try assumption. rewrite Hg2. exact Hgt.
    - destruct (load_ts (w_tree _ _ _ _ w)); try discriminate.
      destruct (Nat.eqb k 1); [discriminate|]. destruct (Nat.eqb k 2); [discriminate|].
      destruct (Nat.eqb k 3); [discriminate|].
      destruct (gen (w_tree _ _ _ _ w) a); try discriminate.
      destruct (Nat.eqb k 4 || Nat.eqb k 5); [discriminate|]. destruct (Nat.eqb k 6); [discriminate|].
      destruct (Nat.eqb k 7); discriminate.
  Qed.

  (* what a failing run leaves behind: either nothing was touched, or there is no cache *)
  Lemma failed_run_leaves_no_cache a k w f :
    snd (mrun a k w) = OFail f ->
    fst (mrun a k w) = w \/ s_cache _ _ _ (get_slot (fst (mrun a k w)) (is_local a)) = None.
  Proof.
    unfold Cache.mrun.
    destruct (precheck a); try (left; reflexivity).
    destruct (lookup a w); [left; reflexivity|].
    destruct (load_ts (w_tree _ _ _ _ w)); try (left; reflexivity).
    destruct (Nat.eqb k 1); [left; reflexivity|].
    destruct (Nat.eqb k 2); [right; cbn [fst]; rewrite get_set_same; reflexivity|].
    destruct (Nat.eqb k 3); [right; cbn [fst]; rewrite get_set_same; reflexivity|].
    destruct (gen (w_tree _ _ _ _ w) a); try (right; cbn [fst]; rewrite get_set_same; reflexivity).
    destruct (Nat.eqb k 4 || Nat.eqb k 5); [right; cbn [fst]; rewrite get_set_same; reflexivity|].
    destruct (Nat.eqb k 6); [right; cbn [fst]; rewrite get_set_same; reflexivity|].
    destruct (Nat.eqb k 7); cbn [fst snd]; intros Heq; discriminate.
  Qed.

  (* ---- an unchanged project with an identical command line is served from the cache ---- *)
  Variable cacheable : Args -> bool.              (* runs that read the cache at all (not --info-export) *)
  Hypothesis accepts_refl : forall a r, precheck a = Ok tt -> cacheable a = true -> accepts a r a = true.
  Hypothesis ts_self : forall t ts, load_ts t = Ok ts -> ts_valid ts t = true.

  Theorem identical_run_hits a w w1 r : cacheable a = true ->
    mrun a 0 w = (w1, ORegen r) -> exists k, mrun a k w1 = (w1, OHit (view a r)).
  Proof.
    intros Hcb. unfold Cache.mrun at 1.
    destruct (precheck a) as [u| | |] eqn:Hp; try discriminate.
    destruct (lookup a w); [discriminate|].
    destruct (load_ts (w_tree _ _ _ _ w)) as [ts| | |] eqn:Hl; try discriminate.
    cbn [Nat.eqb orb].
    destruct (gen (w_tree _ _ _ _ w) a) as [r0| | |] eqn:Hg; try discriminate.
    intros Heq. injection Heq as <- <-. exists 0.
    unfold Cache.mrun. rewrite Hp. unfold Cache.lookup. rewrite get_set_same. cbn [s_cache c_args c_res c_ts].
    rewrite (accepts_refl a r0 (precheck_tt _ _ Hp) Hcb). rewrite tree_set, (ts_self _ _ Hl). reflexivity.
  Qed.

  (* the same, for a hit: a hit changes nothing, so the next identical run hits again *)
  Theorem hit_is_stable a k w w' r : mrun a k w = (w', OHit r) -> forall k', mrun a k' w' = (w', OHit r).
  Proof.
    unfold Cache.mrun.
    destruct (precheck a) as [u| | |] eqn:Hp; try discriminate.
    destruct (lookup a w) as [r0|] eqn:Hlk.
    - intros Heq. injection Heq as <- <-. intros k'. rewrite Hlk. reflexivity.
    - destruct (load_ts (w_tree _ _ _ _ w)); try discriminate.
      destruct (Nat.eqb k 1); [discriminate|]. destruct (Nat.eqb k 2); [discriminate|].
      destruct (Nat.eqb k 3); [discriminate|].
      destruct (gen (w_tree _ _ _ _ w) a); try discriminate.
      destruct (Nat.eqb k 4 || Nat.eqb k 5); [discriminate|]. destruct (Nat.eqb k 6); [discriminate|].
      destruct (Nat.eqb k 7); discriminate.
  Qed.

  (* a run with an empty build directory regenerates (or fails): what "fresh" means below *)
  Lemma fresh_run a t : forall r, snd (mrun a 0 (fresh t)) = ORegen r -> gen t a = Ok r.
  Proof.
    intros r. unfold Cache.mrun.
    destruct (precheck a); try discriminate.
    assert (Hlk : lookup a (fresh t) = None) by (unfold Cache.lookup; destruct (is_local a); reflexivity).
    rewrite Hlk. change (w_tree _ _ _ _ (fresh t)) with t.
    destruct (load_ts t); try discriminate. cbn [Nat.eqb orb].
    destruct (gen t a) as [r0| | |]; try discriminate.
    cbn [snd]. intros Heq. injection Heq as Heq. rewrite Heq. reflexivity.
  Qed.
End MachineFacts.

(* ---------- the order of operations in the pinned tree is refuted ---------- *)
Section Refuted.
  Definition tgen (t a : nat) : res nat := if Nat.eqb a 9 then Err EParse else Ok (t + a).
  Definition trun := run_pinned nat nat nat nat (fun _ => Ok tt) (fun t => Ok t) tgen Nat.eqb (fun c _ a => Nat.eqb c a)
                                (fun _ r => r) (fun _ => false).
  Definition tstep (w : world nat nat nat nat) (o : op nat nat) :=
    match o with Run a k => fst (trun a k w) | Edit t => {| w_tree := t; w_global := w_global _ _ _ _ w; w_local := w_local _ _ _ _ w |} | Corrupt _ => w end.

  (* a complete run, then a run with other arguments that fails after truncating the ninja file:
     the next run with the first arguments is served from the cache next to a truncated file *)
  Lemma pinned_order_refuted_failed_run :
    let w := fold_left tstep [Run 1 0; Run 9 0] (fresh nat nat nat nat 0) in
    exists r, snd (trun 1 0 w) = OHit r /\ s_ninja _ _ _ (w_global _ _ _ _ w) = NPartial.
  Proof. exists 1. split; reflexivity. Qed.

  (* a single run killed between writing the cache and flushing the ninja file *)
  Lemma pinned_order_refuted_unflushed :
    let w := fold_left tstep [Run 1 7] (fresh nat nat nat nat 0) in
    exists r, snd (trun 1 0 w) = OHit r /\ s_ninja _ _ _ (w_global _ _ _ _ w) = NPartial.
  Proof. exists 1. split; reflexivity. Qed.
End Refuted.
