(* EnvFacts.v — lemmas about model/Env.v: merge algebra (C04) and var_options rendering (C14) *)
From Coq Require Import Ascii String.
From Coq Require Import List Arith Bool NArith Lia.
Import ListNotations.
Require Import Laze.model.Base Laze.model.Env Laze.proofs.BaseFacts.
Open Scope list_scope.

(* ---------- C14: the rendering loop against its closed form ---------- *)

Definition nonempty (s : str) : bool := negb (is_empty s).
Definition wrap (pre suf s : str) : str := pre ++ s ++ suf.

(* the specification: start, wrapped non-empty elements separated by joiner, end *)
Definition render_spec (o : mergeopt) (v : envkey) : str :=
  let pre := odflt [] (mo_prefix o) in
  let suf := odflt [] (mo_suffix o) in
  odflt [] (mo_start o) ++
  match v with
  | Single s => wrap pre suf s
  | EList l => intercalate (odflt [" "%char] (mo_joiner o)) (map (wrap pre suf) (filter nonempty l))
  end ++ odflt [] (mo_end o).

Definition sepfirst (j : str) (first : bool) (xs : list str) : str :=
  if first then intercalate j xs else flat_map (fun y => j ++ y) xs.

Lemma flatten_loop_spec j pre suf l :
  forall first res,
    flatten_loop j pre suf l first res
    = res ++ sepfirst j first (map (wrap pre suf) (filter nonempty l)).
Proof.
  induction l as [|s t IH]; intros first res.
  - cbn. destruct first; cbn; rewrite app_nil_r; reflexivity.
  - cbn [flatten_loop filter]. unfold nonempty at 1.
    destruct (is_empty s) eqn:Es; cbn [negb].
    + apply IH.
    + rewrite IH. cbn [map]. destruct first; cbn [sepfirst].
      * rewrite intercalate_cons. unfold wrap. rewrite <- !app_assoc. reflexivity.
      * cbn [flat_map]. unfold wrap. rewrite <- !app_assoc. reflexivity.
Qed.

Lemma flatten_opts_spec o v : flatten_opts o v = render_spec o v.
Proof.
  unfold flatten_opts, render_spec. destruct v as [s | l].
  - unfold wrap. rewrite <- !app_assoc. reflexivity.
  - rewrite flatten_loop_spec. cbn [sepfirst]. rewrite <- !app_assoc. reflexivity.
Qed.

(* an empty list, or a list of empty elements only, renders as start ++ end *)
Lemma render_all_empty o l :
  forallb is_empty l = true -> flatten_opts o (EList l) = odflt [] (mo_start o) ++ odflt [] (mo_end o).
Proof.
  intros H. rewrite flatten_opts_spec. unfold render_spec.
  assert (E : filter nonempty l = []).
  { induction l as [|s t IH]; [reflexivity|]. cbn in H. apply andb_true_iff in H as [H1 H2].
    cbn. unfold nonempty at 1. rewrite H1. cbn. apply IH. exact H2. }
  rewrite E. reflexivity.
Qed.

(* empty elements are invisible: rendering ignores them wherever they stand *)
Lemma render_ignores_empty o l :
  flatten_opts o (EList l) = flatten_opts o (EList (filter nonempty l)).
Proof.
  rewrite !flatten_opts_spec. unfold render_spec.
  assert (E : filter nonempty (filter nonempty l) = filter nonempty l).
  { induction l as [|s t IH]; [reflexivity|]. cbn. destruct (nonempty s) eqn:Es; cbn; [rewrite Es; f_equal|]; exact IH. }
  rewrite E. reflexivity.
Qed.

(* number of joiners = number of rendered elements - 1: stated on the closed form as the
   decomposition into first element and joiner-prefixed rest *)
Lemma render_nonempty_list o x xs :
  flatten_opts o (EList (x :: xs)) =
  match filter nonempty (x :: xs) with
  | [] => odflt [] (mo_start o) ++ odflt [] (mo_end o)
  | y :: ys =>
      odflt [] (mo_start o) ++
      (wrap (odflt [] (mo_prefix o)) (odflt [] (mo_suffix o)) y ++
       flat_map (fun z => odflt [" "%char] (mo_joiner o) ++ wrap (odflt [] (mo_prefix o)) (odflt [] (mo_suffix o)) z) ys)
      ++ odflt [] (mo_end o)
  end.
Proof.
  rewrite flatten_opts_spec. unfold render_spec.
  destruct (filter nonempty (x :: xs)) as [|y ys]; [reflexivity|].
  cbn [map]. rewrite intercalate_cons. rewrite flat_map_concat_map, map_map, <- flat_map_concat_map.
  reflexivity.
Qed.

(* ---------- from: ---------- *)

Lemma apply_from_no_from e opts acc :
  (forall k o, In (k, o) opts -> mo_from o = None) -> apply_from e opts acc = Ok acc.
Proof.
  revert acc; induction opts as [|[k o] t IH]; intros acc H; [reflexivity|].
  cbn. rewrite (H k o (or_introl eq_refl)). apply IH. intros k' o' I. apply (H k' o'). right; exact I.
Qed.

Lemma flatten_first_lookup opts e key :
  alookup key (flatten_first opts e) =
  option_map (fun v => match alookup key opts with Some o => flatten_opts o v | None => flatten_key v end)
             (alookup key e).
Proof.
  unfold flatten_first. induction e as [|[k v] t IH]; [reflexivity|].
  cbn [map alookup fst snd]. destruct (str_eqb key k) eqn:E.
  - apply str_eqb_eq in E. subst k. reflexivity.
  - exact IH.
Qed.

(* a variable with from: v takes v's elements, rendered with its own options *)
Lemma from_single_opt e key o other ov :
  mo_from o = Some other ->
  env_get other e = Some ov ->
  env_get key e = None ->
  exists fe, flatten_with_opts [(key, o)] e = Ok fe /\ alookup key fe = Some (render_spec o ov).
Proof.
  intros Hf Ho Hk. unfold flatten_with_opts. cbn [apply_from]. rewrite Hf, Ho.
  rewrite flatten_first_lookup. unfold env_get in Hk. rewrite Hk. cbn [option_map].
  eexists; split; [reflexivity|].
  rewrite alookup_ainsert_same. rewrite flatten_opts_spec. reflexivity.
Qed.

Lemma from_missing e key o other t :
  mo_from o = Some other -> env_get other e = None ->
  flatten_with_opts ((key, o) :: t) e = Err (EFromMissing key).
Proof. intros Hf Ho. unfold flatten_with_opts. cbn [apply_from]. rewrite Hf, Ho. reflexivity. Qed.

Lemma from_both e key o other ov v t :
  mo_from o = Some other -> env_get other e = Some ov -> env_get key e = Some v ->
  flatten_with_opts ((key, o) :: t) e = Err (EFromBoth key).
Proof.
  intros Hf Ho Hk. unfold flatten_with_opts. cbn [apply_from]. rewrite Hf, Ho.
  rewrite flatten_first_lookup. unfold env_get in Hk. rewrite Hk. reflexivity.
Qed.

(* a variable without from: and with options renders by its own options; without options by
   the plain space join *)
Lemma flatten_with_opts_plain opts e key v fe :
  flatten_with_opts opts e = Ok fe ->
  env_get key e = Some v ->
  (forall o, alookup key opts = Some o -> mo_from o = None) ->
  NoDup (akeys opts) ->
  alookup key fe = Some (match alookup key opts with Some o => render_spec o v | None => flatten_key v end).
Proof.
  unfold flatten_with_opts. intros H Hk Hnf ND.
  assert (G : forall l acc, (forall k o, In (k, o) l -> alookup k opts = Some o) ->
            apply_from e l acc = Ok fe ->
            alookup key acc = Some (match alookup key opts with Some o => render_spec o v | None => flatten_key v end) ->
            alookup key fe = Some (match alookup key opts with Some o => render_spec o v | None => flatten_key v end)).
  { induction l as [|[k o] t IH]; intros acc Hin Ha Hacc.
    - cbn in Ha. inversion Ha; subst. exact Hacc.
    - cbn [apply_from] in Ha. destruct (mo_from o) as [other|] eqn:Ef.
      + destruct (env_get other e) as [ov|]; [|discriminate].
        destruct (alookup k acc) eqn:Ek; [discriminate|].
        apply IH in Ha; [exact Ha | intros; apply Hin; right; assumption |].
        rewrite alookup_ainsert_other; [exact Hacc|].
        intros ->. rewrite Hacc in Ek. discriminate.
      + apply IH in Ha; [exact Ha | intros; apply Hin; right; assumption | exact Hacc]. }
  apply (G opts (flatten_first opts e)).
  - intros k o I. clear -I ND. induction opts as [|[k' o'] t IH]; [contradiction|].
    cbn [akeys map fst] in ND. inversion ND; subst. cbn [alookup]. destruct I as [I|I].
    + inversion I; subst. rewrite str_eqb_refl. reflexivity.
    + destruct (str_eqb k k') eqn:E.
      * apply str_eqb_eq in E. subst. exfalso. apply H1. change (In k' (map fst t)). apply in_map_iff. exists (k', o). split; [reflexivity|exact I].
      * apply IH; assumption.
  - exact H.
  - rewrite flatten_first_lookup. unfold env_get in Hk. rewrite Hk. cbn [option_map].
    destruct (alookup key opts); [rewrite flatten_opts_spec|]; reflexivity.
Qed.

(* ---------- C04: the merge algebra ---------- *)

(* one variable through a stack of layers (None = the layer does not define it) *)
Definition merge_opt (acc : option envkey) (l : option envkey) : option envkey :=
  match acc, l with
  | None, _ => l
  | _, None => acc
  | Some a, Some b => Some (merge_key a b)
  end.

Definition is_single (o : option envkey) : bool := match o with Some (Single _) => true | _ => false end.
Definition is_list (o : option envkey) : bool := match o with Some (EList _) => true | _ => false end.
Definition lists_of (ls : list (option envkey)) : list str :=
  flat_map (fun o => match o with Some (EList l) => l | _ => [] end) ls.
Definition no_single (ls : list (option envkey)) : Prop := forallb (fun o => negb (is_single o)) ls = true.

Lemma fold_onto_list post : forall a, no_single post ->
  fold_left merge_opt post (Some (EList a)) = Some (EList (a ++ lists_of post)).
Proof.
  induction post as [|o post IH]; intros a H; cbn.
  - rewrite app_nil_r. reflexivity.
  - unfold no_single in H. cbn in H. apply andb_true_iff in H as [H1 H2].
    destruct o as [[s|l]|]; cbn in H1; try discriminate.
    + cbn. rewrite IH by exact H2. rewrite app_assoc. reflexivity.
    + cbn. apply IH. exact H2.
Qed.

Lemma fold_onto_single post : forall s, no_single post ->
  fold_left merge_opt post (Some (Single s)) =
  if existsb is_list post then Some (EList (lists_of post)) else Some (Single s).
Proof.
  induction post as [|o post IH]; intros s H; cbn; [reflexivity|].
  unfold no_single in H. cbn in H. apply andb_true_iff in H as [H1 H2].
  destruct o as [[s'|l]|]; cbn in H1; try discriminate.
  - cbn. rewrite fold_onto_list by exact H2. reflexivity.
  - cbn. apply IH. exact H2.
Qed.

Lemma fold_onto_none post : no_single post ->
  fold_left merge_opt post None =
  if existsb is_list post then Some (EList (lists_of post)) else None.
Proof.
  induction post as [|o post IH]; intros H; cbn; [reflexivity|].
  unfold no_single in H. cbn in H. apply andb_true_iff in H as [H1 H2].
  destruct o as [[s'|l]|]; cbn in H1; try discriminate.
  - cbn. rewrite fold_onto_list by exact H2. reflexivity.
  - cbn. apply IH. exact H2.
Qed.

Lemma merge_opt_single acc s : merge_opt acc (Some (Single s)) = Some (Single s).
Proof. destruct acc as [[a|a]|]; reflexivity. Qed.

(* closed form of merging a stack of layers:
   - a Single anywhere wipes everything before it;
   - after the last Single, lists concatenate; a list replaces the Single. *)
Theorem merge_layers_last_single pre s post acc :
  no_single post ->
  fold_left merge_opt (pre ++ Some (Single s) :: post) acc =
  if existsb is_list post then Some (EList (lists_of post)) else Some (Single s).
Proof.
  intros H. rewrite fold_left_app. cbn [fold_left]. rewrite merge_opt_single.
  apply fold_onto_single. exact H.
Qed.

Theorem merge_layers_no_single layers :
  no_single layers ->
  fold_left merge_opt layers None =
  if existsb is_list layers then Some (EList (lists_of layers)) else None.
Proof. apply fold_onto_none. Qed.

(* merging is not associative, which is why the order of layers is content *)
Example merge_not_assoc :
  let a := EList [S_ "a"] in let b := Single (S_ "b") in let c := EList [S_ "c"] in
  merge_key (merge_key a b) c <> merge_key a (merge_key b c).
Proof. cbn. discriminate. Qed.

(* Env::merge is keywise merge_opt (for maps, i.e. association lists without duplicate keys) *)
Lemma env_get_insert_same k v e : env_get k (env_insert k v e) = Some v.
Proof. apply alookup_ainsert_same. Qed.
Lemma env_get_insert_other k k2 v e : k2 <> k -> env_get k2 (env_insert k v e) = env_get k2 e.
Proof. apply alookup_ainsert_other. Qed.

Lemma merge_entry_get self kv k :
  env_get k (merge_entry self kv) =
  if str_eqb k (fst kv) then merge_opt (env_get k self) (Some (snd kv)) else env_get k self.
Proof.
  unfold merge_entry. destruct kv as [k' v]; cbn [fst snd].
  destruct (str_eqb k k') eqn:E.
  - apply str_eqb_eq in E. subst k'. destruct (env_get k self) eqn:G; rewrite env_get_insert_same; reflexivity.
  - apply str_eqb_neq in E. destruct (env_get k' self); rewrite env_get_insert_other by exact E; reflexivity.
Qed.

Lemma merge_get_notin other : forall self k, ~ In k (akeys other) -> env_get k (merge self other) = env_get k self.
Proof.
  induction other as [|[k' v] t IH]; intros self k H; [reflexivity|].
  unfold merge. cbn [fold_left]. fold (merge (merge_entry self (k', v)) t).
  rewrite IH. 2:{ intros I. apply H. right. exact I. }
  rewrite merge_entry_get. cbn [fst].
  destruct (str_eqb k k') eqn:E; [|reflexivity].
  apply str_eqb_eq in E. subst. exfalso. apply H. left. reflexivity.
Qed.

Theorem merge_keywise other : forall self k,
  NoDup (akeys other) ->
  env_get k (merge self other) = merge_opt (env_get k self) (env_get k other).
Proof.
  induction other as [|[k' v] t IH]; intros self k ND.
  - unfold merge. cbn [fold_left]. unfold env_get at 3. cbn [alookup]. destruct (env_get k self); reflexivity.
  - unfold merge. cbn [fold_left]. fold (merge (merge_entry self (k', v)) t).
    inversion ND as [|? ? Hnotin ND']; subst.
    unfold env_get at 3. cbn [alookup]. destruct (str_eqb k k') eqn:E.
    + apply str_eqb_eq in E. subst k'. rewrite merge_get_notin by exact Hnotin.
      rewrite merge_entry_get. cbn [fst snd]. rewrite str_eqb_refl. reflexivity.
    + rewrite IH by exact ND'. rewrite merge_entry_get. cbn [fst]. rewrite E. reflexivity.
Qed.

Theorem merge_layers_keywise layers : forall init k,
  Forall (fun l => NoDup (akeys l)) layers ->
  env_get k (fold_left merge layers init) = fold_left merge_opt (map (env_get k) layers) (env_get k init).
Proof.
  induction layers as [|l t IH]; intros init k H; [reflexivity|].
  inversion H; subst. cbn [fold_left map]. rewrite IH by assumption.
  rewrite merge_keywise by assumption. reflexivity.
Qed.

(* assign_from_string: K+=v is a one-element list, K=v a single; "+=" is tried first *)
Lemma split_once_none_no_prefix pat : forall s acc, split_once pat s acc = None -> is_prefix pat s = false.
Proof.
  intros s acc. destruct s as [|c t]; cbn [split_once]; destruct (is_prefix pat _); intros H; try discriminate; reflexivity.
Qed.

(* "+=" is tried before "=": K+=v never parses as the single assignment of "K+" *)
Theorem assign_plus_first e a var value :
  split_once (S_ "+=") a [] = Some (var, value) ->
  assign_from_string e a = Ok (merge e [(var, EList [value])]).
Proof. intros H. unfold assign_from_string. rewrite H. reflexivity. Qed.

Theorem assign_single e a var value :
  split_once (S_ "+=") a [] = None -> split_once (S_ "=") a [] = Some (var, value) ->
  assign_from_string e a = Ok (merge e [(var, Single value)]).
Proof. intros H1 H2. unfold assign_from_string. rewrite H1, H2. reflexivity. Qed.

Theorem assign_unparsable e a :
  split_once (S_ "+=") a [] = None -> split_once (S_ "=") a [] = None ->
  assign_from_string e a = Err EParse.
Proof. intros H1 H2. unfold assign_from_string. rewrite H1, H2. reflexivity. Qed.
