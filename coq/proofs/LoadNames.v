(* LoadNames.v — a loaded bag has pairwise distinct context names: add_context rejects duplicates and
   every later step (default context, parents, inheritance, modules, provides) keeps the names. *)
From Coq Require Import Ascii String.
From Coq Require Import List Arith Bool NArith Lia.
Import ListNotations.
Require Import Laze.model.Base Laze.model.Env Laze.model.Allow Laze.model.Ctx Laze.model.Load.
Require Import Laze.proofs.WorkList Laze.proofs.BaseFacts Laze.proofs.CacheNarrow Laze.proofs.LoadFrame.
Open Scope list_scope.

Lemma set_ctx_names (b : bag) i c c0 :
  bag_get b i = Some c0 -> c_name c = c_name c0 -> bag_names (set_ctx b i c) = bag_names b.
Proof.
  unfold bag_get, set_ctx, bag_names. revert i. induction b as [|x t IH]; intros i Hg Hn; [destruct i; discriminate|].
  destruct i as [|i]; cbn in *.
  - injection Hg as ->. rewrite Hn. reflexivity.
  - f_equal. apply IH; assumption.
Qed.

Lemma fold_names {A} (f : bag -> A -> bag) : (forall b a, bag_names (f b a) = bag_names b) ->
  forall l b, bag_names (fold_left f l b) = bag_names b.
Proof. intros Hf. induction l as [|a t IH]; intros b; cbn [fold_left]; [reflexivity|]. rewrite IH. apply Hf. Qed.

Lemma inherit_env_names b nm : bag_names (inherit_env b nm) = bag_names b.
Proof.
  unfold inherit_env. destruct (snd nm); [reflexivity|].
  destruct (bag_get b (fst nm)) as [c|] eqn:Eg; [|reflexivity].
  destruct (c_parent_index c) as [p|]; [|reflexivity].
  destruct (bag_get b p) as [pc|]; [|reflexivity].
  destruct (c_env pc); [|reflexivity]. apply (set_ctx_names _ _ _ c Eg). reflexivity.
Qed.
Lemma inherit_var_options_names b nm : bag_names (inherit_var_options b nm) = bag_names b.
Proof.
  unfold inherit_var_options. destruct (snd nm); [reflexivity|].
  destruct (bag_get b (fst nm)) as [c|] eqn:Eg; [|reflexivity].
  destruct (c_var_options c); [reflexivity|].
  destruct (c_parent_index c) as [p|]; [|reflexivity].
  destruct (bag_get b p) as [pc|]; [|reflexivity]. apply (set_ctx_names _ _ _ c Eg). reflexivity.
Qed.
Lemma merge_provides_one_names b nm : bag_names (merge_provides_one b nm) = bag_names b.
Proof.
  unfold merge_provides_one. destruct (snd nm); [reflexivity|].
  destruct (bag_get b (fst nm)) as [c|] eqn:Eg; [|reflexivity]. apply (set_ctx_names _ _ _ c Eg). reflexivity.
Qed.
Lemma merge_provides_names b : bag_names (merge_provides b) = bag_names b.
Proof. unfold merge_provides. apply fold_names. apply merge_provides_one_names. Qed.

Lemma add_module_names b m b' : add_module b m = Ok b' -> bag_names b' = bag_names b.
Proof.
  unfold add_module. destruct (bag_index b (m_context_name m)) as [i|]; [|discriminate].
  destruct (bag_get b i) as [c|] eqn:Eg; [|discriminate].
  destruct (alookup (m_name m) (c_modules c)); [discriminate|].
  intros E. injection E as <-. apply (set_ctx_names _ _ _ c Eg). reflexivity.
Qed.

Lemma In_firstn {A} (x : A) : forall n l, In x (firstn n l) -> In x l.
Proof.
  induction n as [|n IH]; intros l H; [destruct H|]. destruct l as [|y t]; [destruct H|].
  cbn in H. destruct H as [->|H]; [left; reflexivity|right; apply IH, H].
Qed.
Lemma NoDup_firstn {A} n (l : list A) : NoDup l -> NoDup (firstn n l).
Proof.
  revert n. induction l as [|x t IH]; intros n ND; [rewrite firstn_nil; constructor|].
  destruct n; cbn; [constructor|]. inversion ND as [|? ? Hx ND']; subst. constructor; [|apply IH, ND'].
  intros Hin. apply Hx. eapply In_firstn. exact Hin.
Qed.

(* finalize keeps the names (up to the added default context) distinct *)
Lemma combine_names (b : bag) (ps : list (option nat)) :
  bag_names (map (fun cp => with_parent_index (fst cp) (snd cp)) (combine b ps)) = firstn (length ps) (bag_names b).
Proof.
  unfold bag_names. revert ps. induction b as [|c t IH]; intros ps; cbn; [destruct ps; reflexivity|].
  destruct ps as [|p ps]; cbn; [reflexivity|]. f_equal. apply IH.
Qed.

Lemma finalize_nodup b0 b : NoDup (bag_names b0) -> finalize b0 = Ok b -> NoDup (bag_names b).
Proof.
  unfold finalize. intros ND.
  set (b1 := if mem_str (S_ "default") (bag_names b0) then b0 else b0 ++ [context_default]).
  assert (ND1 : NoDup (bag_names b1)).
  { unfold b1. destruct (mem_str (S_ "default") (bag_names b0)) eqn:E; [exact ND|].
    unfold bag_names. rewrite map_app. cbn [map]. apply mem_str_false in E.
    apply NoDup_snoc; [exact ND|exact E]. }
  clearbody b1.
  destruct (resolve_parents (bag_names b1) (map c_parent_name b1)) as [ps|]; [|discriminate].
  destruct (negb (acyclic ps)); [discriminate|].
  intros E. injection E as <-.
  rewrite (fold_names inherit_var_options inherit_var_options_names).
  rewrite (fold_names inherit_env inherit_env_names).
  rewrite combine_names. apply NoDup_firstn, ND1.
Qed.

(* ---------- folds in the result monad ---------- *)
Lemma fold_rbind_inv {A B} (P : A -> Prop) (f : A -> B -> res A) :
  (forall a x a', P a -> f a x = Ok a' -> P a') ->
  forall l (acc : res A) a', (forall a, acc = Ok a -> P a) ->
                             fold_left (fun acc x => rbind acc (fun a => f a x)) l acc = Ok a' -> P a'.
Proof.
  intros Hf. induction l as [|x t IH]; intros acc a' Hacc HF; cbn [fold_left] in HF; [apply Hacc, HF|].
  apply (IH (rbind acc (fun a => f a x)) a'); [|exact HF].
  intros a1 E. destruct acc as [a0| | |]; cbn [rbind] in E; try discriminate.
  apply (Hf a0 x a1 (Hacc a0 eq_refl) E).
Qed.

Lemma add_context_nodup b c b' : NoDup (bag_names b) -> add_context b c = Ok b' -> NoDup (bag_names b').
Proof.
  unfold add_context. intros ND. destruct (mem_str (c_name c) (bag_names b)) eqn:E; [discriminate|].
  intros E2. injection E2 as <-. unfold bag_names. rewrite map_app. cbn [map].
  apply NoDup_snoc; [exact ND|]. apply mem_str_false. exact E.
Qed.

Lemma add_modules_names bd b d mods is_binary defaults b' :
  add_modules bd b d mods is_binary defaults = Ok b' -> bag_names b' = bag_names b.
Proof.
  unfold add_modules. intros HF.
  apply (fold_rbind_inv (fun x => bag_names x = bag_names b)
           (fun b0 y => fold_left (fun acc c => rbind acc (fun b1 =>
                          rbind (convert_module bd y c is_binary (ld_file d) (ld_root d) defaults) (add_module b1)))
                          (contexts_of (ym_context y)) (Ok b0))) with (l := mods) (acc := Ok b); [|intros a E; injection E as <-; reflexivity|exact HF].
  intros a y a' Ha HF2.
  apply (fold_rbind_inv (fun x => bag_names x = bag_names b)
           (fun b1 c => rbind (convert_module bd y c is_binary (ld_file d) (ld_root d) defaults) (add_module b1)))
    with (l := contexts_of (ym_context y)) (acc := Ok a); [|intros a0 E; injection E as <-; exact Ha|exact HF2].
  intros a0 c a1 Ha0 E. destruct (convert_module bd y c is_binary (ld_file d) (ld_root d) defaults) as [m| | |]; cbn [rbind] in E; try discriminate.
  rewrite (add_module_names _ _ _ E). exact Ha0.
Qed.

(* ---------- load ---------- *)
Theorem load_names_distinct t pf bd b : load t pf bd = Ok b -> ctx_names_ok b.
Proof.
  unfold load, ctx_names_ok. intros HL.
  destruct (load_files _ t [(pf, (None, None))] 0 []) as [[docs fs]| | |]; cbn [rbind] in HL; try discriminate.
  (* phase 1: contexts and builders of all documents *)
  match type of HL with rbind ?X _ = _ => destruct X as [[b0 cms]| | |] eqn:E1 end; cbn [rbind] in HL; try discriminate.
  assert (ND0 : NoDup (bag_names b0)).
  { refine (fold_rbind_inv (fun p : bag * list module => NoDup (bag_names (fst p))) _ _ docs (Ok ([], [])) (b0, cms) _ E1);
      [|intros a E; injection E as <-; constructor].
    intros [ba cmsa] d [ba' cmsa'] Ha Hd. cbn [fst] in *.
    refine (fold_rbind_inv (fun p : bag * list module => NoDup (bag_names (fst p))) _ _ _ (Ok (ba, cmsa)) (ba', cmsa') _ Hd);
      [|intros a E; injection E as <-; exact Ha].
    intros [bb cmsb] lb [bb' cmsb'] Hb Hlb. cbn [fst] in *.
    refine (fold_rbind_inv (fun p : bag * list module => NoDup (bag_names (fst p))) _ _ _ (Ok (bb, cmsb)) (bb', cmsb') _ Hlb);
      [|intros a E; injection E as <-; exact Hb].
    intros [bc cmsc] y [bc' cmsc'] Hc Hy. cbn [fst] in *.
    destruct (convert_context y (snd lb || yc_is_builder y) (ld_file d) (ld_root d)) as [[c m]| | |]; cbn [rbind] in Hy; try discriminate.
    destruct (add_context bc c) as [bn| | |] eqn:Ea; cbn [rbind] in Hy; try discriminate.
    injection Hy as <- _. exact (add_context_nodup _ _ _ Hc Ea). }
  destruct (finalize b0) as [b1| | |] eqn:Ef; cbn [rbind] in HL; try discriminate.
  pose proof (finalize_nodup _ _ ND0 Ef) as ND1.
  (* context modules *)
  match type of HL with rbind ?X _ = _ => destruct X as [b2| | |] eqn:E2 end; cbn [rbind] in HL; try discriminate.
  assert (N2 : bag_names b2 = bag_names b1).
  { refine (fold_rbind_inv (fun x : bag => bag_names x = bag_names b1) (fun bx m => add_module bx m) _ cms (Ok b1) b2 _ E2);
      [|intros a E; injection E as <-; reflexivity].
    intros a m a' Ha Hm. rewrite (add_module_names _ _ _ Hm). exact Ha. }
  (* modules and apps of all documents *)
  match type of HL with rbind ?X _ = _ => destruct X as [[[b3 mm] am]| | |] eqn:E3 end; cbn [rbind] in HL; try discriminate.
  assert (N3 : bag_names b3 = bag_names b1).
  { refine (fold_rbind_inv (fun p : bag * list (nat * module) * list (nat * module) => bag_names (fst (fst p)) = bag_names b1)
              _ _ docs (Ok (b2, [], [])) (b3, mm, am) _ E3); [|intros a E; injection E as <-; exact N2].
    intros [[ba mma] ama] d [[ba' mma'] ama'] Ha Hd. cbn [fst] in *.
    destruct (get_defaults bd d mma false) as [mdef| | |]; cbn [rbind] in Hd; try discriminate.
    destruct (get_defaults bd d ama true) as [adef| | |]; cbn [rbind] in Hd; try discriminate.
    match type of Hd with rbind ?X _ = _ => destruct X as [b4| | |] eqn:E4 end; cbn [rbind] in Hd; try discriminate.
    match type of Hd with rbind ?X _ = _ => destruct X as [b5| | |] eqn:E5 end; cbn [rbind] in Hd; try discriminate.
    injection Hd as <- _ _.
    assert (N4 : bag_names b4 = bag_names ba).
    { destruct (d_modules (ld_doc d)) as [[l|]|]; try (injection E4 as <-; reflexivity). exact (add_modules_names _ _ _ _ _ _ _ E4). }
    assert (N5 : bag_names b5 = bag_names b4).
    { destruct (d_apps (ld_doc d)) as [[l|]|]; try (injection E5 as <-; reflexivity); exact (add_modules_names _ _ _ _ _ _ _ E5). }
    rewrite N5, N4. exact Ha. }
  injection HL as <-. rewrite merge_provides_names, N3. exact ND1.
Qed.

(* ---------- C08_hit_is_fresh without the side condition on context names ---------- *)
Require Import Laze.model.Ninja Laze.model.Generate Laze.model.Cache Laze.proofs.CacheFacts Laze.proofs.CacheInstance.

Section Final.
  Variable H : list ascii -> N.
  Variable EV : str -> evr.
  Variable bd : str.
  Variable store : str -> N -> list ydoc.

  Theorem hit_is_fresh_final a k (w w' : world vtree cargs tstate gen_result) r' :
    Inv vtree cargs tstate gen_result cprecheck (cload_ts bd store) (cgen H EV bd store) cis_local w ->
    crun H EV bd store a k w = (w', OHit r') ->
    w' = w /\
    exists c r,
      s_cache _ _ _ (get_slot _ _ _ _ w (cis_local a)) = Some c /\
      s_ninja _ _ _ (get_slot _ _ _ _ w (cis_local a)) = NComplete r /\
      r' = cview a r /\ caccepts (c_args _ _ _ c) r a = true /\ cts_valid (c_ts _ _ _ c) (w_tree _ _ _ _ w) = true /\
      (ca_le (c_args _ _ _ c) = ca_le a -> ca_define (c_args _ _ _ c) = ca_define a -> ca_partition a = None ->
       (ca_local a = None \/ ca_apps a = ca_apps (c_args _ _ _ c)) -> ca_local (c_args _ _ _ c) = ca_local a ->
       exists g',
         snd (crun H EV bd store a 0 (fresh _ _ _ _ (w_tree _ _ _ _ w))) = ORegen g' /\
         (forall x, In x (gr_builds g') <->
                    In x (gr_builds r') /\ selects (ca_builders a) (bi_builder x) = true /\ selects (ca_apps a) (bi_binary x) = true) /\
         (forall t, In t (map show_stmt (gr_stmts g')) -> In t (map show_stmt (gr_stmts r)))).
  Proof.
    intros HI Hrun.
    destruct (hit_is_fresh H EV bd store a k w w' r' (load_frame_holds bd store) HI Hrun) as (Hw & c & r & Hc & Hn & Hv & Hacc & Hts & Hrest).
    split; [exact Hw|]. exists c, r. repeat (split; [assumption|]).
    intros Hle Hdef Hpart Hloc Hlocal. apply (Hrest Hle Hdef Hpart Hloc Hlocal).
    intros b Hb. exact (load_names_distinct _ _ _ _ Hb).
  Qed.
End Final.
