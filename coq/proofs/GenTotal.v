(* GenTotal.v — C15 for the generator: on every project that loads, for every command line, the
   generation ends with a result or an error value — it neither reaches one of the panic sites of
   the model (the unwrap/expect calls of the code, numbered 100-103 in Generate.v) nor exhausts a
   fuel bound (never loops). *)
From Coq Require Import Ascii String.
From Coq Require Import List Arith Bool NArith Lia.
Import ListNotations.
Require Import Laze.model.Base Laze.model.Env Laze.model.Expand Laze.model.Path Laze.model.Hash Laze.model.Allow
               Laze.model.Ninja Laze.model.Ctx Laze.model.Resolver Laze.model.Imports Laze.model.Generate Laze.model.Load.
Require Import Laze.proofs.BaseFacts Laze.proofs.ExpandFacts Laze.proofs.AllowFacts Laze.proofs.StmtFacts.
Open Scope list_scope.

(* the computation ends: a value or an error value *)
Definition ends {A} (x : res A) : Prop := match x with Ok _ | Err _ => True | _ => False end.

Lemma ends_rbind {A B} (x : res A) (f : A -> res B) : ends x -> (forall a, x = Ok a -> ends (f a)) -> ends (rbind x f).
Proof. destruct x as [a|e| |]; cbn; intros Hx Hf; try contradiction; [apply Hf; reflexivity|exact I]. Qed.
Lemma ends_rmap {A B} (f : A -> B) (x : res A) : ends x -> ends (rmap f x).
Proof. intros Hx. unfold rmap. apply ends_rbind; [exact Hx|intros; exact I]. Qed.
Lemma ends_rmapM {A B} (f : A -> res B) (l : list A) : (forall x, In x l -> ends (f x)) -> ends (rmapM f l).
Proof.
  induction l as [|x t IH]; intros Hf; cbn [rmapM]; [exact I|].
  apply ends_rbind; [apply Hf; left; reflexivity|]. intros y _.
  apply ends_rbind; [apply IH; intros z Hz; apply Hf; right; exact Hz|]. intros; exact I.
Qed.
Lemma ends_fold {A B} (f : A -> B -> res A) (l : list B) :
  (forall a x, In x l -> ends (f a x)) -> forall acc, ends acc -> ends (fold_left (fun acc x => rbind acc (fun a => f a x)) l acc).
Proof.
  induction l as [|x t IH]; intros Hf acc Ha; cbn [fold_left]; [exact Ha|].
  apply IH; [intros a y Hy; apply Hf; right; exact Hy|].
  apply ends_rbind; [exact Ha|]. intros a _. apply Hf. left. reflexivity.
Qed.

Ltac ends_step :=
  match goal with
  | |- ends (Ok _) => exact I
  | |- ends (Err _) => exact I
  | |- ends (rbind _ _) => apply ends_rbind; [|intros ? ?]
  | |- ends (rmap _ _) => apply ends_rmap
  | |- ends (match ?x with _ => _ end) => destruct x eqn:?
  | |- ends (if ?x then _ else _) => destruct x eqn:?
  | |- ends (let '(_, _) := ?p in _) => destruct p
  end.

(* ---------- expansion ---------- *)
Lemma ends_expand r pol f : ends (expand r pol f).
Proof. pose proof (expand_total r pol f) as T. destruct (expand r pol f); cbn in *; try contradiction; exact I. Qed.
Lemma ends_expand_eval EV r pol f : ends (expand_eval EV r pol f).
Proof.
  pose proof (expand_eval_totalP EV True r pol f (fun _ _ => I)) as T.
  destruct (expand_eval EV r pol f); cbn in *; try contradiction; exact I.
Qed.

(* ---------- environments ---------- *)
Lemma ends_apply_from e : forall opts acc, ends (apply_from e opts acc).
Proof.
  induction opts as [|[key o] t IH]; intros acc; cbn [apply_from]; [exact I|].
  destruct (mo_from o); [|apply IH]. destruct (env_get _ e); [|exact I]. destruct (alookup key acc); [exact I|apply IH].
Qed.
Lemma ends_flatten_opt opts e : ends (flatten_with_opts_option opts e).
Proof. unfold flatten_with_opts_option, flatten_with_opts. destruct opts; [apply ends_apply_from|exact I]. Qed.

(* ---------- rules ---------- *)
Lemma ends_apply_export EV env e : ends (apply_export EV env e).
Proof. unfold apply_export. apply ends_rmap, ends_expand_eval. Qed.
Lemma ends_rule_expand EV env r : ends (rule_expand EV env r).
Proof.
  unfold rule_expand. apply ends_rbind; [|intros exp _].
  - destruct (nr_export r); [|exact I]. apply ends_rmap, ends_rmapM. intros; apply ends_apply_export.
  - apply ends_rbind; [apply ends_expand_eval|intros cmd _].
    apply ends_rbind; [|intros; exact I]. destruct (nr_deps r); [apply ends_rmap, ends_expand_eval|exact I].
Qed.
Lemma ends_to_ninja H EV env r : ends (to_ninja H EV env r).
Proof. unfold to_ninja. apply ends_rmap, ends_rule_expand. Qed.

(* ---------- allow / block lists on a tree without parent cycles ---------- *)
Lemma ends_ancestor_in_list t ctx : wf_tree t -> forall l nearest, ends (ancestor_in_list t ctx l nearest).
Proof.
  intros W. induction l as [|n r IH]; intros nearest; cbn [ancestor_in_list]; [exact I|].
  destruct (get_by_name t n) as [listed|]; [|apply IH].
  destruct (is_ancestor_total t listed ctx 0 W) as [res E]. rewrite E.
  destruct res as [[i d]|]; apply IH.
Qed.
Lemma ends_is_allowed t ctx bl al : wf_tree t -> ends (is_allowed t ctx bl al).
Proof.
  intros W. unfold is_allowed.
  apply ends_rbind; [destruct al; [apply ends_ancestor_in_list, W|exact I]|intros ae _].
  apply ends_rbind; [destruct bl; [apply ends_ancestor_in_list, W|exact I]|intros be _]. exact I.
Qed.

(* ---------- the resolver reaches no panic site ---------- *)
Definition nopanic {A} (x : res A) : Prop := match x with Panic _ => False | _ => True end.

Section ResolverNP.
  Variable lookup : str -> option module.
  Variable provs : str -> option (list str).
  Definition np_rec (rec : rstate -> module -> res rstate) : Prop := forall st m, nopanic (rec st m).

  Lemma np_by_name rec st n : np_rec rec -> nopanic (by_name lookup rec st n).
  Proof. intros Hr. unfold by_name. destruct (lookup n); [apply Hr|exact I]. Qed.

  Lemma np_rlist rec pn : np_rec rec -> forall ps cur cnt, nopanic (rlist lookup rec pn ps cur cnt).
  Proof.
    intros Hr. induction ps as [|p ps IH]; intros cur cnt; cbn [rlist]; [exact I|].
    destruct (selected p cur); [apply IH|].
    destruct (has_key pn (disabled cur)); [destruct (Nat.ltb 0 cnt); [exact I|apply IH]|].
    pose proof (np_by_name rec cur p Hr) as Hb. destruct (by_name lookup rec cur p); try apply IH; [contradiction|exact I].
  Qed.

  Lemma np_deps rec : np_rec rec -> forall ds cur, nopanic (deps lookup provs rec ds cur).
  Proof.
    intros Hr. induction ds as [|d ds IH]; intros cur; cbn [deps]; [exact I|].
    destruct (classify d cur) as [o d'|n opt]; [apply IH|].
    destruct (provs n) as [ps|].
    - pose proof (np_rlist rec n Hr ps cur 0) as Hl.
      destruct (rlist lookup rec n ps cur 0) as [[c cnt]|e| |]; try contradiction; try exact I.
      destruct (Nat.ltb 0 cnt).
      + destruct (true && has_key n (disabled c)); [apply IH|].
        pose proof (np_by_name rec c n Hr) as Hb. destruct (by_name lookup rec c n); try contradiction; try exact I; [apply IH|].
        destruct (opt || true); [apply IH|exact I].
      + cbn [andb]. pose proof (np_by_name rec cur n Hr) as Hb. destruct (by_name lookup rec cur n); try contradiction; try exact I; [apply IH|].
        destruct (opt || false); [apply IH|exact I].
    - cbn [andb]. pose proof (np_by_name rec cur n Hr) as Hb. destruct (by_name lookup rec cur n); try contradiction; try exact I; [apply IH|].
      destruct (opt || false); [apply IH|exact I].
  Qed.

  Lemma np_resolve_deep : forall f, np_rec (resolve_deep lookup provs f).
  Proof.
    induction f as [|f IH]; intros st m; cbn [resolve_deep]; [exact I|].
    destruct (selected (m_name m) st); [exact I|]. destruct (blocked st m); [exact I|].
    apply np_deps, IH.
  Qed.
End ResolverNP.

Lemma np_resolve_build b builder bname binary sel dis : nopanic (resolve_build b builder bname binary sel dis).
Proof. unfold resolve_build. apply np_resolve_deep. Qed.

(* ---------- module environments ---------- *)
Lemma ends_build_env genv ms provs self : ends (build_env genv ms provs self).
Proof.
  unfold build_env.
  apply ends_rbind; [|intros [e bd] _; exact I].
  generalize (imports_postorder ms provs self). intros deps.
  assert (G : forall l acc, ends acc -> ends (fold_left (fun (acc : res (env * option (list module))) (d : module) =>
              rbind acc (fun '(e, bd) =>
                let e1 := merge e (m_env_export d) in
                rbind (if m_notify_all self then Ok e1
                       else match env_get (S_ "notify") e1 with
                            | None => Ok (env_insert (S_ "notify") (EList [module_define d]) e1)
                            | Some (EList l) => Ok (env_insert (S_ "notify") (EList (l ++ [module_define d])) e1)
                            | Some (Single s) => Ok (env_insert (S_ "notify") (EList [s; module_define d]) e1)
                            end) (fun e2 =>
                let bd1 := if negb (module_eqb d self) && m_is_build_dep d
                           then Some (mset_insert d (odflt [] bd)) else bd in
                Ok (e2, bd1)))) l acc)).
  { induction l as [|d t IH]; intros acc Ha; cbn [fold_left]; [exact Ha|]. apply IH.
    apply ends_rbind; [exact Ha|]. intros [e bd] _. cbv zeta.
    apply ends_rbind; [|intros; exact I].
    destruct (m_notify_all self); [exact I|]. destruct (env_get _ _) as [[s|l]|]; exact I. }
  apply G. exact I.
Qed.

(* ---------- the module loop ---------- *)
Section Loop.
  Variable H : list ascii -> N.
  Variable EV : str -> evr.

  Lemma ends_download_stmts rules flat m srcdir d : ends (download_stmts H EV rules flat m srcdir d).
  Proof.
    unfold download_stmts. destruct (dl_source_of d) as [url commit|]; [|exact I].
    destruct (get_rule _ rules) as [dr|]; [|exact I].
    apply ends_rbind; [apply ends_to_ninja|intros ndr _].
    destruct (dl_patches d); [|exact I]. destruct (get_rule _ rules) as [pr|]; [|exact I].
    apply ends_rbind; [apply ends_to_ninja|intros; exact I].
  Qed.

  Lemma ends_compile_source rules mr flat objdir bn an srcdir combined dh local tag st source :
    ends (compile_source H EV rules mr flat objdir bn an srcdir combined dh local tag st source).
  Proof.
    unfold compile_source. apply ends_rbind; [apply ends_expand_eval|intros srcpath _].
    apply ends_rbind; [|intros [rule nrule] _].
    - destruct (extension srcpath) as [e|]; [|exact I]. destruct (alookup e rules); [|exact I]. destruct (alookup e mr); exact I.
    - apply ends_rbind; [destruct (r_out rule); exact I|intros; exact I].
  Qed.

  Lemma ends_module_step rules merge_opts ms gdeps objdir bn an st mm :
    ends (module_step H EV rules merge_opts ms gdeps objdir bn an st mm).
  Proof.
    unfold module_step. destruct mm as [[m menv] mdeps].
    destruct (m_srcdir m) as [srcdir|]; [|exact I].
    apply ends_rbind; [apply ends_flatten_opt|intros flat _].
    apply ends_rbind; [destruct (m_download m); [apply ends_download_stmts|exact I]|intros dl_stmts _]. cbv zeta.
    apply ends_rbind; [destruct (m_download m); [exact I|apply ends_rmap, ends_expand_eval]|intros [sta tag] _].
    apply ends_rbind; [|intros imported0 _].
    { match goal with |- ends (match ?x with _ => _ end) => destruct x end; exact I. }
    destruct (m_build m) as [cb|].
    - apply ends_rbind; [apply ends_expand_eval|intros cmd _].
      apply ends_rbind; [apply ends_rmapM; intros; apply ends_expand_eval|intros srcs _].
      apply ends_rbind; [apply ends_rmapM; intros; apply ends_expand_eval|intros outs _]. exact I.
    - apply ends_rbind; [|intros [mr st2] _].
      + match goal with |- ends (fold_left ?F ?l (Ok ?a)) =>
          assert (G : forall l0 acc, ends acc -> ends (fold_left F l0 acc)) end.
        { induction l0 as [|s t IH]; intros acc Ha; cbn [fold_left]; [exact Ha|]. apply IH.
          apply ends_rbind; [exact Ha|]. intros [mr0 s0] _.
          destruct (extension s); [|exact I]. destruct (alookup _ rules); [|exact I].
          apply ends_rbind; [apply ends_to_ninja|intros; exact I]. }
        apply G. exact I.
      + apply (ends_fold (fun s source => compile_source H EV rules mr flat objdir bn an srcdir _ _ _ tag s source)); [|exact I].
        intros; apply ends_compile_source.
  Qed.

  Lemma ends_loop rules merge_opts ms gdeps objdir bn an l st :
    ends (fold_left (fun acc mm => rbind acc (fun st0 => module_step H EV rules merge_opts ms gdeps objdir bn an st0 mm)) l (Ok st)).
  Proof.
    apply (ends_fold (fun st0 mm => module_step H EV rules merge_opts ms gdeps objdir bn an st0 mm)); [|exact I].
    intros; apply ends_module_step.
  Qed.

  (* ---------- tasks ---------- *)
  Lemma ends_task_eval flat t : ends (task_eval EV flat t).
  Proof.
    unfold task_eval. apply ends_rbind; [apply ends_rmapM; intros; apply ends_expand_eval|intros cmd _].
    apply ends_rbind; [destruct (t_export t); [apply ends_rmap, ends_rmapM; intros; apply ends_apply_export|exact I]|intros exp _].
    apply ends_rbind; [destruct (t_workdir t); [apply ends_rmap, ends_expand_eval|exact I]|intros; exact I].
  Qed.
  Lemma ends_task_insert flat ms acc nt : ends acc -> ends (task_insert EV flat ms acc nt).
  Proof.
    intros Ha. unfold task_insert. apply ends_rbind; [exact Ha|intros l _].
    destruct (task_check flat ms (snd nt)); [exact I|]. apply ends_rbind; [apply ends_task_eval|intros; exact I].
  Qed.
  Lemma ends_task_fold flat ms l : forall acc, ends acc -> ends (fold_left (task_insert EV flat ms) l acc).
  Proof. induction l as [|x t IH]; intros acc Ha; cbn [fold_left]; [exact Ha|]. apply IH, ends_task_insert, Ha. Qed.
  Lemma ends_task_mods flat ms (l : list module) : forall a, ends a ->
    ends (fold_left (fun a m => fold_left (task_insert EV flat ms) (m_tasks m) a) l a).
  Proof. induction l as [|m r IH]; intros a Ha; cbn [fold_left]; [exact Ha|]. apply IH, ends_task_fold, Ha. Qed.
  Lemma ends_collect_tasks b builder flat ms : ends (collect_tasks EV b builder flat ms).
  Proof.
    unfold collect_tasks. generalize (ctxs_of b (parents_root_first b builder)). intros cs.
    assert (G : forall l acc, ends acc -> ends (fold_left (fun acc c =>
                 let acc1 := fold_left (task_insert EV flat ms) (odflt [] (c_tasks c)) acc in
                 fold_left (fun a m => fold_left (task_insert EV flat ms) (m_tasks m) a) ms acc1) l acc)).
    { induction l as [|c t IH]; intros acc Ha; cbn [fold_left]; [exact Ha|]. apply IH.
      apply ends_task_mods. apply ends_task_fold, Ha. }
    apply G. exact I.
  Qed.
End Loop.

(* ---------- the build order only names registered nodes (site 103) ---------- *)
Require Import Laze.proofs.OrderFacts.

Lemma reach_last g a c : reach g a c -> c = a \/ exists k, In c (gdeps g k).
Proof.
  induction 1 as [a|a b c Hb _ IH]; [left; reflexivity|].
  destruct IH as [->|IH]; [right; exists a; exact Hb|right; exact IH].
Qed.

Lemma g_walk_range fuel g target (P : str -> Prop) : forall sat acc res,
  g_walk fuel g target sat acc = Some res ->
  (forall x, In x acc -> P x) -> (forall n, reach g target n -> P n) -> forall x, In x res -> P x.
Proof.
  induction fuel as [|fuel IH]; intros sat acc res HW Hacc HP; [discriminate|].
  cbn [g_walk] in HW. destruct (mem_str target sat).
  - injection HW as <-. intros x Hx. apply Hacc. apply in_rev. exact Hx.
  - destruct (g_next (S (length (g_nodes g))) g sat [] target) as [n|] eqn:EN; [|discriminate].
    apply g_next_found in EN. destruct EN as (R & _ & _).
    apply (IH _ _ _ HW); [|exact HP]. intros x [<-|Hx]; [apply HP, R|apply Hacc, Hx].
Qed.

Lemma dependencies_range g target res :
  dependencies_of g target = Some res -> forall x, In x res -> x = target \/ exists k, In x (gdeps g k).
Proof.
  unfold dependencies_of. intros HW.
  apply (g_walk_range _ _ _ (fun x => x = target \/ exists k, In x (gdeps g k)) _ _ _ HW); [intros x []|].
  intros n Hr. apply reach_last, Hr.
Qed.

Lemma gdeps_register g node dep k x :
  In x (gdeps (g_register_dependency g node dep) k) -> x = dep \/ In x (gdeps g k).
Proof.
  unfold gdeps, g_register_dependency. cbn [g_deps g_register_node].
  destruct (str_eqb k node) eqn:Ek.
  - apply str_eqb_eq in Ek. subst k. rewrite alookup_ainsert_same. cbn [odflt]. intros Hx.
    apply iset_insert_In' in Hx. destruct Hx as [->|Hx]; [left; reflexivity|right; exact Hx].
  - apply str_eqb_neq in Ek. rewrite alookup_ainsert_other by exact Ek. intros Hx. right. exact Hx.
Qed.

Lemma gdeps_fold_register {A} (f : A -> str) node (l : list A) : forall g k x,
  In x (gdeps (fold_left (fun g d => g_register_dependency g node (f d)) l g) k) ->
  In x (map f l) \/ In x (gdeps g k).
Proof.
  induction l as [|d t IH]; intros g k x Hx; cbn [fold_left] in Hx; [right; exact Hx|].
  apply IH in Hx. destruct Hx as [Hx|Hx]; [left; right; exact Hx|].
  apply gdeps_register in Hx. destruct Hx as [->|Hx]; [left; left; reflexivity|right; exact Hx].
Qed.

Notation triple := (module * env * option (list module))%type.
Definition graph_step (root gnode : str) (g : depgraph) (mm : triple) : depgraph :=
  let '(m, _, mdeps) := mm in
  let g1 := fold_left (fun g d => g_register_dependency g (m_name m) (m_name d)) (odflt [] mdeps) g in
  let g2 := g_register_dependency g1 root (m_name m) in
  if m_is_global_build_dep m then g2 else g_register_dependency g2 (m_name m) gnode.

Definition in_mods (mods : list triple) (x : str) : Prop :=
  exists mm, In mm mods /\ (x = m_name (fst (fst mm)) \/ In x (map m_name (odflt [] (snd mm)))).

Lemma graph_fold_range root gnode (mods : list triple) : forall g k x,
  In x (gdeps (fold_left (graph_step root gnode) mods g) k) ->
  x = gnode \/ in_mods mods x \/ In x (gdeps g k).
Proof.
  induction mods as [|mm t IH]; intros g k x Hx; cbn [fold_left] in Hx; [right; right; exact Hx|].
  apply IH in Hx. destruct Hx as [Hx|[Hx|Hx]]; [left; exact Hx| |].
  - right. left. destruct Hx as (m0 & Hin & Hm0). exists m0. split; [right; exact Hin|exact Hm0].
  - destruct mm as [[m menv] mdeps]. unfold graph_step in Hx.
    assert (Hg2 : forall y, In y (gdeps (g_register_dependency
                    (fold_left (fun g0 d => g_register_dependency g0 (m_name m) (m_name d)) (odflt [] mdeps) g) root (m_name m)) k) ->
                  in_mods ((m, menv, mdeps) :: t) y \/ In y (gdeps g k)).
    { intros y Hy. apply gdeps_register in Hy. destruct Hy as [->|Hy].
      - left. exists (m, menv, mdeps). split; [left; reflexivity|left; reflexivity].
      - apply gdeps_fold_register in Hy. destruct Hy as [Hy|Hy]; [|right; exact Hy].
        left. exists (m, menv, mdeps). split; [left; reflexivity|right; exact Hy]. }
    destruct (m_is_global_build_dep m).
    + destruct (Hg2 x Hx) as [Hy|Hy]; [right; left; exact Hy|right; right; exact Hy].
    + apply gdeps_register in Hx. destruct Hx as [->|Hx]; [left; reflexivity|].
      destruct (Hg2 x Hx) as [Hy|Hy]; [right; left; exact Hy|right; right; exact Hy].
Qed.

Lemma gdeps_empty k : gdeps g_empty k = [].
Proof. reflexivity. Qed.

(* every name of the build order, other than the two artificial nodes, is a module of [mods] or one
   of the global build deps or one of the build deps of a module of [mods] *)
Lemma order_names root gnode (gds : list module) (mods : list triple) order :
  dependencies_of (fold_left (graph_step root gnode) mods
                     (fold_left (fun g d => g_register_dependency g gnode (m_name d)) gds g_empty)) root = Some order ->
  forall n, In n (filter (fun n => negb (str_eqb n root) && negb (str_eqb n gnode)) order) ->
  In n (map m_name gds) \/ in_mods mods n.
Proof.
  intros HD n Hn. apply filter_In in Hn. destruct Hn as [Hn Hf]. apply andb_prop in Hf. destruct Hf as [Hr Hg].
  apply negb_true_iff in Hr, Hg. apply str_eqb_neq in Hr, Hg.
  destruct (dependencies_range _ _ _ HD n Hn) as [->|[k Hk]]; [contradiction|].
  apply graph_fold_range in Hk. destruct Hk as [->|[Hk|Hk]]; [contradiction|right; exact Hk|].
  apply gdeps_fold_register in Hk. destruct Hk as [Hk|Hk]; [left; exact Hk|destruct Hk].
Qed.

(* ---------- the build deps of a module are selected modules ---------- *)
Section ImportsIn.
  Variable ms : list module.
  Variable provs : list (str * list module).
  Definition inS (y : module) : Prop := In y ms \/ exists n, In y (get_list n provs).

  Lemma imports_rec_in : forall f seen m, inS m -> forall y, In y (fst (imports_rec f ms provs seen m)) -> inS y.
  Proof.
    induction f as [|f IH]; intros seen m Hm y Hy; cbn [imports_rec] in Hy; [destruct Hy|].
    destruct (mem_str (m_name m) seen); [destruct Hy|].
    set (visit := fun (acc : list module * list str) (x : module) =>
                    let '(r, s) := imports_rec f ms provs (snd acc) x in (fst acc ++ r, s)) in *.
    assert (Hvisit : forall acc x, (forall z, In z (fst acc) -> inS z) -> inS x -> forall z, In z (fst (visit acc x)) -> inS z).
    { intros acc x Ha Hx z Hz. unfold visit in Hz.
      destruct (imports_rec f ms provs (snd acc) x) as [r s] eqn:Er. cbn [fst] in Hz.
      apply in_app_or in Hz. destruct Hz as [Hz|Hz]; [apply Ha, Hz|].
      apply (IH (snd acc) x Hx). rewrite Er. exact Hz. }
    assert (Hvfold : forall l acc, (forall z, In z (fst acc) -> inS z) -> (forall x, In x l -> inS x) ->
                                   forall z, In z (fst (fold_left visit l acc)) -> inS z).
    { induction l as [|x t IHl]; intros acc Ha Hl z Hz; cbn [fold_left] in Hz; [apply Ha, Hz|].
      apply (IHl (visit acc x)); [|intros x0 Hx0; apply Hl; right; exact Hx0|exact Hz].
      apply Hvisit; [exact Ha|apply Hl; left; reflexivity]. }
    match type of Hy with In y (fst (let '(res, seen1) := fold_left ?S _ _ in _)) => set (step := S) in * end.
    assert (Hstep : forall ds acc, (forall z, In z (fst acc) -> inS z) -> forall z, In z (fst (fold_left step ds acc)) -> inS z).
    { induction ds as [|d t IHd]; intros acc Ha z Hz; cbn [fold_left] in Hz; [apply Ha, Hz|].
      apply (IHd (step acc d)); [|exact Hz]. unfold step.
      destruct (import_target ms d) as [n|]; [|exact Ha].
      apply Hvfold; [|intros x Hx; right; exists n; exact Hx].
      destruct (find_sel n ms) as [other|] eqn:Ef; [|exact Ha].
      apply Hvisit; [exact Ha|]. left. unfold find_sel in Ef. apply find_some in Ef. exact (proj1 Ef). }
    destruct (fold_left step (m_imports m) ([], m_name m :: seen)) as [res seen1] eqn:Efs. cbn [fst] in Hy.
    apply in_app_or in Hy. destruct Hy as [Hy|[<-|[]]]; [|exact Hm].
    apply (Hstep (m_imports m) ([], m_name m :: seen)); [intros z []|]. rewrite Efs. exact Hy.
  Qed.

  Lemma build_env_deps_in genv self e bd : In self ms -> build_env genv ms provs self = Ok (e, bd) ->
    forall d, In d (odflt [] bd) -> inS d.
  Proof.
    intros Hs HB d Hd. unfold build_env in HB.
    assert (Himp : forall y, In y (imports_postorder ms provs self) -> inS y).
    { intros y Hy. unfold imports_postorder in Hy. apply (imports_rec_in _ _ self (or_introl Hs) y Hy). }
    revert HB Himp. generalize (imports_postorder ms provs self). intros deps HB Himp.
    match type of HB with rbind ?X _ = _ => destruct X as [[e0 bd0]| | |] eqn:EF end; cbn [rbind] in HB; try discriminate.
    injection HB as _ <-.
    assert (G : forall l acc e1 bd1, (forall y, In y l -> inS y) ->
               (forall x, match acc with Ok (_, b0) => In x (odflt [] b0) -> inS x | _ => True end) ->
               fold_left (fun (acc : res (env * option (list module))) (d : module) =>
                 rbind acc (fun '(e, bd) =>
                   let e1 := merge e (m_env_export d) in
                   rbind (if m_notify_all self then Ok e1
                          else match env_get (S_ "notify") e1 with
                               | None => Ok (env_insert (S_ "notify") (EList [module_define d]) e1)
                               | Some (EList l) => Ok (env_insert (S_ "notify") (EList (l ++ [module_define d])) e1)
                               | Some (Single s) => Ok (env_insert (S_ "notify") (EList [s; module_define d]) e1)
                               end) (fun e2 =>
                   let bd1 := if negb (module_eqb d self) && m_is_build_dep d
                              then Some (mset_insert d (odflt [] bd)) else bd in
                   Ok (e2, bd1)))) l acc = Ok (e1, bd1) ->
               forall x, In x (odflt [] bd1) -> inS x).
    { induction l as [|d0 t IHl]; intros acc e1 bd1 Hl Hacc HF x Hx; cbn [fold_left] in HF.
      - subst acc. exact (Hacc x Hx).
      - refine (IHl _ e1 bd1 (fun y Hy => Hl y (or_intror Hy)) _ HF x Hx).
        intros x0. destruct acc as [[ea ba]| | |]; cbn [rbind]; try exact I. cbv zeta.
        match goal with |- match rbind ?X _ with _ => _ end => destruct X as [e2| | |] end; cbn [rbind]; try exact I.
        destruct (negb (module_eqb d0 self) && m_is_build_dep d0).
        + cbn [odflt]. intros Hx0. apply mset_insert_In in Hx0. destruct Hx0 as [->|Hx0]; [apply Hl; left; reflexivity|exact (Hacc x0 Hx0)].
        + exact (Hacc x0). }
    exact (G deps (Ok (genv, None)) e0 bd0 Himp (fun x Hx => match Hx with end) EF d Hd).
  Qed.
End ImportsIn.

(* ---------- providers recorded by the resolver are selected modules ---------- *)
Require Import Laze.proofs.ResolverInv.

Lemma get_list_app_at {V} n k (v y : V) : forall p, In y (get_list n (app_at k v p)) -> y = v \/ In y (get_list n p).
Proof.
  induction p as [|[k' l] r IH]; cbn [app_at get_list].
  - destruct (str_eqb n k); [intros [<-|[]]; left; reflexivity|intros []].
  - destruct (str_eqb k k') eqn:Ek; cbn [get_list].
    + destruct (str_eqb n k'); [|intros Hy; right; exact Hy].
      intros Hy. apply in_app_or in Hy. destruct Hy as [Hy|[<-|[]]]; [right; exact Hy|left; reflexivity].
    + destruct (str_eqb n k'); [intros Hy; right; exact Hy|exact IH].
Qed.

Definition prov_in_sel (st : rstate) : Prop := forall n y, In y (get_list n (provby st)) -> In y (sel st).

Lemma prov_in_sel_enter st m : prov_in_sel st -> prov_in_sel (enter st m).
Proof.
  intros HI n y. unfold enter, push, add_provby, add_conflicts. cbn [provby sel].
  intros Hy. apply in_or_app.
  assert (G : forall xs p, In y (get_list n (fold_left (fun p x => app_at x m p) xs p)) -> y = m \/ In y (get_list n p)).
  { induction xs as [|x t IH]; intros p Hp; cbn [fold_left] in Hp; [right; exact Hp|].
    apply IH in Hp. destruct Hp as [->|Hp]; [left; reflexivity|]. apply get_list_app_at in Hp. exact Hp. }
  apply G in Hy. destruct Hy as [->|Hy]; [right; left; reflexivity|left; apply (HI n y Hy)].
Qed.

Lemma resolve_build_prov_in_sel b builder bname binary sel0 dis rst :
  resolve_build b builder bname binary sel0 dis = Ok rst -> prov_in_sel rst.
Proof.
  unfold resolve_build. intros HR.
  refine (resolve_inv _ _ prov_in_sel _ _ _ _ _ _ _ HR).
  - intros st o d HI. exact HI.
  - intros st m HI _ _. apply prov_in_sel_enter, HI.
  - intros n y []. 
Qed.

(* ---------- loaded bags ---------- *)
Require Import Laze.proofs.GenerateFacts Laze.proofs.FinalizeFacts Laze.proofs.LoadKeys Laze.proofs.LoadProvides Laze.proofs.LoadBins.

Lemma load_wf t pf bd b : load t pf bd = Ok b -> wf_tree (bag_tree b).
Proof.
  intros HL. rewrite load_is_merge in HL. unfold rmap in HL.
  destruct (pre_merge t pf bd) as [b3| | |] eqn:E3; cbn [rbind] in HL; try discriminate. injection HL as <-.
  pose proof (pre_merge_wf _ _ _ _ E3) as W3.
  rewrite (merge_is_gpass b3 W3).
  unfold wf_tree, bag_tree. cbn [t_parents].
  change (map c_parent_index (fold_left (gstep upd_prov) (topo_order b3) b3)) with (parents_of (fold_left (gstep upd_prov) (topo_order b3) b3)).
  rewrite (F_parents b3). exact (proj1 W3).
Qed.

Lemma find_name_some (mods : list triple) n :
  (exists mm, In mm mods /\ m_name (fst (fst mm)) = n) ->
  find (fun mm : triple => str_eqb n (m_name (fst (fst mm)))) mods <> None.
Proof.
  intros (mm & Hin & Hn) Hf. pose proof (find_none _ _ Hf mm Hin) as Hx. cbn in Hx.
  rewrite <- Hn, str_eqb_refl in Hx. discriminate.
Qed.

Lemma mods_spec genv ms provs : forall (l : list module) (mods : list triple),
  rmapM (fun m => rmap (fun eb : env * option (list module) => (m, fst eb, snd eb)) (build_env genv ms provs m)) l = Ok mods ->
  (forall m, In m l -> exists mm, In mm mods /\ fst (fst mm) = m) /\
  (forall mm, In mm mods -> In (fst (fst mm)) l /\ build_env genv ms provs (fst (fst mm)) = Ok (snd (fst mm), snd mm)).
Proof.
  intros l mods HR. apply rmapM_ok in HR.
  induction HR as [|m mm l l' Hm _ IH].
  - split; [intros m []|intros mm []].
  - destruct IH as [IH1 IH2]. unfold rmap in Hm.
    destruct (build_env genv ms provs m) as [[e bd]| | |] eqn:Eb; cbn [rbind] in Hm; try discriminate.
    injection Hm as <-. split.
    + intros m0 [<-|Hm0]; [exists (m, e, bd); split; [left; reflexivity|reflexivity]|].
      destruct (IH1 m0 Hm0) as (mm & Hin & Hf). exists mm. split; [right; exact Hin|exact Hf].
    + intros mm [<-|Hmm]; [cbn [fst snd]; split; [left; reflexivity|exact Eb]|].
      destruct (IH2 mm Hmm) as [Hi Hb]. split; [right; exact Hi|exact Hb].
Qed.

Section Build.
  Variable H : list ascii -> N.
  Variable EV : str -> evr.

  Theorem configure_build_ends t pf bd b le builder binary select disable cli_env :
    load t pf bd = Ok b -> builder < length b -> In binary (all_modules b) -> m_is_binary binary = true ->
    ends (configure_build H EV b le builder binary select disable cli_env).
  Proof.
    intros HL Hbl Hbin Hisb.
    pose proof (load_wf _ _ _ _ HL) as W.
    destruct (loaded_binary_ok _ _ _ _ _ HL Hbin Hisb) as [Hcid Hrel].
    unfold configure_build.
    destruct (bag_get b builder) as [bctx|] eqn:Eg.
    2:{ exfalso. unfold bag_get in Eg. apply nth_error_None in Eg. lia. }
    apply ends_rbind; [apply ends_is_allowed, W|intros ba _].
    destruct (negb (allowed_bool ba)); [exact I|].
    apply ends_rbind; [destruct (m_context_id binary); [exact I|contradiction]|intros bin_ctx _].
    apply ends_rbind; [destruct (is_ancestor_total (bag_tree b) bin_ctx builder 0 W) as [r ->]; exact I|intros anc _].
    destruct anc as [anc|]; [|exact I].
    destruct (shadowed b builder binary); [exact I|].
    pose proof (np_resolve_build b builder (c_name bctx) binary select
                  (fold_left (fun a x => iset_insert x a) disable (collect_disabled b builder))) as Hnp.
    pose proof (resolver_terminates_loaded t pf bd b builder (c_name bctx) binary select
                  (fold_left (fun a x => iset_insert x a) disable (collect_disabled b builder)) HL Hbin) as Hnf.
    destruct (resolve_build b builder (c_name bctx) binary select
                (fold_left (fun a x => iset_insert x a) disable (collect_disabled b builder))) as [rst|e| |] eqn:ER;
      [|exact I|contradiction|congruence].
    apply ends_rbind; [destruct (m_relpath binary); [exact I|contradiction]|intros relpath _].
    apply ends_rbind; [apply ends_flatten_opt|intros gflat _].
    apply ends_rbind; [apply ends_expand|intros outfile _].
    apply ends_rbind; [apply ends_rmapM; intros m _; apply ends_rmap, ends_build_env|intros mods Emods].
    match goal with |- ends (match dependencies_of ?g ?r with _ => _ end) => destruct (dependencies_of g r) as [order|] eqn:ED end; [|exact I].
    apply ends_rbind.
    { (* site 103: every name of the build order is a module of the build *)
      apply ends_rmapM. intros n Hn. unfold opt_unwrap.
      match goal with |- ends (match ?X with _ => _ end) => destruct X eqn:Ef end; [exact I|exfalso].
      revert Ef. apply find_name_some.
      destruct (mods_spec _ _ _ _ _ Emods) as [M1 M2].
      assert (Hms : forall d, In d (sel rst) -> exists mm, In mm mods /\ m_name (fst (fst mm)) = m_name d).
      { intros d Hd. destruct (M1 d Hd) as (mm & Hin & Hf). exists mm. split; [exact Hin|rewrite Hf; reflexivity]. }
      pose proof (order_names [] (S_ "_global_build_deps") (filter m_is_global_build_dep (sel rst)) mods order) as HO.
      destruct (HO ED n Hn) as [Hg|(mm & Hin & [->|Hd])].
      - apply in_map_iff in Hg. destruct Hg as (d & <- & Hd). apply filter_In in Hd. apply Hms. exact (proj1 Hd).
      - exists mm. split; [exact Hin|reflexivity].
      - apply in_map_iff in Hd. destruct Hd as (d & <- & Hd).
        destruct (M2 mm Hin) as [Hself Hbe].
        destruct (build_env_deps_in _ _ _ _ _ _ Hself Hbe d Hd) as [Hd'|(k & Hk)]; [apply Hms, Hd'|].
        apply Hms. exact (resolve_build_prov_in_sel _ _ _ _ _ _ _ ER k d Hk). }
    intros in_order _.
    apply ends_rbind; [apply ends_loop|intros st _]. cbv zeta.
    destruct (get_rule _ _) as [lrule|]; [|exact I].
    apply ends_rbind; [apply ends_to_ninja|intros nlink _].
    apply ends_rbind.
    { destruct (get_rule _ _) as [prule|]; [|exact I]. destruct (r_out prule); [|exact I].
      apply ends_rbind; [apply ends_to_ninja|intros; exact I]. }
    intros [final_out entries] _.
    apply ends_rbind; [apply ends_collect_tasks|intros; exact I].
  Qed.
End Build.

(* ---------- the whole generation ---------- *)
Lemma builders_valid b i c : In (i, c) (builders b) -> i < length b.
Proof.
  unfold builders. intros Hin. apply filter_In in Hin. destruct Hin as [Hin _].
  apply in_combine_l in Hin. apply in_seq in Hin. lia.
Qed.

Lemma selected_builders_valid b s l : selected_builders b s = Ok l -> forall i, In i l -> i < length b.
Proof.
  unfold selected_builders. destruct s as [|names].
  - intros [= <-] i Hi. apply in_map_iff in Hi. destruct Hi as ([j c] & <- & Hin). exact (builders_valid _ _ _ Hin).
  - intros HR i Hi. apply rmapM_ok in HR.
    revert i Hi. induction HR as [|n j ns js Hn _ IH]; intros i Hi; [destruct Hi|].
    destruct Hi as [<-|Hi]; [|exact (IH i Hi)].
    destruct (bag_index b n) as [k|]; [|discriminate]. destruct (bag_get b k) as [c|] eqn:Eg; [|discriminate].
    destruct (c_is_builder c); [|discriminate]. injection Hn as <-.
    unfold bag_get in Eg. apply nth_error_Some. rewrite Eg. discriminate.
Qed.

Lemma ends_selected_builders b s : ends (selected_builders b s).
Proof.
  unfold selected_builders. destruct s as [|names]; [exact I|]. apply ends_rmapM. intros n _.
  destruct (bag_index b n) as [k|]; [|exact I]. destruct (bag_get b k) as [c|]; [|exact I]. destruct (c_is_builder c); exact I.
Qed.

Lemma selected_bins_valid b apps local l : selected_bins b apps local = Ok l ->
  forall m, In m l -> In m (all_modules b) /\ m_is_binary m = true.
Proof.
  unfold selected_bins, binaries. intros HS.
  match type of HS with match ?X with _ => _ end = _ => destruct X end; [discriminate|].
  assert (G : forall m, In m (filter (fun m0 => selects apps (m_name m0)) (filter m_is_binary (all_modules b))) ->
                        In m (all_modules b) /\ m_is_binary m = true).
  { intros m Hm. apply filter_In in Hm. destruct Hm as [Hm _]. apply filter_In in Hm. exact Hm. }
  destruct local as [dir|]; [|injection HS as <-; exact G].
  destruct apps as [|names].
  - injection HS as <-. intros m Hm. apply filter_In in Hm. apply G. exact (proj1 Hm).
  - match type of HS with (if ?X then _ else _) = _ => destruct X end; [|discriminate]. injection HS as <-. exact G.
Qed.

Lemma ends_selected_bins b apps local : ends (selected_bins b apps local).
Proof.
  unfold selected_bins.
  match goal with |- ends (match ?X with _ => _ end) => destruct X end; [exact I|].
  destruct local; [|exact I]. destruct apps; [exact I|].
  match goal with |- ends (if ?X then _ else _) => destruct X end; exact I.
Qed.

Lemma pairs_In {A B} (la : list A) (lb : list B) a x : In (a, x) (pairs la lb) -> In a la /\ In x lb.
Proof.
  unfold pairs. intros Hin. apply in_flat_map in Hin. destruct Hin as (a0 & Ha & Hx).
  apply in_map_iff in Hx. destruct Hx as (x0 & E & Hx0). injection E as <- <-. split; assumption.
Qed.

Lemma count_filter_In {A} m n : forall (l : list A) i x, In x (count_filter m n i l) -> In x l.
Proof.
  induction l as [|y t IH]; intros i x Hx; cbn [count_filter] in Hx; [destruct Hx|].
  apply in_app_or in Hx. destruct Hx as [Hx|Hx]; [|right; exact (IH _ _ Hx)].
  destruct (Nat.eqb (Nat.modulo i n) (m - 1)); [destruct Hx as [<-|[]]; left; reflexivity|destruct Hx].
Qed.

Lemma part_filter_In b p tuples x : In x (part_filter b p tuples) -> In x tuples.
Proof.
  unfold part_filter. destruct p as [|m n|keep]; [intros Hx; exact Hx|apply count_filter_In|].
  intros Hx. apply filter_In in Hx. exact (proj1 Hx).
Qed.

(* On every project that loads, for every command line, the generation ends with a result or an
   error value: no panic site is reached and no fuel bound is exhausted. *)
Theorem generate_ends H EV t pf bd b le bsel asel local part select disable cli_env :
  load t pf bd = Ok b -> ends (generate H EV b le bsel asel local part select disable cli_env).
Proof.
  intros HL. unfold generate.
  apply ends_rbind; [apply ends_selected_builders|intros bs Ebs].
  apply ends_rbind; [apply ends_selected_bins|intros bins Ebins]. cbv zeta.
  apply ends_rbind; [|intros; exact I].
  apply ends_rmapM. intros [i m] Hx. apply ends_rmap. cbn [fst snd].
  apply part_filter_In in Hx. apply pairs_In in Hx. destruct Hx as [Hi Hm].
  destruct (selected_bins_valid _ _ _ _ Ebins m Hm) as [Hin Hisb].
  exact (configure_build_ends H EV t pf bd b le i m select disable cli_env HL (selected_builders_valid _ _ _ Ebs i Hi) Hin Hisb).
Qed.

(* ---------- the loader ends, too ---------- *)
Require Import Laze.proofs.LoadFrame Laze.proofs.LoadTotal.

Lemma ends_dep_string s : ends (dependency_from_string s).
Proof. destruct s; exact I. Qed.
Lemma ends_dep_string_if s o : ends (dependency_from_string_if s o).
Proof. destruct s; exact I. Qed.
Lemma ends_deps_of_spec d : ends (deps_of_spec d).
Proof.
  destruct d as [s|kvs]; cbn [deps_of_spec]; apply ends_rmap; [apply ends_dep_string|].
  apply ends_rmapM. intros kv _. apply ends_rmapM. intros v _. apply ends_dep_string_if.
Qed.
Lemma ends_deps_of_specs l : ends (deps_of_specs l).
Proof. unfold deps_of_specs. apply ends_rmap, ends_rmapM. intros; apply ends_deps_of_spec. Qed.
Lemma ends_expand_envkey vals v : ends (expand_envkey vals v).
Proof. destruct v; cbn [expand_envkey]; apply ends_rmap; [apply ends_expand|apply ends_rmapM; intros; apply ends_expand]. Qed.
Lemma ends_env_expand e values : ends (env_expand e values).
Proof. unfold env_expand. apply ends_rmapM. intros kv _. apply ends_rmap, ends_expand_envkey. Qed.
Lemma ends_task_early vals t : ends (task_early vals t).
Proof.
  unfold task_early. apply ends_rbind; [apply ends_rmapM; intros; apply ends_expand|intros cmd _].
  apply ends_rbind; [destruct (t_workdir t); [apply ends_rmap, ends_expand|exact I]|intros; exact I].
Qed.
Lemma ends_convert_tasks ts early : ends (convert_tasks ts early).
Proof. unfold convert_tasks. apply ends_rmapM. intros nt _. apply ends_rmap, ends_task_early. Qed.

Ltac ends_wrap :=
  match goal with
  | |- ends (match ?X with _ => _ end) =>
      let Hc := fresh "Hc" in
      assert (Hc : ends X) by (first [apply ends_env_expand | apply ends_convert_tasks]);
      destruct X; try contradiction; exact I
  end.

Lemma ends_convert_module bd y ctx isb fn root defs : ends (convert_module bd y ctx isb fn root defs).
Proof.
  unfold convert_module.
  apply ends_rbind; [unfold name_ok; destruct (ym_name y); [destruct (is_prefix _ _)|]; exact I|intros _ _].
  apply ends_rbind; [apply ends_deps_of_specs|intros sel1 _].
  apply ends_rbind; [apply ends_rmapM; intros; apply ends_dep_string|intros uses _].
  apply ends_rbind; [apply ends_deps_of_specs|intros depends _]. cbv zeta.
  apply ends_rbind; [ends_wrap|intros el _].
  apply ends_rbind; [ends_wrap|intros ee _].
  apply ends_rbind; [ends_wrap|intros eg _].
  apply ends_rbind; [|intros [tasks own] _; exact I].
  destruct (ym_tasks y); [|exact I]. apply ends_rmap. ends_wrap.
Qed.

Lemma ends_convert_context y ib fn root : ends (convert_context y ib fn root).
Proof.
  unfold convert_context. cbv zeta.
  apply ends_rbind; [destruct (yc_tasks y); [apply ends_rmap; ends_wrap|exact I]|intros tasks _].
  apply ends_rbind; [|intros envx _].
  { destruct (yc_env y); [|exact I]. apply ends_rmap. ends_wrap. }
  apply ends_rbind; [apply ends_rmapM; intros; apply ends_dep_string|intros sels _]. exact I.
Qed.

Lemma ends_add_context b c : ends (add_context b c).
Proof. unfold add_context. destruct (mem_str _ _); exact I. Qed.
Lemma ends_finalize b : ends (finalize b).
Proof. unfold finalize. cbv zeta. destruct (resolve_parents _ _); [|exact I]. destruct (negb _); exact I. Qed.
Lemma ends_add_module b m : ends (add_module b m).
Proof.
  unfold add_module. destruct (bag_index _ _) as [i|]; [|exact I]. destruct (bag_get b i) as [c|]; [|exact I].
  destruct (alookup _ _); exact I.
Qed.
Lemma ends_get_defaults bd d dmap k : ends (get_defaults bd d dmap k).
Proof.
  unfold get_defaults. cbv zeta.
  match goal with |- ends (match ?X with _ => _ end) => destruct X as [y|] end; [|exact I].
  destruct (ym_context y); try exact I;
    match goal with |- ends (match ?X with _ => _ end) =>
      let Hc := fresh in assert (Hc : ends X) by apply ends_convert_module; destruct X; try contradiction; exact I end.
Qed.
Lemma ends_add_modules bd b d mods isb defs : ends (add_modules bd b d mods isb defs).
Proof.
  unfold add_modules.
  apply (ends_fold (fun b0 y => fold_left (fun acc c => rbind acc (fun b1 =>
                       rbind (convert_module bd y c isb (ld_file d) (ld_root d) defs) (add_module b1)))
                       (contexts_of (ym_context y)) (Ok b0))); [|exact I].
  intros a y _.
  apply (ends_fold (fun b1 c => rbind (convert_module bd y c isb (ld_file d) (ld_root d) defs) (add_module b1))); [|exact I].
  intros a0 c _. apply ends_rbind; [apply ends_convert_module|intros; apply ends_add_module].
Qed.

Lemma load_files_nopanic : forall fuel (t : ytree) pending pos docs, nopanic (load_files fuel t pending pos docs).
Proof.
  induction fuel as [|f IH]; intros t pending pos docs; [exact I|].
  rewrite load_files_S. destruct (nth_error pending pos) as [inc|]; [|exact I].
  destruct (alookup (fst inc) t) as [ds0|]; [|exact I].
  pose proof (step_pending_okerr t inc (length docs) ds0 pending) as Hoe.
  destruct (step_pending t inc (length docs) ds0 pending); try exact I; [apply IH|destruct Hoe].
Qed.

(* the loader ends on every tree of documents: with a bag or with an error value *)
Theorem load_ends t pf bd : ends (load t pf bd).
Proof.
  unfold load.
  apply ends_rbind.
  { pose proof (loader_worklist_terminates t pf) as NF.
    pose proof (load_files_nopanic (load_fuel t) t [(pf, (None, None))] 0 []) as NP.
    destruct (load_files _ t [(pf, (None, None))] 0 []); try exact I; [contradiction|congruence]. }
  intros [docs fs] _.
  apply ends_rbind.
  { apply (ends_fold (fun (p : bag * list module) d =>
             let '(b, cms) := p in
             fold_left (fun acc lb => rbind acc (fun '(b, cms) =>
                fold_left (fun acc y => rbind acc (fun '(b, cms) =>
                   rbind (convert_context y (snd lb || yc_is_builder y) (ld_file d) (ld_root d)) (fun '(c, m) =>
                   rbind (add_context b c) (fun b' => Ok (b', cms ++ [m])))))
                  (odflt [] (fst lb)) (Ok (b, cms))))
               [(d_contexts (ld_doc d), false); (d_builders (ld_doc d), true)] (Ok (b, cms)))); [|exact I].
    intros [b0 cms0] d _.
    apply (ends_fold (fun (p : bag * list module) (lb : option (list yctx) * bool) =>
             let '(b, cms) := p in
             fold_left (fun acc y => rbind acc (fun '(b, cms) =>
                   rbind (convert_context y (snd lb || yc_is_builder y) (ld_file d) (ld_root d)) (fun '(c, m) =>
                   rbind (add_context b c) (fun b' => Ok (b', cms ++ [m])))))
                  (odflt [] (fst lb)) (Ok (b, cms)))); [|exact I].
    intros [b1 cms1] lb _.
    apply (ends_fold (fun (p : bag * list module) y =>
             let '(b, cms) := p in
             rbind (convert_context y (snd lb || yc_is_builder y) (ld_file d) (ld_root d)) (fun '(c, m) =>
             rbind (add_context b c) (fun b' => Ok (b', cms ++ [m]))))); [|exact I].
    intros [b2 cms2] y _.
    apply ends_rbind; [apply ends_convert_context|intros [c m] _].
    apply ends_rbind; [apply ends_add_context|intros; exact I]. }
  intros [b0 cms] _.
  apply ends_rbind; [apply ends_finalize|intros b1 _].
  apply ends_rbind; [apply (ends_fold (fun b m => add_module b m)); [intros; apply ends_add_module|exact I]|intros b2 _].
  apply ends_rbind; [|intros [[b3 mm] am] _; exact I].
  apply (ends_fold (fun (p : bag * list (nat * module) * list (nat * module)) d =>
           let '(b, mmap, amap) := p in
           rbind (get_defaults bd d mmap false) (fun mdef =>
           rbind (get_defaults bd d amap true) (fun adef =>
           let has_sub := match d_subdirs (ld_doc d) with Some _ => true | None => false end in
           let mmap1 := match has_sub, mdef with true, Some m => mmap ++ [(ld_idx d, m)] | _, _ => mmap end in
           let amap1 := match has_sub, adef with true, Some m => amap ++ [(ld_idx d, m)] | _, _ => amap end in
           rbind (match d_modules (ld_doc d) with
                  | Some (Some l) => add_modules bd b d l false mdef
                  | _ => Ok b end) (fun b4 =>
           rbind (match d_apps (ld_doc d) with
                  | Some (Some l) => add_modules bd b4 d l true adef
                  | Some None => add_modules bd b4 d [ymod_default] true adef
                  | None => Ok b4 end) (fun b5 => Ok (b5, mmap1, amap1))))))); [|exact I].
  intros [[ba mma] ama] d _.
  apply ends_rbind; [apply ends_get_defaults|intros mdef _].
  apply ends_rbind; [apply ends_get_defaults|intros adef _]. cbv zeta.
  apply ends_rbind; [destruct (d_modules (ld_doc d)) as [[l|]|]; try exact I; apply ends_add_modules|intros b4 _].
  apply ends_rbind; [destruct (d_apps (ld_doc d)) as [[l|]|]; try exact I; apply ends_add_modules|intros; exact I].
Qed.
