(* CacheOrder.v — the builds a cache hit hands to main are, in ORDER, the builds a run with the
   requested arguments in an empty build directory configures (global mode, no --partition). *)
From Coq Require Import Ascii String.
From Coq Require Import List Arith Bool NArith Lia.
Import ListNotations.
Require Import Laze.model.Base Laze.model.Env Laze.model.Allow Laze.model.Ninja Laze.model.Ctx
               Laze.model.Generate Laze.model.Tasks Laze.model.Cache.
Require Import Laze.proofs.BaseFacts Laze.proofs.GenerateFacts Laze.proofs.CacheNarrow.
Open Scope list_scope.

Lemma filter_flat_map {A B} (p : B -> bool) (f : A -> list B) l :
  filter p (flat_map f l) = flat_map (fun x => filter p (f x)) l.
Proof. induction l as [|x t IH]; cbn; [reflexivity|]. rewrite filter_app, IH. reflexivity. Qed.

Lemma flat_map_nil {A B} (f : A -> list B) l : (forall x, In x l -> f x = []) -> flat_map f l = [].
Proof. induction l as [|x t IH]; intros H; cbn; [reflexivity|]. rewrite (H x (or_introl eq_refl)), IH; [reflexivity|]. intros y Hy. apply H. right. exact Hy. Qed.

(* in a duplicate-free list, a function that is non-empty at one element only *)
Lemma flat_map_single {A B} (f : A -> list B) (a : A) l :
  NoDup l -> In a l -> (forall x, In x l -> x <> a -> f x = []) -> flat_map f l = f a.
Proof.
  induction l as [|x t IH]; intros ND Hin Hz; [destruct Hin|]. inversion ND as [|? ? Hx ND']; subst. cbn.
  destruct Hin as [->|Hin].
  - rewrite (flat_map_nil f t); [apply app_nil_r|]. intros y Hy. apply Hz; [right; exact Hy|]. intros ->. contradiction.
  - rewrite (Hz x (or_introl eq_refl)); [|intros ->; contradiction]. cbn. apply IH; [exact ND'|exact Hin|].
    intros y Hy Hne. apply Hz; [right; exact Hy|exact Hne].
Qed.

Lemma filter_filter {A} (p q : A -> bool) l : (forall x, p x = true -> q x = true) -> filter p (filter q l) = filter p l.
Proof.
  intros H. induction l as [|x t IH]; cbn; [reflexivity|]. destruct (q x) eqn:Eq; cbn.
  - rewrite IH. reflexivity.
  - destruct (p x) eqn:Ep; [rewrite (H x Ep) in Eq; discriminate|exact IH].
Qed.

Lemma filter_all {A} (p : A -> bool) l : (forall x, In x l -> p x = true) -> filter p l = l.
Proof. induction l as [|x t IH]; intros Hl; cbn; [reflexivity|]. rewrite (Hl x (or_introl eq_refl)). f_equal. apply IH. intros y Hy. apply Hl. right. exact Hy. Qed.
Lemma filter_none {A} (p : A -> bool) l : (forall x, In x l -> p x = false) -> filter p l = [].
Proof. induction l as [|x t IH]; intros Hl; cbn; [reflexivity|]. rewrite (Hl x (or_introl eq_refl)). apply IH. intros y Hy. apply Hl. right. exact Hy. Qed.

Section Order.
  Variable H : list ascii -> N.
  Variable EV : str -> evr.

  (* the builds of one (builder, app) pair, and of one builder over a list of apps *)
  Definition bl b le select disable cli_env (bm : nat * module) : list build_info :=
    match cfg H EV b le select disable cli_env bm with Ok (Built i _) => [i] | _ => [] end.
  Definition row b le select disable cli_env (bins : list module) (i : nat) : list build_info :=
    flat_map (fun m => bl b le select disable cli_env (i, m)) bins.

  Lemma results_builds b le select disable cli_env tuples results :
    Forall2 (fun bm r => rmap (fun r0 => (bm, r0)) (cfg H EV b le select disable cli_env bm) = Ok r) tuples results ->
    flat_map (fun r => match snd r with Built i _ => [i] | NoBuild _ => [] end) results =
    flat_map (bl b le select disable cli_env) tuples.
  Proof.
    induction 1 as [|bm r t rs Hbr _ IH]; cbn [flat_map]; [reflexivity|]. rewrite IH. f_equal.
    unfold bl. unfold rmap in Hbr. destruct (cfg H EV b le select disable cli_env bm) as [c| | |]; cbn [rbind] in Hbr; try discriminate.
    injection Hbr as <-. cbn [snd]. destruct c; reflexivity.
  Qed.

  Lemma pairs_rows b le select disable cli_env bs bins :
    flat_map (bl b le select disable cli_env) (pairs bs bins) = flat_map (row b le select disable cli_env bins) bs.
  Proof.
    unfold pairs, row. induction bs as [|i t IH]; cbn [flat_map]; [reflexivity|].
    rewrite flat_map_app, IH. f_equal. clear IH. induction bins as [|m r IHb]; cbn [map flat_map]; [reflexivity|]. rewrite IHb. reflexivity.
  Qed.

  Lemma generate_builds_eq b le bsel asel local select disable cli_env g :
    generate H EV b le bsel asel local PNone select disable cli_env = Ok g ->
    exists bs bins, selected_builders b bsel = Ok bs /\ selected_bins b asel local = Ok bins /\
                    gr_builds g = flat_map (row b le select disable cli_env bins) bs.
  Proof.
    unfold generate. intros HG.
    destruct (selected_builders b bsel) as [bs| | |] eqn:Eb; cbn [rbind] in HG; try discriminate.
    destruct (selected_bins b asel local) as [bins| | |] eqn:Ebin; cbn [rbind] in HG; try discriminate.
    cbn [part_filter] in HG.
    destruct (rmapM _ (pairs bs bins)) as [results| | |] eqn:ER; cbn [rbind] in HG; try discriminate.
    injection HG as <-. cbn [gr_builds]. exists bs, bins. split; [reflexivity|]. split; [reflexivity|].
    apply rmapM_ok in ER. rewrite (results_builds _ _ _ _ _ _ _ ER). apply pairs_rows.
  Qed.

  (* what is in a row *)
  Lemma row_In b le select disable cli_env bins i x :
    In x (row b le select disable cli_env bins i) -> bi_builder x = ctx_name b i /\ exists m, In m bins /\ bi_binary x = m_name m.
  Proof.
    unfold row. intros Hin. apply in_flat_map in Hin. destruct Hin as (m & Hm & Hx). unfold bl in Hx.
    destruct (cfg H EV b le select disable cli_env (i, m)) as [[info es|w]| | |] eqn:Ec; try (destruct Hx; fail).
    destruct Hx as [<-|[]].
    destruct (configure_build_inv H EV _ _ _ _ _ _ _ _ _ Ec) as (bctx & ba & bin_ctx & anc & rst & Hg & _ & _ & _ & _ & _ & _ & Hb1 & Hb2).
    cbn [fst snd] in *. split; [unfold ctx_name; rewrite Hg; exact Hb1|]. exists m. split; [exact Hm|exact Hb2].
  Qed.

  Lemma row_filter_builder b le select disable cli_env bins i n :
    filter (fun x => str_eqb (bi_builder x) n) (row b le select disable cli_env bins i) =
    if str_eqb (ctx_name b i) n then row b le select disable cli_env bins i else [].
  Proof.
    destruct (str_eqb (ctx_name b i) n) eqn:E.
    - apply filter_all. intros x Hx. rewrite (proj1 (row_In _ _ _ _ _ _ _ _ Hx)). exact E.
    - apply filter_none. intros x Hx. rewrite (proj1 (row_In _ _ _ _ _ _ _ _ Hx)). exact E.
  Qed.

  Lemma row_filter_apps b le select disable cli_env bins i (asel' : selector) :
    filter (fun x => selects asel' (bi_binary x)) (row b le select disable cli_env bins i) =
    row b le select disable cli_env (filter (fun m => selects asel' (m_name m)) bins) i.
  Proof.
    unfold row. induction bins as [|m t IH]; cbn [flat_map filter]; [reflexivity|].
    rewrite filter_app, IH. destruct (selects asel' (m_name m)) eqn:Es; cbn [flat_map].
    - f_equal. unfold bl. destruct (cfg H EV b le select disable cli_env (i, m)) as [[info es|w]| | |] eqn:Ec; try reflexivity.
      cbn [filter]. destruct (configure_build_inv H EV _ _ _ _ _ _ _ _ _ Ec) as (bctx & ba & bin_ctx & anc & rst & _ & _ & _ & _ & _ & _ & _ & _ & Hb2).
      cbn [snd] in Hb2. rewrite Hb2, Es. reflexivity.
    - unfold bl. destruct (cfg H EV b le select disable cli_env (i, m)) as [[info es|w]| | |] eqn:Ec; try reflexivity.
      cbn [filter]. destruct (configure_build_inv H EV _ _ _ _ _ _ _ _ _ Ec) as (bctx & ba & bin_ctx & anc & rst & _ & _ & _ & _ & _ & _ & _ & _ & Hb2).
      cbn [snd] in Hb2. rewrite Hb2, Es. reflexivity.
  Qed.

  Definition reorder (sel' : selector) (l : list build_info) : list build_info :=
    match sel' with
    | SelAll => l
    | SelSome names => flat_map (fun n => filter (fun x => str_eqb (bi_builder x) n) l) (nodup_str names)
    end.

  Lemma superset_selects s s' n : sel_superset s s' = true -> selects s' n = true -> selects s n = true.
  Proof.
    destruct s as [|l], s' as [|l']; cbn; try discriminate; try reflexivity.
    intros Hs Hn. rewrite forallb_forall in Hs. apply Hs. apply mem_str_In. exact Hn.
  Qed.

  Lemma nodup_str_NoDup l : NoDup (nodup_str l).
  Proof.
    unfold nodup_str. assert (G : forall seen, NoDup (dedup_go seen l) /\ forall x, In x (dedup_go seen l) -> ~ In x seen).
    { induction l as [|y t IH]; intros seen; cbn; [split; [constructor|intros x []]|].
      destruct (mem_str y seen) eqn:E; [apply IH|]. apply mem_str_false in E. destruct (IH (y :: seen)) as [ND Hn]. split.
      - constructor; [|exact ND]. intros Hin. apply (Hn y Hin). left. reflexivity.
      - intros x [<-|Hx]; [exact E|]. intros Hs. apply (Hn x Hx). right. exact Hs. }
    apply G.
  Qed.

  Lemma builders_NoDup b : NoDup (map fst (builders b)).
  Proof.
    unfold builders. assert (G : forall s (l : bag), NoDup (map fst (filter (fun ic : nat * context => c_is_builder (snd ic)) (combine (seq s (length l)) l))) /\
                                   forall i, In i (map fst (filter (fun ic : nat * context => c_is_builder (snd ic)) (combine (seq s (length l)) l))) -> s <= i).
    { intros s l. revert s. induction l as [|c t IH]; intros s; cbn [length seq combine filter map snd]; [split; [constructor|intros i []]|].
      destruct (IH (S s)) as [ND Hge]. destruct (c_is_builder c); cbn [map fst].
      - split; [constructor; [intros Hin; apply Hge in Hin; lia|exact ND]|]. intros i [<-|Hi]; [lia|apply Hge in Hi; lia].
      - split; [exact ND|]. intros i Hi. apply Hge in Hi. lia. }
    apply G.
  Qed.

  Lemma selected_builders_NoDup b s bs : selected_builders b s = Ok bs -> NoDup bs.
  Proof.
    destruct s as [|l]; cbn [selected_builders]; intros HS; [injection HS as <-; apply builders_NoDup|].
    apply rmapM_ok in HS. pose proof (nodup_str_NoDup l) as ND. revert ND. induction HS as [|n i ns is Hni Htail IH]; intros ND; [constructor|].
    inversion ND as [|? ? Hnot ND']; subst. constructor; [|apply IH, ND'].
    intros Hin. destruct (bag_index b n) as [j|] eqn:Ej; [|discriminate]. destruct (bag_get b j) as [c|]; [|discriminate].
    destruct (c_is_builder c); [|discriminate]. injection Hni as <-.
    destruct (bag_index_get _ _ _ Ej) as (c1 & Hc1 & Hn1).
    (* some other name of the list has the same index: then it is the same name *)
    clear IH ND ND'. induction Htail as [|n2 i2 ns2 is2 Hn2 _ IH2]; [destruct Hin|].
    destruct Hin as [<-|Hin].
    - destruct (bag_index b n2) as [j2|] eqn:Ej2; [|discriminate]. destruct (bag_get b j2) as [c2|]; [|discriminate].
      destruct (c_is_builder c2); [|discriminate]. injection Hn2 as <-.
      destruct (bag_index_get _ _ _ Ej2) as (c3 & Hc3 & Hn3). rewrite Hc1 in Hc3. injection Hc3 as <-.
      apply Hnot. left. congruence.
    - apply IH2; [intros H1; apply Hnot; right; exact H1|exact Hin].
  Qed.

  Theorem generate_narrow_ordered b le bsel asel bsel' asel' select disable cli_env g g' :
    ctx_names_ok b ->
    generate H EV b le bsel asel None PNone select disable cli_env = Ok g ->
    generate H EV b le bsel' asel' None PNone select disable cli_env = Ok g' ->
    sel_superset bsel bsel' = true -> sel_superset asel asel' = true ->
    gr_builds g' = filter (fun x => selects asel' (bi_binary x)) (reorder bsel' (gr_builds g)).
  Proof.
    intros NDn HG HG' Hbs Has.
    destruct (generate_builds_eq _ _ _ _ _ _ _ _ _ HG) as (bs & bins & Ebs & Ebins & ->).
    destruct (generate_builds_eq _ _ _ _ _ _ _ _ _ HG') as (bs' & bins' & Ebs' & Ebins' & ->).
    set (R := row b le select disable cli_env).
    (* the narrower app list is the wider one filtered *)
    assert (Hbins : bins' = filter (fun m => selects asel' (m_name m)) bins).
    { rewrite (selected_bins_global _ _ _ Ebins), (selected_bins_global _ _ _ Ebins').
      symmetry. apply filter_filter. intros m Hm. exact (superset_selects _ _ _ Has Hm). }
    assert (Happs : forall l, filter (fun x => selects asel' (bi_binary x)) (flat_map (R bins) l) = flat_map (R bins') l).
    { intros l. rewrite filter_flat_map. apply flat_map_ext. intros i. unfold R. rewrite row_filter_apps, Hbins. reflexivity. }
    destruct bsel' as [|l'].
    - (* all builders requested: the cached run was for all builders too *)
      destruct bsel as [|l]; [|discriminate]. rewrite Ebs in Ebs'. injection Ebs' as <-. cbn [reorder]. symmetry. apply Happs.
    - cbn [reorder]. rewrite <- (Happs bs'). f_equal.
      (* per requested name, the cached builds of that builder *)
      pose proof (selected_builders_NoDup _ _ _ Ebs) as NDbs.
      pose proof (selected_builders_spec _ _ _ Ebs) as Hspec.
      pose proof Ebs' as HS'. cbn [selected_builders] in HS'. apply rmapM_ok in HS'.
      assert (Hl' : forall n, In n (nodup_str l') -> In n l') by (intros n Hn; apply nodup_str_In; exact Hn).
      clear Ebs'. revert Hl'. induction HS' as [|n i ns is Hni _ IH]; intros Hl'; cbn [flat_map]; [reflexivity|].
      pose proof (IH (fun m Hm => Hl' m (or_intror Hm))) as IH'. rewrite <- IH'. f_equal. clear IH IH'.
      destruct (bag_index b n) as [j|] eqn:Ej; [|discriminate]. destruct (bag_get b j) as [c|] eqn:Ec; [|discriminate].
      destruct (c_is_builder c) eqn:Eb; [|discriminate]. injection Hni as <-.
      destruct (bag_index_get _ _ _ Ej) as (c1 & Hc1 & Hn1). rewrite Ec in Hc1. injection Hc1 as <-.
      assert (Hjin : In j bs).
      { apply Hspec. exists c. split; [exact Ec|]. split; [exact Eb|]. destruct bsel as [|l]; [exact I|].
        split; [|rewrite Hn1; exact Ej]. cbn in Hbs. rewrite forallb_forall in Hbs. rewrite Hn1. apply mem_str_In. apply Hbs. apply Hl'. left. reflexivity. }
      rewrite filter_flat_map.
      rewrite (flat_map_single (fun i0 => filter (fun x => str_eqb (bi_builder x) n) (R bins i0)) j bs NDbs Hjin).
      + unfold R. rewrite row_filter_builder. unfold ctx_name. rewrite Ec, Hn1, str_eqb_refl. reflexivity.
      + intros i0 Hi0 Hne. unfold R. rewrite row_filter_builder. destruct (str_eqb (ctx_name b i0) n) eqn:En; [|reflexivity].
        exfalso. apply Hne. apply str_eqb_eq in En. unfold ctx_name in En.
        pose proof (proj1 (Hspec i0) Hi0) as (c0 & Hg0 & _). rewrite Hg0 in En.
        pose proof (bag_get_index _ _ _ NDn Hg0) as Hidx. rewrite En, Ej in Hidx. injection Hidx as ->. reflexivity.
  Qed.
End Order.

(* ---------- for the cache: the hit's build list is the fresh run's build list ---------- *)
Require Import Laze.model.Load Laze.proofs.CacheFacts Laze.proofs.CacheInstance Laze.proofs.LoadFrame Laze.proofs.LoadNames.

Lemma cview_is_reorder a r : gr_builds (cview a r) = reorder (ca_builders a) (gr_builds r).
Proof. unfold cview, reorder. destruct (ca_builders a); reflexivity. Qed.

Lemma reorder_selected s l x : In x (reorder s l) -> selects s (bi_builder x) = true.
Proof.
  destruct s as [|names]; cbn [reorder selects]; [reflexivity|]. intros Hin. apply in_flat_map in Hin.
  destruct Hin as (n & Hn & Hx). apply filter_In in Hx. destruct Hx as [_ E]. apply str_eqb_eq in E. rewrite E.
  apply mem_str_In. apply nodup_str_In. exact Hn.
Qed.

Section HitOrder.
  Variable H : list ascii -> N.
  Variable EV : str -> evr.
  Variable bd : str.
  Variable store : str -> N -> list ydoc.

  (* global mode, no --partition, same -D list: what main selects from a hit's result is, element by
     element and in order, the build list of a run with the same arguments in an empty build directory *)
  Theorem hit_builds_ordered a k (w w' : world vtree cargs tstate gen_result) r' :
    Inv vtree cargs tstate gen_result cprecheck (cload_ts bd store) (cgen H EV bd store) cis_local w ->
    crun H EV bd store a k w = (w', OHit r') ->
    forall c, s_cache _ _ _ (get_slot _ _ _ _ w (cis_local a)) = Some c ->
    ca_le (c_args _ _ _ c) = ca_le a -> ca_define (c_args _ _ _ c) = ca_define a -> ca_partition a = None ->
    ca_local a = None -> ca_local (c_args _ _ _ c) = None ->
    forall g', snd (crun H EV bd store a 0 (fresh _ _ _ _ (w_tree _ _ _ _ w))) = ORegen g' ->
    gr_builds g' = filter (fun x => selects (ca_builders a) (bi_builder x) && selects (ca_apps a) (bi_binary x)) (gr_builds r').
  Proof.
    intros HI Hrun c Hc Hle Hdef Hpart Hloc Hlocc g' Hfresh.
    destruct (hit_sound _ _ _ _ cprecheck (cload_ts bd store) (cgen H EV bd store) cts_valid caccepts cview cis_local
                (frame_gen H EV bd store (load_frame_holds bd store)) a k w w' r' HI Hrun)
      as (-> & c0 & r & Hc0 & Hr & Hacc & Hts & Hl & Hg & Hn & Hv).
    rewrite Hc in Hc0. injection Hc0 as <-.
    destruct (caccepts_spec _ _ _ Hacc) as (_ & Hp2 & Hbs & Has & _ & _ & _ & _ & Hsel & Hdis & _).
    (* the cached generation, unfolded *)
    unfold Cache.cgen in Hg.
    destruct (load (ytree_of store (w_tree _ _ _ _ w)) project_file bd) as [b| | |] eqn:Eload; cbn [rbind] in Hg; try discriminate.
    destruct (cli_selects (c_args _ _ _ c)) as [sel| | |] eqn:Esel; cbn [rbind] in Hg; try discriminate.
    destruct (cli_env (c_args _ _ _ c)) as [cenv| | |] eqn:Eenv; cbn [rbind] in Hg; try discriminate.
    rewrite Hp2, Hpart, Hle, Hlocc, Hdis in Hg.
    assert (Esel' : cli_selects a = Ok sel) by (unfold cli_selects in *; rewrite <- Hsel; exact Esel).
    assert (Eenv' : cli_env a = Ok cenv) by (unfold cli_env in *; rewrite <- Hdef; exact Eenv).
    (* the fresh generation *)
    pose proof (fresh_run _ _ _ _ cprecheck (cload_ts bd store) (cgen H EV bd store) cts_valid caccepts cview cis_local a (w_tree _ _ _ _ w) g' Hfresh) as Hg'.
    unfold Cache.cgen in Hg'. rewrite Eload, Esel', Eenv' in Hg'. cbn [rbind] in Hg'. rewrite Hpart, Hloc in Hg'.
    rewrite (generate_narrow_ordered H EV b (ca_le a) _ _ (ca_builders a) (ca_apps a) sel (ca_disable a) cenv r g'
               (load_names_distinct _ _ _ _ Eload) Hg Hg' Hbs Has).
    rewrite Hv, cview_is_reorder.
    apply filter_ext_in. intros x Hx. rewrite (reorder_selected _ _ _ Hx). reflexivity.
  Qed.
End HitOrder.
