(* PartitionFacts.v — C10: the shards count:1/N .. count:N/N (and hash:) split the list of
   (builder, app) pairs into disjoint, order-preserving parts whose union is the list. *)
From Coq Require Import Ascii String.
From Coq Require Import List Arith Bool NArith Lia Permutation.
Import ListNotations.
Require Import Laze.model.Base Laze.model.Ctx Laze.model.Generate.
Open Scope list_scope.

Lemma concat_map_app_perm {A K} (f g : K -> list A) ks :
  Permutation (concat (map (fun k => f k ++ g k) ks)) (concat (map f ks) ++ concat (map g ks)).
Proof.
  induction ks as [|k t IH]; cbn; [constructor|].
  rewrite <- !app_assoc. apply Permutation_app_head.
  eapply Permutation_trans; [apply Permutation_app_head; exact IH|].
  rewrite !app_assoc. apply Permutation_app_tail. apply Permutation_app_comm.
Qed.

Lemma one_hit {A} (x : A) j : forall n, j < n ->
  concat (map (fun k => if Nat.eqb j k then [x] else []) (seq 0 n)) = [x].
Proof.
  induction n as [|n IH]; intros H; [lia|]. rewrite seq_S, map_app, concat_app. cbn [map concat plus].
  destruct (Nat.eq_dec j n) as [->|Hne].
  - rewrite Nat.eqb_refl. rewrite app_nil_r.
    assert (Z : forall m, m <= n -> concat (map (fun k => if Nat.eqb n k then [x] else []) (seq 0 m)) = []).
    { induction m as [|m IHm]; intros Hm; [reflexivity|]. rewrite seq_S, map_app, concat_app. cbn.
      rewrite IHm by lia. destruct (Nat.eqb n m) eqn:E; [apply Nat.eqb_eq in E; lia|reflexivity]. }
    rewrite Z by lia. reflexivity.
  - rewrite IH by lia. destruct (Nat.eqb j n) eqn:E; [apply Nat.eqb_eq in E; lia|]. reflexivity.
Qed.

Lemma one_shard_hit {A} (x : A) n i : 1 <= n ->
  concat (map (fun k => if Nat.eqb (Nat.modulo i n) (k - 1) then [x] else []) (seq 1 n)) = [x].
Proof.
  intros H. rewrite <- seq_shift, map_map.
  erewrite map_ext; [apply (one_hit x (Nat.modulo i n) n); apply Nat.mod_upper_bound; lia|].
  intros k. cbn. rewrite Nat.sub_0_r. reflexivity.
Qed.

(* the union of the N shards is the whole list (as a multiset) ... *)
Theorem count_shards_cover {A} n : 1 <= n -> forall (l : list A) i,
  Permutation (concat (map (fun k => count_filter k n i l) (seq 1 n))) l.
Proof.
  intros Hn. induction l as [|x t IH]; intros i; cbn [count_filter].
  - induction (seq 1 n) as [|k ks IHk]; cbn; [constructor|exact IHk].
  - eapply Permutation_trans; [apply concat_map_app_perm|].
    rewrite one_shard_hit by exact Hn. cbn. constructor. apply IH.
Qed.

(* ... each shard keeps the order of the list ... *)
Inductive sublist {A} : list A -> list A -> Prop :=
| sub_nil : sublist [] []
| sub_skip x l1 l2 : sublist l1 l2 -> sublist l1 (x :: l2)
| sub_take x l1 l2 : sublist l1 l2 -> sublist (x :: l1) (x :: l2).

Theorem count_shard_ordered {A} m n : forall (l : list A) i, sublist (count_filter m n i l) l.
Proof.
  induction l as [|x t IH]; intros i; cbn [count_filter]; [constructor|].
  destruct (Nat.eqb (Nat.modulo i n) (m - 1)); cbn; [apply sub_take|apply sub_skip]; apply IH.
Qed.

(* ... and shards are disjoint: the total number of kept tuples is the length of the list *)
Corollary count_shards_disjoint {A} n (l : list A) : 1 <= n ->
  length (concat (map (fun k => count_filter k n 0 l) (seq 1 n))) = length l.
Proof. intros H. apply Permutation_length. apply count_shards_cover. exact H. Qed.

(* hash: for any hash predicate family that assigns each name to exactly one shard *)
Theorem hash_shards_cover {A} (shard_of : A -> nat) n (l : list A) :
  (forall x, 1 <= shard_of x <= n) ->
  Permutation (concat (map (fun k => filter (fun x => Nat.eqb (shard_of x) k) l) (seq 1 n))) l.
Proof.
  intros Hs. induction l as [|x t IH]; cbn [filter].
  - induction (seq 1 n) as [|k ks IHk]; cbn; [constructor|exact IHk].
  - assert (E : Permutation (concat (map (fun k => (if Nat.eqb (shard_of x) k then [x] else []) ++ filter (fun y => Nat.eqb (shard_of y) k) t) (seq 1 n))) (x :: t)).
    { eapply Permutation_trans; [apply concat_map_app_perm|].
      assert (O : concat (map (fun k => if Nat.eqb (shard_of x) k then [x] else []) (seq 1 n)) = [x]).
      { rewrite <- seq_shift, map_map. specialize (Hs x).
        erewrite map_ext; [apply (one_hit x (shard_of x - 1) n); lia|].
        intros k. cbn. destruct (Nat.eqb (shard_of x) (S k)) eqn:E1; destruct (Nat.eqb (shard_of x - 1) k) eqn:E2; try reflexivity.
        - apply Nat.eqb_eq in E1. apply Nat.eqb_neq in E2. lia.
        - apply Nat.eqb_neq in E1. apply Nat.eqb_eq in E2. lia. }
      rewrite O. cbn. constructor. exact IH. }
    eapply Permutation_trans; [|exact E]. apply Permutation_refl'. f_equal. apply map_ext. intros k.
    destruct (Nat.eqb (shard_of x) k); reflexivity.
Qed.
