(* WfFacts.v — one clause of C06 as a theorem: in every generated file, each build statement that
   uses a rule other than phony is preceded by a statement whose text is the definition of a rule of
   that name.  Stated on texts, which is what ninja reads: the statement set de-duplicates by text. *)
From Coq Require Import Ascii String.
From Coq Require Import List Arith Bool NArith Lia.
Import ListNotations.
Require Import Laze.model.Base Laze.model.Env Laze.model.Expand Laze.model.Path Laze.model.Hash Laze.model.Ninja
               Laze.model.Ctx Laze.model.Generate.
Require Import Laze.proofs.BaseFacts Laze.proofs.StmtFacts.
Open Scope list_scope.

(* statement x reads as the definition of a rule named n *)
Definition defines (x : stmt) (n : str) : Prop := exists r, show_stmt x = show_rule r /\ nr_name r = n.
(* n is defined somewhere in l *)
Definition D (l : list stmt) (n : str) : Prop := exists x, In x l /\ defines x n.
Definition uses_ok (l : list stmt) (b : nbuild) : Prop := nb_rule b = S_ "phony" \/ D l (nb_rule b).
(* rules before use *)
Definition RBU (l : list stmt) : Prop := forall pre b suf, l = pre ++ SBuild b :: suf -> uses_ok pre b.

Lemma D_app_l l l' n : D l n -> D (l ++ l') n.
Proof. intros (x & Hx & Hd). exists x. split; [apply in_or_app; left; exact Hx|exact Hd]. Qed.
Lemma uses_ok_app_l l l' b : uses_ok l b -> uses_ok (l ++ l') b.
Proof. intros [H|H]; [left; exact H|right; apply D_app_l, H]. Qed.

Lemma D_sset s l n : D l n -> D (sset_insert s l) n.
Proof. destruct (sset_insert_prefix s l) as [t ->]. apply D_app_l. Qed.
Lemma uses_ok_sset s l b : uses_ok l b -> uses_ok (sset_insert s l) b.
Proof. destruct (sset_insert_prefix s l) as [t ->]. apply uses_ok_app_l. Qed.

(* after inserting a statement, whatever it defines is defined (by it, or by the equal text that was there) *)
Lemma D_sset_self s l n : defines s n -> D (sset_insert s l) n.
Proof.
  intros (r & Hs & Hn). unfold sset_insert.
  destruct (existsb (fun x => str_eqb (show_stmt x) (show_stmt s)) l) eqn:E.
  - apply existsb_exists in E. destruct E as (x & Hx & Heq). apply str_eqb_eq in Heq.
    exists x. split; [exact Hx|]. exists r. split; [rewrite Heq; exact Hs|exact Hn].
  - exists s. split; [apply in_or_app; right; left; reflexivity|]. exists r. split; assumption.
Qed.
Lemma D_sset_rule r l : D (sset_insert (SRule r) l) (nr_name r).
Proof. apply D_sset_self. exists r. split; reflexivity. Qed.

Lemma RBU_nil : RBU [].
Proof. intros pre b suf E. destruct pre; discriminate. Qed.

Lemma app_snoc_inv {A} (l : list A) x pre y suf :
  l ++ [x] = pre ++ y :: suf -> (exists suf', l = pre ++ y :: suf' /\ suf = suf' ++ [x]) \/ (suf = [] /\ l = pre /\ x = y).
Proof.
  revert pre. induction l as [|a t IH]; intros pre E.
  - destruct pre as [|p pre]; cbn in E.
    + injection E as -> <-. right. auto.
    + injection E as _ E. destruct pre; discriminate.
  - destruct pre as [|p pre]; cbn in E.
    + injection E as -> E. left. exists (t). split; [reflexivity|]. symmetry. exact E.
    + injection E as -> E. destruct (IH pre E) as [(suf' & -> & ->)|(-> & -> & ->)].
      * left. exists suf'. split; reflexivity.
      * right. auto.
Qed.

Lemma RBU_snoc_rule l r : RBU l -> RBU (l ++ [SRule r]).
Proof.
  intros H pre b suf E. apply app_snoc_inv in E. destruct E as [(suf' & -> & _)|(_ & _ & E)]; [|discriminate].
  eapply H. reflexivity.
Qed.
Lemma RBU_snoc_build l b : RBU l -> uses_ok l b -> RBU (l ++ [SBuild b]).
Proof.
  intros H Hu pre b' suf E. apply app_snoc_inv in E. destruct E as [(suf' & -> & _)|(_ & -> & E)].
  - eapply H. reflexivity.
  - injection E as <-. exact Hu.
Qed.

Lemma RBU_sset_rule r l : RBU l -> RBU (sset_insert (SRule r) l).
Proof. intros H. unfold sset_insert. destruct (existsb _ l); [exact H|apply RBU_snoc_rule, H]. Qed.
Lemma RBU_sset_build b l : RBU l -> uses_ok l b -> RBU (sset_insert (SBuild b) l).
Proof. intros H Hu. unfold sset_insert. destruct (existsb _ l); [exact H|apply RBU_snoc_build; assumption]. Qed.

(* the union of statement lists, each of which has its rules before their uses *)
Definition RBUrel (acc es : list stmt) : Prop :=
  forall pre b suf, es = pre ++ SBuild b :: suf -> nb_rule b = S_ "phony" \/ D acc (nb_rule b) \/ D pre (nb_rule b).

Lemma fold_sset_RBU : forall es acc, RBU acc -> RBUrel acc es -> RBU (fold_left (fun a e => sset_insert e a) es acc).
Proof.
  induction es as [|e es IH]; intros acc Ha Hr; cbn [fold_left]; [exact Ha|].
  apply IH.
  - destruct e as [r|b]; [apply RBU_sset_rule, Ha|]. apply RBU_sset_build; [exact Ha|].
    destruct (Hr [] b es eq_refl) as [H|[H|(x & [] & _)]]; [left; exact H|right; exact H].
  - intros pre b suf E. destruct (Hr (e :: pre) b suf) as [H|[H|(x & Hx & Hd)]]; [rewrite E; reflexivity|left; exact H|right; left; apply D_sset, H|].
    destruct Hx as [<-|Hx].
    + right; left. destruct Hd as (r & Hs & Hn). apply D_sset_self. exists r. split; assumption.
    + right; right. exists x. split; assumption.
Qed.

Lemma RBU_RBUrel acc es : RBU es -> RBUrel acc es.
Proof. intros H pre b suf E. destruct (H pre b suf E) as [Hp|Hd]; [left; exact Hp|right; right; exact Hd]. Qed.

(* ---------- the per-build module loop ---------- *)
Ltac inv_step H :=
  match type of H with
  | rbind ?x _ = Ok _ => let E := fresh "E" in destruct x eqn:E; cbn [rbind] in H; try discriminate H
  | (match ?x with _ => _ end) = Ok _ => let E := fresh "E" in destruct x eqn:E; try discriminate H
  | (if ?x then _ else _) = Ok _ => let E := fresh "E" in destruct x eqn:E; try discriminate H
  end.

Definition ext (st st' : loopst) : Prop := exists t, ls_entries st' = ls_entries st ++ t.
Lemma ext_refl st : ext st st. Proof. exists []. rewrite app_nil_r. reflexivity. Qed.
Lemma ext_trans a b c : ext a b -> ext b c -> ext a c.
Proof. intros [t1 E1] [t2 E2]. exists (t1 ++ t2). rewrite E2, E1, app_assoc. reflexivity. Qed.
Lemma ext_D a b n : ext a b -> D (ls_entries a) n -> D (ls_entries b) n.
Proof. intros [t ->]. apply D_app_l. Qed.

Lemma ext_add_entry s st : ext st (add_entry s st).
Proof. unfold ext, add_entry. cbn. apply sset_insert_prefix. Qed.
Lemma ext_add_object o st : ext st (add_object o st).
Proof. exists []. cbn. rewrite app_nil_r. reflexivity. Qed.
Lemma ext_add_depfiles n f st : ext st (add_depfiles n f st).
Proof. exists []. cbn. rewrite app_nil_r. reflexivity. Qed.
Lemma ext_add_dldir a b st : ext st (add_dldir a b st).
Proof. exists []. cbn. rewrite app_nil_r. reflexivity. Qed.

Definition stI (st : loopst) : Prop := RBU (ls_entries st).
Lemma stI_rule r st : stI st -> stI (add_entry (SRule r) st).
Proof. unfold stI, add_entry. cbn. apply RBU_sset_rule. Qed.
Lemma stI_build b st : stI st -> uses_ok (ls_entries st) b -> stI (add_entry (SBuild b) st).
Proof. unfold stI, add_entry. cbn. apply RBU_sset_build. Qed.
Lemma D_add_rule r st : D (ls_entries (add_entry (SRule r) st)) (nr_name r).
Proof. unfold add_entry. cbn. apply D_sset_rule. Qed.

Lemma phony_ok l ins outs deps : uses_ok l {| nb_rule := S_ "phony"; nb_inputs := ins; nb_outs := outs; nb_deps := deps; nb_env := None; nb_always := false |}.
Proof. left. reflexivity. Qed.

Lemma alookup_snoc {V} k k' (v : V) l :
  alookup k (l ++ [(k', v)]) = match alookup k l with Some x => Some x | None => if str_eqb k k' then Some v else None end.
Proof.
  induction l as [|[k0 v0] t IH]; cbn; [reflexivity|]. destruct (str_eqb k k0); [reflexivity|exact IH].
Qed.

Section Loop.
  Variable H : list ascii -> N.
  Variable EV : str -> evr.

  Lemma compile_source_ok rules mr flat objdir bn an srcdir combined dh local tag st source st' :
    stI st -> (forall e nr, alookup e mr = Some nr -> D (ls_entries st) (nr_name nr)) ->
    compile_source H EV rules mr flat objdir bn an srcdir combined dh local tag st source = Ok st' ->
    stI st' /\ ext st st'.
  Proof.
    unfold compile_source. intros HI Hmr HC.
    inv_step HC. inv_step HC. destruct a0 as [rule nrule]. inv_step HC.
    assert (Hnr : D (ls_entries st) (nr_name nrule)).
    { destruct (extension a) as [e|]; [|discriminate].
      destruct (alookup e rules); [|discriminate]. destruct (alookup e mr) as [nr|] eqn:Em; [|discriminate].
      injection E0 as _ <-. exact (Hmr e nr Em). }
    set (b := {| nb_rule := nr_name nrule; nb_inputs := Some [a]; nb_outs := _; nb_deps := _; nb_env := None; nb_always := _ |}) in HC.
    assert (H1 : stI (add_object (object_path objdir bn an (r_shareable rule) a (N.lxor (rule_hash H nrule) dh) a0) (add_entry (SBuild b) st))).
    { unfold stI. cbn [add_object ls_entries]. apply stI_build; [exact HI|]. right. exact Hnr. }
    assert (X1 : ext st (add_object (object_path objdir bn an (r_shareable rule) a (N.lxor (rule_hash H nrule) dh) a0) (add_entry (SBuild b) st))).
    { eapply ext_trans; [apply ext_add_entry|apply ext_add_object]. }
    injection HC as <-.
    destruct local as [ld|].
    - split; [apply stI_build; [exact H1|apply phony_ok]|eapply ext_trans; [exact X1|apply ext_add_entry]].
    - destruct tag as [tf|].
      + split; [apply stI_build; [exact H1|apply phony_ok]|eapply ext_trans; [exact X1|apply ext_add_entry]].
      + split; assumption.
  Qed.

  Lemma download_stmts_ok rules flat m srcdir d l st :
    download_stmts H EV rules flat m srcdir d = Ok l -> stI st ->
    stI (fold_left (fun s e => add_entry e s) l st) /\ ext st (fold_left (fun s e => add_entry e s) l st).
  Proof.
    unfold download_stmts. intros HD HI.
    destruct (dl_source_of d) as [url commit|]; [|discriminate].
    destruct (get_rule (S_ "GIT_DOWNLOAD") rules) as [dr|]; [|discriminate].
    inv_step HD. rename a into ndr.
    destruct (dl_patches d) as [patches|].
    - destruct (get_rule (S_ "GIT_PATCH") rules) as [pr|]; [|discriminate].
      inv_step HD. rename a into npr. injection HD as <-. cbn [fold_left].
      set (s1 := add_entry (SRule ndr) st).
      assert (I1 : stI s1) by (apply stI_rule, HI).
      set (s2 := add_entry (SBuild _) s1).
      assert (I2 : stI s2) by (apply stI_build; [exact I1|right; apply D_add_rule]).
      set (s3 := add_entry (SRule npr) s2).
      assert (I3 : stI s3) by (apply stI_rule, I2).
      split; [apply stI_build; [exact I3|right; apply D_add_rule]|].
      repeat (eapply ext_trans; [|apply ext_add_entry]). apply ext_refl.
    - injection HD as <-. cbn [fold_left].
      set (s1 := add_entry (SRule ndr) st).
      assert (I1 : stI s1) by (apply stI_rule, HI).
      split; [apply stI_build; [exact I1|right; apply D_add_rule]|].
      repeat (eapply ext_trans; [|apply ext_add_entry]). apply ext_refl.
  Qed.

  (* first pass over a module's sources: one ninja rule per extension *)
  Lemma rules_pass_ok rules flat : forall srcs mr st mr' st',
    stI st -> (forall e nr, alookup e mr = Some nr -> D (ls_entries st) (nr_name nr)) ->
    fold_left (fun acc source => rbind acc (fun '(mr, s) =>
                match extension source with
                | None => Err e_missing_ext
                | Some e =>
                    match alookup e rules with
                    | None => Err e_no_rule
                    | Some rule =>
                        rbind (to_ninja H EV flat rule) (fun nr =>
                        Ok (match alookup e mr with Some _ => mr | None => mr ++ [(e, nr)] end,
                            add_entry (SRule nr) s))
                    end
                end)) srcs (Ok (mr, st)) = Ok (mr', st') ->
    stI st' /\ ext st st' /\ (forall e nr, alookup e mr' = Some nr -> D (ls_entries st') (nr_name nr)).
  Proof.
    induction srcs as [|src t IH]; intros mr st mr' st' HI Hmr HF; cbn [fold_left] in HF.
    - injection HF as <- <-. split; [exact HI|]. split; [apply ext_refl|exact Hmr].
    - cbn [rbind] in HF.
      destruct (extension src) as [e|]; [|exfalso; clear -HF; induction t; cbn in HF; [discriminate|auto]].
      destruct (alookup e rules) as [rule|]; [|exfalso; clear -HF; induction t; cbn in HF; [discriminate|auto]].
      destruct (to_ninja H EV flat rule) as [nr| | |] eqn:En; cbn [rbind] in HF;
        try (exfalso; clear -HF; induction t; cbn in HF; [discriminate|auto]).
      apply IH in HF.
      + destruct HF as (I' & X' & M'). split; [exact I'|]. split; [eapply ext_trans; [apply ext_add_entry|exact X']|exact M'].
      + apply stI_rule, HI.
      + intros e' nr' Hl. destruct (alookup e mr) as [old|] eqn:Eo.
        * apply (ext_D st); [apply ext_add_entry|]. apply (Hmr e' nr' Hl).
        * rewrite alookup_snoc in Hl. destruct (alookup e' mr) as [x|] eqn:Ex.
          -- injection Hl as <-. apply (ext_D st); [apply ext_add_entry|]. apply (Hmr e' x Ex).
          -- destruct (str_eqb e' e); [|discriminate]. injection Hl as <-. apply D_add_rule.
  Qed.

  Lemma sources_pass_ok rules mr flat objdir bn an srcdir combined dh local tag : forall srcs st st',
    stI st -> (forall e nr, alookup e mr = Some nr -> D (ls_entries st) (nr_name nr)) ->
    fold_left (fun acc source => rbind acc (fun s =>
                 compile_source H EV rules mr flat objdir bn an srcdir combined dh local tag s source)) srcs (Ok st) = Ok st' ->
    stI st' /\ ext st st'.
  Proof.
    induction srcs as [|src t IH]; intros st st' HI Hmr HF; cbn [fold_left] in HF.
    - injection HF as <-. split; [exact HI|apply ext_refl].
    - cbn [rbind] in HF.
      destruct (compile_source H EV rules mr flat objdir bn an srcdir combined dh local tag st src) as [s1| | |] eqn:Ec;
        try (exfalso; clear -HF; induction t; cbn in HF; [discriminate|auto]).
      destruct (compile_source_ok _ _ _ _ _ _ _ _ _ _ _ _ _ _ HI Hmr Ec) as [I1 X1].
      apply IH in HF; [|exact I1|intros e nr Hl; apply (ext_D st); [exact X1|apply (Hmr e nr Hl)]].
      destruct HF as [I' X']. split; [exact I'|eapply ext_trans; eassumption].
  Qed.

  Lemma module_step_ok rules merge_opts ms gdeps objdir bn an st mm st' :
    stI st -> module_step H EV rules merge_opts ms gdeps objdir bn an st mm = Ok st' -> stI st' /\ ext st st'.
  Proof.
    unfold module_step. destruct mm as [[m menv] mdeps]. intros HI HS.
    destruct (m_srcdir m) as [srcdir|]; [|injection HS as <-; split; [exact HI|apply ext_refl]].
    destruct (flatten_with_opts_option merge_opts menv) as [flat| | |]; cbn [rbind] in HS; try discriminate.
    (* download statements *)
    match type of HS with rbind ?X _ = _ => destruct X as [dl_stmts| | |] eqn:Edl end; cbn [rbind] in HS; try discriminate.
    assert (Hdl : stI (fold_left (fun s e => add_entry e s) dl_stmts st) /\ ext st (fold_left (fun s e => add_entry e s) dl_stmts st)).
    { destruct (m_download m) as [d|]; [exact (download_stmts_ok _ _ _ _ _ _ _ Edl HI)|].
      injection Edl as <-. cbn [fold_left]. split; [exact HI|apply ext_refl]. }
    destruct Hdl as [I0 X0]. set (st0 := fold_left (fun s e => add_entry e s) dl_stmts st) in *. clearbody st0.
    match type of HS with rbind ?X _ = _ => destruct X as [[sta tag]| | |] eqn:Esta end; cbn [rbind] in HS; try discriminate.
    assert (Ha : stI sta /\ ext st sta).
    { destruct (m_download m) as [d|].
      - injection Esta as <- _. split; [exact I0|exact X0].
      - unfold rmap in Esta. destruct (expand_eval EV flat PIgnore srcdir); cbn [rbind] in Esta; try discriminate.
        injection Esta as <- _. split; assumption. }
    destruct Ha as [Ia Xa]. clear Esta.
    match type of HS with rbind ?X _ = _ => destruct X as [imported0| | |] end; cbn [rbind] in HS; try discriminate.
    match type of HS with context [match m_build_dep_files m with Some l => add_depfiles (m_name m) l sta | None => sta end] =>
      set (st1 := match m_build_dep_files m with Some l => add_depfiles (m_name m) l sta | None => sta end) in HS end.
    assert (I1 : stI st1 /\ ext st st1).
    { unfold st1. destruct (m_build_dep_files m); [split; [exact Ia|eapply ext_trans; [exact Xa|apply ext_add_depfiles]]|split; assumption]. }
    destruct I1 as [I1 X1]. clearbody st1.
    destruct (m_build m) as [cb|].
    - (* custom build *)
      repeat (match type of HS with rbind ?X _ = _ => destruct X end; cbn [rbind] in HS; try discriminate).
      injection HS as <-.
      match goal with |- stI (add_entry _ (add_entry _ (add_entry (SRule ?r) ?s2))) /\ _ =>
        assert (I2 : stI s2) by exact I1;
        assert (I3 : stI (add_entry (SRule r) s2)) by (apply stI_rule, I2) end.
      split.
      + apply stI_build; [apply stI_build; [exact I3|right; apply D_add_rule]|]. left. reflexivity.
      + eapply ext_trans; [exact X1|]. eapply ext_trans; [apply ext_add_depfiles|].
        repeat (eapply ext_trans; [|apply ext_add_entry]). apply ext_refl.
    - (* default rules *)
      match type of HS with rbind ?X _ = _ => destruct X as [[mr st2]| | |] eqn:Epass end; cbn [rbind] in HS; try discriminate.
      destruct (rules_pass_ok _ _ _ _ _ _ _ I1 (fun e nr (Hl : alookup e [] = Some nr) => ltac:(discriminate)) Epass) as (I2 & X2 & M2).
      destruct (sources_pass_ok _ _ _ _ _ _ _ _ _ _ _ _ _ _ I2 M2 HS) as [I3 X3].
      split; [exact I3|]. eapply ext_trans; [exact X1|]. eapply ext_trans; eassumption.
  Qed.
End Loop.

(* ---------- one build, and the union over all builds ---------- *)
Require Import Laze.model.Allow Laze.model.Resolver Laze.model.Imports Laze.proofs.GenerateFacts.

Section Build.
  Variable H : list ascii -> N.
  Variable EV : str -> evr.

  Lemma loop_ok rules merge_opts ms gdeps objdir bn an : forall in_order st st',
    stI st ->
    fold_left (fun acc mm => rbind acc (fun st0 => module_step H EV rules merge_opts ms gdeps objdir bn an st0 mm))
              in_order (Ok st) = Ok st' -> stI st'.
  Proof.
    induction in_order as [|mm t IH]; intros st st' HI HF; cbn [fold_left] in HF.
    - injection HF as <-. exact HI.
    - cbn [rbind] in HF.
      destruct (module_step H EV rules merge_opts ms gdeps objdir bn an st mm) as [s1| | |] eqn:Es;
        try (exfalso; clear -HF; induction t; cbn in HF; [discriminate|auto]).
      apply (IH s1 st'); [|exact HF]. exact (proj1 (module_step_ok H EV _ _ _ _ _ _ _ _ _ _ HI Es)).
  Qed.

  Theorem configure_build_rbu b le builder binary select disable cli_env info entries :
    configure_build H EV b le builder binary select disable cli_env = Ok (Built info entries) -> RBU entries.
  Proof.
    unfold configure_build. intros HC.
    repeat (inv_step HC).
    all: repeat match type of HC with
                | (let '(_, _) := ?p in _) = _ => destruct p
                end; repeat (inv_step HC).
    all: try discriminate.
    match goal with
    | E : fold_left _ ?l (Ok ?s0) = Ok ?st |- _ =>
        match type of st with loopst => apply (loop_ok _ _ _ _ _ _ _ l s0 st RBU_nil) in E; unfold stI in E; rename E into Hst end
    end.
    injection HC as _ <-.
    match goal with
    | E : match get_rule (S_ "POST_LINK") ?rs with _ => _ end = Ok (_, ?l0) |- RBU ?l0 =>
        destruct (get_rule (S_ "POST_LINK") rs) as [prule|];
          [destruct (r_out prule); [|discriminate E]; inv_step E; injection E as _ <-|injection E as _ <-]
    end.
    all: repeat first [ apply RBU_sset_build; [|right; apply D_sset_rule] | apply RBU_sset_rule ]; exact Hst.
  Qed.

  Lemma union_rbu (results : list ((nat * module) * cfg_result)) : forall acc,
    RBU acc -> (forall r i es, In r results -> snd r = Built i es -> RBU es) ->
    RBU (fold_left (fun acc r => match snd r with
                                 | Built _ es => fold_left (fun a e => sset_insert e a) es acc
                                 | NoBuild _ => acc end) results acc).
  Proof.
    induction results as [|r t IH]; intros acc Ha Hr; cbn [fold_left]; [exact Ha|].
    apply IH; [|intros r' i es Hin; apply Hr; right; exact Hin].
    destruct (snd r) as [i es|w] eqn:Er; [|exact Ha].
    apply fold_sset_RBU; [exact Ha|]. apply RBU_RBUrel. apply (Hr r i es); [left; reflexivity|exact Er].
  Qed.

  (* C06, one clause: in every generated file each non-phony build statement comes after a statement
     that reads as the definition of its rule *)
  Theorem generate_rules_before_use b le bsel asel local part select disable cli_env g :
    generate H EV b le bsel asel local part select disable cli_env = Ok g -> RBU (gr_stmts g).
  Proof.
    unfold generate. intros HG.
    destruct (selected_builders b bsel) as [bs| | |]; cbn [rbind] in HG; try discriminate.
    destruct (selected_bins b asel local) as [bins| | |]; cbn [rbind] in HG; try discriminate.
    destruct (rmapM _ (part_filter b part (pairs bs bins))) as [results| | |] eqn:ER; cbn [rbind] in HG; try discriminate.
    injection HG as <-. cbn [gr_stmts]. apply union_rbu; [apply RBU_nil|].
    intros r i es Hin Hs. apply rmapM_ok in ER.
    assert (G : exists bm, rmap (fun r0 => (bm, r0)) (configure_build H EV b le (fst bm) (snd bm) select disable cli_env) = Ok r).
    { clear -ER Hin. induction ER as [|x y l l' Hxy _ IH]; [contradiction|].
      destruct Hin as [<-|Hin]; [exists x; exact Hxy|exact (IH Hin)]. }
    destruct G as (bm & E). unfold rmap in E.
    destruct (configure_build H EV b le (fst bm) (snd bm) select disable cli_env) as [c| | |] eqn:Ec; cbn [rbind] in E; try discriminate.
    injection E as <-. cbn [snd] in Hs. subst c. exact (configure_build_rbu _ _ _ _ _ _ _ _ _ Ec).
  Qed.
End Build.
