(* SelectionFacts.v — C10 / C18: what --builders, --apps and local mode select. The configured pairs are
   drawn from exactly the named builders (each once, in command-line order) and exactly the binaries
   whose name is selected and — in local mode — whose directory is the start directory. *)
From Coq Require Import Ascii String.
From Coq Require Import List Arith Bool NArith Lia.
Import ListNotations.
Require Import Laze.model.Base Laze.model.Env Laze.model.Expand Laze.model.Path Laze.model.Hash Laze.model.Allow
               Laze.model.Ninja Laze.model.Ctx Laze.model.Resolver Laze.model.Imports Laze.model.Generate.
Require Import Laze.proofs.BaseFacts.
Open Scope list_scope.

Lemma rmapM_ok_Forall2 {A B} (f : A -> res B) : forall l out, rmapM f l = Ok out -> Forall2 (fun x y => f x = Ok y) l out.
Proof.
  induction l as [|x t IH]; intros out HM; cbn [rmapM] in HM.
  - injection HM as <-. constructor.
  - destruct (f x) as [y| | |] eqn:Ex; cbn [rbind] in HM; try discriminate.
    destruct (rmapM f t) as [ys| | |] eqn:Et; cbn [rbind] in HM; try discriminate.
    injection HM as <-. constructor; [exact Ex|apply IH; reflexivity].
Qed.

(* --builders: every selected index is a builder of the bag found under one of the given names, in the order of the
   (de-duplicated) command line, one per name *)
Theorem selected_builders_named b l bs : selected_builders b (SelSome l) = Ok bs ->
  Forall2 (fun n i => bag_index b n = Some i /\ exists c, bag_get b i = Some c /\ c_is_builder c = true) (nodup_str l) bs.
Proof.
  cbn [selected_builders]. intros HM. apply rmapM_ok_Forall2 in HM.
  induction HM as [|n i ns is Hni _ IH]; constructor; [|exact IH].
  destruct (bag_index b n) as [j|]; [|discriminate]. destruct (bag_get b j) as [c|] eqn:Ec; [|discriminate].
  destruct (c_is_builder c) eqn:Eb; [|discriminate]. injection Hni as <-. split; [reflexivity|]. exists c. auto.
Qed.

(* --apps / local mode: a binary is selected iff it is a binary of the project whose name is selected and, in local
   mode, whose directory is the start directory *)
Theorem selected_bins_spec b apps local bins : selected_bins b apps local = Ok bins ->
  forall m, In m bins <->
    In m (all_modules b) /\ m_is_binary m = true /\ selects apps (m_name m) = true /\
    match local with None => True | Some dir => exists r, m_relpath m = Some r /\ path_eq r dir = true end.
Proof.
  unfold selected_bins. intros HS m.
  destruct (match apps with SelSome l => find _ l | SelAll => None end); [discriminate|].
  set (by_app := filter (fun m0 => selects apps (m_name m0)) (binaries b)) in *.
  assert (Hby : forall x, In x by_app <-> In x (all_modules b) /\ m_is_binary x = true /\ selects apps (m_name x) = true).
  { intros x. unfold by_app, binaries. rewrite !filter_In. tauto. }
  destruct local as [dir|].
  - set (in_dir := fun m0 : module => match m_relpath m0 with Some r => path_eq r dir | None => false end) in *.
    assert (Hdir : forall x, in_dir x = true <-> exists r, m_relpath x = Some r /\ path_eq r dir = true).
    { intros x. unfold in_dir. destruct (m_relpath x) as [r|]; split.
      - intros E. exists r. auto.
      - intros (r' & E & P). injection E as <-. exact P.
      - discriminate.
      - intros (r' & E & _). discriminate. }
    destruct apps as [|l].
    + injection HS as <-. rewrite filter_In, Hby, Hdir. tauto.
    + destruct (forallb in_dir by_app) eqn:EF; [|discriminate]. injection HS as <-.
      rewrite Hby. split; [|tauto]. intros HI. split; [tauto|]. split; [tauto|]. split; [tauto|].
      apply Hdir. rewrite forallb_forall in EF. apply EF. apply Hby. exact HI.
  - injection HS as <-. rewrite Hby. tauto.
Qed.

(* the configured pairs are pairs of a selected builder and a selected binary *)
Lemma pairs_In {A B} (la : list A) (lb : list B) a x : In (a, x) (pairs la lb) <-> In a la /\ In x lb.
Proof.
  unfold pairs. rewrite in_flat_map. split.
  - intros (a' & Ha & Hx). apply in_map_iff in Hx. destruct Hx as (x' & E & Hx). injection E as -> ->. auto.
  - intros [Ha Hx]. exists a. split; [exact Ha|]. apply in_map_iff. exists x. auto.
Qed.

(* ---------- no build outside the selection ---------- *)
Require Import Laze.proofs.CacheNarrow.
Section NoOutside.
  Variable H : list ascii -> N.
  Variable EV : str -> evr.

  Theorem builds_within_selection b le bsel asel local part select disable cli_env g :
    generate H EV b le bsel asel local part select disable cli_env = Ok g ->
    exists bs bins, selected_builders b bsel = Ok bs /\ selected_bins b asel local = Ok bins /\
      forall info, In info (gr_builds g) ->
        exists i m es, In i bs /\ In m bins /\
          configure_build H EV b le i m select disable cli_env = Ok (Built info es).
  Proof.
    intros HG. destruct (generate_builds H EV _ _ _ _ _ _ _ _ _ _ HG) as (bs & bins & Hbs & Hbins & Hb).
    exists bs, bins. split; [exact Hbs|]. split; [exact Hbins|].
    intros info Hi. apply Hb in Hi. destruct Hi as ([i m] & es & Hin & Hc).
    apply CacheNarrow.part_filter_In, CacheNarrow.pairs_In in Hin. destruct Hin as [Hi Hm].
    exists i, m, es. split; [exact Hi|]. split; [exact Hm|exact Hc].
  Qed.
End NoOutside.
