(* ResolverFuel.v — C12: the resolver's answer does not depend on the fuel it is given. More fuel never
   changes an answer that was not "out of fuel" (monotonicity), and with the termination theorem
   (ResolverTotal.v) every amount of fuel from the bound on gives the same, proper answer: the
   fuel-indexed function of the model denotes one function. *)
From Coq Require Import Ascii String.
From Coq Require Import List Arith Bool NArith Lia.
Import ListNotations.
Require Import Laze.model.Base Laze.model.Env Laze.model.Allow Laze.model.Ninja Laze.model.Ctx Laze.model.Resolver.
Require Import Laze.proofs.BaseFacts.
Open Scope list_scope.

Section Mono.
  Variable lookup : str -> option module.
  Variable provs : str -> option (list str).

  Definition le_rec (r1 r2 : rstate -> module -> res rstate) : Prop :=
    forall st m, r1 st m <> Fuel -> r2 st m = r1 st m.

  Lemma by_name_mono r1 r2 st n : le_rec r1 r2 ->
    by_name lookup r1 st n <> Fuel -> by_name lookup r2 st n = by_name lookup r1 st n.
  Proof. unfold by_name. intros Hle. destruct (lookup n) as [m|]; [apply Hle|reflexivity]. Qed.

  Lemma rlist_mono r1 r2 pn : le_rec r1 r2 -> forall ps cur cnt,
    rlist lookup r1 pn ps cur cnt <> Fuel -> rlist lookup r2 pn ps cur cnt = rlist lookup r1 pn ps cur cnt.
  Proof.
    intros Hle. induction ps as [|p ps IH]; intros cur cnt Hn; cbn [rlist] in *; [reflexivity|].
    destruct (selected p cur); [apply IH, Hn|].
    destruct (has_key pn (disabled cur)).
    - destruct (Nat.ltb 0 cnt); [reflexivity|apply IH, Hn].
    - assert (Hb : by_name lookup r1 cur p <> Fuel).
      { intros E. rewrite E in Hn. apply Hn. reflexivity. }
      rewrite (by_name_mono _ _ _ _ Hle Hb).
      destruct (by_name lookup r1 cur p); [apply IH, Hn|apply IH, Hn|reflexivity|reflexivity].
  Qed.

  Lemma deps_mono r1 r2 : le_rec r1 r2 -> forall ds cur,
    deps lookup provs r1 ds cur <> Fuel -> deps lookup provs r2 ds cur = deps lookup provs r1 ds cur.
  Proof.
    intros Hle. induction ds as [|d ds IH]; intros cur Hn; cbn [deps] in *; [reflexivity|].
    destruct (classify d cur) as [o d'|n opt]; [apply IH, Hn|].
    destruct (provs n) as [ps|].
    - assert (Hr : rlist lookup r1 n ps cur 0 <> Fuel).
      { intros E. rewrite E in Hn. apply Hn. reflexivity. }
      rewrite (rlist_mono _ _ n Hle ps cur 0 Hr).
      destruct (rlist lookup r1 n ps cur 0) as [[c cnt]| | |]; try reflexivity.
      destruct (Nat.ltb 0 cnt).
      + cbn [andb] in *. destruct (has_key n (disabled c)); [apply IH, Hn|].
        assert (Hb : by_name lookup r1 c n <> Fuel) by (intros E; rewrite E in Hn; apply Hn; reflexivity).
        rewrite (by_name_mono _ _ _ _ Hle Hb).
        destruct (by_name lookup r1 c n); try reflexivity; [apply IH, Hn|].
        rewrite orb_true_r in *. apply IH, Hn.
      + cbn [andb] in *.
        assert (Hb : by_name lookup r1 cur n <> Fuel) by (intros E; rewrite E in Hn; apply Hn; reflexivity).
        rewrite (by_name_mono _ _ _ _ Hle Hb).
        destruct (by_name lookup r1 cur n); try reflexivity; [apply IH, Hn|].
        destruct (opt || false); [apply IH, Hn|reflexivity].
    - cbn [andb] in *.
      assert (Hb : by_name lookup r1 cur n <> Fuel) by (intros E; rewrite E in Hn; apply Hn; reflexivity).
      rewrite (by_name_mono _ _ _ _ Hle Hb).
      destruct (by_name lookup r1 cur n); try reflexivity; [apply IH, Hn|].
      destruct (opt || false); [apply IH, Hn|reflexivity].
  Qed.

  Theorem resolve_deep_step : forall f, le_rec (resolve_deep lookup provs f) (resolve_deep lookup provs (S f)).
  Proof.
    induction f as [|f IH]; intros st m Hn; [exfalso; apply Hn; reflexivity|].
    cbn [resolve_deep] in Hn |- *.
    destruct (selected (m_name m) st); [reflexivity|].
    destruct (blocked st m); [reflexivity|].
    apply (deps_mono _ _ IH). exact Hn.
  Qed.

  (* more fuel never changes an answer that is not "out of fuel" *)
  Theorem resolve_deep_mono f f' st m : f <= f' ->
    resolve_deep lookup provs f st m <> Fuel -> resolve_deep lookup provs f' st m = resolve_deep lookup provs f st m.
  Proof.
    intros Hle. induction Hle as [|f' Hle IH]; intros Hn; [reflexivity|].
    rewrite (resolve_deep_step f' st m); [apply IH, Hn|]. rewrite (IH Hn). exact Hn.
  Qed.

  (* two amounts of fuel that both suffice give one answer *)
  Corollary resolve_deep_fuel_independent f1 f2 st m :
    resolve_deep lookup provs f1 st m <> Fuel -> resolve_deep lookup provs f2 st m <> Fuel ->
    resolve_deep lookup provs f1 st m = resolve_deep lookup provs f2 st m.
  Proof.
    intros H1 H2. destruct (Nat.le_ge_cases f1 f2) as [L|L].
    - symmetry. apply resolve_deep_mono; assumption.
    - apply resolve_deep_mono; assumption.
  Qed.
End Mono.

(* for a loaded project: every amount of fuel from the model's bound on gives the answer of resolve_build,
   which is never "out of fuel" — the bound is not part of the meaning *)
Require Import Laze.model.Load Laze.proofs.ResolverTotal Laze.proofs.LoadKeys.

Definition resolve_with_fuel (f : nat) (b : bag) (builder : nat) (builder_name : str) (binary : module)
           (cli_selects : list dep) (disabled0 : list str) : res rstate :=
  let provided := match bag_get b builder with Some c => c_provided c | None => None end in
  resolve_deep (resolve_module b builder)
               (fun n => match provided with Some p => alookup n p | None => None end)
               f (init_state disabled0) (build_binary binary builder_name cli_selects).

Theorem resolve_fuel_irrelevant t pf bd b builder bname binary cli_selects disabled0 f :
  load t pf bd = Ok b -> In binary (all_modules b) -> resolver_fuel b <= f ->
  resolve_with_fuel f b builder bname binary cli_selects disabled0 = resolve_build b builder bname binary cli_selects disabled0 /\
  resolve_build b builder bname binary cli_selects disabled0 <> Fuel.
Proof.
  intros HL Hin Hf.
  assert (HT : resolve_build b builder bname binary cli_selects disabled0 <> Fuel).
  { apply resolve_build_terminates; [exact (load_keys_ok _ _ _ _ HL)|apply in_map; exact Hin]. }
  split; [|exact HT]. unfold resolve_with_fuel, resolve_build in *. apply resolve_deep_mono; [exact Hf|exact HT].
Qed.
