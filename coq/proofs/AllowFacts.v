(* AllowFacts.v — lemmas about model/Allow.v (C11) *)
From Coq Require Import Ascii String.
From Coq Require Import List Arith Bool NArith Lia Permutation.
Import ListNotations.
Require Import Laze.model.Base Laze.model.Allow Laze.proofs.BaseFacts.
Open Scope list_scope.

(* the ancestor of [i] reached after [d] parent steps *)
Fixpoint chain_at (t : tree) (i d : nat) : option nat :=
  match d with
  | O => Some i
  | S d' => match parent_of t i with Some p => chain_at t p d' | None => None end
  end.

Lemma is_ancestor_sound : forall fuel t cid other d0 i d,
  is_ancestor fuel t cid other d0 = Ok (Some (i, d)) ->
  i = cid /\ d0 <= d /\ chain_at t other (d - d0) = Some cid.
Proof.
  induction fuel as [|fuel IH]; intros t cid other d0 i d H; [discriminate|].
  cbn [is_ancestor] in H. destruct (Nat.eqb cid other) eqn:E.
  - inversion H; subst. apply Nat.eqb_eq in E. subst. rewrite Nat.sub_diag. auto.
  - destruct (parent_of t other) as [p|] eqn:Ep; [|discriminate].
    apply IH in H as (H1 & H2 & H3). split; [exact H1|]. split; [lia|].
    replace (d - d0) with (S (d - S d0)) by lia. cbn [chain_at]. rewrite Ep. exact H3.
Qed.

(* well-formed trees: every parent chain ends (what finalize checks after the C15 fix) *)
Definition wf_tree (t : tree) : Prop := acyclic (t_parents t) = true.

Lemma chain_ends_no_fuel t : forall n i cid d,
  chain_ends n (t_parents t) i = true -> is_ancestor (S n) t cid i d <> Fuel.
Proof.
  induction n as [|n IH]; intros i cid d H.
  - cbn [is_ancestor]. destruct (Nat.eqb cid i); [discriminate|].
    unfold parent_of. cbn [chain_ends] in H.
    destruct (nth_error (t_parents t) i) as [[p|]|]; try discriminate.
  - cbn [is_ancestor]. destruct (Nat.eqb cid i); [discriminate|].
    unfold parent_of. cbn [chain_ends] in H.
    destruct (nth_error (t_parents t) i) as [[p|]|] eqn:E; try discriminate.
    apply IH. exact H.
Qed.

Lemma wf_no_fuel t cid i d : wf_tree t -> is_ancestor (tree_fuel t) t cid i d <> Fuel.
Proof.
  intros W. unfold tree_fuel. destruct (lt_dec i (length (t_parents t))) as [Hlt|Hge].
  - apply chain_ends_no_fuel. unfold wf_tree, acyclic in W. rewrite forallb_forall in W.
    apply W. apply in_seq. lia.
  - cbn [is_ancestor]. destruct (Nat.eqb cid i); [discriminate|].
    unfold parent_of. assert (E : nth_error (t_parents t) i = None) by (apply nth_error_None; lia).
    rewrite E. discriminate.
Qed.

Lemma is_ancestor_total t cid i d :
  wf_tree t -> exists r, is_ancestor (tree_fuel t) t cid i d = Ok r.
Proof.
  intros W. pose proof (wf_no_fuel t cid i d W) as NF.
  assert (G : forall fuel c o dd, match is_ancestor fuel t c o dd with Err _ | Panic _ => False | _ => True end).
  { induction fuel as [|fuel IH]; intros c o dd; cbn [is_ancestor]; [exact I|].
    destruct (Nat.eqb c o); [exact I|]. destruct (parent_of t o); [apply IH | exact I]. }
  specialize (G (tree_fuel t) cid i d).
  destruct (is_ancestor (tree_fuel t) t cid i d) as [r|e|n|]; try contradiction.
  eexists; reflexivity.
Qed.

(* what one list entry contributes: (index, depth) if it names the builder or an ancestor *)
Definition entry (t : tree) (ctx : nat) (n : str) : option (nat * nat) :=
  match get_by_name t n with
  | Some listed => match is_ancestor (tree_fuel t) t listed ctx 0 with Ok r => r | _ => None end
  | None => None
  end.
Definition entries (t : tree) (ctx : nat) (l : list str) : list (nat * nat) :=
  flat_map (fun n => match entry t ctx n with Some x => [x] | None => [] end) l.

(* the loop's update: keep the nearer one *)
Definition pick (best : option (nat * nat)) (x : nat * nat) : option (nat * nat) :=
  match best with
  | Some (_, nd) => if Nat.leb nd (snd x) then best else Some x
  | None => Some x
  end.

Lemma ancestor_in_list_fold t ctx : wf_tree t -> forall l nearest,
  ancestor_in_list t ctx l nearest = Ok (fold_left pick (entries t ctx l) nearest).
Proof.
  intros W. induction l as [|n l IH]; intros nearest; [reflexivity|].
  cbn [ancestor_in_list entries flat_map]. unfold entry.
  destruct (get_by_name t n) as [listed|]; [|cbn [app]; apply IH].
  destruct (is_ancestor_total t listed ctx 0 W) as [r E]. rewrite E.
  destruct r as [[i d]|]; cbn [app fold_left]; [|apply IH].
  rewrite IH. unfold entries. f_equal.
Qed.

(* the fold returns a listed ancestor of minimal depth *)
Lemma pick_fold_min : forall xs init m,
  fold_left pick xs init = Some m ->
  (In m xs \/ init = Some m) /\
  (forall x, In x xs -> snd m <= snd x) /\
  (forall i, init = Some i -> snd m <= snd i).
Proof.
  induction xs as [|x xs IH]; intros init m H.
  - cbn in H. subst. split; [right; reflexivity|]. split; [intros ? []|]. intros i E. inversion E. lia.
  - cbn [fold_left] in H. apply IH in H as (H1 & H2 & H3).
    destruct init as [[bi bd]|]; cbn [pick] in *.
    + destruct (Nat.leb bd (snd x)) eqn:E.
      * apply Nat.leb_le in E. split.
        { destruct H1 as [H1|H1]; [left; right; exact H1 | right; exact H1]. }
        split.
        { intros y [->|Hy]; [specialize (H3 _ eq_refl); cbn in H3; lia | apply H2; exact Hy]. }
        { exact H3. }
      * apply Nat.leb_gt in E. split.
        { destruct H1 as [H1|H1]; [left; right; exact H1 | left; left; inversion H1; reflexivity]. }
        split.
        { intros y [->|Hy]; [apply (H3 _ eq_refl) | apply H2; exact Hy]. }
        { intros i Ei. inversion Ei; subst. specialize (H3 _ eq_refl). cbn [snd]. lia. }
    + split.
      { destruct H1 as [H1|H1]; [left; right; exact H1 | left; left; inversion H1; reflexivity]. }
      split.
      { intros y [->|Hy]; [apply (H3 _ eq_refl) | apply H2; exact Hy]. }
      { intros i Ei. discriminate. }
Qed.

Lemma pick_fold_none : forall xs init, fold_left pick xs init = None -> xs = [] /\ init = None.
Proof.
  induction xs as [|x xs IH]; intros init H; [cbn in H; auto|].
  cbn [fold_left] in H. apply IH in H as [_ H].
  destruct init as [[bi bd]|]; cbn [pick] in H; [destruct (Nat.leb bd (snd x))|]; discriminate.
Qed.

(* entries are (ancestor at depth d, d): the depth determines the index *)
Lemma entry_chain t ctx n i d : entry t ctx n = Some (i, d) -> chain_at t ctx d = Some i.
Proof.
  unfold entry. destruct (get_by_name t n) as [listed|]; [|discriminate].
  destruct (is_ancestor (tree_fuel t) t listed ctx 0) as [r| | |] eqn:E; try discriminate.
  intros ->. apply is_ancestor_sound in E as (-> & _ & H). rewrite Nat.sub_0_r in H. exact H.
Qed.

Lemma entries_chain t ctx l x : In x (entries t ctx l) -> chain_at t ctx (snd x) = Some (fst x).
Proof.
  unfold entries. rewrite in_flat_map. intros (n & _ & H).
  destruct (entry t ctx n) as [[i d]|] eqn:E; [|contradiction].
  destruct H as [<-|[]]. cbn. eapply entry_chain. exact E.
Qed.

Lemma entries_perm t ctx l l' : Permutation l l' -> Permutation (entries t ctx l) (entries t ctx l').
Proof.
  intros P. unfold entries. induction P; cbn [flat_map].
  - constructor.
  - apply Permutation_app_head. exact IHP.
  - rewrite !app_assoc. apply Permutation_app_tail. apply Permutation_app_comm.
  - eapply Permutation_trans; eassumption.
Qed.

(* the nearest listed ancestor does not depend on the order of the list *)
Theorem nearest_order_independent t ctx l l' :
  wf_tree t -> Permutation l l' ->
  ancestor_in_list t ctx l None = ancestor_in_list t ctx l' None.
Proof.
  intros W P. rewrite !ancestor_in_list_fold by exact W. f_equal.
  pose proof (entries_perm t ctx l l' P) as PE.
  destruct (fold_left pick (entries t ctx l) None) as [m|] eqn:E1;
  destruct (fold_left pick (entries t ctx l') None) as [m'|] eqn:E2.
  - apply pick_fold_min in E1 as ([I1|D1] & M1 & _); [|discriminate].
    apply pick_fold_min in E2 as ([I2|D2] & M2 & _); [|discriminate].
    assert (I1' : In m (entries t ctx l')) by (eapply Permutation_in; eassumption).
    assert (I2' : In m' (entries t ctx l)) by (eapply Permutation_in; [apply Permutation_sym|]; eassumption).
    assert (Hd : snd m = snd m') by (specialize (M1 _ I2'); specialize (M2 _ I1'); lia).
    apply entries_chain in I1. apply entries_chain in I2. rewrite Hd in I1. rewrite I1 in I2.
    inversion I2. destruct m, m'; cbn in *; subst; reflexivity.
  - apply pick_fold_none in E2 as [E2 _]. rewrite E2 in PE. apply Permutation_sym, Permutation_nil in PE.
    rewrite PE in E1. discriminate.
  - apply pick_fold_none in E1 as [E1 _]. rewrite E1 in PE. apply Permutation_nil in PE.
    rewrite PE in E2. discriminate.
  - reflexivity.
Qed.

Theorem is_allowed_order_independent t ctx bl bl' al al' :
  wf_tree t ->
  match bl, bl' with Some a, Some b => Permutation a b | None, None => True | _, _ => False end ->
  match al, al' with Some a, Some b => Permutation a b | None, None => True | _, _ => False end ->
  is_allowed t ctx bl al = is_allowed t ctx bl' al'.
Proof.
  intros W Pb Pa. unfold is_allowed.
  destruct al as [a|], al' as [a'|]; try contradiction;
  destruct bl as [b|], bl' as [b'|]; try contradiction;
  rewrite ?(nearest_order_independent t ctx a a' W Pa), ?(nearest_order_independent t ctx b b' W Pb); reflexivity.
Qed.

(* the decision table, on the nearest listed ancestors *)
Definition nearest (t : tree) (ctx : nat) (l : option (list str)) : option (nat * nat) :=
  match l with Some l => fold_left pick (entries t ctx l) None | None => None end.

Definition decide (al bl : option (list str)) (a b : option (nat * nat)) : blockallow :=
  match al, bl with
  | None, None => Allowed
  | Some _, None => match a with Some _ => Allowed | None => Blocked end          (* allowlist alone *)
  | None, Some _ => match b with Some (bi, bd) => ba_block bi bd | None => Allowed end
  | Some _, Some _ =>
      match a, b with
      | Some (ai, ad), Some (bi, bd) => if Nat.ltb bd ad then ba_block bi bd else ba_allow ai ad
      | Some (ai, ad), None => ba_allow ai ad
      | None, Some (bi, bd) => ba_block bi bd
      | None, None => Allowed
      end
  end.

Theorem is_allowed_decide t ctx bl al :
  wf_tree t -> is_allowed t ctx bl al = Ok (decide al bl (nearest t ctx al) (nearest t ctx bl)).
Proof.
  intros W. unfold is_allowed, nearest, decide.
  destruct al as [a|], bl as [b|]; rewrite ?ancestor_in_list_fold by exact W; cbn [rbind]; reflexivity.
Qed.

(* the nearest listed ancestor is listed, is the builder or an ancestor, and no listed
   ancestor is nearer *)
Theorem nearest_is_nearest t ctx l i d :
  nearest t ctx (Some l) = Some (i, d) ->
  chain_at t ctx d = Some i /\
  (exists n, In n l /\ entry t ctx n = Some (i, d)) /\
  (forall n j e, In n l -> entry t ctx n = Some (j, e) -> d <= e).
Proof.
  unfold nearest. intros H. apply pick_fold_min in H as ([I|D] & M & _); [|discriminate].
  split; [apply (entries_chain t ctx l (i, d) I)|]. split.
  - unfold entries in I. apply in_flat_map in I as (n & Hn & Hx).
    exists n. split; [exact Hn|]. destruct (entry t ctx n) as [x|]; [|contradiction].
    destruct Hx as [->|[]]. reflexivity.
  - intros n j e Hn He. specialize (M (j, e)). cbn in M. apply M.
    unfold entries. apply in_flat_map. exists n. split; [exact Hn|]. rewrite He. left. reflexivity.
Qed.

Theorem nearest_none t ctx l :
  nearest t ctx (Some l) = None <-> (forall n, In n l -> entry t ctx n = None).
Proof.
  unfold nearest. split.
  - intros H n Hn. apply pick_fold_none in H as [H _].
    destruct (entry t ctx n) as [x|] eqn:E; [|reflexivity]. exfalso.
    assert (I : In x (entries t ctx l)).
    { unfold entries. apply in_flat_map. exists n. split; [exact Hn|]. rewrite E. left. reflexivity. }
    rewrite H in I. contradiction.
  - intros H. assert (E : entries t ctx l = []).
    { unfold entries. induction l as [|n l IH]; [reflexivity|]. cbn [flat_map].
      rewrite (H n (or_introl eq_refl)). cbn [app]. apply IH. intros m Hm. apply H. right. exact Hm. }
    rewrite E. reflexivity.
Qed.

(* the tree built from a list of (name, parent name) is well-formed *)
Lemma build_tree_wf ctxs t : build_tree ctxs = inl t -> wf_tree t.
Proof.
  unfold build_tree. destruct (has_dup (map fst ctxs)); [discriminate|].
  destruct (resolve_parents _ _) as [ps|]; [|discriminate].
  destruct (acyclic ps) eqn:E; [|discriminate]. intros H. inversion H; subst. exact E.
Qed.

(* ---------- the clauses of the property as corollaries of the decision table ---------- *)
(* an allowlist alone: built iff the builder or one of its ancestors is listed *)
Corollary allowlist_alone t ctx l : wf_tree t ->
  is_allowed t ctx None (Some l) =
  Ok (if match nearest t ctx (Some l) with Some _ => true | None => false end then Allowed else Blocked).
Proof.
  intros W. rewrite (is_allowed_decide t ctx None (Some l) W). cbn [decide nearest].
  destruct (fold_left pick (entries t ctx l) None); reflexivity.
Qed.

Corollary allowlist_alone_blocks_iff t ctx l : wf_tree t ->
  (is_allowed t ctx None (Some l) = Ok Blocked <-> forall n, In n l -> entry t ctx n = None).
Proof.
  intros W. rewrite (allowlist_alone t ctx l W). rewrite <- nearest_none.
  destruct (nearest t ctx (Some l)) as [p|]; split; intros E; try reflexivity; try discriminate.
Qed.

(* an empty allowlist: built for no builder *)
Corollary empty_allowlist_builds_nowhere t ctx : wf_tree t -> is_allowed t ctx None (Some []) = Ok Blocked.
Proof. intros W. apply allowlist_alone_blocks_iff; [exact W|intros n []]. Qed.

(* a blocklist alone: not built iff the builder or one of its ancestors is listed *)
Corollary blocklist_alone_allows_iff t ctx l : wf_tree t ->
  (is_allowed t ctx (Some l) None = Ok Allowed <-> forall n, In n l -> entry t ctx n = None).
Proof.
  intros W. rewrite (is_allowed_decide t ctx (Some l) None W). cbn [decide]. rewrite <- nearest_none.
  destruct (nearest t ctx (Some l)) as [[bi bd]|]; split; intros E; try reflexivity; try discriminate.
  unfold ba_block in E. destruct bd; discriminate.
Qed.
