(* PrivateDirs.v — C07: the private object directories of a non-shareable rule are distinct for
   distinct (builder, app) pairs whose names are plain path components (non-empty, no '/').
   With a '/' in a name the directories can coincide: the boundary example is open finding
   K07:slash-in-names. *)
From Coq Require Import Ascii String.
From Coq Require Import List Arith Bool NArith Lia.
Import ListNotations.
Require Import Laze.model.Base Laze.model.Path Laze.model.Generate Laze.proofs.PathFacts.
Open Scope list_scope.

Definition plain (x : str) : Prop := x <> [] /\ noslash x.

(* what push puts between the two parts *)
Definition sep (a : str) : str :=
  match last_char a with Some c => if is_slash c then [] else [ch_slash] | None => [] end.

Lemma last_char_app x y : y <> [] -> last_char (x ++ y) = last_char y.
Proof.
  intros Hy. induction x as [|c t IH]; [reflexivity|].
  cbn [app last_char]. destruct (t ++ y) as [|d u] eqn:E.
  - destruct t; [cbn in E; contradiction|discriminate].
  - exact IH.
Qed.

Lemma last_char_nonempty_some x : x <> [] -> exists c, last_char x = Some c /\ In c x.
Proof.
  induction x as [|c t IH]; [contradiction|]. intros _. destruct t as [|d u].
  - exists c. split; [reflexivity|left; reflexivity].
  - destruct IH as (l & Hl & Hin); [discriminate|]. exists l. split; [exact Hl|right; exact Hin].
Qed.

Lemma path_push_rel a r : is_absolute r = false -> path_push a r = a ++ sep a ++ r.
Proof.
  intros Hr. unfold path_push, sep. rewrite Hr. destruct a as [|c t]; [reflexivity|].
  destruct (last_char (c :: t)) as [l|] eqn:E.
  - destruct (is_slash l); reflexivity.
  - destruct (last_char_nonempty_some (c :: t)) as (l & Hl & _); [discriminate|]. rewrite Hl in E. discriminate.
Qed.

Lemma plain_relative x : plain x -> is_absolute x = false.
Proof. intros [Hne Hns]. destruct x as [|c t]; [reflexivity|]. apply Hns. left; reflexivity. Qed.

Lemma sep_ends_plain p x : plain x -> sep (p ++ x) = [ch_slash].
Proof.
  intros [Hne Hns]. unfold sep. rewrite last_char_app by exact Hne.
  destruct (last_char_nonempty_some x Hne) as (l & Hl & Hin). rewrite Hl, (Hns l Hin). reflexivity.
Qed.

Lemma slash_is_slash : is_slash ch_slash = true.
Proof. reflexivity. Qed.

Lemma split_at_first_slash : forall x y u v,
  noslash x -> noslash y -> x ++ ch_slash :: u = y ++ ch_slash :: v -> x = y /\ u = v.
Proof.
  induction x as [|c t IH]; intros y u v Hx Hy E.
  - destruct y as [|d s]; cbn in E.
    + injection E as Ht. auto.
    + injection E as Hc Ht. assert (Hd : is_slash d = false) by (apply Hy; left; reflexivity).
      rewrite <- Hc, slash_is_slash in Hd. discriminate.
  - destruct y as [|d s]; cbn in E.
    + injection E as Hc Ht. assert (Hd : is_slash c = false) by (apply Hx; left; reflexivity).
      rewrite Hc, slash_is_slash in Hd. discriminate.
    + injection E as Hc Ht.
      destruct (IH s u v) as [E1 E2]; [intros z Hz; apply Hx; right; exact Hz|intros z Hz; apply Hy; right; exact Hz|exact Ht|].
      subst. auto.
Qed.

Lemma private_dir_shape objdir b a r :
  plain b -> plain a -> is_absolute r = false ->
  path_push (path_push (path_push objdir b) a) r = objdir ++ sep objdir ++ b ++ ch_slash :: a ++ ch_slash :: r.
Proof.
  intros Hb Ha Hr.
  rewrite (path_push_rel objdir b (plain_relative b Hb)).
  rewrite (path_push_rel _ a (plain_relative a Ha)).
  replace (objdir ++ sep objdir ++ b) with ((objdir ++ sep objdir) ++ b) by (rewrite app_assoc; reflexivity).
  rewrite (sep_ends_plain _ b Hb).
  rewrite (path_push_rel _ r Hr).
  replace (((objdir ++ sep objdir) ++ b) ++ [ch_slash] ++ a) with (((objdir ++ sep objdir) ++ b ++ [ch_slash]) ++ a)
    by (rewrite <- !app_assoc; reflexivity).
  rewrite (sep_ends_plain _ a Ha). rewrite <- !app_assoc. reflexivity.
Qed.

(* two builds whose (builder, app) names are plain get different objects for one source of a non-shareable rule *)
Theorem nonshareable_private_distinct objdir b1 a1 b2 a2 src h1 h2 rout :
  plain b1 -> plain a1 -> plain b2 -> plain a2 ->
  object_path objdir b1 a1 false src h1 rout = object_path objdir b2 a2 false src h2 rout ->
  b1 = b2 /\ a1 = a2.
Proof.
  intros Hb1 Ha1 Hb2 Ha2. unfold object_path. cbn [object_ext].
  set (r := rel_root (with_extension src rout)).
  assert (Hr : is_absolute r = false) by apply rel_root_relative.
  rewrite (private_dir_shape objdir b1 a1 r Hb1 Ha1 Hr), (private_dir_shape objdir b2 a2 r Hb2 Ha2 Hr).
  intros E. apply app_inv_head in E. apply app_inv_head in E.
  destruct (split_at_first_slash b1 b2 _ _ (proj2 Hb1) (proj2 Hb2) E) as [Eb E2]. split; [exact Eb|].
  destruct (split_at_first_slash a1 a2 _ _ (proj2 Ha1) (proj2 Ha2) E2) as [Ea _]. exact Ea.
Qed.

(* the boundary: with '/' in names two different pairs share one "private" directory *)
Example slash_names_clash :
  object_path (S_ "build/objects") (S_ "a/b") (S_ "c") false (S_ "x.S") 0 (S_ "o") =
  object_path (S_ "build/objects") (S_ "a") (S_ "b/c") false (S_ "x.S") 0 (S_ "o").
Proof. vm_compute. reflexivity. Qed.
