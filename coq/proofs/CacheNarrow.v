(* CacheNarrow.v — what the superset rule of the cache means for the generator of Generate.v:
   a run for narrower --builders/--apps selections succeeds whenever the wider one did (given that
   the names are known), configures exactly the selected builds of the wider run, and every ninja
   statement it writes is in the wider run's file. *)
From Coq Require Import Ascii String.
From Coq Require Import List Arith Bool NArith Lia.
Import ListNotations.
Require Import Laze.model.Base Laze.model.Env Laze.model.Allow Laze.model.Ninja Laze.model.Ctx
               Laze.model.Generate Laze.model.Tasks Laze.model.Cache.
Require Import Laze.proofs.BaseFacts Laze.proofs.GenerateFacts.
Open Scope list_scope.

(* ---------- small list facts ---------- *)
Lemma index_of_spec n : forall l i j, index_of n l i = Some j -> i <= j /\ nth_error l (j - i) = Some n.
Proof.
  induction l as [|x r IH]; intros i j H; cbn in H; [discriminate|].
  destruct (str_eqb n x) eqn:E.
  - injection H as <-. apply str_eqb_eq in E. subst x. split; [lia|]. replace (i - i) with 0 by lia. reflexivity.
  - apply IH in H. destruct H as [Hle Hn]. split; [lia|].
    replace (j - i) with (S (j - S i)) by lia. exact Hn.
Qed.

Lemma index_of_nth n : forall l i k, NoDup l -> nth_error l k = Some n -> index_of n l i = Some (i + k).
Proof.
  induction l as [|x r IH]; intros i k ND Hn; [destruct k; discriminate|].
  inversion ND as [|? ? Hnot ND']; subst. destruct k as [|k]; cbn in Hn.
  - injection Hn as ->. cbn. rewrite str_eqb_refl. f_equal. lia.
  - cbn. destruct (str_eqb n x) eqn:E.
    + apply str_eqb_eq in E. subst x. exfalso. apply Hnot. eapply nth_error_In. exact Hn.
    + rewrite (IH (S i) k ND' Hn). f_equal. lia.
Qed.

Lemma rmapM_ok_sub {A B} (f : A -> res B) l l' ys :
  rmapM f l = Ok ys -> (forall x, In x l' -> In x l) -> exists ys', rmapM f l' = Ok ys'.
Proof.
  intros HO Hsub. apply rmapM_ok in HO.
  assert (G : forall x, In x l -> exists y, f x = Ok y).
  { clear Hsub. induction HO as [|x y l0 l1 Hxy _ IH]; intros z Hz; [contradiction|].
    destruct Hz as [<-|Hz]; [exists y; exact Hxy | apply IH, Hz]. }
  clear HO. induction l' as [|x t IH]; [exists []; reflexivity|].
  destruct (G x (Hsub x (or_introl eq_refl))) as [y Hy].
  destruct IH as [ys' Hys']; [intros z Hz; apply Hsub; right; exact Hz|].
  exists (y :: ys'). cbn. rewrite Hy. cbn. rewrite Hys'. reflexivity.
Qed.

Lemma Forall2_In_l {A B} (P : A -> B -> Prop) l l' x : Forall2 P l l' -> In x l -> exists y, In y l' /\ P x y.
Proof.
  induction 1 as [|a b l0 l1 Hab _ IH]; intros Hx; [contradiction|].
  destruct Hx as [<-|Hx]; [exists b; split; [left; reflexivity|exact Hab]|].
  destruct (IH Hx) as (y & Hy & Py). exists y. split; [right; exact Hy|exact Py].
Qed.
Lemma Forall2_In_r {A B} (P : A -> B -> Prop) l l' y : Forall2 P l l' -> In y l' -> exists x, In x l /\ P x y.
Proof.
  induction 1 as [|a b l0 l1 Hab _ IH]; intros Hy; [contradiction|].
  destruct Hy as [<-|Hy]; [exists a; split; [left; reflexivity|exact Hab]|].
  destruct (IH Hy) as (x & Hx & Px). exists x. split; [right; exact Hx|exact Px].
Qed.

Lemma dedup_go_In x : forall l seen, In x (dedup_go seen l) <-> In x l /\ ~ In x seen.
Proof.
  induction l as [|y t IH]; intros seen; cbn; [tauto|].
  destruct (mem_str y seen) eqn:E.
  - apply mem_str_In in E. rewrite IH. split; [tauto|]. intros [[<-|H] Hn]; [contradiction|tauto].
  - apply mem_str_false in E. cbn. rewrite IH. cbn. split.
    + intros [<-|[H Hn]]; [tauto|]. split; [tauto|]. intros Hs. apply Hn. right; exact Hs.
    + intros [[<-|H] Hn]; [left; reflexivity|].
      destruct (list_eq_dec Ascii.ascii_dec y x) as [->|Hne]; [left; reflexivity|].
      right. split; [exact H|]. intros [Hy|Hs]; [apply Hne; exact Hy|contradiction].
Qed.
Lemma nodup_str_In x l : In x (nodup_str l) <-> In x l.
Proof. unfold nodup_str. rewrite dedup_go_In. cbn. tauto. Qed.

Lemma pairs_In {A B} (la : list A) (lb : list B) a x : In (a, x) (pairs la lb) <-> In a la /\ In x lb.
Proof.
  unfold pairs. rewrite in_flat_map. split.
  - intros (a' & Ha & Hm). apply in_map_iff in Hm. destruct Hm as (x' & E & Hx). injection E as -> ->. tauto.
  - intros [Ha Hx]. exists a. split; [exact Ha|]. apply in_map. exact Hx.
Qed.

(* ---------- builders ---------- *)
Definition ctx_names_ok (b : bag) : Prop := NoDup (bag_names b).

Lemma bag_index_get b n i : bag_index b n = Some i -> exists c, bag_get b i = Some c /\ c_name c = n.
Proof.
  unfold bag_index, bag_get, bag_names. intros H. apply index_of_spec in H. destruct H as [_ Hn].
  rewrite Nat.sub_0_r in Hn. rewrite nth_error_map in Hn.
  destruct (nth_error b i) as [c|]; [|discriminate]. exists c. split; [reflexivity|]. cbn in Hn. injection Hn as ->. reflexivity.
Qed.
Lemma bag_get_index b i c : ctx_names_ok b -> bag_get b i = Some c -> bag_index b (c_name c) = Some i.
Proof.
  unfold bag_index, bag_get, bag_names, ctx_names_ok. intros ND H.
  apply (index_of_nth (c_name c) (map c_name b) 0 i ND). rewrite nth_error_map, H. reflexivity.
Qed.

Definition ctx_name (b : bag) (i : nat) : str := match bag_get b i with Some c => c_name c | None => [] end.

Lemma combine_seq_In {A} (l : list A) : forall s i c,
  In (i, c) (combine (seq s (length l)) l) <-> s <= i /\ nth_error l (i - s) = Some c.
Proof.
  induction l as [|x t IH]; intros s i c; cbn [length seq combine].
  - split; [intros []|]. intros [_ H]. destruct (i - s); discriminate.
  - cbn [In]. rewrite IH. split.
    + intros [E|[Hle Hn]].
      * injection E as <- <-. split; [lia|]. replace (s - s) with 0 by lia. reflexivity.
      * split; [lia|]. replace (i - s) with (S (i - S s)) by lia. exact Hn.
    + intros [Hle Hn]. destruct (Nat.eq_dec i s) as [->|Hne].
      * left. replace (s - s) with 0 in Hn by lia. cbn in Hn. injection Hn as <-. reflexivity.
      * right. split; [lia|]. replace (i - s) with (S (i - S s)) in Hn by lia. exact Hn.
Qed.

Lemma builders_In b i : In i (map fst (builders b)) <-> exists c, bag_get b i = Some c /\ c_is_builder c = true.
Proof.
  unfold builders, bag_get. rewrite in_map_iff. split.
  - intros ([i' c] & E & Hin). cbn in E. subst i'. apply filter_In in Hin. destruct Hin as [Hin Hb]. cbn in Hb.
    apply combine_seq_In in Hin. destruct Hin as [_ Hn]. rewrite Nat.sub_0_r in Hn. exists c. split; assumption.
  - intros (c & Hg & Hb). exists (i, c). split; [reflexivity|]. apply filter_In. split; [|exact Hb].
    apply combine_seq_In. split; [lia|]. rewrite Nat.sub_0_r. exact Hg.
Qed.

(* what selected_builders returns: indices of builder contexts, for SelSome exactly those named *)
Lemma selected_builders_spec b s bs : selected_builders b s = Ok bs ->
  forall i, In i bs <-> (exists c, bag_get b i = Some c /\ c_is_builder c = true /\
                                   match s with SelAll => True | SelSome l => In (c_name c) l /\ bag_index b (c_name c) = Some i end).
Proof.
  destruct s as [|l]; cbn [selected_builders]; intros HS i.
  - injection HS as <-. rewrite builders_In. split; intros (c & H1 & H2); exists c; tauto.
  - apply rmapM_ok in HS. split.
    + intros Hi. destruct (Forall2_In_r _ _ _ _ HS Hi) as (n & Hn & Hf).
      destruct (bag_index b n) as [j|] eqn:Ej; [|discriminate].
      destruct (bag_get b j) as [c|] eqn:Ec; [|discriminate].
      destruct (c_is_builder c) eqn:Eb; [|discriminate]. injection Hf as ->.
      destruct (bag_index_get _ _ _ Ej) as (c' & Hc' & Hname). rewrite Ec in Hc'. injection Hc' as <-.
      exists c. split; [exact Ec|]. split; [exact Eb|]. rewrite Hname. split; [apply nodup_str_In; exact Hn|exact Ej].
    + intros (c & Hg & Hb & Hin & Hidx). apply (proj2 (nodup_str_In _ _)) in Hin.
      destruct (Forall2_In_l _ _ _ _ HS Hin) as (j & Hj & Hf). rewrite Hidx, Hg, Hb in Hf. injection Hf as <-. exact Hj.
Qed.

Lemma selected_builders_narrow b s s' bs known :
  ctx_names_ok b -> selected_builders b s = Ok bs ->
  sel_superset s s' = true -> names_known s s' known = true ->
  (forall n, In n known -> exists i, In i bs /\ ctx_name b i = n) ->
  exists bs', selected_builders b s' = Ok bs' /\
              forall i, In i bs' <-> In i bs /\ selects s' (ctx_name b i) = true.
Proof.
  intros ND HS Hsup Hkn Hknown.
  assert (Hspec := selected_builders_spec _ _ _ HS).
  destruct s' as [|l'].
  - (* narrower = all: the wider one is all too *)
    destruct s as [|l]; [|discriminate]. exists bs. split; [exact HS|]. intros i. cbn. tauto.
  - (* every requested name is the name of a selected builder *)
    assert (Hreq : forall n, In n l' -> exists i c, In i bs /\ bag_get b i = Some c /\ c_name c = n /\ c_is_builder c = true).
    { intros n Hn. destruct s as [|l].
      - cbn in Hkn. rewrite forallb_forall in Hkn. specialize (Hkn n Hn). apply mem_str_In in Hkn.
        destruct (Hknown n Hkn) as (i & Hi & Hname). pose proof (proj1 (Hspec i) Hi) as (c & Hg & Hb & _).
        exists i, c. unfold ctx_name in Hname. rewrite Hg in Hname. tauto.
      - cbn in Hsup. rewrite forallb_forall in Hsup. specialize (Hsup n Hn). apply mem_str_In in Hsup.
        pose proof HS as HS2. cbn in HS2. apply rmapM_ok in HS2. apply (proj2 (nodup_str_In _ _)) in Hsup.
        destruct (Forall2_In_l _ _ _ _ HS2 Hsup) as (j & Hj & Hf).
        destruct (bag_index b n) as [j'|] eqn:Ej; [|discriminate].
        destruct (bag_get b j') as [c|] eqn:Ec; [|discriminate].
        destruct (c_is_builder c) eqn:Eb; [|discriminate]. injection Hf as <-.
        destruct (bag_index_get _ _ _ Ej) as (c' & Hc' & Hname). rewrite Ec in Hc'. injection Hc' as <-.
        exists j', c. tauto. }
    assert (Hok : exists bs', selected_builders b (SelSome l') = Ok bs').
    { cbn. assert (G : forall n, In n (nodup_str l') -> exists y,
                 (match bag_index b n with
                  | None => Err e_unknown_builder
                  | Some i => match bag_get b i with
                              | Some c => if c_is_builder c then Ok i else Err e_not_builder
                              | None => Err e_unknown_builder end end) = Ok y).
      { intros n Hn. apply (proj1 (nodup_str_In _ _)) in Hn. destruct (Hreq n Hn) as (i & c & _ & Hg & Hname & Hb).
        exists i. rewrite <- Hname, (bag_get_index _ _ _ ND Hg), Hg, Hb. reflexivity. }
      induction (nodup_str l') as [|n t IH]; [exists []; reflexivity|].
      destruct (G n (or_introl eq_refl)) as [y Hy]. destruct IH as [ys Hys]; [intros m Hm; apply G; right; exact Hm|].
      exists (y :: ys). cbn [rmapM]. rewrite Hy. cbn [rbind]. rewrite Hys. reflexivity. }
    destruct Hok as [bs' Hbs']. exists bs'. split; [exact Hbs'|].
    pose proof (selected_builders_spec _ _ _ Hbs') as Hspec'. intros i. rewrite Hspec'. split.
    + intros (c & Hg & Hb & Hin & Hidx). destruct (Hreq _ Hin) as (j & c2 & Hj & Hg2 & Hname & _).
      assert (j = i). { rewrite <- Hname, (bag_get_index _ _ _ ND Hg2) in Hidx. injection Hidx as ->. reflexivity. }
      subst j. split; [exact Hj|]. unfold ctx_name. rewrite Hg. cbn. apply mem_str_In. exact Hin.
    + intros [Hi Hsel]. pose proof (proj1 (Hspec i) Hi) as (c & Hg & Hb & _). exists c.
      unfold ctx_name in Hsel. rewrite Hg in Hsel. cbn in Hsel. apply mem_str_In in Hsel.
      split; [exact Hg|]. split; [exact Hb|]. split; [exact Hsel|]. apply bag_get_index; assumption.
Qed.

(* ---------- apps (global mode) ---------- *)
Lemma selected_bins_global b s bins : selected_bins b s None = Ok bins ->
  bins = filter (fun m => selects s (m_name m)) (binaries b).
Proof.
  unfold selected_bins. destruct s as [|l].
  - intros H. injection H as <-. reflexivity.
  - destruct (find _ l); [discriminate|]. intros H. injection H as <-. reflexivity.
Qed.

Lemma selected_bins_narrow_global b s s' bins known :
  selected_bins b s None = Ok bins ->
  sel_superset s s' = true -> names_known s s' known = true ->
  (forall n, In n known -> exists m, In m bins /\ m_name m = n) ->
  exists bins', selected_bins b s' None = Ok bins' /\
                forall m, In m bins' <-> In m bins /\ selects s' (m_name m) = true.
Proof.
  intros HS Hsup Hkn Hknown. pose proof (selected_bins_global _ _ _ HS) as Hb.
  assert (Hreq : match s' with SelAll => True | SelSome l' => forall a, In a l' -> exists m, In m (binaries b) /\ m_name m = a end).
  { destruct s' as [|l']; [exact I|]. intros a Ha. destruct s as [|l].
    - cbn in Hkn. rewrite forallb_forall in Hkn. specialize (Hkn a Ha). apply mem_str_In in Hkn.
      destruct (Hknown a Hkn) as (m & Hm & Hname). exists m. split; [|exact Hname].
      rewrite Hb in Hm. apply filter_In in Hm. tauto.
    - cbn in Hsup. rewrite forallb_forall in Hsup. specialize (Hsup a Ha). apply mem_str_In in Hsup.
      unfold selected_bins in HS. destruct (find _ l) eqn:Ef; [discriminate|].
      pose proof (find_none _ _ Ef a Hsup) as Hf. apply negb_false_iff in Hf. apply existsb_exists in Hf.
      destruct Hf as (m & Hm & Heq). apply str_eqb_eq in Heq. exists m. split; [exact Hm|symmetry; exact Heq]. }
  exists (filter (fun m => selects s' (m_name m)) (binaries b)). split.
  - unfold selected_bins. destruct s' as [|l']; [reflexivity|].
    destruct (find _ l') as [a|] eqn:Ef; [|reflexivity]. exfalso.
    apply find_some in Ef. destruct Ef as [Ha Hneg]. apply negb_true_iff in Hneg.
    destruct (Hreq a Ha) as (m & Hm & Hname).
    assert (existsb (fun m0 => str_eqb a (m_name m0)) (binaries b) = true).
    { apply existsb_exists. exists m. split; [exact Hm|]. apply str_eqb_eq. symmetry; exact Hname. }
    congruence.
  - intros m. rewrite Hb, !filter_In. split.
    + intros [Hm Hs']. split; [split; [exact Hm|]|exact Hs'].
      destruct s as [|l]; [reflexivity|]. destruct s' as [|l']; [discriminate|].
      cbn in *. rewrite forallb_forall in Hsup. apply Hsup. apply mem_str_In. exact Hs'.
    + intros [[Hm _] Hs']. tauto.
Qed.

(* ---------- the generator ---------- *)
Section Narrow.
  Variable H : list ascii -> N.
  Variable EV : str -> evr.

  Definition cfg b le select disable cli_env (bm : nat * module) :=
    configure_build H EV b le (fst bm) (snd bm) select disable cli_env.

  Lemma results_In b le select disable cli_env tuples results :
    Forall2 (fun bm r => rmap (fun r0 => (bm, r0)) (cfg b le select disable cli_env bm) = Ok r) tuples results ->
    forall x, In x (flat_map (fun r => match snd r with Built i _ => [i] | NoBuild _ => [] end) results) <->
              exists bm es, In bm tuples /\ cfg b le select disable cli_env bm = Ok (Built x es).
  Proof.
    induction 1 as [|bm r t rs Hbr _ IH]; intros x; cbn [flat_map].
    - split; [intros []|]. intros (bm & es & [] & _).
    - rewrite in_app_iff, IH. unfold rmap in Hbr.
      destruct (cfg b le select disable cli_env bm) as [c| | |] eqn:Ec; cbn [rbind] in Hbr; try discriminate.
      injection Hbr as <-. cbn [snd]. split.
      + intros [Hx|(bm' & es & Hin & Hc)].
        * destruct c as [i es|w]; [|destruct Hx]. destruct Hx as [<-|[]]. exists bm, es. split; [left; reflexivity|exact Ec].
        * exists bm', es. split; [right; exact Hin|exact Hc].
      + intros (bm' & es & [<-|Hin] & Hc).
        * left. rewrite Hc in Ec. injection Ec as <-. left; reflexivity.
        * right. exists bm', es. split; assumption.
  Qed.

  Lemma generate_builds b le bsel asel local part select disable cli_env g :
    generate H EV b le bsel asel local part select disable cli_env = Ok g ->
    exists bs bins,
      selected_builders b bsel = Ok bs /\ selected_bins b asel local = Ok bins /\
      forall x, In x (gr_builds g) <->
                exists bm es, In bm (part_filter b part (pairs bs bins)) /\ cfg b le select disable cli_env bm = Ok (Built x es).
  Proof.
    unfold generate. intros HG.
    destruct (selected_builders b bsel) as [bs| | |] eqn:Eb; cbn [rbind] in HG; try discriminate.
    destruct (selected_bins b asel local) as [bins| | |] eqn:Ebin; cbn [rbind] in HG; try discriminate.
    destruct (rmapM _ (part_filter b part (pairs bs bins))) as [results| | |] eqn:ER; cbn [rbind] in HG; try discriminate.
    injection HG as <-. cbn [gr_builds]. exists bs, bins. split; [reflexivity|]. split; [reflexivity|].
    apply rmapM_ok in ER. exact (results_In _ _ _ _ _ _ _ ER).
  Qed.

  (* the superset rule, for runs without --partition *)
  Theorem generate_narrow b le bsel asel bsel' asel' local select disable cli_env g :
    ctx_names_ok b ->
    generate H EV b le bsel asel local PNone select disable cli_env = Ok g ->
    sel_superset bsel bsel' = true -> sel_superset asel asel' = true ->
    names_known bsel bsel' (map bi_builder (gr_builds g)) = true ->
    names_known asel asel' (map bi_binary (gr_builds g)) = true ->
    (local = None \/ asel' = asel) ->
    exists g', generate H EV b le bsel' asel' local PNone select disable cli_env = Ok g' /\
      (forall x, In x (gr_builds g') <->
                 In x (gr_builds g) /\ selects bsel' (bi_builder x) = true /\ selects asel' (bi_binary x) = true) /\
      (forall t, In t (map show_stmt (gr_stmts g')) -> In t (map show_stmt (gr_stmts g))).
  Proof.
    intros ND HG Hbsup Hasup Hbkn Hakn Hloc.
    destruct (generate_builds _ _ _ _ _ _ _ _ _ _ HG) as (bs & bins & Hbs & Hbins & Hbuilds). cbn [part_filter] in Hbuilds.
    (* names of configured builds *)
    assert (Hinfo : forall x bm es, cfg b le select disable cli_env bm = Ok (Built x es) ->
                                    bi_builder x = ctx_name b (fst bm) /\ bi_binary x = m_name (snd bm)).
    { intros x bm es Hc. destruct (configure_build_inv H EV _ _ _ _ _ _ _ _ _ Hc) as (bctx & ba & bin_ctx & anc & rst & Hg & _ & _ & _ & _ & _ & _ & Hb1 & Hb2).
      unfold ctx_name. rewrite Hg. split; assumption. }
    assert (Hkb : forall n, In n (map bi_builder (gr_builds g)) -> exists i, In i bs /\ ctx_name b i = n).
    { intros n Hn. apply in_map_iff in Hn. destruct Hn as (x & <- & Hx). apply Hbuilds in Hx.
      destruct Hx as ([i m] & es & Hin & Hc). apply pairs_In in Hin. exists i. split; [tauto|].
      symmetry. exact (proj1 (Hinfo _ _ _ Hc)). }
    assert (Hka : forall n, In n (map bi_binary (gr_builds g)) -> exists m, In m bins /\ m_name m = n).
    { intros n Hn. apply in_map_iff in Hn. destruct Hn as (x & <- & Hx). apply Hbuilds in Hx.
      destruct Hx as ([i m] & es & Hin & Hc). apply pairs_In in Hin. exists m. split; [tauto|].
      symmetry. exact (proj2 (Hinfo _ _ _ Hc)). }
    destruct (selected_builders_narrow _ _ _ _ _ ND Hbs Hbsup Hbkn Hkb) as (bs' & Hbs' & Hbs'In).
    assert (Hb' : exists bins', selected_bins b asel' local = Ok bins' /\
                                forall m, In m bins' <-> In m bins /\ selects asel' (m_name m) = true).
    { destruct Hloc as [->| ->].
      - exact (selected_bins_narrow_global _ _ _ _ _ Hbins Hasup Hakn Hka).
      - exists bins. split; [exact Hbins|]. intros m. split; [|tauto]. intros Hm. split; [exact Hm|].
        destruct asel as [|l]; [reflexivity|].
        unfold selected_bins in Hbins. destruct (find _ l); [discriminate|].
        assert (Hf : In m (filter (fun m0 => selects (SelSome l) (m_name m0)) (binaries b))).
        { destruct local as [dir|]; [|injection Hbins as <-; exact Hm].
          destruct (forallb _ _); [|discriminate]. injection Hbins as <-. exact Hm. }
        apply filter_In in Hf. tauto. }
    destruct Hb' as (bins' & Hbins' & Hbins'In).
    assert (Hsub : forall bm, In bm (pairs bs' bins') -> In bm (pairs bs bins)).
    { intros [i m] Hin. apply pairs_In in Hin. apply pairs_In. rewrite Hbs'In, Hbins'In in Hin. tauto. }
    (* the narrower run succeeds *)
    assert (HG' : exists g', generate H EV b le bsel' asel' local PNone select disable cli_env = Ok g').
    { unfold generate in HG |- *. rewrite Hbs, Hbins in HG. rewrite Hbs', Hbins'. cbn [rbind part_filter] in HG |- *.
      destruct (rmapM _ (pairs bs bins)) as [results| | |] eqn:ER; cbn [rbind] in HG; try discriminate.
      destruct (rmapM_ok_sub _ _ (pairs bs' bins') _ ER Hsub) as [rs' Hrs']. rewrite Hrs'. cbn [rbind]. eexists. reflexivity. }
    destruct HG' as [g' HG']. exists g'. split; [exact HG'|].
    destruct (generate_builds _ _ _ _ _ _ _ _ _ _ HG') as (bs2 & bins2 & Hbs2 & Hbins2 & Hbuilds'). cbn [part_filter] in Hbuilds'.
    rewrite Hbs' in Hbs2. injection Hbs2 as <-. rewrite Hbins' in Hbins2. injection Hbins2 as <-.
    split.
    - intros x. rewrite Hbuilds', Hbuilds. split.
      + intros ([i m] & es & Hin & Hc). destruct (Hinfo _ _ _ Hc) as [Hn1 Hn2]. cbn [fst snd] in Hn1, Hn2.
        split; [exists (i, m), es; split; [apply Hsub; exact Hin|exact Hc]|].
        apply pairs_In in Hin. rewrite Hbs'In, Hbins'In in Hin. rewrite Hn1, Hn2. tauto.
      + intros [([i m] & es & Hin & Hc) [Hs1 Hs2]]. destruct (Hinfo _ _ _ Hc) as [Hn1 Hn2]. cbn [fst snd] in Hn1, Hn2.
        exists (i, m), es. split; [|exact Hc]. apply pairs_In in Hin. apply pairs_In.
        rewrite Hbs'In, Hbins'In, <- Hn1, <- Hn2. tauto.
    - intros t Ht.
      destruct (generate_shape H EV _ _ _ _ _ _ _ _ _ _ HG') as (_ & _ & bsx & binsx & Ex1 & Ex2 & Hst').
      destruct (generate_shape H EV _ _ _ _ _ _ _ _ _ _ HG) as (_ & _ & bsy & binsy & Ey1 & Ey2 & Hst).
      rewrite Hbs' in Ex1. injection Ex1 as <-. rewrite Hbins' in Ex2. injection Ex2 as <-.
      rewrite Hbs in Ey1. injection Ey1 as <-. rewrite Hbins in Ey2. injection Ey2 as <-.
      cbn [part_filter] in Hst, Hst'. apply Hst' in Ht. destruct Ht as (bm & info & es & Hin & Hc & Hte).
      apply Hst. exists bm, info, es. split; [apply Hsub; exact Hin|]. split; assumption.
  Qed.
End Narrow.

(* ---------- the same selection, spelled differently (what --partition requires) ---------- *)
Lemma list_eqb_str_eq a : forall b, list_eqb str_eqb a b = true -> a = b.
Proof.
  induction a as [|x a IH]; intros [|y b]; cbn; try discriminate; [reflexivity|].
  intros E. apply andb_true_iff in E. destruct E as [E1 E2]. apply str_eqb_eq in E1. subst. f_equal. apply IH, E2.
Qed.

Lemma selected_builders_same_order b s s' : sel_same_order s s' = true -> selected_builders b s = selected_builders b s'.
Proof.
  destruct s as [|l], s' as [|l']; cbn; try discriminate; [reflexivity|].
  intros E. apply list_eqb_str_eq in E. rewrite E. reflexivity.
Qed.

Lemma selects_same_set s s' n : sel_same_set s s' = true -> selects s n = selects s' n.
Proof.
  unfold sel_same_set. intros E. apply andb_true_iff in E. destruct E as [E1 E2].
  destruct s as [|l], s' as [|l']; cbn in *; try discriminate; [reflexivity|].
  rewrite forallb_forall in E1, E2.
  destruct (mem_str n l) eqn:M1, (mem_str n l') eqn:M2; try reflexivity.
  - apply mem_str_In in M1. specialize (E2 n M1). congruence.
  - apply mem_str_In in M2. specialize (E1 n M2). congruence.
Qed.

Lemma selected_bins_same_set b s s' local : sel_same_set s s' = true -> selected_bins b s local = selected_bins b s' local.
Proof.
  intros E. pose proof (fun n => selects_same_set s s' n E) as Hsel.
  unfold selected_bins.
  assert (Hf : filter (fun m => selects s (m_name m)) (binaries b) = filter (fun m => selects s' (m_name m)) (binaries b)).
  { apply filter_ext. intros m. apply Hsel. }
  destruct s as [|l], s' as [|l']; try (unfold sel_same_set in E; cbn in E; discriminate).
  - reflexivity.
  - (* the unknown-name test finds a name in one list iff in the other *)
    set (unknown := fun a => negb (existsb (fun m => str_eqb a (m_name m)) (binaries b))).
    assert (Hu : (exists a, In a l /\ unknown a = true) <-> (exists a, In a l' /\ unknown a = true)).
    { split; intros (a & Ha & Hn); exists a; (split; [|exact Hn]); apply mem_str_In.
      - change (selects (SelSome l') a = true). rewrite <- (Hsel a). cbn. apply mem_str_In. exact Ha.
      - change (selects (SelSome l) a = true). rewrite (Hsel a). cbn. apply mem_str_In. exact Ha. }
    destruct (find unknown l) as [a|] eqn:F1, (find unknown l') as [a'|] eqn:F2.
    + reflexivity.
    + exfalso. apply find_some in F1. destruct (proj1 Hu (ex_intro _ a F1)) as (x & Hx & Hn).
      pose proof (find_none _ _ F2 x Hx). congruence.
    + exfalso. apply find_some in F2. destruct (proj2 Hu (ex_intro _ a' F2)) as (x & Hx & Hn).
      pose proof (find_none _ _ F1 x Hx). congruence.
    + rewrite Hf. reflexivity.
Qed.

Lemma count_filter_In {A} (m n : nat) : forall (l : list A) i x, In x (count_filter m n i l) -> In x l.
Proof.
  induction l as [|y t IH]; intros i x; cbn [count_filter]; [tauto|].
  rewrite in_app_iff. intros [H|H]; [|right; eapply IH; exact H].
  destruct (Nat.eqb (Nat.modulo i n) (m - 1)); [destruct H as [->|[]]; left; reflexivity|destruct H].
Qed.
Lemma part_filter_In b p l x : In x (part_filter b p l) -> In x l.
Proof.
  destruct p as [|m n|keep]; cbn [part_filter]; [tauto|apply count_filter_In|].
  intros H. apply filter_In in H. tauto.
Qed.

Section Same.
  Variable H : list ascii -> N.
  Variable EV : str -> evr.

  (* the same builders in the same order and the same set of apps: the same generation, whatever the partition *)
  Theorem generate_same_selection b le bsel asel bsel' asel' local part select disable cli_env :
    sel_same_order bsel bsel' = true -> sel_same_set asel asel' = true ->
    generate H EV b le bsel asel local part select disable cli_env =
    generate H EV b le bsel' asel' local part select disable cli_env.
  Proof.
    intros E1 E2. unfold generate.
    rewrite (selected_builders_same_order b _ _ E1), (selected_bins_same_set b _ _ local E2). reflexivity.
  Qed.

  (* every configured build of a generation is one the selectors select *)
  Theorem generated_builds_selected b le bsel asel local part select disable cli_env g :
    generate H EV b le bsel asel local part select disable cli_env = Ok g ->
    forall x, In x (gr_builds g) -> selects bsel (bi_builder x) = true /\ selects asel (bi_binary x) = true.
  Proof.
    intros HG x Hx.
    destruct (generate_builds H EV _ _ _ _ _ _ _ _ _ _ HG) as (bs & bins & Hbs & Hbins & Hbuilds).
    apply Hbuilds in Hx. destruct Hx as ([i m] & es & Hin & Hc). apply part_filter_In, pairs_In in Hin. destruct Hin as [Hi Hm].
    destruct (configure_build_inv H EV _ _ _ _ _ _ _ _ _ Hc) as (bctx & ba & bin_ctx & anc & rst & Hg & _ & _ & _ & _ & _ & _ & Hb1 & Hb2).
    cbn [fst snd] in *. rewrite Hb1, Hb2. split.
    - destruct bsel as [|l]; [reflexivity|]. cbn.
      pose proof (proj1 (selected_builders_spec _ _ _ Hbs i) Hi) as (c & Hgc & _ & Hl & _). rewrite Hg in Hgc. injection Hgc as <-.
      apply mem_str_In. exact Hl.
    - destruct asel as [|l]; [reflexivity|].
      unfold selected_bins in Hbins. destruct (find _ l); [discriminate|].
      assert (Hf : In m (filter (fun m0 => selects (SelSome l) (m_name m0)) (binaries b))).
      { destruct local as [dir|]; [|injection Hbins as <-; exact Hm].
        destruct (forallb _ _); [|discriminate]. injection Hbins as <-. exact Hm. }
      apply filter_In in Hf. tauto.
  Qed.
End Same.
