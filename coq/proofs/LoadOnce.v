(* LoadOnce.v — C17: each lazefile reachable from the project file is loaded exactly once.
   The documents handed to the rest of the loader are, in order, the documents of the files of
   the final work-list, each file's documents once, tagged with their file; the files of the
   work-list have distinct names. *)
From Coq Require Import Ascii String.
From Coq Require Import List Arith Bool NArith Lia.
Import ListNotations.
Require Import Laze.model.Base Laze.model.Path Laze.model.Load Laze.model.Cache.
Require Import Laze.proofs.BaseFacts Laze.proofs.CacheInstance Laze.proofs.LoadFrame Laze.proofs.LoadTotal.
Open Scope list_scope.

(* the (file, document) pairs of a list of files, in order *)
Definition docs_of_files (t : ytree) (fs : list finc) : list (str * ydoc) :=
  flat_map (fun inc => map (fun d => (fst inc, d)) (odflt [] (alookup (fst inc) t))) fs.

Lemma map_combine_seq {A B} (f : nat * A -> B) (g : A -> B) (l : list A) : forall s,
  (forall i a, f (i, a) = g a) -> map f (combine (seq s (length l)) l) = map g l.
Proof.
  induction l as [|a r IH]; intros s Hfg; [reflexivity|]. cbn. rewrite Hfg. f_equal. apply IH, Hfg.
Qed.

Lemma load_files_docs : forall fuel (t : ytree) (pending : list finc) pos docs ds (fs : list finc),
  pos <= length pending ->
  map (fun d => (ld_file d, ld_doc d)) docs = docs_of_files t (firstn pos pending) ->
  load_files fuel t pending pos docs = Ok (ds, fs) ->
  map (fun d => (ld_file d, ld_doc d)) ds = docs_of_files t fs.
Proof.
  induction fuel as [|f IH]; intros t pending pos docs ds fs Hpos Hd HL; [discriminate|].
  rewrite load_files_S in HL. destruct (nth_error pending pos) as [inc|] eqn:En.
  - destruct (alookup (fst inc) t) as [ds0|] eqn:Ea; [|discriminate].
    assert (Hpl : pos < length pending) by (apply nth_error_Some; rewrite En; discriminate).
    destruct (step_pending_ext inc (length docs) ds0 pending) as [e Ee].
    apply IH in HL; [exact HL| |].
    + rewrite Ee, app_length. lia.
    + rewrite Ee, firstn_app. replace (S pos - length pending) with 0 by lia. rewrite firstn_O, app_nil_r.
      rewrite (firstn_S_nth _ _ _ En). unfold docs_of_files. rewrite flat_map_app, map_app. fold (docs_of_files t (firstn pos pending)).
      rewrite Hd. f_equal. cbn [flat_map]. rewrite app_nil_r, Ea. cbn [odflt].
      rewrite map_map. apply map_combine_seq. intros i a. reflexivity.
  - injection HL as <- <-. rewrite Hd. f_equal.
    apply firstn_all2. apply nth_error_None in En. exact En.
Qed.

Theorem load_files_once (t : ytree) pf fuel ds (fs : list finc) :
  load_files fuel t [(pf, None)] 0 [] = Ok (ds, fs) ->
  NoDup (map fst fs) /\
  map (fun d => (ld_file d, ld_doc d)) ds = docs_of_files t fs /\
  (exists ext, fs = (pf, None) :: ext).
Proof.
  intros HL. split; [|split].
  - refine (load_files_nodup _ _ _ _ _ _ _ _ HL). cbn. constructor; [intros []|constructor].
  - refine (load_files_docs _ _ _ _ _ _ _ (Nat.le_0_l _) _ HL). reflexivity.
  - destruct (load_files_prefix _ _ _ _ _ _ _ HL) as [e ->]. exists e. reflexivity.
Qed.

(* every document is one of its file's documents in the tree, and a file's documents are loaded as
   often as the file is written in the tree: once *)
Corollary loaded_doc_count (t : ytree) pf fuel ds (fs : list finc) f :
  load_files fuel t [(pf, None)] 0 [] = Ok (ds, fs) ->
  length (filter (fun d => str_eqb (ld_file d) f) ds) =
  if existsb (fun inc : finc => str_eqb (fst inc) f) fs then length (odflt [] (alookup f t)) else 0.
Proof.
  intros HL. destruct (load_files_once _ _ _ _ _ HL) as (ND & Hd & _).
  assert (Hlen : length (filter (fun d => str_eqb (ld_file d) f) ds)
                 = length (filter (fun p : str * ydoc => str_eqb (fst p) f) (map (fun d => (ld_file d, ld_doc d)) ds))).
  { clear. induction ds as [|d r IH]; [reflexivity|]. cbn. destruct (str_eqb (ld_file d) f); cbn; rewrite IH; reflexivity. }
  rewrite Hlen, Hd. clear Hlen Hd HL ds. induction fs as [|inc r IH]; [reflexivity|].
  cbn [map] in ND. inversion ND as [|? ? Hni ND']; subst.
  unfold docs_of_files in *. cbn [flat_map existsb]. rewrite filter_app, app_length, (IH ND').
  destruct (str_eqb (fst inc) f) eqn:Ef.
  - apply str_eqb_eq in Ef. subst f. cbn [orb].
    assert (Hno : existsb (fun inc0 : finc => str_eqb (fst inc0) (fst inc)) r = false).
    { destruct (existsb _ r) eqn:Ex; [|reflexivity]. exfalso. apply existsb_exists in Ex. destruct Ex as (x & Hx & Hxe).
      apply str_eqb_eq in Hxe. apply Hni. rewrite <- Hxe. apply in_map, Hx. }
    rewrite Hno, Nat.add_0_r.
    generalize (odflt [] (alookup (fst inc) t)). intros l. induction l as [|d l IHl]; [reflexivity|].
    cbn. rewrite str_eqb_refl. cbn. f_equal. exact IHl.
  - cbn [orb].
    assert (Hz : length (filter (fun p : str * ydoc => str_eqb (fst p) f) (map (fun d => (fst inc, d)) (odflt [] (alookup (fst inc) t)))) = 0).
    { generalize (odflt [] (alookup (fst inc) t)). intros l. induction l as [|d l IHl]; [reflexivity|]. cbn. rewrite Ef. exact IHl. }
    rewrite Hz. reflexivity.
Qed.

(* ${relpath} / ${srcdir} of a module are the directory of the file it is written in (unless the
   module says srcdir: or download: itself); the early environment carries exactly these *)
Require Import Laze.model.Env Laze.model.Ctx Laze.proofs.GenerateFacts.
Theorem convert_module_relpath build_dir y context is_binary filename defaults m :
  convert_module build_dir y context is_binary filename defaults = Ok m ->
  m_relpath m = Some (relpath_of filename) /\ m_defined_in m = Some filename /\
  (ym_srcdir y = None -> ym_download y = None ->
   m_srcdir m = Some (if str_eqb (relpath_of filename) [ch_dot] then [] else relpath_of filename)) /\
  (forall s, ym_srcdir y = Some s -> m_srcdir m = Some s) /\
  (forall sd, m_srcdir m = Some sd ->
     alookup (S_ "relpath") (m_env_early m) = Some (Single (relpath_of filename)) /\
     alookup (S_ "srcdir") (m_env_early m) = Some (Single sd)).
Proof.
  unfold convert_module. intros HC.
  repeat (inv_step HC). injection HC as <-. cbn.
  split; [reflexivity|]. split; [reflexivity|]. split; [intros -> ->; reflexivity|].
  split; [intros s ->; reflexivity|].
  intros sd [= <-]. unfold env_insert. split.
  - rewrite alookup_ainsert_other by (intros Hne; vm_compute in Hne; discriminate Hne).
    rewrite alookup_ainsert_other by (intros Hne; vm_compute in Hne; discriminate Hne).
    apply alookup_ainsert_same.
  - apply alookup_ainsert_same.
Qed.
