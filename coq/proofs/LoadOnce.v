(* LoadOnce.v — C17: each lazefile reachable from the project file is loaded exactly once.
   The documents handed to the rest of the loader are, in order, the documents of the files of
   the final work-list, each file's documents once, tagged with their file; the files of the
   work-list have distinct names. *)
From Coq Require Import Ascii String.
From Coq Require Import List Arith Bool NArith Lia.
Import ListNotations.
Require Import Laze.model.Base Laze.model.Path Laze.model.Load Laze.model.Cache.
Require Import Laze.proofs.BaseFacts Laze.proofs.CacheInstance Laze.proofs.LoadFrame Laze.proofs.LoadTotal.
Open Scope list_scope.

(* the (file, import root, document) triples of a list of work-list entries, in order *)
Definition docs_of_files (t : ytree) (fs : list finc) : list (str * option str * ydoc) :=
  flat_map (fun inc => map (fun d => (fst inc, finc_root inc, d)) (odflt [] (alookup (fst inc) t))) fs.

Lemma map_combine_seq {A B} (f : nat * A -> B) (g : A -> B) (l : list A) : forall s,
  (forall i a, f (i, a) = g a) -> map f (combine (seq s (length l)) l) = map g l.
Proof.
  induction l as [|a r IH]; intros s Hfg; [reflexivity|]. cbn. rewrite Hfg. f_equal. apply IH, Hfg.
Qed.

Lemma load_files_docs : forall fuel (t : ytree) (pending : list finc) pos docs ds (fs : list finc),
  pos <= length pending ->
  map (fun d => (ld_file d, ld_root d, ld_doc d)) docs = docs_of_files t (firstn pos pending) ->
  load_files fuel t pending pos docs = Ok (ds, fs) ->
  map (fun d => (ld_file d, ld_root d, ld_doc d)) ds = docs_of_files t fs.
Proof.
  induction fuel as [|f IH]; intros t pending pos docs ds fs Hpos Hd HL; [discriminate|].
  rewrite load_files_S in HL. destruct (nth_error pending pos) as [inc|] eqn:En.
  - destruct (alookup (fst inc) t) as [ds0|] eqn:Ea; [|discriminate].
    destruct (step_pending t inc (length docs) ds0 pending) as [p1| | |] eqn:ES; try discriminate.
    assert (Hpl : pos < length pending) by (apply nth_error_Some; rewrite En; discriminate).
    destruct (step_pending_ext _ _ _ _ _ _ ES) as [e Ee].
    apply IH in HL; [exact HL| |].
    + rewrite Ee, app_length. lia.
    + rewrite Ee, firstn_app. replace (S pos - length pending) with 0 by lia. rewrite firstn_O, app_nil_r.
      rewrite (firstn_S_nth _ _ _ En). unfold docs_of_files. rewrite flat_map_app, map_app. fold (docs_of_files t (firstn pos pending)).
      rewrite Hd. f_equal. cbn [flat_map]. rewrite app_nil_r, Ea. cbn [odflt].
      unfold new_docs. rewrite map_map. apply map_combine_seq. intros i a. reflexivity.
  - injection HL as <- <-. rewrite Hd. f_equal.
    apply firstn_all2. apply nth_error_None in En. exact En.
Qed.

(* each (file, import root) is loaded exactly once: the keys of the final work-list are distinct and
   the loaded documents are, in order, the documents of its files *)
Theorem load_files_once (t : ytree) pf fuel ds (fs : list finc) :
  load_files fuel t [(pf, (None, None))] 0 [] = Ok (ds, fs) ->
  NoDup (map finc_key fs) /\
  map (fun d => (ld_file d, ld_root d, ld_doc d)) ds = docs_of_files t fs /\
  (exists ext, fs = (pf, (None, None)) :: ext).
Proof.
  intros HL. split; [|split].
  - refine (load_files_nodup _ _ _ _ _ _ _ _ HL). cbn. constructor; [intros []|constructor].
  - refine (load_files_docs _ _ _ _ _ _ _ (Nat.le_0_l _) _ HL). reflexivity.
  - destruct (load_files_prefix _ _ _ _ _ _ _ HL) as [e ->]. exists e. reflexivity.
Qed.

(* without imports there is one import root (none), so the file names themselves are distinct:
   a lazefile reachable through subdirs/includes is loaded once *)
Definition no_imports (t : ytree) : Prop :=
  forall f ds d, alookup f t = Some ds -> In d ds -> d_imports d = None.

Lemma load_files_roots_none : forall fuel (t : ytree) (pending : list finc) pos docs ds (fs : list finc),
  no_imports t -> Forall (fun inc => finc_root inc = None) pending ->
  load_files fuel t pending pos docs = Ok (ds, fs) -> Forall (fun inc => finc_root inc = None) fs.
Proof.
  induction fuel as [|f IH]; intros t pending pos docs ds fs Hno HF HL; [discriminate|].
  rewrite load_files_S in HL. destruct (nth_error pending pos) as [inc|] eqn:En.
  - destruct (alookup (fst inc) t) as [ds0|] eqn:Ea; [|discriminate].
    destruct (step_pending t inc (length docs) ds0 pending) as [p1| | |] eqn:ES; try discriminate.
    apply IH in HL; [exact HL|exact Hno|].
    assert (Hinc : finc_root inc = None).
    { rewrite Forall_forall in HF. apply HF. eapply nth_error_In. exact En. }
    (* every new document has no imports, so the import fold inserts nothing *)
    revert ES. unfold step_pending.
    assert (Hnew : forall d, In d (new_docs inc (length docs) ds0) -> d_imports (ld_doc d) = None).
    { intros d Hd. unfold new_docs in Hd. apply in_map_iff in Hd. destruct Hd as ([i y] & <- & Hiy). cbn [ld_doc snd].
      apply in_combine_r in Hiy. eapply Hno; [exact Ea|exact Hiy]. }
    revert Hnew. generalize (new_docs inc (length docs) ds0). intros new Hnew.
    assert (G : forall acc q, (forall p, acc = Ok p -> Forall (fun inc => finc_root inc = None) p) ->
                fold_left (fun acc d => rbind acc (fun p => step_doc t inc p d)) new acc = Ok q ->
                Forall (fun inc => finc_root inc = None) q).
    { induction new as [|d r IHn]; intros acc q Hacc HF2; cbn [fold_left] in HF2; [apply Hacc, HF2|].
      eapply IHn; [intros d' Hd'; apply Hnew; right; exact Hd'| |exact HF2].
      intros p Hp. destruct acc as [p0| | |]; cbn [rbind] in Hp; try discriminate.
      unfold step_doc in Hp. rewrite (Hnew d (or_introl eq_refl)) in Hp. cbn [odflt fold_left rbind] in Hp.
      injection Hp as <-.
      assert (Hins : forall (g : str -> finc) l q1, (forall s, finc_root (g s) = None) ->
                Forall (fun inc => finc_root inc = None) q1 ->
                Forall (fun inc => finc_root inc = None) (fold_left (fun p2 s => finc_insert (g s) p2) l q1)).
      { intros g l. induction l as [|s l' IHl]; intros q1 Hg Hq1; cbn [fold_left]; [exact Hq1|]. apply IHl; [exact Hg|].
        unfold finc_insert. destruct (existsb (finc_eqb (g s)) q1); [exact Hq1|]. apply Forall_app. split; [exact Hq1|].
        constructor; [apply Hg|constructor]. }
      apply Hins; [intros s; exact Hinc|]. apply Hins; [intros s; exact Hinc|]. apply Hacc. reflexivity. }
    intros ES. eapply G; [|exact ES]. intros p [= <-]. exact HF.
  - injection HL as _ <-. exact HF.
Qed.

Corollary load_files_once_no_imports (t : ytree) pf fuel ds (fs : list finc) :
  no_imports t -> load_files fuel t [(pf, (None, None))] 0 [] = Ok (ds, fs) -> NoDup (map fst fs).
Proof.
  intros Hno HL. destruct (load_files_once _ _ _ _ _ HL) as (ND & _ & _).
  assert (HR : Forall (fun inc => finc_root inc = None) fs).
  { eapply load_files_roots_none; [exact Hno| |exact HL]. constructor; [reflexivity|constructor]. }
  clear HL. induction fs as [|x r IH]; [constructor|]. cbn [map] in *.
  inversion ND as [|? ? Hx ND']; subst. inversion HR as [|? ? Hxr HR']; subst. constructor; [|apply IH; assumption].
  intros Hin. apply Hx. apply in_map_iff in Hin. destruct Hin as (y & Hy & Hyr). apply in_map_iff. exists y. split; [|exact Hyr].
  unfold finc_key. rewrite Hy. f_equal. rewrite Forall_forall in HR'. rewrite (HR' y Hyr), Hxr. reflexivity.
Qed.

(* every document is one of its file's documents in the tree, and a file's documents are loaded as
   often as the file is written in the tree: once per import root under which it is reached *)
Corollary loaded_doc_count (t : ytree) pf fuel ds (fs : list finc) f r :
  load_files fuel t [(pf, (None, None))] 0 [] = Ok (ds, fs) ->
  length (filter (fun d => str_eqb (ld_file d) f && ostr_eqb (ld_root d) r) ds) =
  if existsb (fun inc : finc => str_eqb (fst inc) f && ostr_eqb (finc_root inc) r) fs then length (odflt [] (alookup f t)) else 0.
Proof.
  intros HL. destruct (load_files_once _ _ _ _ _ HL) as (ND & Hd & _).
  set (sel := fun p : str * option str * ydoc => str_eqb (fst (fst p)) f && ostr_eqb (snd (fst p)) r).
  assert (Hlen : length (filter (fun d => str_eqb (ld_file d) f && ostr_eqb (ld_root d) r) ds)
                 = length (filter sel (map (fun d => (ld_file d, ld_root d, ld_doc d)) ds))).
  { clear. induction ds as [|d r0 IH]; [reflexivity|]. cbn. unfold sel at 1. cbn [fst snd].
    destruct (str_eqb (ld_file d) f && ostr_eqb (ld_root d) r); cbn; rewrite IH; reflexivity. }
  rewrite Hlen, Hd. clear Hlen Hd HL ds. induction fs as [|inc rest IH]; [reflexivity|].
  cbn [map] in ND. inversion ND as [|? ? Hni ND']; subst.
  unfold docs_of_files in *. cbn [flat_map existsb]. rewrite filter_app, app_length, (IH ND').
  destruct (str_eqb (fst inc) f && ostr_eqb (finc_root inc) r) eqn:Ef.
  - apply andb_prop in Ef. destruct Ef as [Ef Er]. apply str_eqb_eq in Ef. apply ostr_eqb_eq in Er. subst f r. cbn [orb].
    assert (Hno : existsb (fun inc0 : finc => str_eqb (fst inc0) (fst inc) && ostr_eqb (finc_root inc0) (finc_root inc)) rest = false).
    { destruct (existsb _ rest) eqn:Ex; [|reflexivity]. exfalso. apply existsb_exists in Ex. destruct Ex as (x & Hx & Hxe).
      apply andb_prop in Hxe. destruct Hxe as [H1 H2]. apply str_eqb_eq in H1. apply ostr_eqb_eq in H2.
      apply Hni. apply in_map_iff. exists x. split; [|exact Hx]. unfold finc_key. rewrite H1, H2. reflexivity. }
    rewrite Hno, Nat.add_0_r.
    generalize (odflt [] (alookup (fst inc) t)). intros l. induction l as [|d l IHl]; [reflexivity|].
    cbn. unfold sel at 1. cbn [fst snd]. rewrite str_eqb_refl. rewrite (proj2 (ostr_eqb_eq _ _) eq_refl). cbn. f_equal. exact IHl.
  - cbn [orb].
    assert (Hz : length (filter sel (map (fun d => (fst inc, finc_root inc, d)) (odflt [] (alookup (fst inc) t)))) = 0).
    { generalize (odflt [] (alookup (fst inc) t)). intros l. induction l as [|d l IHl]; [reflexivity|]. cbn. unfold sel at 1. cbn [fst snd]. rewrite Ef. exact IHl. }
    rewrite Hz. reflexivity.
Qed.

(* ${relpath} / ${srcdir} of a module are the directory of the file it is written in (unless the
   module says srcdir: or download: itself); the early environment carries exactly these *)
Require Import Laze.model.Env Laze.model.Ctx Laze.proofs.GenerateFacts.
Theorem convert_module_relpath build_dir y context is_binary filename root defaults m :
  convert_module build_dir y context is_binary filename root defaults = Ok m ->
  m_relpath m = Some (relpath_of filename) /\ m_defined_in m = Some filename /\
  (ym_srcdir y = None -> ym_download y = None ->
   m_srcdir m = Some (if str_eqb (relpath_of filename) [ch_dot] then [] else relpath_of filename)) /\
  (forall s, ym_srcdir y = Some s -> m_srcdir m = Some s) /\
  (forall sd, m_srcdir m = Some sd ->
     alookup (S_ "relpath") (m_env_early m) = Some (Single (relpath_of filename)) /\
     alookup (S_ "srcdir") (m_env_early m) = Some (Single sd)).
Proof.
  unfold convert_module. intros HC.
  repeat (inv_step HC). injection HC as <-. cbn.
  split; [reflexivity|]. split; [reflexivity|]. split; [intros -> ->; reflexivity|].
  split; [intros s ->; reflexivity|].
  intros sd [= <-]. unfold env_insert. split.
  - rewrite alookup_ainsert_other by (intros Hne; vm_compute in Hne; discriminate Hne).
    rewrite alookup_ainsert_other by (intros Hne; vm_compute in Hne; discriminate Hne).
    apply alookup_ainsert_same.
  - apply alookup_ainsert_same.
Qed.
