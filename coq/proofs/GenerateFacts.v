(* GenerateFacts.v — facts about configure_build / generate that connect the resolver
   theorems to what is emitted (C01, C11 ancestry, C10 shape). *)
From Coq Require Import Ascii String.
From Coq Require Import List Arith Bool NArith Lia.
Import ListNotations.
Require Import Laze.model.Base Laze.model.Env Laze.model.Expand Laze.model.Path Laze.model.Hash
        Laze.model.Allow Laze.model.Ninja Laze.model.Ctx Laze.model.Resolver Laze.model.Imports
        Laze.model.Generate Laze.proofs.BaseFacts Laze.proofs.ResolverFacts.
Open Scope list_scope.

Ltac inv_step H :=
  match type of H with
  | rbind ?x _ = Ok _ => let E := fresh "E" in destruct x eqn:E; cbn [rbind] in H; try discriminate H
  | (match ?x with _ => _ end) = Ok _ => let E := fresh "E" in destruct x eqn:E; try discriminate H
  | (if ?x then _ else _) = Ok _ => let E := fresh "E" in destruct x eqn:E; try discriminate H
  end.

Section Inv.
  Variable H : list ascii -> N.
  Variable EV : str -> evr.

  (* what a configured build tells about the checks that preceded it *)
  Theorem configure_build_inv b le builder binary select disable cli_env info entries :
    configure_build H EV b le builder binary select disable cli_env = Ok (Built info entries) ->
    exists bctx ba bin_ctx anc rst,
      bag_get b builder = Some bctx /\
      is_allowed (bag_tree b) builder (m_blocklist binary) (m_allowlist binary) = Ok ba /\ allowed_bool ba = true /\
      m_context_id binary = Some bin_ctx /\
      is_ancestor (tree_fuel (bag_tree b)) (bag_tree b) bin_ctx builder 0 = Ok (Some anc) /\
      resolve_build b builder (c_name bctx) binary select
        (fold_left (fun a x => iset_insert x a) disable (collect_disabled b builder)) = Ok rst /\
      bi_modules info = map m_name (sel rst) /\
      bi_builder info = c_name bctx /\ bi_binary info = m_name binary.
  Proof.
    unfold configure_build. intros HC.
    destruct (bag_get b builder) as [bctx|] eqn:Eb; [|discriminate].
    inv_step HC. destruct (negb (allowed_bool a)) eqn:Ea; [discriminate|].
    apply negb_false_iff in Ea.
    destruct (m_context_id binary) as [bin_ctx|] eqn:Ec; cbn [opt_unwrap rbind] in HC; [|discriminate].
    inv_step HC. destruct a0 as [anc|]; [|discriminate].
    destruct (resolve_build b builder (c_name bctx) binary select _) as [rst| | |] eqn:Er; try discriminate.
    exists bctx, a, bin_ctx, anc, rst. repeat split; auto.
    all: repeat (inv_step HC);
      repeat match type of HC with
             | (let '(_, _) := ?p in _) = _ => destruct p
             end;
      repeat (inv_step HC);
      try (inversion HC; subst; reflexivity).
  Qed.
  (* a configured build is one whose app the builder sees: nearest definition of the app's name *)
  Theorem configure_build_not_shadowed b le builder binary select disable cli_env info entries :
    configure_build H EV b le builder binary select disable cli_env = Ok (Built info entries) ->
    shadowed b builder binary = false.
  Proof.
    unfold configure_build. intros HC.
    destruct (bag_get b builder) as [bctx|] eqn:Eb; [|discriminate].
    inv_step HC. destruct (negb (allowed_bool a)) eqn:Ea; [discriminate|].
    destruct (m_context_id binary) as [bin_ctx|] eqn:Ec; cbn [opt_unwrap rbind] in HC; [|discriminate].
    inv_step HC. destruct a0 as [anc|]; [|discriminate].
    destruct (shadowed b builder binary); [discriminate|reflexivity].
  Qed.
End Inv.

(* ---------- side conditions of the resolver theorems, from the bag ---------- *)
Require Import Laze.model.Checks.

Lemma alookup_In_pair {V} k (l : list (str * V)) v : alookup k l = Some v -> exists k', In (k', v) l /\ k' = k.
Proof.
  induction l as [|[k' v'] t IH]; cbn; [discriminate|].
  destruct (str_eqb k k') eqn:E; intros Hx.
  - inversion Hx; subst. apply str_eqb_eq in E. exists k'. split; [left; reflexivity|symmetry; exact E].
  - destruct (IH Hx) as (k2 & I & Ek). exists k2. split; [right; exact I|exact Ek].
Qed.

Lemma find_module_name cs n m :
  forallb (fun c => forallb (fun km => str_eqb (m_name (snd km)) (fst km)) (c_modules c)) cs = true ->
  find_module cs n = Some m -> m_name m = n.
Proof.
  induction cs as [|c t IH]; cbn [find_module forallb]; intros Hk Hf; [discriminate|].
  apply andb_true_iff in Hk as [Hk1 Hk2].
  destruct (alookup n (c_modules c)) as [m'|] eqn:E.
  - inversion Hf; subst. apply alookup_In_pair in E as (k' & I & ->).
    rewrite forallb_forall in Hk1. specialize (Hk1 _ I). cbn in Hk1. apply str_eqb_eq in Hk1. exact Hk1.
  - apply IH; assumption.
Qed.

Lemma ctxs_of_keys_ok b l : keys_okb b = true ->
  forallb (fun c => forallb (fun km => str_eqb (m_name (snd km)) (fst km)) (c_modules c)) (ctxs_of b l) = true.
Proof.
  intros Hk. unfold ctxs_of. apply forallb_forall. intros c Hc. apply in_flat_map in Hc as (i & _ & Hc).
  unfold bag_get in Hc. destruct (nth_error b i) as [c'|] eqn:E; [|contradiction]. destruct Hc as [<-|[]].
  unfold keys_okb in Hk. rewrite forallb_forall in Hk. apply Hk. eapply nth_error_In. exact E.
Qed.

Theorem lookup_name_of_bag b builder n m :
  keys_okb b = true -> resolve_module b builder n = Some m -> m_name m = n.
Proof. intros Hk. unfold resolve_module. apply find_module_name. apply ctxs_of_keys_ok. exact Hk. Qed.

Theorem provided_sound_of_bag b builder n ps p :
  prov_okb b builder = true -> provided_of b builder n = Some ps -> In p ps ->
  exists mp, resolve_module b builder p = Some mp /\ In n (provides_of mp).
Proof.
  unfold prov_okb, provided_of. destruct (bag_get b builder) as [c|]; [|discriminate].
  intros Hp Hn Hin. destruct (c_provided c) as [pv|]; [|discriminate]. cbn [odflt] in Hp.
  rewrite forallb_forall in Hp. pose proof Hn as Hn'. apply alookup_In_pair in Hn' as (k' & I & ->).
  specialize (Hp _ I). cbn [fst] in Hp. rewrite Hn in Hp. rewrite forallb_forall in Hp. specialize (Hp p Hin).
  destruct (resolve_module b builder p) as [mp|]; [|discriminate].
  exists mp. split; [reflexivity|]. apply mem_str_In. exact Hp.
Qed.

Lemma list_str_eqb_eq a b : list_str_eqb a b = true -> a = b.
Proof.
  revert b; induction a as [|x a IH]; destruct b as [|y b]; cbn; intros H; try discriminate; [reflexivity|].
  apply andb_true_iff in H as [H1 H2]. apply str_eqb_eq in H1. f_equal; [exact H1|apply IH; exact H2].
Qed.

(* C01 for a configured build *)
Section C01cfg.
  Variable H : list ascii -> N.
  Variable EV : str -> evr.

  Theorem configured_build_closed b le builder binary select disable cli_env info entries :
    keys_okb b = true -> prov_okb b builder = true -> app_okb b builder binary = true ->
    configure_build H EV b le builder binary select disable cli_env = Ok (Built info entries) ->
    exists rst app',
      bi_modules info = map m_name (sel rst) /\
      m_name app' = m_name binary /\
      m_selects app' = select ++ m_selects binary ++ [Hard (ctx_module_name (bi_builder info))] /\
      In app' (sel rst) /\
      forall x, In x (sel rst) -> forall d, In d (m_selects x) ->
        closed_dep rst d.
  Proof.
    intros Hk Hp Ha HC.
    apply configure_build_inv in HC as (bctx & ba & bin_ctx & anc & rst & Eb & _ & _ & _ & _ & Er & Em & Ebn & _).
    unfold resolve_build in Er. rewrite Eb in Er.
    set (app' := build_binary binary (c_name bctx) select) in *.
    exists rst, app'. split; [exact Em|]. split; [reflexivity|]. split; [rewrite Ebn; reflexivity|].
    eapply (closure (resolve_module b builder)
                    (fun n => match c_provided bctx with Some p => alookup n p | None => None end)).
    - intros n m. apply lookup_name_of_bag. exact Hk.
    - intros n ps p Hn Hin. apply (provided_sound_of_bag b builder n ps p Hp); [|exact Hin].
      unfold provided_of. rewrite Eb. exact Hn.
    - intros a0 Hl. unfold app_okb in Ha. change (m_name app') with (m_name binary) in Hl. rewrite Hl in Ha.
      apply list_str_eqb_eq in Ha. exact Ha.
    - exact Er.
  Qed.
End C01cfg.

(* the boolean closure checker agrees with the Prop *)
Lemma selected_mem n st : selected n st = mem_str n (sel_names (sel st)).
Proof.
  unfold selected, mem_str, sel_names. induction (sel st) as [|m t IH]; [reflexivity|].
  cbn. rewrite IH. reflexivity.
Qed.

Lemma satb_Sat st n : satb (sel st) n = true <-> Sat st n.
Proof.
  unfold satb, Sat. rewrite orb_true_iff, selected_mem, existsb_exists. split.
  - intros [Hs|(p & Hp & Hn)]; [left; exact Hs | right; exists p; split; [exact Hp|apply mem_str_In; exact Hn]].
  - intros [Hs|(p & Hp & Hn)]; [left; exact Hs | right; exists p; split; [exact Hp|apply mem_str_In; exact Hn]].
Qed.

Theorem closedb_spec st :
  closedb (sel st) = true <->
  forall x, In x (sel st) -> forall d, In d (m_selects x) -> closed_dep st d.
Proof.
  unfold closedb. rewrite forallb_forall. split.
  - intros Hc x Hx d Hd. specialize (Hc x Hx). rewrite forallb_forall in Hc. specialize (Hc d Hd).
    destruct d; cbn in *; auto.
    + apply satb_Sat. exact Hc.
    + intros Ho. rewrite selected_mem in Ho. rewrite Ho in Hc. cbn in Hc. apply satb_Sat. exact Hc.
  - intros Hc x Hx. apply forallb_forall. intros d Hd. specialize (Hc x Hx d Hd).
    destruct d; cbn in *; auto.
    + apply satb_Sat. exact Hc.
    + destruct (mem_str o (sel_names (sel st))) eqn:Eo; [|reflexivity]. cbn.
      apply satb_Sat. apply Hc. rewrite selected_mem. exact Eo.
Qed.

(* ---------- C02 for a configured build ---------- *)
Require Import Laze.proofs.ResolverInv.

Section C02cfg.
  Variable H : list ascii -> N.
  Variable EV : str -> evr.

  Theorem configured_build_exclusive b le builder binary select disable cli_env info entries :
    configure_build H EV b le builder binary select disable cli_env = Ok (Built info entries) ->
    exists rst,
      bi_modules info = map m_name (sel rst) /\
      let D0 := fold_left (fun a x => iset_insert x a) disable (collect_disabled b builder) in
      no_disabled D0 (sel rst) /\ no_conflict (sel rst).
  Proof.
    intros HC.
    apply configure_build_inv in HC as (bctx & ba & bin_ctx & anc & rst & Eb & _ & _ & _ & _ & Er & Em & _).
    exists rst. split; [exact Em|]. unfold resolve_build in Er.
    eapply resolve_exclusive. exact Er.
  Qed.
End C02cfg.

Lemma iset_insert_In x y l : In y (iset_insert x l) <-> y = x \/ In y l.
Proof.
  unfold iset_insert. destruct (mem_str x l) eqn:E.
  - apply mem_str_In in E. split; [intros Hy; right; exact Hy | intros [->|Hy]; assumption].
  - rewrite in_app_iff. cbn. split; [intros [Hy|[<-|[]]]; auto | intros [->|Hy]; auto].
Qed.

(* the disabled set of a build contains the context chain's disables and the CLI's *)
Lemma disabled0_In b builder disable y :
  In y (fold_left (fun a x => iset_insert x a) disable (collect_disabled b builder)) <->
  In y (collect_disabled b builder) \/ In y disable.
Proof.
  revert y. generalize (collect_disabled b builder). induction disable as [|d ds IH]; intros l y; cbn [fold_left].
  - split; [intros Hy; left; exact Hy | intros [Hy|[]]; exact Hy].
  - rewrite IH, iset_insert_In. cbn. split; intros; intuition (subst; auto).
Qed.

(* the boolean exclusion checker agrees with the Prop *)
Theorem exclusiveb_spec D0 ms :
  exclusiveb D0 ms = true <-> no_disabled D0 ms /\ no_conflict ms.
Proof.
  unfold exclusiveb, no_disabled, no_conflict. rewrite andb_true_iff, !forallb_forall. split.
  - intros [H1 H2]. split.
    + intros m Hm. specialize (H1 m Hm). apply andb_true_iff in H1 as [Ha Hb]. split.
      * intros I. apply mem_str_In in I. rewrite I in Ha. discriminate.
      * intros x Hx I. rewrite forallb_forall in Hb. specialize (Hb x Hx). apply mem_str_In in I. rewrite I in Hb. discriminate.
    + intros a b Ha Hb Hne x Hx. specialize (H2 a Ha). rewrite forallb_forall in H2. specialize (H2 x Hx).
      rewrite forallb_forall in H2. specialize (H2 b Hb). apply orb_true_iff in H2 as [E|E].
      * apply str_eqb_eq in E. contradiction.
      * apply andb_true_iff in E as [E1 E2]. split.
        -- intros ->. rewrite str_eqb_refl in E1. discriminate.
        -- intros I. apply mem_str_In in I. rewrite I in E2. discriminate.
  - intros [H1 H2]. split.
    + intros m Hm. destruct (H1 m Hm) as [Ha Hb]. apply andb_true_iff. split.
      * apply negb_true_iff. apply mem_str_false. exact Ha.
      * apply forallb_forall. intros x Hx. apply negb_true_iff. apply mem_str_false. apply Hb. exact Hx.
    + intros a Ha. apply forallb_forall. intros x Hx. apply forallb_forall. intros b Hb.
      destruct (str_eqb (m_name a) (m_name b)) eqn:E; [reflexivity|]. cbn [orb].
      apply str_eqb_neq in E. destruct (H2 a b Ha Hb E x Hx) as [N1 N2].
      apply andb_true_iff. split; apply negb_true_iff.
      * apply str_eqb_neq. exact N1.
      * apply mem_str_false. exact N2.
Qed.

(* ---------- the generated file as the ordered union of the builds' statement sets ---------- *)
Require Import Laze.proofs.StmtFacts.

Lemma rmapM_ok {A B} (f : A -> res B) : forall l ys, rmapM f l = Ok ys -> Forall2 (fun x y => f x = Ok y) l ys.
Proof.
  induction l as [|x t IH]; intros ys H; cbn in H.
  - inversion H; subst. constructor.
  - destruct (f x) as [y| | |] eqn:E; cbn [rbind] in H; try discriminate.
    destruct (rmapM f t) as [ys'| | |] eqn:E2; cbn [rbind] in H; try discriminate.
    inversion H; subst. constructor; [exact E|apply IH; reflexivity].
Qed.

Definition union_stmts (results : list ((nat * module) * cfg_result)) : list stmt :=
  fold_left (fun acc r => match snd r with
                          | Built _ es => fold_left (fun a e => sset_insert e a) es acc
                          | NoBuild _ => acc end) results [].

Lemma union_text_gen (results : list ((nat * module) * cfg_result)) t : forall acc,
  In t (map show_stmt (fold_left (fun acc r => match snd r with
                                               | Built _ es => fold_left (fun a e => sset_insert e a) es acc
                                               | NoBuild _ => acc end) results acc)) <->
  In t (map show_stmt acc) \/ exists r info es, In r results /\ snd r = Built info es /\ In t (map show_stmt es).
Proof.
  induction results as [|r rs IH]; intros acc; cbn [fold_left].
  - split; [auto|]. intros [H|(r & info & es & [] & _)]. exact H.
  - rewrite IH. destruct (snd r) as [info es|w] eqn:Er.
    + rewrite sset_fold_text. split.
      * intros [[H|H]|(r' & i' & e' & Hr & Hs & Ht)].
        -- left; exact H.
        -- right. exists r, info, es. split; [left; reflexivity|]. split; [exact Er|exact H].
        -- right. exists r', i', e'. split; [right; exact Hr|]. split; assumption.
      * intros [H|(r' & i' & e' & [<-|Hr] & Hs & Ht)].
        -- left; left; exact H.
        -- rewrite Er in Hs. inversion Hs; subst. left; right; exact Ht.
        -- right. exists r', i', e'. split; [exact Hr|]. split; assumption.
    + split.
      * intros [H|(r' & i' & e' & Hr & Hs & Ht)]; [left; exact H|].
        right. exists r', i', e'. split; [right; exact Hr|]. split; assumption.
      * intros [H|(r' & i' & e' & [<-|Hr] & Hs & Ht)]; [left; exact H| |].
        -- rewrite Er in Hs. discriminate.
        -- right. exists r', i', e'. split; [exact Hr|]. split; assumption.
Qed.

Lemma union_nodup_gen (results : list ((nat * module) * cfg_result)) : forall acc, NoDup (map show_stmt acc) ->
  NoDup (map show_stmt (fold_left (fun acc r => match snd r with
                                                | Built _ es => fold_left (fun a e => sset_insert e a) es acc
                                                | NoBuild _ => acc end) results acc)).
Proof.
  induction results as [|r rs IH]; intros acc H; cbn [fold_left]; [exact H|].
  apply IH. destruct (snd r); [apply sset_fold_nodup; exact H|exact H].
Qed.

Section GenShape.
  Variable H : list ascii -> N.
  Variable EV : str -> evr.

  (* the file is the header followed by the statements of the configured builds, each distinct
     statement once; a statement is in the file iff some selected, configured build emits it *)
  Theorem generate_shape b le bsel asel local part select disable cli_env g :
    generate H EV b le bsel asel local part select disable cli_env = Ok g ->
    gr_file g = header le ++ concat (map show_stmt (gr_stmts g)) /\
    NoDup (map show_stmt (gr_stmts g)) /\
    exists bs bins,
      selected_builders b bsel = Ok bs /\ selected_bins b asel local = Ok bins /\
      let tuples := part_filter b part (pairs bs bins) in
      forall t, In t (map show_stmt (gr_stmts g)) <->
                exists bm info es, In bm tuples /\
                  configure_build H EV b le (fst bm) (snd bm) select disable cli_env = Ok (Built info es) /\
                  In t (map show_stmt es).
  Proof.
    unfold generate. intros HG.
    destruct (selected_builders b bsel) as [bs| | |] eqn:Eb; cbn [rbind] in HG; try discriminate.
    destruct (selected_bins b asel local) as [bins| | |] eqn:Ebin; cbn [rbind] in HG; try discriminate.
    set (tuples := part_filter b part (pairs bs bins)) in *.
    destruct (rmapM _ tuples) as [results| | |] eqn:ER; cbn [rbind] in HG; try discriminate.
    inversion HG; subst g; cbn [gr_file gr_stmts]. split; [reflexivity|]. split.
    - apply union_nodup_gen. constructor.
    - exists bs, bins. split; [reflexivity|]. split; [reflexivity|]. cbn zeta. fold tuples. clearbody tuples. intros t.
      rewrite union_text_gen. cbn [map]. apply rmapM_ok in ER. split.
      + intros [[]|(r & info & es & Hr & Hs & Ht)].
        assert (G : exists bm, In bm tuples /\ rmap (fun r0 => (bm, r0)) (configure_build H EV b le (fst bm) (snd bm) select disable cli_env) = Ok r).
        { clear -ER Hr. revert Hr. induction ER as [|x y l l' Hxy _ IH]; intros Hr; [contradiction|].
          destruct Hr as [<-|Hr]; [exists x; split; [left; reflexivity|exact Hxy]|].
          destruct (IH Hr) as (bm & I & E). exists bm. split; [right; exact I|exact E]. }
        destruct G as (bm & Hbm & E). exists bm, info, es. split; [exact Hbm|]. split; [|exact Ht].
        unfold rmap in E. destruct (configure_build H EV b le (fst bm) (snd bm) select disable cli_env) as [c| | |]; cbn [rbind] in E; try discriminate.
        inversion E; subst r. cbn [snd] in Hs. subst c. reflexivity.
      + intros (bm & info & es & Hbm & Hc & Ht). right.
        assert (G : exists r, In r results /\ r = (bm, Built info es)).
        { clear -ER Hbm Hc. revert Hbm. induction ER as [|x y l l' Hxy _ IH]; intros Hbm; [contradiction|].
          destruct Hbm as [->|Hbm].
          - exists y. split; [left; reflexivity|]. rewrite Hc in Hxy. cbn in Hxy. inversion Hxy. reflexivity.
          - destruct (IH Hbm) as (r & I & E). exists r. split; [right; exact I|exact E]. }
        destruct G as (r & Hr & ->). exists (bm, Built info es), info, es. auto.
  Qed.
End GenShape.

(* C20: --select X is the app with X written in front of its selects *)
Lemma select_in_front bin bn X :
  build_binary bin bn X = build_binary (with_selects bin (X ++ m_selects bin)) bn [].
Proof.
  unfold build_binary, with_selects. cbn. rewrite <- app_assoc. reflexivity.
Qed.
