(* GenerateFacts.v — facts about configure_build / generate that connect the resolver
   theorems to what is emitted (C01, C11 ancestry, C10 shape). *)
From Coq Require Import Ascii String.
From Coq Require Import List Arith Bool NArith Lia.
Import ListNotations.
Require Import Laze.model.Base Laze.model.Env Laze.model.Expand Laze.model.Path Laze.model.Hash
        Laze.model.Allow Laze.model.Ninja Laze.model.Ctx Laze.model.Resolver Laze.model.Imports
        Laze.model.Generate Laze.proofs.BaseFacts Laze.proofs.ResolverFacts.
Open Scope list_scope.

Ltac inv_step H :=
  match type of H with
  | rbind ?x _ = Ok _ => let E := fresh "E" in destruct x eqn:E; cbn [rbind] in H; try discriminate H
  | (match ?x with _ => _ end) = Ok _ => let E := fresh "E" in destruct x eqn:E; try discriminate H
  | (if ?x then _ else _) = Ok _ => let E := fresh "E" in destruct x eqn:E; try discriminate H
  end.

Section Inv.
  Variable H : list ascii -> N.
  Variable EV : str -> evr.

  (* what a configured build tells about the checks that preceded it *)
  Theorem configure_build_inv b le builder binary select disable cli_env info entries :
    configure_build H EV b le builder binary select disable cli_env = Ok (Built info entries) ->
    exists bctx ba bin_ctx anc rst,
      bag_get b builder = Some bctx /\
      is_allowed (bag_tree b) builder (m_blocklist binary) (m_allowlist binary) = Ok ba /\ allowed_bool ba = true /\
      m_context_id binary = Some bin_ctx /\
      is_ancestor (tree_fuel (bag_tree b)) (bag_tree b) bin_ctx builder 0 = Ok (Some anc) /\
      resolve_build b builder (c_name bctx) binary select
        (fold_left (fun a x => iset_insert x a) disable (collect_disabled b builder)) = Ok rst /\
      bi_modules info = map m_name (sel rst) /\
      bi_builder info = c_name bctx /\ bi_binary info = m_name binary.
  Proof.
    unfold configure_build. intros HC.
    destruct (bag_get b builder) as [bctx|] eqn:Eb; [|discriminate].
    inv_step HC. destruct (negb (allowed_bool a)) eqn:Ea; [discriminate|].
    apply negb_false_iff in Ea.
    destruct (m_context_id binary) as [bin_ctx|] eqn:Ec; cbn [opt_unwrap rbind] in HC; [|discriminate].
    inv_step HC. destruct a0 as [anc|]; [|discriminate].
    destruct (resolve_build b builder (c_name bctx) binary select _) as [rst| | |] eqn:Er; try discriminate.
    exists bctx, a, bin_ctx, anc, rst. repeat split; auto.
    all: repeat (inv_step HC);
      repeat match type of HC with
             | (let '(_, _) := ?p in _) = _ => destruct p
             end;
      repeat (inv_step HC);
      try (inversion HC; subst; reflexivity).
  Qed.
End Inv.

(* ---------- side conditions of the resolver theorems, from the bag ---------- *)
Require Import Laze.model.Checks.

Lemma alookup_In_pair {V} k (l : list (str * V)) v : alookup k l = Some v -> exists k', In (k', v) l /\ k' = k.
Proof.
  induction l as [|[k' v'] t IH]; cbn; [discriminate|].
  destruct (str_eqb k k') eqn:E; intros Hx.
  - inversion Hx; subst. apply str_eqb_eq in E. exists k'. split; [left; reflexivity|symmetry; exact E].
  - destruct (IH Hx) as (k2 & I & Ek). exists k2. split; [right; exact I|exact Ek].
Qed.

Lemma find_module_name cs n m :
  forallb (fun c => forallb (fun km => str_eqb (m_name (snd km)) (fst km)) (c_modules c)) cs = true ->
  find_module cs n = Some m -> m_name m = n.
Proof.
  induction cs as [|c t IH]; cbn [find_module forallb]; intros Hk Hf; [discriminate|].
  apply andb_true_iff in Hk as [Hk1 Hk2].
  destruct (alookup n (c_modules c)) as [m'|] eqn:E.
  - inversion Hf; subst. apply alookup_In_pair in E as (k' & I & ->).
    rewrite forallb_forall in Hk1. specialize (Hk1 _ I). cbn in Hk1. apply str_eqb_eq in Hk1. exact Hk1.
  - apply IH; assumption.
Qed.

Lemma ctxs_of_keys_ok b l : keys_okb b = true ->
  forallb (fun c => forallb (fun km => str_eqb (m_name (snd km)) (fst km)) (c_modules c)) (ctxs_of b l) = true.
Proof.
  intros Hk. unfold ctxs_of. apply forallb_forall. intros c Hc. apply in_flat_map in Hc as (i & _ & Hc).
  unfold bag_get in Hc. destruct (nth_error b i) as [c'|] eqn:E; [|contradiction]. destruct Hc as [<-|[]].
  unfold keys_okb in Hk. rewrite forallb_forall in Hk. apply Hk. eapply nth_error_In. exact E.
Qed.

Theorem lookup_name_of_bag b builder n m :
  keys_okb b = true -> resolve_module b builder n = Some m -> m_name m = n.
Proof. intros Hk. unfold resolve_module. apply find_module_name. apply ctxs_of_keys_ok. exact Hk. Qed.

Theorem provided_sound_of_bag b builder n ps p :
  prov_okb b builder = true -> provided_of b builder n = Some ps -> In p ps ->
  exists mp, resolve_module b builder p = Some mp /\ In n (provides_of mp).
Proof.
  unfold prov_okb, provided_of. destruct (bag_get b builder) as [c|]; [|discriminate].
  intros Hp Hn Hin. destruct (c_provided c) as [pv|]; [|discriminate]. cbn [odflt] in Hp.
  rewrite forallb_forall in Hp. pose proof Hn as Hn'. apply alookup_In_pair in Hn' as (k' & I & ->).
  specialize (Hp _ I). cbn [fst] in Hp. rewrite Hn in Hp. rewrite forallb_forall in Hp. specialize (Hp p Hin).
  destruct (resolve_module b builder p) as [mp|]; [|discriminate].
  exists mp. split; [reflexivity|]. apply mem_str_In. exact Hp.
Qed.

Lemma list_str_eqb_eq a b : list_str_eqb a b = true -> a = b.
Proof.
  revert b; induction a as [|x a IH]; destruct b as [|y b]; cbn; intros H; try discriminate; [reflexivity|].
  apply andb_true_iff in H as [H1 H2]. apply str_eqb_eq in H1. f_equal; [exact H1|apply IH; exact H2].
Qed.

(* C01 for a configured build *)
Section C01cfg.
  Variable H : list ascii -> N.
  Variable EV : str -> evr.

  Theorem configured_build_closed b le builder binary select disable cli_env info entries :
    keys_okb b = true -> prov_okb b builder = true -> app_okb b builder binary = true ->
    configure_build H EV b le builder binary select disable cli_env = Ok (Built info entries) ->
    exists rst app',
      bi_modules info = map m_name (sel rst) /\
      m_name app' = m_name binary /\
      m_selects app' = select ++ m_selects binary ++ [Hard (ctx_module_name (bi_builder info))] /\
      In app' (sel rst) /\
      forall x, In x (sel rst) -> forall d, In d (m_selects x) ->
        closed_dep rst d.
  Proof.
    intros Hk Hp Ha HC.
    apply configure_build_inv in HC as (bctx & ba & bin_ctx & anc & rst & Eb & _ & _ & _ & _ & Er & Em & Ebn & _).
    unfold resolve_build in Er. rewrite Eb in Er.
    set (app' := build_binary binary (c_name bctx) select) in *.
    exists rst, app'. split; [exact Em|]. split; [reflexivity|]. split; [rewrite Ebn; reflexivity|].
    eapply (closure (resolve_module b builder)
                    (fun n => match c_provided bctx with Some p => alookup n p | None => None end)).
    - intros n m. apply lookup_name_of_bag. exact Hk.
    - intros n ps p Hn Hin. apply (provided_sound_of_bag b builder n ps p Hp); [|exact Hin].
      unfold provided_of. rewrite Eb. exact Hn.
    - intros a0 Hl. unfold app_okb in Ha. change (m_name app') with (m_name binary) in Hl. rewrite Hl in Ha.
      apply list_str_eqb_eq in Ha. exact Ha.
    - exact Er.
  Qed.
End C01cfg.

(* the boolean closure checker agrees with the Prop *)
Lemma selected_mem n st : selected n st = mem_str n (sel_names (sel st)).
Proof.
  unfold selected, mem_str, sel_names. induction (sel st) as [|m t IH]; [reflexivity|].
  cbn. rewrite IH. reflexivity.
Qed.

Lemma satb_Sat st n : satb (sel st) n = true <-> Sat st n.
Proof.
  unfold satb, Sat. rewrite orb_true_iff, selected_mem, existsb_exists. split.
  - intros [Hs|(p & Hp & Hn)]; [left; exact Hs | right; exists p; split; [exact Hp|apply mem_str_In; exact Hn]].
  - intros [Hs|(p & Hp & Hn)]; [left; exact Hs | right; exists p; split; [exact Hp|apply mem_str_In; exact Hn]].
Qed.

Theorem closedb_spec st :
  closedb (sel st) = true <->
  forall x, In x (sel st) -> forall d, In d (m_selects x) -> closed_dep st d.
Proof.
  unfold closedb. rewrite forallb_forall. split.
  - intros Hc x Hx d Hd. specialize (Hc x Hx). rewrite forallb_forall in Hc. specialize (Hc d Hd).
    destruct d; cbn in *; auto.
    + apply satb_Sat. exact Hc.
    + intros Ho. rewrite selected_mem in Ho. rewrite Ho in Hc. cbn in Hc. apply satb_Sat. exact Hc.
  - intros Hc x Hx. apply forallb_forall. intros d Hd. specialize (Hc x Hx d Hd).
    destruct d; cbn in *; auto.
    + apply satb_Sat. exact Hc.
    + destruct (mem_str o (sel_names (sel st))) eqn:Eo; [|reflexivity]. cbn.
      apply satb_Sat. apply Hc. rewrite selected_mem. exact Eo.
Qed.

(* ---------- C02 for a configured build ---------- *)
Require Import Laze.proofs.ResolverInv.

Section C02cfg.
  Variable H : list ascii -> N.
  Variable EV : str -> evr.

  Theorem configured_build_exclusive b le builder binary select disable cli_env info entries :
    configure_build H EV b le builder binary select disable cli_env = Ok (Built info entries) ->
    exists rst,
      bi_modules info = map m_name (sel rst) /\
      let D0 := fold_left (fun a x => iset_insert x a) disable (collect_disabled b builder) in
      no_disabled D0 (sel rst) /\ no_conflict (sel rst).
  Proof.
    intros HC.
    apply configure_build_inv in HC as (bctx & ba & bin_ctx & anc & rst & Eb & _ & _ & _ & _ & Er & Em & _).
    exists rst. split; [exact Em|]. unfold resolve_build in Er.
    eapply resolve_exclusive. exact Er.
  Qed.
End C02cfg.

Lemma iset_insert_In x y l : In y (iset_insert x l) <-> y = x \/ In y l.
Proof.
  unfold iset_insert. destruct (mem_str x l) eqn:E.
  - apply mem_str_In in E. split; [intros Hy; right; exact Hy | intros [->|Hy]; assumption].
  - rewrite in_app_iff. cbn. split; [intros [Hy|[<-|[]]]; auto | intros [->|Hy]; auto].
Qed.

(* the disabled set of a build contains the context chain's disables and the CLI's *)
Lemma disabled0_In b builder disable y :
  In y (fold_left (fun a x => iset_insert x a) disable (collect_disabled b builder)) <->
  In y (collect_disabled b builder) \/ In y disable.
Proof.
  revert y. generalize (collect_disabled b builder). induction disable as [|d ds IH]; intros l y; cbn [fold_left].
  - split; [intros Hy; left; exact Hy | intros [Hy|[]]; exact Hy].
  - rewrite IH, iset_insert_In. cbn. split; intros; intuition (subst; auto).
Qed.

(* the boolean exclusion checker agrees with the Prop *)
Theorem exclusiveb_spec D0 ms :
  exclusiveb D0 ms = true <-> no_disabled D0 ms /\ no_conflict ms.
Proof.
  unfold exclusiveb, no_disabled, no_conflict. rewrite andb_true_iff, !forallb_forall. split.
  - intros [H1 H2]. split.
    + intros m Hm. specialize (H1 m Hm). apply andb_true_iff in H1 as [Ha Hb]. split.
      * intros I. apply mem_str_In in I. rewrite I in Ha. discriminate.
      * intros x Hx I. rewrite forallb_forall in Hb. specialize (Hb x Hx). apply mem_str_In in I. rewrite I in Hb. discriminate.
    + intros a b Ha Hb Hne x Hx. specialize (H2 a Ha). rewrite forallb_forall in H2. specialize (H2 x Hx).
      rewrite forallb_forall in H2. specialize (H2 b Hb). apply orb_true_iff in H2 as [E|E].
      * apply str_eqb_eq in E. contradiction.
      * apply andb_true_iff in E as [E1 E2]. split.
        -- intros ->. rewrite str_eqb_refl in E1. discriminate.
        -- intros I. apply mem_str_In in I. rewrite I in E2. discriminate.
  - intros [H1 H2]. split.
    + intros m Hm. destruct (H1 m Hm) as [Ha Hb]. apply andb_true_iff. split.
      * apply negb_true_iff. apply mem_str_false. exact Ha.
      * apply forallb_forall. intros x Hx. apply negb_true_iff. apply mem_str_false. apply Hb. exact Hx.
    + intros a Ha. apply forallb_forall. intros x Hx. apply forallb_forall. intros b Hb.
      destruct (str_eqb (m_name a) (m_name b)) eqn:E; [reflexivity|]. cbn [orb].
      apply str_eqb_neq in E. destruct (H2 a b Ha Hb E x Hx) as [N1 N2].
      apply andb_true_iff. split; apply negb_true_iff.
      * apply str_eqb_neq. exact N1.
      * apply mem_str_false. exact N2.
Qed.
