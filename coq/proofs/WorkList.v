(* WorkList.v — basic facts about the loader's file work-list (Load.v: finc_insert, step_doc,
   step_pending, load_files) with `imports:`: the list only grows, its keys (file name, import
   root) stay distinct, every visited file is a file of the tree, every import root is the
   directory of a file of the tree, the documents only grow, and the lazefile of every import of a
   loaded document is on the list. Used by CacheInstance, LoadFrame, LoadTotal, LoadOnce, GenTotal. *)
From Coq Require Import Ascii String.
From Coq Require Import List Arith Bool NArith Lia.
Import ListNotations.
Require Import Laze.model.Base Laze.model.Path Laze.model.Load.
Require Import Laze.proofs.BaseFacts.
Open Scope list_scope.

(* ---------- keys ---------- *)
Lemma ostr_eqb_eq a b : ostr_eqb a b = true <-> a = b.
Proof.
  destruct a as [x|], b as [y|]; cbn; try (split; [discriminate|intros H; discriminate H]); [|tauto].
  rewrite str_eqb_eq. split; [intros ->; reflexivity|intros [= ->]; reflexivity].
Qed.

Lemma finc_eqb_key (a b : finc) : finc_eqb a b = true <-> finc_key a = finc_key b.
Proof.
  unfold finc_eqb, finc_key. rewrite andb_true_iff, str_eqb_eq, ostr_eqb_eq.
  split; [intros [-> ->]; reflexivity|intros [= -> ->]; split; reflexivity].
Qed.

Lemma finc_insert_ext x l : exists ext, finc_insert x l = l ++ ext.
Proof. unfold finc_insert. destruct (existsb (finc_eqb x) l); [exists []; rewrite app_nil_r; reflexivity|exists [x]; reflexivity]. Qed.

Lemma finc_insert_in x l y : In y (finc_insert x l) -> In y l \/ y = x.
Proof.
  unfold finc_insert. destruct (existsb (finc_eqb x) l); [left; assumption|].
  intros H. apply in_app_or in H. destruct H as [H|[H|[]]]; [left; exact H|right; symmetry; exact H].
Qed.

(* an element with the key of x is on the list after the insertion *)
Lemma finc_insert_has x l : exists y, In y (finc_insert x l) /\ finc_key y = finc_key x.
Proof.
  unfold finc_insert. destruct (existsb (finc_eqb x) l) eqn:E.
  - apply existsb_exists in E. destruct E as (y & Hy & He). exists y. split; [exact Hy|].
    symmetry. apply finc_eqb_key, He.
  - exists x. split; [apply in_or_app; right; left; reflexivity|reflexivity].
Qed.

Lemma NoDup_snoc {A} (l : list A) x : NoDup l -> ~ In x l -> NoDup (l ++ [x]).
Proof.
  induction l as [|y t IH]; intros ND Hn; cbn; [constructor; [intros []|constructor]|].
  inversion ND as [|? ? Hy ND']; subst. constructor.
  - rewrite in_app_iff. intros [H|[H|[]]]; [contradiction|]. apply Hn. left. symmetry. exact H.
  - apply IH; [exact ND'|]. intros H. apply Hn. right. exact H.
Qed.

Lemma finc_insert_nodup x (l : list finc) : NoDup (map finc_key l) -> NoDup (map finc_key (finc_insert x l)).
Proof.
  unfold finc_insert. intros ND. destruct (existsb (finc_eqb x) l) eqn:E; [exact ND|].
  rewrite map_app. cbn [map]. apply NoDup_snoc; [exact ND|].
  intros Hin. apply in_map_iff in Hin. destruct Hin as (y & Hy & Hl).
  assert (existsb (finc_eqb x) l = true); [|congruence].
  apply existsb_exists. exists y. split; [exact Hl|]. apply finc_eqb_key. symmetry; exact Hy.
Qed.

(* ---------- one document, one file ---------- *)
(* what a step may insert: entries that stay in the import root of the visited file, and the
   lazefiles of imports, which start their own root *)
Definition inserted (t : ytree) (inc : finc) (x : finc) : Prop :=
  (exists g b, x = (g, (b, finc_root inc))) \/
  (exists s f b, get_lazefile t s = Some f /\ x = (f, (b, Some (parent f)))).

Lemma fold_insert_ind (P : list finc -> Prop) (Q : finc -> Prop) (g : str -> finc) :
  (forall x l, Q x -> P l -> P (finc_insert x l)) -> (forall s, Q (g s)) ->
  forall l p, P p -> P (fold_left (fun p0 s => finc_insert (g s) p0) l p).
Proof.
  intros HP HQ l. induction l as [|s r IH]; intros p Hp; cbn [fold_left]; [exact Hp|]. apply IH, HP; [apply HQ|exact Hp].
Qed.

Lemma fold_import_ind (t : ytree) (P : list finc -> Prop) (Q : finc -> Prop) b :
  (forall x l, Q x -> P l -> P (finc_insert x l)) ->
  (forall s f, get_lazefile t s = Some f -> Q (f, (b, Some (parent f)))) ->
  forall l acc p', (forall p, acc = Ok p -> P p) ->
  fold_left (fun acc s => rbind acc (fun p =>
     match get_lazefile t s with
     | Some f => Ok (finc_insert (f, (b, Some (parent f))) p)
     | None => Err e_noimport end)) l acc = Ok p' -> P p'.
Proof.
  intros HP HQ l. induction l as [|s r IH]; intros acc p' Hacc HF; cbn [fold_left] in HF; [apply Hacc, HF|].
  apply (IH _ _ (fun p => _) HF) || (eapply IH; [|exact HF]).
  intros p Hp. destruct acc as [p0| | |]; cbn [rbind] in Hp; try discriminate.
  destruct (get_lazefile t s) as [f|] eqn:Eg; [|discriminate]. injection Hp as <-.
  apply HP; [apply (HQ s), Eg|apply Hacc; reflexivity].
Qed.

Lemma step_doc_ind (t : ytree) (inc : finc) (P : list finc -> Prop) (Q : finc -> Prop) :
  (forall x l, Q x -> P l -> P (finc_insert x l)) ->
  (forall x, inserted t inc x -> Q x) ->
  forall p d p', step_doc t inc p d = Ok p' -> P p -> P p'.
Proof.
  intros HP HQ p d p' HS Hp. unfold step_doc in HS.
  match type of HS with rbind ?X _ = _ => destruct X as [p2| | |] eqn:E2; cbn [rbind] in HS; try discriminate end.
  injection HS as <-.
  apply (fold_insert_ind P Q (fun s => (path_join (parent (fst inc)) s, (Some (ld_idx d), finc_root inc)))); [exact HP| |].
  { intros s. apply HQ. left. eexists _, _. reflexivity. }
  eapply (fold_import_ind t P Q); [exact HP| | |exact E2].
  { intros s f Hg. apply HQ. right. exists s, f, (Some (ld_idx d)). split; [exact Hg|reflexivity]. }
  intros p0 [= <-].
  apply (fold_insert_ind P Q (fun s => (path_join (path_join (parent (fst inc)) s) (S_ "laze.yml"), (Some (ld_idx d), finc_root inc)))); [exact HP| |exact Hp].
  intros s. apply HQ. left. eexists _, _. reflexivity.
Qed.

Lemma step_pending_ind (t : ytree) (inc : finc) (P : list finc -> Prop) (Q : finc -> Prop) :
  (forall x l, Q x -> P l -> P (finc_insert x l)) ->
  (forall x, inserted t inc x -> Q x) ->
  forall start ds pending p', step_pending t inc start ds pending = Ok p' -> P pending -> P p'.
Proof.
  intros HP HQ start ds. unfold step_pending. generalize (new_docs inc start ds). intros new.
  assert (G : forall acc p', (forall p, acc = Ok p -> P p) ->
              fold_left (fun acc d => rbind acc (fun p => step_doc t inc p d)) new acc = Ok p' -> P p').
  { induction new as [|d r IH]; intros acc p' Hacc HF; cbn [fold_left] in HF; [apply Hacc, HF|].
    eapply IH; [|exact HF]. intros p Hp. destruct acc as [p0| | |]; cbn [rbind] in Hp; try discriminate.
    eapply step_doc_ind; [exact HP|exact HQ|exact Hp|apply Hacc; reflexivity]. }
  intros pending p' HS Hp. eapply G; [|exact HS]. intros p [= <-]. exact Hp.
Qed.

Lemma step_pending_ext t inc start ds (pending p' : list finc) :
  step_pending t inc start ds pending = Ok p' -> exists ext, p' = pending ++ ext.
Proof.
  intros HS. apply (step_pending_ind t inc (fun l => exists ext, l = pending ++ ext) (fun _ => True)) in HS; [exact HS| | |].
  - intros x l _ [e ->]. destruct (finc_insert_ext x (pending ++ e)) as [e2 ->]. exists (e ++ e2). rewrite app_assoc. reflexivity.
  - intros; exact I.
  - exists []. rewrite app_nil_r. reflexivity.
Qed.

(* the lazefile of every import of a new document is on the list afterwards *)
Lemma fold_import_has (t : ytree) b : forall l acc p',
  fold_left (fun acc s => rbind acc (fun p =>
     match get_lazefile t s with
     | Some f => Ok (finc_insert (f, (b, Some (parent f))) p)
     | None => Err e_noimport end)) l acc = Ok p' ->
  (exists p0, acc = Ok p0 /\ exists ext, p' = p0 ++ ext) /\
  forall s, In s l -> exists f y, get_lazefile t s = Some f /\ In y p' /\ fst y = f.
Proof.
  induction l as [|s r IH]; intros acc p' HF; cbn [fold_left] in HF.
  - split; [exists p'; split; [exact HF|exists []; rewrite app_nil_r; reflexivity]|intros s []].
  - destruct (IH _ _ HF) as [(p1 & E1 & ext & ->) Hr].
    destruct acc as [p0| | |]; cbn [rbind] in E1; try discriminate.
    destruct (get_lazefile t s) as [f|] eqn:Eg; [|discriminate]. injection E1 as <-.
    destruct (finc_insert_ext (f, (b, Some (parent f))) p0) as [e0 E0].
    split.
    + exists p0. split; [reflexivity|]. rewrite E0. exists (e0 ++ ext). rewrite app_assoc. reflexivity.
    + intros s' [<-|Hs'].
      * destruct (finc_insert_has (f, (b, Some (parent f))) p0) as (y & Hy & Hk).
        exists f, y. split; [exact Eg|]. split; [apply in_or_app; left; exact Hy|].
        unfold finc_key in Hk. injection Hk as Hk _. exact Hk.
      * apply Hr, Hs'.
Qed.

Lemma step_doc_imports t inc p d p' : step_doc t inc p d = Ok p' ->
  (exists ext, p' = p ++ ext) /\
  forall s, In s (odflt [] (d_imports (ld_doc d))) -> exists f y, get_lazefile t s = Some f /\ In y p' /\ fst y = f.
Proof.
  intros HS. split.
  { apply (step_doc_ind t inc (fun l => exists ext, l = p ++ ext) (fun _ => True)) in HS; [exact HS| | |].
    - intros x l _ [e ->]. destruct (finc_insert_ext x (p ++ e)) as [e2 ->]. exists (e ++ e2). rewrite app_assoc. reflexivity.
    - intros; exact I.
    - exists []. rewrite app_nil_r. reflexivity. }
  unfold step_doc in HS.
  match type of HS with rbind ?X _ = _ => destruct X as [p2| | |] eqn:E2; cbn [rbind] in HS; try discriminate end.
  injection HS as <-. intros s Hs. destruct (fold_import_has _ _ _ _ _ E2) as [_ Hr].
  destruct (Hr s Hs) as (f & y & Hg & Hy & Hf). exists f, y. split; [exact Hg|]. split; [|exact Hf].
  match goal with |- In y (fold_left ?g ?l p2) =>
    destruct (fold_insert_ind (fun l0 => exists ext, l0 = p2 ++ ext) (fun _ => True) (fun s0 => (path_join (parent (fst inc)) s0, (Some (ld_idx d), finc_root inc)))
                (fun x l0 _ '(ex_intro _ e He) => match finc_insert_ext x l0 with ex_intro _ e2 He2 =>
                   ex_intro _ (e ++ e2) (eq_trans He2 (eq_trans (f_equal (fun z => z ++ e2) He) (eq_sym (app_assoc p2 e e2)))) end)
                (fun _ => I) l p2 (ex_intro _ [] (eq_sym (app_nil_r p2)))) as [e He] end.
  rewrite He. apply in_or_app. left. exact Hy.
Qed.

Lemma step_pending_imports t inc start ds pending pfin : step_pending t inc start ds pending = Ok pfin ->
  forall d s, In d (new_docs inc start ds) -> In s (odflt [] (d_imports (ld_doc d))) ->
  exists f y, get_lazefile t s = Some f /\ In y pfin /\ fst y = f.
Proof.
  unfold step_pending. generalize (new_docs inc start ds). intros new. revert pending.
  assert (G : forall acc p', fold_left (fun acc d => rbind acc (fun p => step_doc t inc p d)) new acc = Ok p' ->
              (exists p0, acc = Ok p0 /\ exists ext, p' = p0 ++ ext) /\
              forall d s, In d new -> In s (odflt [] (d_imports (ld_doc d))) ->
                          exists f y, get_lazefile t s = Some f /\ In y p' /\ fst y = f).
  { induction new as [|d r IH]; intros acc p' HF; cbn [fold_left] in HF.
    - split; [exists p'; split; [exact HF|exists []; rewrite app_nil_r; reflexivity]|intros d s []].
    - destruct (IH _ _ HF) as [(p1 & E1 & ext & ->) Hr].
      destruct acc as [p0| | |]; cbn [rbind] in E1; try discriminate.
      destruct (step_doc_imports _ _ _ _ _ E1) as [[e0 ->] Hd].
      split; [exists p0; split; [reflexivity|exists (e0 ++ ext); rewrite app_assoc; reflexivity]|].
      intros d' s [<-|Hd'] Hs.
      + destruct (Hd s Hs) as (f & y & Hg & Hy & Hf). exists f, y. split; [exact Hg|]. split; [apply in_or_app; left; exact Hy|exact Hf].
      + apply (Hr d' s Hd' Hs). }
  intros pending HS d s Hd Hs. destruct (G _ _ HS) as [_ Hr]. apply (Hr d s Hd Hs).
Qed.

(* steps in two trees that find the same lazefiles are the same step *)
Lemma step_doc_agree t1 t2 inc p d :
  (forall s, In s (odflt [] (d_imports (ld_doc d))) -> get_lazefile t2 s = get_lazefile t1 s) ->
  step_doc t2 inc p d = step_doc t1 inc p d.
Proof.
  intros Hag. unfold step_doc. f_equal.
  generalize (Ok (fold_left (fun p0 s => finc_insert (path_join (path_join (parent (fst inc)) s) (S_ "laze.yml"), (Some (ld_idx d), finc_root inc)) p0)
                            (odflt [] (d_subdirs (ld_doc d))) p)).
  revert Hag. generalize (odflt [] (d_imports (ld_doc d))). intros l.
  induction l as [|s r IH]; intros Hag acc; cbn [fold_left]; [reflexivity|].
  rewrite (Hag s (or_introl eq_refl)). apply IH. intros s' Hs'. apply Hag. right. exact Hs'.
Qed.

Lemma step_pending_agree t1 t2 inc start ds pending :
  (forall d s, In d (new_docs inc start ds) -> In s (odflt [] (d_imports (ld_doc d))) -> get_lazefile t2 s = get_lazefile t1 s) ->
  step_pending t2 inc start ds pending = step_pending t1 inc start ds pending.
Proof.
  unfold step_pending. generalize (new_docs inc start ds). intros new. generalize (Ok pending).
  induction new as [|d r IH]; intros acc Hag; cbn [fold_left]; [reflexivity|].
  assert (E : rbind acc (fun p => step_doc t2 inc p d) = rbind acc (fun p => step_doc t1 inc p d)).
  { destruct acc; cbn [rbind]; try reflexivity. apply step_doc_agree. intros s Hs. apply (Hag d s); [left; reflexivity|exact Hs]. }
  rewrite E. apply IH. intros d' s Hd' Hs. apply (Hag d' s); [right; exact Hd'|exact Hs].
Qed.

(* ---------- the whole work list ---------- *)
Lemma load_files_S f (t : ytree) (pending : list finc) pos docs :
  load_files (S f) t pending pos docs =
  match nth_error pending pos with
  | None => Ok (docs, pending)
  | Some inc =>
      match alookup (fst inc) t with
      | None => Err e_nofile
      | Some ds =>
          match step_pending t inc (length docs) ds pending with
          | Ok pending1 => load_files f t pending1 (S pos) (docs ++ new_docs inc (length docs) ds)
          | Err e => Err e
          | Panic n => Panic n
          | Fuel => Fuel
          end
      end
  end.
Proof. reflexivity. Qed.

(* a generic invariant of the work list: it holds for the final list if it holds for the start
   list and every insertion preserves it; [V] is known of every visited entry *)
Lemma load_files_inv (t : ytree) (P : list finc -> Prop) (Q : finc -> finc -> Prop) :
  (forall inc x l, Q inc x -> In inc l -> P l -> P (finc_insert x l)) ->
  (forall inc x, inserted t inc x -> Q inc x) ->
  forall fuel pending pos docs ds fs, load_files fuel t pending pos docs = Ok (ds, fs) -> P pending -> P fs.
Proof.
  intros HP HQ. induction fuel as [|f IH]; intros pending pos docs ds fs HL Hp; [discriminate|].
  rewrite load_files_S in HL. destruct (nth_error pending pos) as [inc|] eqn:En.
  - destruct (alookup (fst inc) t) as [ds0|]; [|discriminate].
    destruct (step_pending t inc (length docs) ds0 pending) as [p1| | |] eqn:ES; try discriminate.
    apply IH in HL; [exact HL|].
    assert (Hin : In inc pending) by (eapply nth_error_In; exact En).
    apply (step_pending_ind t inc (fun l => In inc l /\ P l) (Q inc)) in ES; [apply ES| | |split; assumption].
    + intros x l Hq [Hi Hl]. split; [|apply (HP inc); assumption].
      destruct (finc_insert_ext x l) as [e ->]. apply in_or_app. left. exact Hi.
    + apply HQ.
  - injection HL as _ <-. exact Hp.
Qed.

Lemma load_files_prefix : forall fuel (t : ytree) (pending : list finc) pos docs ds (fs : list finc),
  load_files fuel t pending pos docs = Ok (ds, fs) -> exists ext, fs = pending ++ ext.
Proof.
  intros fuel t pending pos docs ds fs HL.
  apply (load_files_inv t (fun l => exists ext, l = pending ++ ext) (fun _ _ => True)) in HL; [exact HL| | |].
  - intros _ x l _ _ [e ->]. destruct (finc_insert_ext x (pending ++ e)) as [e2 ->]. exists (e ++ e2). rewrite app_assoc. reflexivity.
  - intros; exact I.
  - exists []. rewrite app_nil_r. reflexivity.
Qed.

Lemma load_files_nodup : forall fuel (t : ytree) (pending : list finc) pos docs ds (fs : list finc),
  NoDup (map finc_key pending) -> load_files fuel t pending pos docs = Ok (ds, fs) -> NoDup (map finc_key fs).
Proof.
  intros fuel t pending pos docs ds fs ND HL.
  apply (load_files_inv t (fun l => NoDup (map finc_key l)) (fun _ _ => True)) in HL; [exact HL| | |exact ND].
  - intros _ x l _ _. apply finc_insert_nodup.
  - intros; exact I.
Qed.

(* every import root on the list is the directory of a file of the tree *)
Definition rootok (t : ytree) (inc : finc) : Prop :=
  finc_root inc = None \/ exists f, file_exists t f = true /\ finc_root inc = Some (parent f).

Lemma get_lazefile_exists t s f : get_lazefile t s = Some f -> file_exists t f = true.
Proof. unfold get_lazefile. intros H. apply find_some in H. apply H. Qed.

Lemma load_files_rootok : forall fuel (t : ytree) (pending : list finc) pos docs ds (fs : list finc),
  Forall (rootok t) pending -> load_files fuel t pending pos docs = Ok (ds, fs) -> Forall (rootok t) fs.
Proof.
  intros fuel t pending pos docs ds fs HF HL.
  apply (load_files_inv t (Forall (rootok t)) (fun inc x => rootok t inc -> rootok t x)) in HL; [exact HL| | |exact HF].
  - intros inc x l Hq Hin Hl. unfold finc_insert. destruct (existsb (finc_eqb x) l); [exact Hl|].
    apply Forall_app. split; [exact Hl|]. constructor; [|constructor]. apply Hq.
    rewrite Forall_forall in Hl. apply Hl, Hin.
  - intros inc x [(g & b & ->)|(s & f & b & Hg & ->)] Hr.
    + exact Hr.
    + right. exists f. split; [eapply get_lazefile_exists; exact Hg|reflexivity].
Qed.

(* the files visited so far are files of the tree; at the end, all of them *)
Lemma load_files_in_tree : forall fuel (t : ytree) (pending : list finc) pos docs ds (fs : list finc),
  (forall i (inc : finc), i < pos -> nth_error pending i = Some inc -> alookup (fst inc) t <> None) ->
  load_files fuel t pending pos docs = Ok (ds, fs) ->
  forall inc, In inc fs -> alookup (fst inc) t <> None.
Proof.
  induction fuel as [|f IH]; intros t pending pos docs ds fs Hpre HL; [discriminate|].
  rewrite load_files_S in HL. destruct (nth_error pending pos) as [inc0|] eqn:En.
  - destruct (alookup (fst inc0) t) as [ds0|] eqn:Ea; [|discriminate].
    destruct (step_pending t inc0 (length docs) ds0 pending) as [pending1| | |] eqn:ES; try discriminate.
    destruct (step_pending_ext _ _ _ _ _ _ ES) as [ext Hext].
    apply (IH t pending1 (S pos) (docs ++ new_docs inc0 (length docs) ds0) ds fs); [|exact HL].
    intros i inc Hi Hn. rewrite Hext in Hn.
    assert (Hlen : pos < length pending) by (apply nth_error_Some; rewrite En; discriminate).
    rewrite nth_error_app1 in Hn by lia.
    destruct (Nat.eq_dec i pos) as [->|Hne].
    + rewrite En in Hn. injection Hn as <-. rewrite Ea. discriminate.
    + apply (Hpre i inc); [lia|exact Hn].
  - injection HL as <- <-. intros inc Hin. apply In_nth_error in Hin. destruct Hin as [i Hi].
    apply (Hpre i inc); [|exact Hi].
    destruct (Nat.lt_ge_cases i pos) as [Hlt|Hge]; [exact Hlt|]. exfalso.
    apply nth_error_None in En. assert (i < length pending) by (apply nth_error_Some; rewrite Hi; discriminate). lia.
Qed.

(* the documents only grow *)
Lemma load_files_docs_prefix : forall fuel (t : ytree) (pending : list finc) pos docs ds (fs : list finc),
  load_files fuel t pending pos docs = Ok (ds, fs) -> exists ext, ds = docs ++ ext.
Proof.
  induction fuel as [|f IH]; intros t pending pos docs ds fs HL; [discriminate|].
  rewrite load_files_S in HL. destruct (nth_error pending pos) as [inc|].
  - destruct (alookup (fst inc) t) as [ds0|]; [|discriminate].
    destruct (step_pending t inc (length docs) ds0 pending) as [p1| | |]; try discriminate.
    apply IH in HL. destruct HL as [e ->]. exists (new_docs inc (length docs) ds0 ++ e). rewrite app_assoc. reflexivity.
  - injection HL as <- _. exists []. rewrite app_nil_r. reflexivity.
Qed.

(* the lazefile of every import of every newly loaded document is on the list *)
Lemma load_files_imports : forall fuel (t : ytree) (pending : list finc) pos docs ds (fs : list finc),
  load_files fuel t pending pos docs = Ok (ds, fs) ->
  forall d, In d ds -> In d docs \/
    forall s, In s (odflt [] (d_imports (ld_doc d))) -> exists f y, get_lazefile t s = Some f /\ In y fs /\ fst y = f.
Proof.
  induction fuel as [|f IH]; intros t pending pos docs ds fs HL d Hd; [discriminate|].
  rewrite load_files_S in HL. destruct (nth_error pending pos) as [inc|].
  - destruct (alookup (fst inc) t) as [ds0|]; [|discriminate].
    destruct (step_pending t inc (length docs) ds0 pending) as [p1| | |] eqn:ES; try discriminate.
    destruct (IH _ _ _ _ _ _ HL d Hd) as [Hin|Hgood]; [|right; exact Hgood].
    apply in_app_or in Hin. destruct Hin as [Hin|Hnew]; [left; exact Hin|right].
    intros s Hs. destruct (step_pending_imports _ _ _ _ _ _ ES d s Hnew Hs) as (f0 & y & Hg & Hy & Hf).
    exists f0, y. split; [exact Hg|]. split; [|exact Hf].
    destruct (load_files_prefix _ _ _ _ _ _ _ HL) as [e ->]. apply in_or_app. left. exact Hy.
  - injection HL as <- _. left. exact Hd.
Qed.

(* ---------- agreement of two trees on what the loader looked at ---------- *)
Lemma load_files_agree : forall fuel (t1 t2 : ytree) (pending : list finc) pos docs ds (fs : list finc),
  load_files fuel t1 pending pos docs = Ok (ds, fs) ->
  (forall inc : finc, In inc fs -> alookup (fst inc) t2 = alookup (fst inc) t1) ->
  (forall d s, In d ds -> In s (odflt [] (d_imports (ld_doc d))) -> get_lazefile t2 s = get_lazefile t1 s) ->
  load_files fuel t2 pending pos docs = Ok (ds, fs).
Proof.
  induction fuel as [|f IH]; intros t1 t2 pending pos docs ds fs HL Hag Himp; [discriminate|].
  rewrite load_files_S in HL |- *. destruct (nth_error pending pos) as [inc|] eqn:En; [|exact HL].
  destruct (alookup (fst inc) t1) as [ds0|] eqn:Ea; [|discriminate].
  destruct (step_pending t1 inc (length docs) ds0 pending) as [p1| | |] eqn:ES; try discriminate.
  assert (Hin : In inc fs).
  { destruct (load_files_prefix _ _ _ _ _ _ _ HL) as [e ->].
    destruct (step_pending_ext _ _ _ _ _ _ ES) as [e2 ->].
    rewrite <- app_assoc. apply in_or_app. left. eapply nth_error_In. exact En. }
  rewrite (Hag inc Hin), Ea.
  assert (ES2 : step_pending t2 inc (length docs) ds0 pending = Ok p1).
  { rewrite <- ES. apply step_pending_agree. intros d s Hd Hs. apply (Himp d s); [|exact Hs].
    destruct (load_files_docs_prefix _ _ _ _ _ _ _ HL) as [e ->]. apply in_or_app. left. apply in_or_app. right. exact Hd. }
  rewrite ES2. apply (IH t1); assumption.
Qed.

(* ---------- fuel: one unit per entry of the final list, plus one ---------- *)
Lemma load_files_fuel : forall fuel (t : ytree) (pending : list finc) pos docs ds (fs : list finc),
  load_files fuel t pending pos docs = Ok (ds, fs) ->
  forall fuel', length fs - pos < fuel' -> load_files fuel' t pending pos docs = Ok (ds, fs).
Proof.
  induction fuel as [|f IH]; intros t pending pos docs ds fs HL fuel' Hf; [discriminate|].
  destruct fuel' as [|f']; [lia|].
  rewrite load_files_S in HL |- *. destruct (nth_error pending pos) as [inc|] eqn:En; [|exact HL].
  destruct (alookup (fst inc) t) as [ds0|]; [|discriminate].
  destruct (step_pending t inc (length docs) ds0 pending) as [p1| | |] eqn:ES; try discriminate.
  assert (Hlen : pos < length fs).
  { destruct (load_files_prefix _ _ _ _ _ _ _ HL) as [e ->].
    destruct (step_pending_ext _ _ _ _ _ _ ES) as [e2 ->].
    rewrite !app_length. assert (pos < length pending) by (apply nth_error_Some; rewrite En; discriminate). lia. }
  apply (IH _ _ _ _ _ _ HL). lia.
Qed.

(* ---------- the bound: keys are (file of the tree, None or directory of a file of the tree) ---------- *)
Lemma alookup_In_keys {V} k (l : list (str * V)) : alookup k l <> None -> In k (akeys l).
Proof.
  induction l as [|[k' v] t IH]; cbn; [tauto|].
  destruct (str_eqb k k') eqn:E; [intros _; left; symmetry; apply str_eqb_eq; exact E|]. intros Hn. right. apply IH, Hn.
Qed.

Definition key_space (t : ytree) : list (str * option str) :=
  list_prod (akeys t) (None :: map (fun f => Some (parent f)) (akeys t)).

Lemma key_space_length t : length (key_space t) = length t * S (length t).
Proof. unfold key_space. rewrite prod_length. unfold akeys. cbn [length]. rewrite !map_length. reflexivity. Qed.

Lemma key_in_space (t : ytree) (inc : finc) : alookup (fst inc) t <> None -> rootok t inc -> In (finc_key inc) (key_space t).
Proof.
  intros Hf Hr. unfold key_space, finc_key. apply in_prod; [apply alookup_In_keys, Hf|].
  destruct Hr as [->|(f & Hf' & ->)]; [left; reflexivity|right].
  apply in_map_iff. exists f. split; [reflexivity|]. apply alookup_In_keys.
  unfold file_exists in Hf'. destruct (alookup f t); [discriminate|discriminate Hf'].
Qed.

Lemma In_firstn' {A} (x : A) : forall n l, In x (firstn n l) -> In x l.
Proof.
  induction n as [|n IH]; intros l Hi; [destruct Hi|]. destruct l as [|y t]; [destruct Hi|].
  cbn in Hi. destruct Hi as [->|Hi]; [left; reflexivity|right; apply IH, Hi].
Qed.
Lemma NoDup_firstn' {A} n (l : list A) : NoDup l -> NoDup (firstn n l).
Proof.
  revert n. induction l as [|x t IH]; intros n ND; [destruct n; constructor|].
  destruct n; cbn; [constructor|]. inversion ND as [|? ? Hx ND']; subst. constructor; [|apply IH, ND'].
  intros Hi. apply Hx. eapply In_firstn'. exact Hi.
Qed.
Lemma firstn_S_nth {A} (l : list A) n x : nth_error l n = Some x -> firstn (S n) l = firstn n l ++ [x].
Proof.
  revert n. induction l as [|y t IH]; intros n Hn; [destruct n; discriminate|].
  destruct n as [|n]; cbn in *; [injection Hn as ->; reflexivity|]. f_equal. apply IH, Hn.
Qed.

(* a step returns a list or an error value *)
Definition okerr {A} (x : res A) : Prop := match x with Ok _ | Err _ => True | _ => False end.
Lemma fold_res_okerr {A B} (f : A -> B -> res A) : (forall a b, okerr (f a b)) ->
  forall l acc, okerr acc -> okerr (fold_left (fun acc b => rbind acc (fun a => f a b)) l acc).
Proof.
  intros Hf. induction l as [|b r IH]; intros acc Ha; cbn [fold_left]; [exact Ha|]. apply IH.
  destruct acc; cbn [rbind]; try exact Ha. apply Hf.
Qed.
Lemma step_doc_okerr t inc p d : okerr (step_doc t inc p d).
Proof.
  unfold step_doc.
  match goal with |- okerr (rbind ?X _) => assert (HX : okerr X) end.
  { apply (fold_res_okerr (fun p0 s => match get_lazefile t s with
                                       | Some f => Ok (finc_insert (f, (Some (ld_idx d), Some (parent f))) p0)
                                       | None => Err e_noimport end)); [|exact I].
    intros a b. destruct (get_lazefile t b); exact I. }
  match goal with |- okerr (rbind ?X _) => destruct X; cbn [rbind]; try exact HX end.
Qed.
Lemma step_pending_okerr t inc start ds pending : okerr (step_pending t inc start ds pending).
Proof. unfold step_pending. apply (fold_res_okerr (step_doc t inc)); [apply step_doc_okerr|exact I]. Qed.

Lemma load_files_never_fuel : forall fuel (t : ytree) (pending : list finc) pos docs,
  NoDup (map finc_key pending) -> Forall (rootok t) pending -> pos <= length pending ->
  (forall inc : finc, In inc (firstn pos pending) -> alookup (fst inc) t <> None) ->
  length t * S (length t) + 2 <= fuel + pos ->
  load_files fuel t pending pos docs <> Fuel.
Proof.
  induction fuel as [|f IH]; intros t pending pos docs ND HR Hpos Hin Hf.
  - (* no fuel left: impossible, the first [pos] keys are distinct elements of the key space *)
    exfalso.
    assert (Hlen : length (firstn pos pending) <= length (key_space t)).
    { assert (ND' : NoDup (map finc_key (firstn pos pending))) by (rewrite <- firstn_map; apply NoDup_firstn', ND).
      assert (Hincl : incl (map finc_key (firstn pos pending)) (key_space t)).
      { intros n Hn. apply in_map_iff in Hn. destruct Hn as (inc & <- & Hi). apply key_in_space; [apply Hin, Hi|].
        rewrite Forall_forall in HR. apply HR. eapply In_firstn'. exact Hi. }
      pose proof (NoDup_incl_length ND' Hincl) as Hl. rewrite map_length in Hl. exact Hl. }
    rewrite firstn_length_le in Hlen by exact Hpos. rewrite key_space_length in Hlen. cbn in Hf. lia.
  - rewrite load_files_S. destruct (nth_error pending pos) as [inc|] eqn:En; [|discriminate].
    destruct (alookup (fst inc) t) as [ds|] eqn:Ea; [|discriminate].
    destruct (step_pending t inc (length docs) ds pending) as [p1| | |] eqn:ES; try discriminate.
    + assert (Hpl : pos < length pending) by (apply nth_error_Some; rewrite En; discriminate).
      assert (Hinc : In inc pending) by (eapply nth_error_In; exact En).
      apply IH.
      * apply (step_pending_ind t inc (fun l => NoDup (map finc_key l)) (fun _ => True)) in ES; [exact ES| | |exact ND].
        { intros x l _. apply finc_insert_nodup. } { intros; exact I. }
      * apply (step_pending_ind t inc (Forall (rootok t)) (rootok t)) in ES; [exact ES| | |exact HR].
        { intros x l Hq Hl. unfold finc_insert. destruct (existsb (finc_eqb x) l); [exact Hl|].
          apply Forall_app. split; [exact Hl|]. constructor; [exact Hq|constructor]. }
        { intros x [(g & b & ->)|(s & f0 & b & Hg & ->)].
          - rewrite Forall_forall in HR. apply (HR inc Hinc).
          - right. exists f0. split; [eapply get_lazefile_exists; exact Hg|reflexivity]. }
      * destruct (step_pending_ext _ _ _ _ _ _ ES) as [e ->]. rewrite app_length. lia.
      * destruct (step_pending_ext _ _ _ _ _ _ ES) as [e ->].
        rewrite firstn_app. replace (S pos - length pending) with 0 by lia. rewrite firstn_O, app_nil_r.
        rewrite (firstn_S_nth _ _ _ En). intros x Hx. apply in_app_or in Hx. destruct Hx as [Hx|[<-|[]]]; [apply Hin, Hx|].
        rewrite Ea. discriminate.
      * lia.
    + pose proof (step_pending_okerr t inc (length docs) ds pending) as Hoe. rewrite ES in Hoe. destruct Hoe.
Qed.

(* the loader's work-list never runs out of fuel, whatever the tree (self-including files,
   files importing each other included) *)
Theorem loader_worklist_terminates (t : ytree) pf : load_files (load_fuel t) t [(pf, (None, None))] 0 [] <> Fuel.
Proof.
  apply load_files_never_fuel.
  - cbn. constructor; [intros []|constructor].
  - constructor; [left; reflexivity|constructor].
  - cbn. lia.
  - intros inc [].
  - unfold load_fuel. lia.
Qed.

Lemma load_files_bound (t : ytree) pf fuel ds (fs : list finc) :
  load_files fuel t [(pf, (None, None))] 0 [] = Ok (ds, fs) -> length fs <= length t * S (length t).
Proof.
  intros HL. rewrite <- key_space_length, <- (map_length finc_key fs). apply NoDup_incl_length.
  - eapply load_files_nodup; [|exact HL]. cbn. constructor; [intros []|constructor].
  - intros k Hk. apply in_map_iff in Hk. destruct Hk as (inc & <- & Hi). apply key_in_space.
    + eapply load_files_in_tree; [|exact HL|exact Hi]. intros i inc0 Hlt. lia.
    + assert (HF : Forall (rootok t) fs).
      { eapply load_files_rootok; [|exact HL]. constructor; [left; reflexivity|constructor]. }
      rewrite Forall_forall in HF. apply HF, Hi.
Qed.

(* ---------- lazefile candidates: what was found depends on the file found and on the absence of
   the candidates before it ---------- *)
Lemma candidates_agree (t1 t2 : ytree) : forall l f,
  find (file_exists t1) l = Some f -> file_exists t2 f = true ->
  (forall g, In g (take_until_exists t1 l) -> file_exists t2 g = false) ->
  find (file_exists t2) l = Some f /\ take_until_exists t2 l = take_until_exists t1 l.
Proof.
  induction l as [|c r IH]; intros f Hf Hex Hab; [discriminate|]. cbn [find take_until_exists] in *.
  destruct (file_exists t1 c) eqn:E1.
  - injection Hf as <-. rewrite Hex. split; reflexivity.
  - assert (E2 : file_exists t2 c = false) by (apply Hab; left; reflexivity). rewrite E2.
    destruct (IH f Hf Hex (fun g Hg => Hab g (or_intror Hg))) as [H1 H2]. split; [exact H1|rewrite H2; reflexivity].
Qed.

Lemma get_lazefile_agree (t1 t2 : ytree) s f :
  get_lazefile t1 s = Some f -> file_exists t2 f = true ->
  (forall g, In g (preferred_over t1 s) -> file_exists t2 g = false) ->
  get_lazefile t2 s = Some f /\ preferred_over t2 s = preferred_over t1 s.
Proof.
  intros Hg Hex Hab. unfold preferred_over in *. rewrite Hg in Hab. unfold get_lazefile in *.
  destruct (candidates_agree t1 t2 _ _ Hg Hex Hab) as [H1 H2]. rewrite H1, Hg. split; [reflexivity|exact H2].
Qed.

Lemma take_until_absent (t : ytree) : forall l g, In g (take_until_exists t l) -> file_exists t g = false.
Proof.
  induction l as [|c r IH]; intros g Hg; [destruct Hg|]. cbn [take_until_exists] in Hg.
  destruct (file_exists t c) eqn:E; [destruct Hg|]. destruct Hg as [<-|Hg]; [exact E|apply IH, Hg].
Qed.
Lemma preferred_over_absent (t : ytree) s g : In g (preferred_over t s) -> file_exists t g = false.
Proof. unfold preferred_over. destruct (get_lazefile t s); [apply take_until_absent|intros []]. Qed.
Lemma absent_of_absent (t : ytree) ds g : In g (absent_of t ds) -> file_exists t g = false.
Proof.
  unfold absent_of. intros Hg. apply in_flat_map in Hg. destruct Hg as (d & _ & Hg).
  apply in_flat_map in Hg. destruct Hg as (s & _ & Hg). eapply preferred_over_absent. exact Hg.
Qed.
