(* RuleOnce.v — one clause of C06 as a theorem: in every generated file, rule statements with one name have
   one text (so, statements being de-duplicated by text, a rule is defined exactly once).
   Every rule statement laze writes is a NAMED rule: its name is <name>_<hash of the hashed fields>; the
   printed text mentions only hashed fields; so two rule statements with equal names have equal hashes and —
   the hash being collision-free on the rules of the file, which is the hypothesis it is — equal texts.
   (The defect repaired by 26f0f40 was of this kind on the statement side: `always` was rendered but not hashed.) *)
From Coq Require Import Ascii String.
From Coq Require Import List Arith Bool NArith Lia.
Import ListNotations.
Require Import Laze.model.Base Laze.model.Env Laze.model.Expand Laze.model.Path Laze.model.Hash Laze.model.Ninja
               Laze.model.Ctx Laze.model.Generate.
Require Import Laze.proofs.BaseFacts Laze.proofs.PathFacts Laze.proofs.StmtFacts Laze.proofs.WfFacts.
Open Scope list_scope.

(* ---------- names of named rules decompose uniquely ---------- *)
Lemma app_sep_first {A} (c : A) : forall l1 l2 r1 r2, ~ In c l1 -> ~ In c l2 ->
  l1 ++ c :: r1 = l2 ++ c :: r2 -> l1 = l2 /\ r1 = r2.
Proof.
  induction l1 as [|x t IH]; intros l2 r1 r2 H1 H2 E; destruct l2 as [|y u]; cbn in E.
  - injection E as ->. split; reflexivity.
  - injection E as <- _. exfalso. apply H2. left. reflexivity.
  - injection E as -> _. exfalso. apply H1. left. reflexivity.
  - injection E as -> E. destruct (IH u r1 r2) as [-> ->]; [intros Hi; apply H1; right; exact Hi|intros Hi; apply H2; right; exact Hi|exact E|].
    split; reflexivity.
Qed.

Lemma app_sep_last {A} (c : A) a1 d1 a2 d2 : ~ In c d1 -> ~ In c d2 ->
  a1 ++ c :: d1 = a2 ++ c :: d2 -> a1 = a2 /\ d1 = d2.
Proof.
  intros H1 H2 E. apply (f_equal (@rev A)) in E. rewrite !rev_app_distr in E. cbn [rev] in E. rewrite <- !app_assoc in E. cbn [app] in E.
  destruct (app_sep_first c (rev d1) (rev d2) (rev a1) (rev a2)) as [Ed Ea];
    [rewrite <- in_rev; exact H1|rewrite <- in_rev; exact H2|exact E|].
  split; [rewrite <- (rev_involutive a1), Ea, rev_involutive; reflexivity|rewrite <- (rev_involutive d1), Ed, rev_involutive; reflexivity].
Qed.

Definition ch_us : ascii := "_"%char.

Lemma show_dec_go_no_us : forall f n acc, ~ In ch_us acc -> ~ In ch_us (show_dec_go f n acc).
Proof.
  induction f as [|f IH]; intros n acc Ha; cbn [show_dec_go]; [exact Ha|].
  assert (Hd : ascii_of_N (48 + N.modulo n 10) <> ch_us).
  { intros E. apply (f_equal N_of_ascii) in E. rewrite N_ascii_embedding in E.
    - change (N_of_ascii ch_us) with 95%N in E. pose proof (N.mod_upper_bound n 10 ltac:(discriminate)) as Hm. lia.
    - pose proof (N.mod_upper_bound n 10 ltac:(discriminate)) as Hm. lia. }
  destruct (N.ltb n 10).
  - intros [E|Hi]; [apply Hd; exact E|apply Ha, Hi].
  - apply IH. intros [E|Hi]; [apply Hd; exact E|apply Ha, Hi].
Qed.
Lemma show_dec_no_us n : ~ In ch_us (show_dec n).
Proof. unfold show_dec. apply show_dec_go_no_us. intros []. Qed.

Section Once.
  Variable H : list ascii -> N.
  Variable EV : str -> evr.

  (* the fields the hash covers: everything but the export list (which is folded into the command
     before hashing) *)
  Definition hashed_view (r : nrule) :=
    (nr_name r, nr_command r, nr_description r, nr_deps r, nr_pool r, nr_always r, nr_rspfile r, nr_rspfile_content r).

  (* collision-freeness of the 64-bit hash on rules, stated as the hypothesis it is *)
  Hypothesis rule_hash_inj : forall r1 r2, rule_hash H r1 = rule_hash H r2 -> hashed_view r1 = hashed_view r2.

  Definition is_named (r : nrule) : Prop := exists r0, r = named H r0.

  Theorem named_same_name_same_text r1 r2 :
    nr_name (named H r1) = nr_name (named H r2) -> show_rule (named H r1) = show_rule (named H r2).
  Proof.
    unfold named, with_name. cbn [nr_name]. intros E.
    change (S_ "_" ++ show_dec (rule_hash H r1)) with (ch_us :: show_dec (rule_hash H r1)) in E.
    change (S_ "_" ++ show_dec (rule_hash H r2)) with (ch_us :: show_dec (rule_hash H r2)) in E.
    destruct (app_sep_last ch_us _ _ _ _ (show_dec_no_us _) (show_dec_no_us _) E) as [En Ed].
    apply show_dec_inj in Ed. pose proof (rule_hash_inj _ _ Ed) as Ev. unfold hashed_view in Ev.
    injection Ev as E1 E2 E3 E4 E5 E6 E7 E8.
    unfold show_rule. cbn [nr_name nr_command nr_description nr_deps nr_rspfile nr_rspfile_content nr_pool].
    rewrite E1, E2, E3, E4, E5, E7, E8, Ed. reflexivity.
  Qed.

  (* ---------- every rule statement of a generated file is a named rule ---------- *)
  Definition NR (l : list stmt) : Prop := forall r, In (SRule r) l -> is_named r.
  Definition NRst (st : loopst) : Prop := NR (ls_entries st).

  Lemma sset_insert_in s l x : In x (sset_insert s l) -> In x l \/ x = s.
  Proof.
    unfold sset_insert. destruct (existsb _ l); [left; assumption|]. intros Hi. apply in_app_or in Hi.
    destruct Hi as [Hi|[<-|[]]]; [left; exact Hi|right; reflexivity].
  Qed.
  Lemma NR_nil : NR []. Proof. intros r []. Qed.
  Lemma NR_sset_rule r l : is_named r -> NR l -> NR (sset_insert (SRule r) l).
  Proof. intros Hn Hl x Hx. apply sset_insert_in in Hx. destruct Hx as [Hx|[= ->]]; [apply Hl, Hx|exact Hn]. Qed.
  Lemma NR_sset_build b l : NR l -> NR (sset_insert (SBuild b) l).
  Proof. intros Hl x Hx. apply sset_insert_in in Hx. destruct Hx as [Hx|Hx]; [apply Hl, Hx|discriminate Hx]. Qed.
  Lemma NRst_rule r st : is_named r -> NRst st -> NRst (add_entry (SRule r) st).
  Proof. intros Hn Hs. unfold NRst. cbn [add_entry ls_entries]. apply NR_sset_rule; assumption. Qed.
  Lemma NRst_build b st : NRst st -> NRst (add_entry (SBuild b) st).
  Proof. intros Hs. unfold NRst. cbn [add_entry ls_entries]. apply NR_sset_build; assumption. Qed.

  Lemma to_ninja_named env r nr : to_ninja H EV env r = Ok nr -> is_named nr.
  Proof.
    unfold to_ninja, rmap. destruct (rule_expand EV env (rule_to_nrule r)) as [x| | |]; cbn [rbind]; try discriminate.
    intros [= <-]. exists x. reflexivity.
  Qed.

  Lemma compile_source_nr rules mr flat objdir bn an srcdir combined dh local tag st source st' :
    NRst st -> compile_source H EV rules mr flat objdir bn an srcdir combined dh local tag st source = Ok st' -> NRst st'.
  Proof.
    unfold compile_source. intros HI HC.
    inv_step HC. inv_step HC. destruct a0 as [rule nrule]. inv_step HC. injection HC as <-.
    destruct local as [ld|]; [apply NRst_build|destruct tag as [tf|]; [apply NRst_build|]];
      unfold NRst; cbn [add_object ls_entries]; apply NR_sset_build; exact HI.
  Qed.

  Lemma download_stmts_nr rules flat m srcdir d l st :
    download_stmts H EV rules flat m srcdir d = Ok l -> NRst st -> NRst (fold_left (fun s e => add_entry e s) l st).
  Proof.
    unfold download_stmts. intros HD HI.
    destruct (dl_source_of d) as [url commit|]; [|discriminate].
    destruct (get_rule (S_ "GIT_DOWNLOAD") rules) as [dr|]; [|discriminate].
    inv_step HD. rename a into ndr. pose proof (to_ninja_named _ _ _ E) as Nd.
    destruct (dl_patches d) as [patches|].
    - destruct (get_rule (S_ "GIT_PATCH") rules) as [pr|]; [|discriminate].
      inv_step HD. rename a into npr. pose proof (to_ninja_named _ _ _ E0) as Np. injection HD as <-. cbn [fold_left].
      apply NRst_build, NRst_rule; [exact Np|]. apply NRst_build, NRst_rule; [exact Nd|exact HI].
    - injection HD as <-. cbn [fold_left]. apply NRst_build, NRst_rule; [exact Nd|exact HI].
  Qed.

  Lemma rules_pass_nr rules flat : forall srcs (mr : list (str * nrule)) st mr' st',
    NRst st ->
    fold_left (fun acc source => rbind acc (fun '(mr, s) =>
                match extension source with
                | None => Err e_missing_ext
                | Some e =>
                    match alookup e rules with
                    | None => Err e_no_rule
                    | Some rule =>
                        rbind (to_ninja H EV flat rule) (fun nr =>
                        Ok (match alookup e mr with Some _ => mr | None => mr ++ [(e, nr)] end,
                            add_entry (SRule nr) s))
                    end
                end)) srcs (Ok (mr, st)) = Ok (mr', st') -> NRst st'.
  Proof.
    induction srcs as [|src t IH]; intros mr st mr' st' HI HF; cbn [fold_left] in HF.
    - injection HF as _ <-. exact HI.
    - cbn [rbind] in HF.
      destruct (extension src) as [e|]; [|exfalso; clear -HF; induction t; cbn in HF; [discriminate|auto]].
      destruct (alookup e rules) as [rule|]; [|exfalso; clear -HF; induction t; cbn in HF; [discriminate|auto]].
      destruct (to_ninja H EV flat rule) as [nr| | |] eqn:En; cbn [rbind] in HF;
        try (exfalso; clear -HF; induction t; cbn in HF; [discriminate|auto]).
      apply IH in HF; [exact HF|]. apply NRst_rule; [eapply to_ninja_named; exact En|exact HI].
  Qed.

  Lemma sources_pass_nr rules mr flat objdir bn an srcdir combined dh local tag : forall srcs st st',
    NRst st ->
    fold_left (fun acc source => rbind acc (fun s =>
                 compile_source H EV rules mr flat objdir bn an srcdir combined dh local tag s source)) srcs (Ok st) = Ok st' ->
    NRst st'.
  Proof.
    induction srcs as [|src t IH]; intros st st' HI HF; cbn [fold_left] in HF.
    - injection HF as <-. exact HI.
    - cbn [rbind] in HF.
      destruct (compile_source H EV rules mr flat objdir bn an srcdir combined dh local tag st src) as [s1| | |] eqn:Ec;
        try (exfalso; clear -HF; induction t; cbn in HF; [discriminate|auto]).
      apply IH in HF; [exact HF|]. eapply compile_source_nr; [exact HI|exact Ec].
  Qed.

  Lemma module_step_nr rules merge_opts ms gdeps objdir bn an st mm st' :
    NRst st -> module_step H EV rules merge_opts ms gdeps objdir bn an st mm = Ok st' -> NRst st'.
  Proof.
    unfold module_step. destruct mm as [[m menv] mdeps]. intros HI HS.
    destruct (m_srcdir m) as [srcdir|]; [|injection HS as <-; exact HI].
    destruct (flatten_with_opts_option merge_opts menv) as [flat| | |]; cbn [rbind] in HS; try discriminate.
    match type of HS with rbind ?X _ = _ => destruct X as [dl_stmts| | |] eqn:Edl end; cbn [rbind] in HS; try discriminate.
    assert (I0 : NRst (fold_left (fun s e => add_entry e s) dl_stmts st)).
    { destruct (m_download m) as [d|]; [exact (download_stmts_nr _ _ _ _ _ _ _ Edl HI)|].
      injection Edl as <-. exact HI. }
    set (st0 := fold_left (fun s e => add_entry e s) dl_stmts st) in *. clearbody st0.
    match type of HS with rbind ?X _ = _ => destruct X as [[sta tag]| | |] eqn:Esta end; cbn [rbind] in HS; try discriminate.
    assert (Ia : NRst sta).
    { destruct (m_download m) as [d|].
      - injection Esta as <- _. exact I0.
      - unfold rmap in Esta. destruct (expand_eval EV flat PIgnore srcdir); cbn [rbind] in Esta; try discriminate.
        injection Esta as <- _. exact I0. }
    clear Esta.
    match type of HS with rbind ?X _ = _ => destruct X as [imported0| | |] end; cbn [rbind] in HS; try discriminate.
    match type of HS with context [match m_build_dep_files m with Some l => add_depfiles (m_name m) l sta | None => sta end] =>
      set (st1 := match m_build_dep_files m with Some l => add_depfiles (m_name m) l sta | None => sta end) in HS end.
    assert (I1 : NRst st1) by (unfold st1; destruct (m_build_dep_files m); exact Ia).
    clearbody st1.
    destruct (m_build m) as [cb|].
    - repeat (match type of HS with rbind ?X _ = _ => destruct X end; cbn [rbind] in HS; try discriminate).
      injection HS as <-.
      apply NRst_build, NRst_build, NRst_rule; [eexists; reflexivity|exact I1].
    - match type of HS with rbind ?X _ = _ => destruct X as [[mr st2]| | |] eqn:Epass end; cbn [rbind] in HS; try discriminate.
      pose proof (rules_pass_nr _ _ _ _ _ _ _ I1 Epass) as I2.
      exact (sources_pass_nr _ _ _ _ _ _ _ _ _ _ _ _ _ _ I2 HS).
  Qed.

  Lemma loop_nr rules merge_opts ms gdeps objdir bn an : forall in_order st st',
    NRst st ->
    fold_left (fun acc mm => rbind acc (fun st0 => module_step H EV rules merge_opts ms gdeps objdir bn an st0 mm))
              in_order (Ok st) = Ok st' -> NRst st'.
  Proof.
    induction in_order as [|mm t IH]; intros st st' HI HF; cbn [fold_left] in HF.
    - injection HF as <-. exact HI.
    - cbn [rbind] in HF.
      destruct (module_step H EV rules merge_opts ms gdeps objdir bn an st mm) as [s1| | |] eqn:Es;
        try (exfalso; clear -HF; induction t; cbn in HF; [discriminate|auto]).
      apply (IH s1 st'); [|exact HF]. exact (module_step_nr _ _ _ _ _ _ _ _ _ _ HI Es).
  Qed.
End Once.

(* ---------- one build, and the union over all builds ---------- *)
Require Import Laze.model.Allow Laze.model.Resolver Laze.model.Imports Laze.proofs.GenerateFacts.

Section OnceBuild.
  Variable H : list ascii -> N.
  Variable EV : str -> evr.

  Theorem configure_build_nr b le builder binary select disable cli_env info entries :
    configure_build H EV b le builder binary select disable cli_env = Ok (Built info entries) -> NR H entries.
  Proof.
    unfold configure_build. intros HC.
    repeat (inv_step HC).
    all: repeat match type of HC with
                | (let '(_, _) := ?p in _) = _ => destruct p
                end; repeat (inv_step HC).
    all: try discriminate.
    match goal with
    | E : fold_left _ ?l (Ok ?s0) = Ok ?st |- _ =>
        match type of st with loopst => apply (loop_nr H EV _ _ _ _ _ _ _ l s0 st (NR_nil H)) in E; unfold NRst in E; rename E into Hst end
    end.
    injection HC as _ <-.
    match goal with
    | E : match get_rule (S_ "POST_LINK") ?rs with _ => _ end = Ok (_, ?l0) |- NR H ?l0 =>
        destruct (get_rule (S_ "POST_LINK") rs) as [prule|];
          [destruct (r_out prule); [|discriminate E]; inv_step E; injection E as _ <-|injection E as _ <-]
    end.
    all: repeat first [ apply NR_sset_build | apply NR_sset_rule; [eapply to_ninja_named; eassumption|] ]; exact Hst.
  Qed.

  Lemma fold_sset_nr : forall es acc, NR H acc -> NR H es -> NR H (fold_left (fun a e => sset_insert e a) es acc).
  Proof.
    induction es as [|e t IH]; intros acc Ha He; cbn [fold_left]; [exact Ha|].
    apply IH; [|intros r Hr; apply He; right; exact Hr].
    intros r Hr. apply sset_insert_in in Hr. destruct Hr as [Hr|Hr]; [apply Ha, Hr|]. apply He. left. symmetry. exact Hr.
  Qed.

  Lemma union_nr (results : list ((nat * module) * cfg_result)) : forall acc,
    NR H acc -> (forall r i es, In r results -> snd r = Built i es -> NR H es) ->
    NR H (fold_left (fun acc r => match snd r with
                                  | Built _ es => fold_left (fun a e => sset_insert e a) es acc
                                  | NoBuild _ => acc end) results acc).
  Proof.
    induction results as [|r t IH]; intros acc Ha Hr; cbn [fold_left]; [exact Ha|].
    apply IH; [|intros r' i es Hin; apply Hr; right; exact Hin].
    destruct (snd r) as [i es|w] eqn:Er; [|exact Ha].
    apply fold_sset_nr; [exact Ha|]. apply (Hr r i es); [left; reflexivity|exact Er].
  Qed.

  Theorem generate_rules_named b le bsel asel local part select disable cli_env g :
    generate H EV b le bsel asel local part select disable cli_env = Ok g -> NR H (gr_stmts g).
  Proof.
    unfold generate. intros HG.
    destruct (selected_builders b bsel) as [bs| | |]; cbn [rbind] in HG; try discriminate.
    destruct (selected_bins b asel local) as [bins| | |]; cbn [rbind] in HG; try discriminate.
    destruct (rmapM _ (part_filter b part (pairs bs bins))) as [results| | |] eqn:ER; cbn [rbind] in HG; try discriminate.
    injection HG as <-. cbn [gr_stmts]. apply union_nr; [apply NR_nil|].
    intros r i es Hin Hs. apply rmapM_ok in ER.
    assert (G : exists bm, rmap (fun r0 => (bm, r0)) (configure_build H EV b le (fst bm) (snd bm) select disable cli_env) = Ok r).
    { clear -ER Hin. induction ER as [|x y l l' Hxy _ IH]; [contradiction|].
      destruct Hin as [<-|Hin]; [exists x; exact Hxy|exact (IH Hin)]. }
    destruct G as (bm & E). unfold rmap in E.
    destruct (configure_build H EV b le (fst bm) (snd bm) select disable cli_env) as [c| | |] eqn:Ec; cbn [rbind] in E; try discriminate.
    injection E as <-. cbn [snd] in Hs. subst c. exact (configure_build_nr _ _ _ _ _ _ _ _ _ Ec).
  Qed.

  (* C06, one clause: in every generated file, rule statements with one name have one text — a rule is
     defined once (statements are kept once per text) — given that the rule hash has no collision *)
  Theorem generate_rule_defined_once b le bsel asel local part select disable cli_env g :
    (forall r1 r2, rule_hash H r1 = rule_hash H r2 -> hashed_view r1 = hashed_view r2) ->
    generate H EV b le bsel asel local part select disable cli_env = Ok g ->
    forall r1 r2, In (SRule r1) (gr_stmts g) -> In (SRule r2) (gr_stmts g) -> nr_name r1 = nr_name r2 ->
    show_rule r1 = show_rule r2.
  Proof.
    intros Hinj HG r1 r2 H1 H2 En. pose proof (generate_rules_named _ _ _ _ _ _ _ _ _ _ HG) as N.
    destruct (N r1 H1) as [x1 ->]. destruct (N r2 H2) as [x2 ->].
    apply (named_same_name_same_text H Hinj). exact En.
  Qed.
End OnceBuild.
