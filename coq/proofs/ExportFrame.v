(* ExportFrame.v — C05 at the level of environments, stated with the reachability relation of
   ImportsClosure: replacing modules by variants that differ only in their env (same name, context,
   imports, flags) leaves the environment of a module X unchanged provided the EXPORTED env of every
   module X reaches is unchanged and X's own local env is.  Hence: editing the local env of M changes no
   other module's environment; editing the exported env of M changes only M and the modules that use or
   depend on M, directly or transitively. *)
From Coq Require Import Ascii String.
From Coq Require Import List Arith Bool NArith Lia.
Import ListNotations.
Require Import Laze.model.Base Laze.model.Env Laze.model.Allow Laze.model.Ninja Laze.model.Ctx Laze.model.Resolver
               Laze.model.Imports.
Require Import Laze.proofs.BaseFacts Laze.proofs.FrameFacts Laze.proofs.ImportsClosure.
Open Scope list_scope.

Section Rename.
  Variable ms : list module.
  Variable provs : list (str * list module).
  Hypothesis provs_selected : forall n y, In y (get_list n provs) -> In y ms.
  Variable phi : module -> module.          (* the edit: every selected module and its variant *)
  Hypothesis phi_name : forall m, In m ms -> m_name (phi m) = m_name m.
  Hypothesis phi_ctx : forall m, In m ms -> m_context_name (phi m) = m_context_name m.
  Hypothesis phi_imports : forall m, In m ms -> m_imports (phi m) = m_imports m.
  Hypothesis phi_build_dep : forall m, In m ms -> m_is_build_dep (phi m) = m_is_build_dep m.
  Hypothesis phi_notify_all : forall m, In m ms -> m_notify_all (phi m) = m_notify_all m.

  Definition map_provs (pv : list (str * list module)) : list (str * list module) :=
    map (fun kv => (fst kv, map phi (snd kv))) pv.

  Lemma find_sel_phi_l n : forall l, incl l ms -> find_sel n (map phi l) = option_map phi (find_sel n l).
  Proof.
    unfold find_sel. induction l as [|x t IH]; intros Hl; [reflexivity|]. cbn [map find].
    rewrite (phi_name x (Hl x (or_introl eq_refl))).
    destruct (str_eqb n (m_name x)); [reflexivity|]. apply IH. intros y Hy. apply Hl. right. exact Hy.
  Qed.
  Lemma find_sel_phi n : find_sel n (map phi ms) = option_map phi (find_sel n ms).
  Proof. apply find_sel_phi_l, incl_refl. Qed.

  Lemma find_sel_in n o : find_sel n ms = Some o -> In o ms.
  Proof. unfold find_sel. intros E. apply find_some in E. exact (proj1 E). Qed.

  Lemma get_list_phi n pv : get_list n (map_provs pv) = map phi (get_list n pv).
  Proof.
    induction pv as [|[k v] t IH]; [reflexivity|]. cbn [map_provs map get_list fst snd].
    destruct (str_eqb n k); [reflexivity|exact IH].
  Qed.

  Lemma import_target_phi d : import_target (map phi ms) d = import_target ms d.
  Proof.
    destruct d as [n|n|o n|o n]; cbn [import_target]; try reflexivity; rewrite find_sel_phi; destruct (find_sel o ms); reflexivity.
  Qed.

  Lemma dep_targets_phi d : dep_targets (map phi ms) (map_provs provs) d = map phi (dep_targets ms provs d).
  Proof.
    unfold dep_targets. rewrite import_target_phi. destruct (import_target ms d) as [n|]; [|reflexivity].
    rewrite get_list_phi, find_sel_phi, map_app. destruct (find_sel n ms); reflexivity.
  Qed.

  Lemma succs_phi m : In m ms -> succs (map phi ms) (map_provs provs) (phi m) = map phi (succs ms provs m).
  Proof.
    intros Hm. unfold succs. rewrite (phi_imports m Hm). induction (m_imports m) as [|d t IH]; [reflexivity|].
    cbn [flat_map]. rewrite map_app, dep_targets_phi, IH. reflexivity.
  Qed.

  Lemma imports_rec_phi : forall f seen m, In m ms ->
    imports_rec f (map phi ms) (map_provs provs) seen (phi m) =
    (map phi (fst (imports_rec f ms provs seen m)), snd (imports_rec f ms provs seen m)).
  Proof.
    induction f as [|f IH]; intros seen m Hm; [reflexivity|].
    rewrite !imports_rec_unfold. rewrite (phi_name m Hm). destruct (mem_str (m_name m) seen); [reflexivity|].
    rewrite (succs_phi m Hm).
    assert (Hv : forall acc x, In x ms ->
              visit (map phi ms) (map_provs provs) f (map phi (fst acc), snd acc) (phi x) =
              (map phi (fst (visit ms provs f acc x)), snd (visit ms provs f acc x))).
    { intros acc x Hx. unfold visit. cbn [fst snd]. rewrite (IH _ _ Hx).
      destruct (imports_rec f ms provs (snd acc) x) as [r s]. cbn [fst snd]. rewrite map_app. reflexivity. }
    assert (Hvl : forall l acc, incl l ms ->
              fold_left (visit (map phi ms) (map_provs provs) f) (map phi l) (map phi (fst acc), snd acc) =
              (map phi (fst (fold_left (visit ms provs f) l acc)), snd (fold_left (visit ms provs f) l acc))).
    { induction l as [|x t IHl]; intros acc Hl; cbn [map fold_left]; [reflexivity|].
      rewrite (Hv acc x (Hl x (or_introl eq_refl))). rewrite <- IHl; [|intros y Hy; apply Hl; right; exact Hy].
      destruct (visit ms provs f acc x); reflexivity. }
    assert (Hsucc : incl (succs ms provs m) ms) by (intros y Hy; exact (succs_selected ms provs provs_selected m y Hy)).
    pose proof (Hvl (succs ms provs m) ([], m_name m :: seen) Hsucc) as E. cbn [fst snd map] in E. rewrite E.
    destruct (fold_left (visit ms provs f) (succs ms provs m) ([], m_name m :: seen)) as [res s1]. cbn [fst snd].
    rewrite map_app. reflexivity.
  Qed.

  Lemma imports_postorder_phi self : In self ms ->
    imports_postorder (map phi ms) (map_provs provs) (phi self) = map phi (imports_postorder ms provs self).
  Proof. intros Hs. unfold imports_postorder. rewrite map_length, (imports_rec_phi _ _ _ Hs). reflexivity. Qed.

  (* the environment of X after the edit equals the one before, if the exports of everything in X's import list and
     X's own local env are untouched *)
  Theorem env_unchanged_by_edit genv X : In X ms ->
    (forall d, In d (imports_postorder ms provs X) -> m_env_export (phi d) = m_env_export d) ->
    m_env_local (phi X) = m_env_local X ->
    rmap fst (build_env genv (map phi ms) (map_provs provs) (phi X)) = rmap fst (build_env genv ms provs X).
  Proof.
    intros HX Hexp Hloc. apply module_env_frame.
    - rewrite (imports_postorder_phi X HX), map_map. apply map_ext_in. intros d Hd.
      assert (Hdm : In d ms) by exact (proj2 (imports_postorder_sound ms provs provs_selected X d HX Hd)).
      unfold import_view, module_define, module_eqb.
      rewrite (Hexp d Hd), (phi_name d Hdm), (phi_ctx d Hdm), (phi_name X HX), (phi_ctx X HX), (phi_build_dep d Hdm). reflexivity.
    - apply phi_notify_all, HX.
    - assert (E : forall l, incl l ms ->
                  map module_define (filter (fun d => negb (is_context_module d)) (map phi l)) =
                  map module_define (filter (fun d => negb (is_context_module d)) l)).
      { induction l as [|x t IH]; intros Hl; [reflexivity|]. cbn [map filter].
        assert (Hx : In x ms) by (apply Hl; left; reflexivity).
        assert (Hc : is_context_module (phi x) = is_context_module x) by (unfold is_context_module; rewrite (phi_name x Hx); reflexivity).
        assert (Hd : module_define (phi x) = module_define x) by (unfold module_define; rewrite (phi_name x Hx); reflexivity).
        assert (IH' := IH (fun y Hy => Hl y (or_intror Hy))).
        rewrite Hc. destruct (negb (is_context_module x)); cbn [map]; [rewrite Hd; f_equal|]; exact IH'. }
      apply E, incl_refl.
    - exact Hloc.
  Qed.
End Rename.

(* ---------- the two clauses of the property ---------- *)
Section Clauses.
  Variable ms : list module.
  Variable provs : list (str * list module).
  Hypothesis provs_selected : forall n y, In y (get_list n provs) -> In y ms.
  Hypothesis names_unique : NoDup (map m_name ms).
  Variable M M' : module.                     (* the edited module, before and after *)
  Hypothesis M_selected : In M ms.
  Hypothesis same_name : m_name M' = m_name M.
  Hypothesis same_ctx : m_context_name M' = m_context_name M.
  Hypothesis same_imports : m_imports M' = m_imports M.
  Hypothesis same_build_dep : m_is_build_dep M' = m_is_build_dep M.
  Hypothesis same_notify_all : m_notify_all M' = m_notify_all M.

  (* the project after the edit: M' in the place of M *)
  Definition edit (m : module) : module := if str_eqb (m_name m) (m_name M) then M' else m.

  Lemma edit_M m : In m ms -> m_name m = m_name M -> m = M.
  Proof. intros Hm E. exact (same_name_same_module ms names_unique m M Hm M_selected E). Qed.

  Lemma edit_other m : m_name m <> m_name M -> edit m = m.
  Proof. intros Hn. unfold edit. destruct (str_eqb (m_name m) (m_name M)) eqn:E; [apply str_eqb_eq in E; contradiction|reflexivity]. Qed.

  Ltac edit_case m Hm :=
    unfold edit; destruct (str_eqb (m_name m) (m_name M)) eqn:E; [apply str_eqb_eq in E; rewrite (edit_M m Hm E)|reflexivity].

  Lemma edit_name m : In m ms -> m_name (edit m) = m_name m.
  Proof. intros Hm. edit_case m Hm. exact same_name. Qed.
  Lemma edit_ctx m : In m ms -> m_context_name (edit m) = m_context_name m.
  Proof. intros Hm. edit_case m Hm. exact same_ctx. Qed.
  Lemma edit_imports m : In m ms -> m_imports (edit m) = m_imports m.
  Proof. intros Hm. edit_case m Hm. exact same_imports. Qed.
  Lemma edit_build_dep m : In m ms -> m_is_build_dep (edit m) = m_is_build_dep m.
  Proof. intros Hm. edit_case m Hm. exact same_build_dep. Qed.
  Lemma edit_notify_all m : In m ms -> m_notify_all (edit m) = m_notify_all m.
  Proof. intros Hm. edit_case m Hm. exact same_notify_all. Qed.

  (* editing the LOCAL env of M (its exports stay): the environment of every other module is unchanged *)
  Theorem local_edit_changes_only_the_module genv X :
    m_env_export M' = m_env_export M -> In X ms -> m_name X <> m_name M ->
    rmap fst (build_env genv (map edit ms) (map_provs edit provs) X) = rmap fst (build_env genv ms provs X).
  Proof.
    intros Hexp HX Hn. rewrite <- (edit_other X Hn) at 1.
    apply (env_unchanged_by_edit ms provs provs_selected edit edit_name edit_ctx edit_imports edit_build_dep edit_notify_all genv X HX).
    - intros d Hd. unfold edit. destruct (str_eqb (m_name d) (m_name M)) eqn:E; [|reflexivity].
      apply str_eqb_eq in E.
      rewrite (edit_M d (proj2 (imports_postorder_sound ms provs provs_selected X d HX Hd)) E). exact Hexp.
    - rewrite (edit_other X Hn). reflexivity.
  Qed.

  (* editing the EXPORTED (and local) env of M: the environment of every module that does not reach M through active
     imports is unchanged — only M and the modules that use or depend on it, directly or transitively, can change *)
  Theorem export_edit_changes_only_importers genv X :
    In X ms -> ~ reach ms provs X M ->
    rmap fst (build_env genv (map edit ms) (map_provs edit provs) X) = rmap fst (build_env genv ms provs X).
  Proof.
    intros HX Hnr.
    assert (Hn : m_name X <> m_name M).
    { intros E. apply Hnr. rewrite (edit_M X HX E). apply Relation_Operators.rt_refl. }
    rewrite <- (edit_other X Hn) at 1.
    apply (env_unchanged_by_edit ms provs provs_selected edit edit_name edit_ctx edit_imports edit_build_dep edit_notify_all genv X HX).
    - intros d Hd. unfold edit. destruct (str_eqb (m_name d) (m_name M)) eqn:E; [|reflexivity].
      exfalso. apply str_eqb_eq in E. apply Hnr.
      destruct (imports_postorder_sound ms provs provs_selected X d HX Hd) as [Hr Hdm].
      rewrite <- (edit_M d Hdm E). exact Hr.
    - rewrite (edit_other X Hn). reflexivity.
  Qed.
End Clauses.
