(* OutTargets.v — C06: every configured build's output file is a target of the generated file:
   some build statement of the file has exactly that path as its output (the LINK statement, or
   the POST_LINK statement when such a rule exists). *)
From Coq Require Import Ascii String.
From Coq Require Import List Arith Bool NArith Lia.
Import ListNotations.
Require Import Laze.model.Base Laze.model.Env Laze.model.Expand Laze.model.Path Laze.model.Hash Laze.model.Allow
               Laze.model.Ninja Laze.model.Ctx Laze.model.Resolver Laze.model.Imports Laze.model.Generate.
Require Import Laze.proofs.PathFacts Laze.proofs.BaseFacts Laze.proofs.StmtFacts Laze.proofs.GenerateFacts Laze.proofs.WfFacts Laze.proofs.CacheNarrow.
Open Scope list_scope.

Section Out.
  Variable H : list ascii -> N.
  Variable EV : str -> evr.

  Lemma configure_build_out_target b le builder binary select disable cli_env info entries :
    configure_build H EV b le builder binary select disable cli_env = Ok (Built info entries) ->
    exists bld, In (show_stmt (SBuild bld)) (map show_stmt entries) /\ nb_outs bld = [bi_out info].
  Proof.
    unfold configure_build. intros HC.
    repeat (inv_step HC).
    all: repeat match type of HC with
                | (let '(_, _) := ?p in _) = _ => destruct p
                end; repeat (inv_step HC).
    all: try discriminate.
    injection HC as <- <-. cbn [bi_out].
    match goal with
    | E : match get_rule (S_ "POST_LINK") ?rs with _ => _ end = Ok (_, _) |- _ =>
        destruct (get_rule (S_ "POST_LINK") rs) as [prule|];
          [destruct (r_out prule); [|discriminate E]; inv_step E; injection E as <- <-|injection E as <- <-]
    end.
    - eexists. split; [apply sset_insert_text; right; reflexivity|reflexivity].
    - eexists. split; [apply sset_insert_text; right; reflexivity|reflexivity].
  Qed.

  (* every configured build's output file is a target of the file *)
  Theorem generated_outputs_are_targets b le bsel asel local part select disable cli_env g :
    generate H EV b le bsel asel local part select disable cli_env = Ok g ->
    forall info, In info (gr_builds g) ->
    exists bld, In (show_stmt (SBuild bld)) (map show_stmt (gr_stmts g)) /\ nb_outs bld = [bi_out info].
  Proof.
    intros HG info Hin.
    destruct (generate_builds H EV _ _ _ _ _ _ _ _ _ _ HG) as (bs & bins & Hbs & Hbins & Hbuilds).
    destruct (generate_shape H EV _ _ _ _ _ _ _ _ _ _ HG) as (_ & _ & bs' & bins' & Hbs' & Hbins' & Htexts).
    rewrite Hbs in Hbs'. injection Hbs' as <-. rewrite Hbins in Hbins'. injection Hbins' as <-.
    apply Hbuilds in Hin. destruct Hin as (bm & es & Hbm & Hc). unfold cfg in Hc.
    destruct (configure_build_out_target _ _ _ _ _ _ _ _ _ Hc) as (bld & Ht & Ho).
    exists bld. split; [|exact Ho]. apply Htexts. exists bm, info, es. split; [exact Hbm|]. split; [exact Hc|exact Ht].
  Qed.
End Out.

(* ---------- the paths laze chooses itself extend the build directory ---------- *)
Lemma last_char_cons_none c t : last_char (c :: t) <> None.
Proof. revert c. induction t as [|d t IH]; intros c; cbn [last_char]; [discriminate|apply IH]. Qed.

Lemma path_push_extends a b : is_absolute b = false -> exists rest, path_push a b = a ++ rest.
Proof.
  intros Hb. unfold path_push. rewrite Hb. destruct a as [|c t]; [exists b; reflexivity|].
  destruct (last_char (c :: t)) as [l|] eqn:E.
  - destruct (is_slash l); [exists b; reflexivity|exists (ch_slash :: b); reflexivity].
  - exfalso. exact (last_char_cons_none c t E).
Qed.

Lemma extends_trans (a b c : str) : (exists r, b = a ++ r) -> (exists r, c = b ++ r) -> exists r, c = a ++ r.
Proof. intros [r1 ->] [r2 ->]. exists (r1 ++ r2). rewrite app_assoc. reflexivity. Qed.

(* objects: below <build-dir>/objects for EVERY source path (an absolute one is made relative before
   it is pushed: rel_root) and relative builder / app names *)
Theorem object_under_build_dir build_dir bn an shareable src h rout :
  is_absolute bn = false -> is_absolute an = false ->
  exists rest, object_path (path_push build_dir (S_ "objects")) bn an shareable src h rout = build_dir ++ rest.
Proof.
  intros Hb Ha. unfold object_path.
  apply (extends_trans build_dir (path_push build_dir (S_ "objects"))); [apply path_push_extends; reflexivity|].
  destruct shareable.
  - apply path_push_extends, rel_root_relative.
  - eapply extends_trans; [apply (path_push_extends _ bn Hb)|].
    eapply extends_trans; [apply (path_push_extends _ an Ha)|]. apply path_push_extends, rel_root_relative.
Qed.

(* a non-shareable object lies below <objdir>/<builder>/<app>, whatever the source path *)
Theorem nonshareable_under_builder_app objdir bn an src h rout :
  exists rest, object_path objdir bn an false src h rout = path_push (path_push objdir bn) an ++ rest.
Proof. unfold object_path. apply path_push_extends, rel_root_relative. Qed.

(* download directories and tag files: below <build-dir>/dl for relative dldir / relpath / name *)
Theorem download_under_build_dir build_dir d relpath name :
  match dl_dldir d with Some dir => is_absolute dir = false | None => is_absolute relpath = false /\ is_absolute name = false end ->
  (exists rest, dl_srcdir build_dir d relpath name = build_dir ++ rest) /\
  (exists rest, dl_tagfile d (dl_srcdir build_dir d relpath name) = build_dir ++ rest).
Proof.
  intros Hd.
  assert (Hs : exists rest, dl_srcdir build_dir d relpath name = build_dir ++ rest).
  { unfold dl_srcdir. apply (extends_trans build_dir (path_push build_dir (S_ "dl"))); [apply path_push_extends; reflexivity|].
    destruct (dl_dldir d) as [dir|].
    - apply path_push_extends, Hd.
    - destruct Hd as [Hr Hn]. eapply extends_trans; [apply (path_push_extends _ relpath Hr)|]. apply path_push_extends, Hn. }
  split; [exact Hs|]. eapply extends_trans; [exact Hs|].
  unfold dl_tagfile, dl_tagfile_patched, dl_tagfile_download. destruct (dl_patches d); apply path_push_extends; reflexivity.
Qed.
