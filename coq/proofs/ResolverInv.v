(* ResolverInv.v — state invariants of the resolver (C02): a generic preservation theorem and
   its instance for disabled / conflicting / uniquely provided modules. *)
From Coq Require Import Ascii String.
From Coq Require Import List Arith Bool NArith Lia.
Import ListNotations.
Require Import Laze.model.Base Laze.model.Env Laze.model.Allow Laze.model.Ninja Laze.model.Ctx
        Laze.model.Resolver Laze.proofs.BaseFacts.
Open Scope list_scope.

Section Generic.
  Variable lookup : str -> option module.
  Variable provs : str -> option (list str).
  Variable Inv : rstate -> Prop.
  Hypothesis Inv_ifthen : forall st o d, Inv st -> Inv (add_ifthen o d st).
  Hypothesis Inv_enter : forall st m, Inv st -> selected (m_name m) st = false -> blocked st m = false ->
                                      Inv (enter st m).

  Definition rec_ok (rec : rstate -> module -> res rstate) :=
    forall st m st', Inv st -> rec st m = Ok st' -> Inv st'.

  Lemma by_name_inv rec : rec_ok rec -> forall st n st', Inv st -> by_name lookup rec st n = Ok st' -> Inv st'.
  Proof. unfold by_name; intros Hr st n st' Hi H. destruct (lookup n); [eauto|discriminate]. Qed.

  Lemma rlist_inv rec : rec_ok rec -> forall pn ps cur cnt st' cnt', Inv cur ->
    rlist lookup rec pn ps cur cnt = Ok (st', cnt') -> Inv st'.
  Proof.
    intros Hr pn ps; induction ps as [|p ps IH]; cbn [rlist]; intros cur cnt st' cnt' Hi H.
    - inversion H; subst; auto.
    - destruct (selected p cur); [eauto|].
      destruct (has_key pn (disabled cur)).
      + destruct (Nat.ltb 0 cnt); [inversion H; subst; auto | eauto].
      + destruct (by_name lookup rec cur p) eqn:E; try discriminate; eauto using by_name_inv.
  Qed.

  Lemma deps_inv rec : rec_ok rec -> forall ds cur st', Inv cur -> deps lookup provs rec ds cur = Ok st' -> Inv st'.
  Proof.
    intros Hr ds; induction ds as [|d ds IH]; cbn [deps]; intros cur st' Hi H.
    - inversion H; subst; auto.
    - destruct (classify d cur) as [o d'|n opt]; [eauto|].
      destruct (provs n) as [ps|].
      + destruct (rlist lookup rec n ps cur 0) as [[c cnt]| | |] eqn:EL; try discriminate.
        destruct (Nat.ltb 0 cnt) eqn:Ec.
        * assert (Hc : Inv c) by eauto using rlist_inv.
          destruct (true && has_key n (disabled c)); [eauto|].
          destruct (by_name lookup rec c n) eqn:EB; try discriminate; eauto using by_name_inv.
          rewrite orb_true_r in H. eauto.
        * cbn [andb] in H. destruct (by_name lookup rec cur n) eqn:EB; try discriminate; eauto using by_name_inv.
          rewrite orb_false_r in H. destruct opt; [eauto|discriminate].
      + cbn [andb] in H. destruct (by_name lookup rec cur n) eqn:EB; try discriminate; eauto using by_name_inv.
        rewrite orb_false_r in H. destruct opt; [eauto|discriminate].
  Qed.

  (* every state invariant that survives registering an if-then dependency and entering a module
     whose entry tests passed holds for whatever the resolver returns; rollback needs no case
     because a failing attempt returns no state *)
  Theorem resolve_inv : forall f, rec_ok (resolve_deep lookup provs f).
  Proof.
    induction f as [|f IH]; intros st m st' Hi H; cbn [resolve_deep] in H; [discriminate|].
    destruct (selected (m_name m) st) eqn:E1; [inversion H; subst; auto|].
    destruct (blocked st m) eqn:E2; [discriminate|].
    eapply deps_inv; [exact IH| |exact H]. apply Inv_enter; auto.
  Qed.
End Generic.

(* ---------- has_key under app_at ---------- *)
Lemma has_key_app_at {V} k k' (v : V) m : has_key k (app_at k' v m) = has_key k m || str_eqb k k'.
Proof.
  induction m as [|[k2 l] r IH]; cbn.
  - rewrite orb_false_r. reflexivity.
  - destruct (str_eqb k' k2) eqn:E; cbn.
    + apply str_eqb_eq in E. subst. destruct (str_eqb k k2); cbn; [reflexivity|]. rewrite orb_false_r. reflexivity.
    + rewrite IH. rewrite orb_assoc. reflexivity.
Qed.

Lemma has_key_fold_names k (name : str) xs : forall m : list (str * list str),
  has_key k (fold_left (fun d c => app_at c name d) xs m) = has_key k m || mem_str k xs.
Proof.
  induction xs as [|x xs IH]; intros m; cbn [fold_left].
  - unfold mem_str. cbn. rewrite orb_false_r. reflexivity.
  - rewrite IH, has_key_app_at. unfold mem_str. cbn [existsb]. rewrite orb_assoc. reflexivity.
Qed.
Lemma has_key_fold_mods k (v : module) xs : forall m : list (str * list module),
  has_key k (fold_left (fun p x => app_at x v p) xs m) = has_key k m || mem_str k xs.
Proof.
  induction xs as [|x xs IH]; intros m; cbn [fold_left].
  - unfold mem_str. cbn. rewrite orb_false_r. reflexivity.
  - rewrite IH, has_key_app_at. unfold mem_str. cbn [existsb]. rewrite orb_assoc. reflexivity.
Qed.

Lemma has_key_init k d0 : has_key k (disabled (init_state d0)) = mem_str k d0.
Proof.
  cbn. unfold mem_str. induction d0 as [|x t IH]; [reflexivity|]. cbn. rewrite IH. reflexivity.
Qed.

(* ---------- the C02 instance ---------- *)
Section C02.
  Variable lookup : str -> option module.
  Variable provs : str -> option (list str).
  Variable D0 : list str.       (* disabled by the context chain and --disable *)

  (* the property on a list of selected modules *)
  Definition no_disabled (ms : list module) : Prop :=
    forall m, In m ms -> ~ In (m_name m) D0 /\ forall x, In x (provides_of m) -> ~ In x D0.
  Definition no_conflict (ms : list module) : Prop :=
    forall a b, In a ms -> In b ms -> m_name a <> m_name b ->
      forall x, In x (conflicts_of a) -> x <> m_name b /\ ~ In x (provides_of b).

  Definition Inv2 (st : rstate) : Prop :=
    (forall a x, In a (sel st) -> In x (conflicts_of a) -> has_key x (disabled st) = true) /\
    (forall b x, In b (sel st) -> In x (provides_of b) -> has_key x (provby st) = true) /\
    (forall k, In k D0 -> has_key k (disabled st) = true) /\
    no_disabled (sel st) /\ no_conflict (sel st).

  Lemma Inv2_init : Inv2 (init_state D0).
  Proof.
    repeat split; try (intros; contradiction).
    intros k Hk. rewrite has_key_init. apply mem_str_In. exact Hk.
  Qed.

  Lemma Inv2_ifthen st o d : Inv2 st -> Inv2 (add_ifthen o d st).
  Proof. intros H. exact H. Qed.

  Lemma selected_In st b : In b (sel st) -> selected (m_name b) st = true.
  Proof.
    intros H. unfold selected. apply existsb_exists. exists b. split; [exact H|apply str_eqb_refl].
  Qed.

  Lemma Inv2_enter st m : Inv2 st -> selected (m_name m) st = false -> blocked st m = false -> Inv2 (enter st m).
  Proof.
    intros (I1 & I2 & I3 & I4 & I5) Hsel Hb.
    unfold blocked in Hb. apply orb_false_iff in Hb as [Hb Hb3]. apply orb_false_iff in Hb as [Hb1 Hb2].
    assert (Hc : forall c, In c (conflicts_of m) -> selected c st = false /\ has_key c (provby st) = false).
    { intros c Hin. destruct (selected c st || has_key c (provby st)) eqn:E.
      - exfalso. assert (X : existsb (fun c => selected c st || has_key c (provby st)) (conflicts_of m) = true).
        { apply existsb_exists. exists c. split; assumption. } congruence.
      - apply orb_false_iff in E. exact E. }
    assert (Hp : forall x, In x (provides_of m) -> has_key x (disabled st) = false).
    { intros x Hin. destruct (has_key x (disabled st)) eqn:E; [|reflexivity].
      exfalso. assert (X : existsb (fun x => has_key x (disabled st)) (provides_of m) = true).
      { apply existsb_exists. exists x. split; assumption. } congruence. }
    unfold enter, Inv2. cbn [sel disabled provby push add_provby add_conflicts].
    split; [|split; [|split; [|split]]].
    - intros a x Ha Hx. rewrite has_key_fold_names. apply in_app_or in Ha as [Ha|[<-|[]]].
      + rewrite (I1 a x Ha Hx). reflexivity.
      + apply orb_true_iff. right. apply mem_str_In. exact Hx.
    - intros b x Hb' Hx. rewrite has_key_fold_mods. apply in_app_or in Hb' as [Hb'|[<-|[]]].
      + rewrite (I2 b x Hb' Hx). reflexivity.
      + apply orb_true_iff. right. apply mem_str_In. exact Hx.
    - intros k Hk. rewrite has_key_fold_names, (I3 k Hk). reflexivity.
    - intros x Hx. apply in_app_or in Hx as [Hx|[<-|[]]]; [apply I4; exact Hx|]. split.
      + intros Hd. rewrite (I3 _ Hd) in Hb1. discriminate.
      + intros y Hy Hd. pose proof (I3 _ Hd) as X. rewrite (Hp y Hy) in X. discriminate.
    - intros a b Ha Hb' Hne x Hx.
      apply in_app_or in Ha as [Ha|[<-|[]]]; apply in_app_or in Hb' as [Hb'|[<-|[]]].
      + apply (I5 a b); assumption.
      + (* a old, b = m *)
        pose proof (I1 a x Ha Hx) as Hk. split.
        * intros ->. rewrite Hk in Hb1. discriminate.
        * intros Hy. rewrite (Hp x Hy) in Hk. discriminate.
      + (* a = m, b old *)
        destruct (Hc x Hx) as [Hs Hpb]. split.
        * intros ->. rewrite (selected_In st b Hb') in Hs. discriminate.
        * intros Hy. rewrite (I2 b x Hb' Hy) in Hpb. discriminate.
      + contradiction Hne. reflexivity.
  Qed.

  Theorem resolve_exclusive f app st' :
    resolve_deep lookup provs f (init_state D0) app = Ok st' ->
    no_disabled (sel st') /\ no_conflict (sel st').
  Proof.
    intros H. pose proof (resolve_inv lookup provs Inv2 Inv2_ifthen Inv2_enter f (init_state D0) app st' Inv2_init H)
      as (_ & _ & _ & H4 & H5). split; assumption.
  Qed.

  (* uniquely provided: loading turns provides_unique x into provides x + conflicts x, so two
     different selected modules cannot both provide x when one of them claims it unique *)
  Corollary resolve_unique f app st' a b x :
    resolve_deep lookup provs f (init_state D0) app = Ok st' ->
    In a (sel st') -> In b (sel st') -> m_name a <> m_name b ->
    In x (conflicts_of a) -> In x (provides_of a) (* = provides_unique x *) ->
    ~ In x (provides_of b).
  Proof.
    intros H Ha Hb Hne Hc _. apply resolve_exclusive in H as [_ H5]. apply (H5 a b Ha Hb Hne x Hc).
  Qed.
End C02.
