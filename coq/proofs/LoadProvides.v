(* LoadProvides.v — the provider maps of a loaded bag are sound: whatever a context lists as a provider
   of a name resolves, seen from that context, to a module that provides the name (the side condition
   prov_okb of the resolver theorems), derived from load. *)
From Coq Require Import Ascii String.
From Coq Require Import List Arith Bool NArith Lia.
Import ListNotations.
Require Import Laze.model.Base Laze.model.Env Laze.model.Allow Laze.model.Ctx Laze.model.Resolver Laze.model.Load Laze.model.Checks.
Require Import Laze.proofs.BaseFacts Laze.proofs.GenerateFacts Laze.proofs.LoadNames Laze.proofs.LoadKeys Laze.proofs.FinalizeFacts.
Open Scope list_scope.

(* ---------- step A: before merge_provides every provider entry is a module of the same context ---------- *)
Definition local_ok (c : context) : Prop :=
  forall prov n ps p, c_provided c = Some prov -> In (n, ps) prov -> In p ps ->
    exists m, alookup p (c_modules c) = Some m /\ In n (provides_of m).
Definition bag_local_ok (b : bag) : Prop := forall c, In c b -> local_ok c.

Lemma In_ainsert {V} k (v : V) : forall l k' v', In (k', v') (ainsert k v l) -> (k' = k /\ v' = v) \/ In (k', v') l.
Proof.
  induction l as [|[k0 v0] t IH]; intros k' v' H; cbn in H.
  - destruct H as [E|[]]. injection E as <- <-. left. split; reflexivity.
  - destruct (str_eqb k k0) eqn:E.
    + destruct H as [H|H]; [injection H as <- <-; left; split; [symmetry; apply str_eqb_eq; exact E|reflexivity]|right; right; exact H].
    + destruct H as [H|H]; [right; left; exact H|]. destruct (IH _ _ H) as [H1|H1]; [left; exact H1|right; right; exact H1].
Qed.

Lemma iset_insert_In2 x y l : In y (iset_insert x l) -> y = x \/ In y l.
Proof. unfold iset_insert. destruct (mem_str x l); [right; assumption|]. intros H. apply in_app_or in H. destruct H as [H|[<-|[]]]; [right; exact H|left; reflexivity]. Qed.

Lemma alookup_In {V} k (l : list (str * V)) v : alookup k l = Some v -> In (k, v) l.
Proof.
  induction l as [|[k0 v0] t IH]; cbn; [discriminate|]. destruct (str_eqb k k0) eqn:E; intros H.
  - injection H as <-. apply str_eqb_eq in E. subst. left. reflexivity.
  - right. apply IH, H.
Qed.

Lemma alookup_app_l {V} k (l l' : list (str * V)) v : alookup k l = Some v -> alookup k (l ++ l') = Some v.
Proof. induction l as [|[k0 v0] t IH]; cbn; [discriminate|]. destruct (str_eqb k k0); [tauto|exact IH]. Qed.
Lemma alookup_app_r {V} k (l l' : list (str * V)) : alookup k l = None -> alookup k (l ++ l') = alookup k l'.
Proof. induction l as [|[k0 v0] t IH]; cbn; [reflexivity|]. destruct (str_eqb k k0); [discriminate|exact IH]. Qed.

(* adding module m (under its name, not yet present) with its provides keeps the context locally sound *)
Lemma local_ok_add c m i :
  local_ok c -> alookup (m_name m) (c_modules c) = None ->
  local_ok (with_modules c (c_modules c ++ [(m_name m, with_context_id m i)])
              (match m_provides m with
               | Some l => fold_left (fun p x => provided_add p x (m_name m)) l (c_provided c)
               | None => c_provided c end)).
Proof.
  intros HL Hnone.
  (* generalise over the list of names being registered *)
  assert (G : forall l prov0,
             (forall x, In x l -> In x (provides_of m)) ->
             (forall prov n ps p, prov0 = Some prov -> In (n, ps) prov -> In p ps ->
                 exists m', alookup p (c_modules c ++ [(m_name m, with_context_id m i)]) = Some m' /\ In n (provides_of m')) ->
             forall prov n ps p, fold_left (fun p0 x => provided_add p0 x (m_name m)) l prov0 = Some prov -> In (n, ps) prov -> In p ps ->
                 exists m', alookup p (c_modules c ++ [(m_name m, with_context_id m i)]) = Some m' /\ In n (provides_of m')).
  { induction l as [|x t IH]; intros prov0 Hl H0 prov n ps p HF; cbn [fold_left] in HF; [exact (H0 prov n ps p HF)|].
    apply (IH (provided_add prov0 x (m_name m))); [intros y Hy; apply Hl; right; exact Hy| |exact HF].
    intros prov1 n1 ps1 p1 E Hin Hp. unfold provided_add in E. injection E as <-.
    apply In_ainsert in Hin. destruct Hin as [[-> ->]|Hin].
    - apply iset_insert_In2 in Hp. destruct Hp as [->|Hp].
      + exists (with_context_id m i). split; [rewrite alookup_app_r by exact Hnone; cbn; rewrite str_eqb_refl; reflexivity|].
        unfold provides_of. cbn [with_context_id m_provides]. apply (Hl x). left. reflexivity.
      + destruct prov0 as [pv|]; cbn [odflt] in Hp; [|destruct Hp].
        destruct (alookup x pv) as [old|] eqn:Eo; cbn [odflt] in Hp; [|destruct Hp].
        apply (H0 pv x old p1 eq_refl (alookup_In _ _ _ Eo) Hp).
    - destruct prov0 as [pv|]; cbn [odflt] in Hin; [|destruct Hin]. apply (H0 pv n1 ps1 p1 eq_refl Hin Hp). }
  assert (Hbase : forall prov n ps p, c_provided c = Some prov -> In (n, ps) prov -> In p ps ->
             exists m', alookup p (c_modules c ++ [(m_name m, with_context_id m i)]) = Some m' /\ In n (provides_of m')).
  { intros prov n ps p E Hin Hp. destruct (HL prov n ps p E Hin Hp) as (m' & Hm' & Hn). exists m'. split; [apply alookup_app_l; exact Hm'|exact Hn]. }
  intros prov n ps p E Hin Hp. cbn [with_modules c_provided c_modules] in *.
  destruct (m_provides m) as [l|] eqn:Ep.
  - apply (G l (c_provided c)) with (prov := prov) (ps := ps); try assumption.
    intros x Hx. unfold provides_of. rewrite Ep. exact Hx.
  - apply (Hbase prov n ps p E Hin Hp).
Qed.

Lemma bag_local_set_ctx b i c : bag_local_ok b -> local_ok c -> bag_local_ok (set_ctx b i c).
Proof.
  unfold set_ctx. intros Hb Hc x Hx. apply in_app_or in Hx. destruct Hx as [Hx|[<-|Hx]].
  - apply Hb. eapply In_firstn. exact Hx.
  - exact Hc.
  - apply Hb. rewrite <- (firstn_skipn (S i) b). apply in_or_app. right. exact Hx.
Qed.
Lemma bag_local_get b i c : bag_local_ok b -> bag_get b i = Some c -> local_ok c.
Proof. intros Hb Hg. apply Hb. unfold bag_get in Hg. eapply nth_error_In. exact Hg. Qed.

(* local_ok only looks at the provider map and the modules *)
Lemma local_ok_same c c' : c_provided c' = c_provided c -> c_modules c' = c_modules c -> local_ok c -> local_ok c'.
Proof. unfold local_ok. intros E1 E2 H. rewrite E1, E2. exact H. Qed.

Lemma fold_local {A} (f : bag -> A -> bag) : (forall b a, bag_local_ok b -> bag_local_ok (f b a)) ->
  forall l b, bag_local_ok b -> bag_local_ok (fold_left f l b).
Proof. intros Hf. induction l as [|a t IH]; intros b Hb; cbn [fold_left]; [exact Hb|]. apply IH, Hf, Hb. Qed.

Lemma inherit_env_local b nm : bag_local_ok b -> bag_local_ok (inherit_env b nm).
Proof.
  intros Hb. unfold inherit_env. destruct (snd nm); [exact Hb|].
  destruct (bag_get b (fst nm)) as [c|] eqn:Eg; [|exact Hb].
  destruct (c_parent_index c) as [p|]; [|exact Hb]. destruct (bag_get b p) as [pc|]; [|exact Hb].
  destruct (c_env pc); [|exact Hb]. apply bag_local_set_ctx; [exact Hb|].
  apply (local_ok_same c); [reflexivity|reflexivity|exact (bag_local_get _ _ _ Hb Eg)].
Qed.
Lemma inherit_var_options_local b nm : bag_local_ok b -> bag_local_ok (inherit_var_options b nm).
Proof.
  intros Hb. unfold inherit_var_options. destruct (snd nm); [exact Hb|].
  destruct (bag_get b (fst nm)) as [c|] eqn:Eg; [|exact Hb].
  destruct (c_var_options c); [exact Hb|]. destruct (c_parent_index c) as [p|]; [|exact Hb].
  destruct (bag_get b p) as [pc|]; [|exact Hb]. apply bag_local_set_ctx; [exact Hb|].
  apply (local_ok_same c); [reflexivity|reflexivity|exact (bag_local_get _ _ _ Hb Eg)].
Qed.

Lemma local_ok_none c : c_provided c = None -> local_ok c.
Proof. intros E prov n ps p E2. rewrite E in E2. discriminate. Qed.

Lemma finalize_local b0 b : bag_local_ok b0 -> finalize b0 = Ok b -> bag_local_ok b.
Proof.
  unfold finalize. intros Hb.
  set (b1 := if mem_str (S_ "default") (bag_names b0) then b0 else b0 ++ [context_default]).
  assert (H1 : bag_local_ok b1).
  { unfold b1. destruct (mem_str (S_ "default") (bag_names b0)); [exact Hb|].
    intros c Hc. apply in_app_or in Hc. destruct Hc as [Hc|[<-|[]]]; [apply Hb, Hc|apply local_ok_none; reflexivity]. }
  clearbody b1.
  destruct (resolve_parents (bag_names b1) (map c_parent_name b1)) as [ps|]; [|discriminate].
  destruct (negb (acyclic ps)); [discriminate|]. intros E. injection E as <-.
  apply fold_local; [intros; apply inherit_var_options_local; assumption|].
  apply fold_local; [intros; apply inherit_env_local; assumption|].
  intros c Hc. apply in_map_iff in Hc. destruct Hc as ([c0 p] & <- & Hin). cbn.
  apply (local_ok_same c0); [reflexivity|reflexivity|]. apply H1. eapply in_combine_l. exact Hin.
Qed.

Lemma add_module_local b m b' : bag_local_ok b -> add_module b m = Ok b' -> bag_local_ok b'.
Proof.
  unfold add_module. intros Hb. destruct (bag_index b (m_context_name m)) as [i|]; [|discriminate].
  destruct (bag_get b i) as [c|] eqn:Eg; [|discriminate].
  destruct (alookup (m_name m) (c_modules c)) eqn:Ea; [discriminate|].
  intros E. injection E as <-. apply bag_local_set_ctx; [exact Hb|].
  apply local_ok_add; [exact (bag_local_get _ _ _ Hb Eg)|exact Ea].
Qed.

Lemma add_context_local b c b' : bag_local_ok b -> c_provided c = None -> add_context b c = Ok b' -> bag_local_ok b'.
Proof.
  unfold add_context. intros Hb Hc. destruct (mem_str (c_name c) (bag_names b)); [discriminate|].
  intros E. injection E as <-. intros x Hx. apply in_app_or in Hx. destruct Hx as [Hx|[<-|[]]]; [apply Hb, Hx|apply local_ok_none, Hc].
Qed.
Lemma convert_context_provided y ib f root c m : convert_context y ib f root = Ok (c, m) -> c_provided c = None.
Proof.
  unfold convert_context. intros H.
  repeat match type of H with rbind ?X _ = _ => destruct X; cbn [rbind] in H; try discriminate end.
  injection H as <- _. reflexivity.
Qed.

Lemma add_modules_local bd b d mods is_binary defaults b' :
  bag_local_ok b -> add_modules bd b d mods is_binary defaults = Ok b' -> bag_local_ok b'.
Proof.
  unfold add_modules. intros Hk HF.
  apply (fold_rbind_inv bag_local_ok
           (fun b0 y => fold_left (fun acc c => rbind acc (fun b1 =>
                          rbind (convert_module bd y c is_binary (ld_file d) (ld_root d) defaults) (add_module b1)))
                          (contexts_of (ym_context y)) (Ok b0))) with (l := mods) (acc := Ok b); [|intros a E; injection E as <-; exact Hk|exact HF].
  intros a y a' Ha HF2.
  apply (fold_rbind_inv bag_local_ok
           (fun b1 c => rbind (convert_module bd y c is_binary (ld_file d) (ld_root d) defaults) (add_module b1)))
    with (l := contexts_of (ym_context y)) (acc := Ok a); [|intros a0 E; injection E as <-; exact Ha|exact HF2].
  intros a0 c a1 Ha0 E. destruct (convert_module bd y c is_binary (ld_file d) (ld_root d) defaults) as [m| | |]; cbn [rbind] in E; try discriminate.
  exact (add_module_local _ _ _ Ha0 E).
Qed.

(* the bag just before merge_provides *)
Definition pre_merge (t : ytree) (pf bd : str) : res bag :=
  rbind (load_files (load_fuel t) t [(pf, (None, None))] 0 []) (fun '(docs, _) =>
  rbind (fold_left (fun acc d => rbind acc (fun '(b, cms) =>
           fold_left (fun acc lb => rbind acc (fun '(b, cms) =>
              fold_left (fun acc y => rbind acc (fun '(b, cms) =>
                 rbind (convert_context y (snd lb || yc_is_builder y) (ld_file d) (ld_root d)) (fun '(c, m) =>
                 rbind (add_context b c) (fun b' => Ok (b', cms ++ [m])))))
                (odflt [] (fst lb)) (Ok (b, cms))))
             [(d_contexts (ld_doc d), false); (d_builders (ld_doc d), true)] (Ok (b, cms))))
         docs (Ok ([], []))) (fun '(b0, ctx_modules) =>
  rbind (finalize b0) (fun b1 =>
  rbind (fold_left (fun acc m => rbind acc (fun b => add_module b m)) ctx_modules (Ok b1)) (fun b2 =>
  rbind (fold_left (fun acc d => rbind acc (fun '(b, mmap, amap) =>
           rbind (get_defaults bd d mmap false) (fun mdef =>
           rbind (get_defaults bd d amap true) (fun adef =>
           let has_sub := match d_subdirs (ld_doc d) with Some _ => true | None => false end in
           let mmap1 := match has_sub, mdef with true, Some m => mmap ++ [(ld_idx d, m)] | _, _ => mmap end in
           let amap1 := match has_sub, adef with true, Some m => amap ++ [(ld_idx d, m)] | _, _ => amap end in
           rbind (match d_modules (ld_doc d) with
                  | Some (Some l) => add_modules bd b d l false mdef
                  | _ => Ok b end) (fun b4 =>
           rbind (match d_apps (ld_doc d) with
                  | Some (Some l) => add_modules bd b4 d l true adef
                  | Some None => add_modules bd b4 d [ymod_default] true adef
                  | None => Ok b4 end) (fun b5 => Ok (b5, mmap1, amap1)))))))
         docs (Ok (b2, [], []))) (fun '(b3, _, _) => Ok b3))))).

Lemma load_is_merge t pf bd : load t pf bd = rmap merge_provides (pre_merge t pf bd).
Proof.
  unfold load, pre_merge, rmap.
  destruct (load_files _ t [(pf, (None, None))] 0 []) as [[docs fs]| | |]; cbn [rbind]; try reflexivity.
  match goal with |- rbind ?X _ = _ => destruct X as [[b0 cms]| | |] end; cbn [rbind]; try reflexivity.
  destruct (finalize b0); cbn [rbind]; try reflexivity.
  match goal with |- rbind ?X _ = _ => destruct X end; cbn [rbind]; try reflexivity.
  match goal with |- rbind ?X _ = _ => destruct X as [[[b3 mm] am]| | |] end; cbn [rbind]; reflexivity.
Qed.

Theorem pre_merge_local t pf bd b : pre_merge t pf bd = Ok b -> bag_local_ok b.
Proof.
  unfold pre_merge. intros HL.
  destruct (load_files _ t [(pf, (None, None))] 0 []) as [[docs fs]| | |]; cbn [rbind] in HL; try discriminate.
  match type of HL with rbind ?X _ = _ => destruct X as [[b0 cms]| | |] eqn:E1 end; cbn [rbind] in HL; try discriminate.
  assert (K0 : bag_local_ok b0).
  { refine (fold_rbind_inv (fun p : bag * list module => bag_local_ok (fst p)) _ _ docs (Ok ([], [])) (b0, cms) _ E1);
      [|intros a E; injection E as <-; intros c []].
    intros [ba cmsa] d [ba' cmsa'] Ha Hd. cbn [fst] in *.
    refine (fold_rbind_inv (fun p : bag * list module => bag_local_ok (fst p)) _ _ _ (Ok (ba, cmsa)) (ba', cmsa') _ Hd);
      [|intros a E; injection E as <-; exact Ha].
    intros [bb cmsb] lb [bb' cmsb'] Hb Hlb. cbn [fst] in *.
    refine (fold_rbind_inv (fun p : bag * list module => bag_local_ok (fst p)) _ _ _ (Ok (bb, cmsb)) (bb', cmsb') _ Hlb);
      [|intros a E; injection E as <-; exact Hb].
    intros [bc cmsc] y [bc' cmsc'] Hc Hy. cbn [fst] in *.
    destruct (convert_context y (snd lb || yc_is_builder y) (ld_file d) (ld_root d)) as [[c m]| | |] eqn:Ecc; cbn [rbind] in Hy; try discriminate.
    destruct (add_context bc c) as [bn| | |] eqn:Ea; cbn [rbind] in Hy; try discriminate.
    injection Hy as <- _. exact (add_context_local _ _ _ Hc (convert_context_provided _ _ _ _ _ _ Ecc) Ea). }
  destruct (finalize b0) as [b1| | |] eqn:Ef; cbn [rbind] in HL; try discriminate.
  pose proof (finalize_local _ _ K0 Ef) as K1.
  match type of HL with rbind ?X _ = _ => destruct X as [b2| | |] eqn:E2 end; cbn [rbind] in HL; try discriminate.
  assert (K2 : bag_local_ok b2).
  { refine (fold_rbind_inv bag_local_ok (fun bx m => add_module bx m) _ cms (Ok b1) b2 _ E2);
      [|intros a E; injection E as <-; exact K1].
    intros a m a' Ha Hm. exact (add_module_local _ _ _ Ha Hm). }
  match type of HL with rbind ?X _ = _ => destruct X as [[[b3 mm] am]| | |] eqn:E3 end; cbn [rbind] in HL; try discriminate.
  injection HL as <-.
  refine (fold_rbind_inv (fun p : bag * list (nat * module) * list (nat * module) => bag_local_ok (fst (fst p)))
            _ _ docs (Ok (b2, [], [])) (b3, mm, am) _ E3); [|intros a E; injection E as <-; exact K2].
  intros [[ba mma] ama] d [[ba' mma'] ama'] Ha Hd. cbn [fst] in *.
  destruct (get_defaults bd d mma false) as [mdef| | |]; cbn [rbind] in Hd; try discriminate.
  destruct (get_defaults bd d ama true) as [adef| | |]; cbn [rbind] in Hd; try discriminate.
  match type of Hd with rbind ?X _ = _ => destruct X as [b4| | |] eqn:E4 end; cbn [rbind] in Hd; try discriminate.
  match type of Hd with rbind ?X _ = _ => destruct X as [b5| | |] eqn:E5 end; cbn [rbind] in Hd; try discriminate.
  injection Hd as <- _ _.
  assert (K4 : bag_local_ok b4).
  { destruct (d_modules (ld_doc d)) as [[l|]|]; try (injection E4 as <-; exact Ha). exact (add_modules_local _ _ _ _ _ _ _ Ha E4). }
  destruct (d_apps (ld_doc d)) as [[l|]|]; try (injection E5 as <-; exact K4); exact (add_modules_local _ _ _ _ _ _ _ K4 E5).
Qed.

(* ---------- step B: the parents-first merge ---------- *)
Lemma set_ctx_parents b i c c0 : bag_get b i = Some c0 -> c_parent_index c = c_parent_index c0 ->
  parents_of (set_ctx b i c) = parents_of b.
Proof.
  unfold parents_of, set_ctx, bag_get. revert i. induction b as [|x t IH]; intros i Hg Hp; [destruct i; discriminate|].
  destruct i as [|i]; cbn in *; [injection Hg as ->; rewrite Hp; reflexivity|]. f_equal. apply IH; assumption.
Qed.

Lemma parents_length b : length (parents_of b) = length b.
Proof. unfold parents_of. apply map_length. Qed.

(* parent indices point into the bag *)
Definition parents_valid (ps : list (option nat)) : Prop := forall i p, nth_error ps i = Some (Some p) -> p < length ps.

Lemma index_of_lt n : forall l i j, index_of n l i = Some j -> j < i + length l.
Proof.
  induction l as [|x r IH]; intros i j H; cbn in H; [discriminate|].
  destruct (str_eqb n x); [injection H as <-; cbn; lia|]. apply IH in H. cbn. lia.
Qed.
Lemma resolve_parents_valid names : forall l ps, resolve_parents names l = Some ps ->
  forall i p, nth_error ps i = Some (Some p) -> p < length names.
Proof.
  induction l as [|x t IH]; intros ps H i p Hn; cbn [resolve_parents] in H; [injection H as <-; destruct i; discriminate|].
  destruct x as [pn|].
  - destruct (index_of pn names 0) as [j|] eqn:Ej; [|discriminate]. destruct (resolve_parents names t) as [l'|] eqn:El; [|discriminate].
    injection H as <-. destruct i as [|i]; cbn in Hn; [injection Hn as <-; apply index_of_lt in Ej; lia|exact (IH l' eq_refl i p Hn)].
  - destruct (resolve_parents names t) as [l'|] eqn:El; [|discriminate]. injection H as <-.
    destruct i as [|i]; cbn in Hn; [discriminate|exact (IH l' eq_refl i p Hn)].
Qed.

Definition wf_parents (b : bag) : Prop := acyclic (parents_of b) = true /\ parents_valid (parents_of b).

Lemma inherit_var_options_parents b nm : parents_of (inherit_var_options b nm) = parents_of b.
Proof.
  unfold inherit_var_options. destruct (snd nm); [reflexivity|].
  destruct (bag_get b (fst nm)) as [c|] eqn:Eg; [|reflexivity].
  destruct (c_var_options c); [reflexivity|]. destruct (c_parent_index c) as [p|] eqn:Ep; [|reflexivity].
  destruct (bag_get b p) as [pc|]; [|reflexivity]. apply (set_ctx_parents _ _ _ c Eg). cbn. reflexivity.
Qed.
Lemma fold_parents {A} (f : bag -> A -> bag) : (forall b a, parents_of (f b a) = parents_of b) ->
  forall l b, parents_of (fold_left f l b) = parents_of b.
Proof. intros Hf. induction l as [|a t IH]; intros b; cbn [fold_left]; [reflexivity|]. rewrite IH. apply Hf. Qed.

Lemma finalize_wf b0 b : finalize b0 = Ok b -> wf_parents b.
Proof.
  unfold finalize.
  set (b1 := if mem_str (S_ "default") (bag_names b0) then b0 else b0 ++ [context_default]).
  destruct (resolve_parents (bag_names b1) (map c_parent_name b1)) as [ps|] eqn:Er; [|discriminate].
  destruct (acyclic ps) eqn:Ea; unfold negb; [|discriminate]. intros E. injection E as <-.
  assert (Hl : length ps = length b1) by (rewrite (resolve_parents_length _ _ _ Er); apply map_length).
  unfold wf_parents. rewrite (fold_parents inherit_var_options inherit_var_options_parents), inherit_env_fold_parents.
  rewrite (parents_of_combine b1 ps Hl). split; [exact Ea|].
  intros i p Hn. rewrite Hl. pose proof (resolve_parents_valid _ _ _ Er i p Hn) as Hv. unfold bag_names in Hv. rewrite map_length in Hv. exact Hv.
Qed.

Lemma add_module_parents b m b' : add_module b m = Ok b' -> parents_of b' = parents_of b.
Proof.
  unfold add_module. destruct (bag_index b (m_context_name m)) as [i|]; [|discriminate].
  destruct (bag_get b i) as [c|] eqn:Eg; [|discriminate].
  destruct (alookup (m_name m) (c_modules c)); [discriminate|].
  intros E. injection E as <-. apply (set_ctx_parents _ _ _ c Eg). reflexivity.
Qed.
Lemma add_modules_parents bd b d mods is_binary defaults b' :
  add_modules bd b d mods is_binary defaults = Ok b' -> parents_of b' = parents_of b.
Proof.
  unfold add_modules. intros HF.
  apply (fold_rbind_inv (fun x => parents_of x = parents_of b)
           (fun b0 y => fold_left (fun acc c => rbind acc (fun b1 =>
                          rbind (convert_module bd y c is_binary (ld_file d) (ld_root d) defaults) (add_module b1)))
                          (contexts_of (ym_context y)) (Ok b0))) with (l := mods) (acc := Ok b); [|intros a E; injection E as <-; reflexivity|exact HF].
  intros a y a' Ha HF2.
  apply (fold_rbind_inv (fun x => parents_of x = parents_of b)
           (fun b1 c => rbind (convert_module bd y c is_binary (ld_file d) (ld_root d) defaults) (add_module b1)))
    with (l := contexts_of (ym_context y)) (acc := Ok a); [|intros a0 E; injection E as <-; exact Ha|exact HF2].
  intros a0 c a1 Ha0 E. destruct (convert_module bd y c is_binary (ld_file d) (ld_root d) defaults) as [m| | |]; cbn [rbind] in E; try discriminate.
  rewrite (add_module_parents _ _ _ E). exact Ha0.
Qed.

Theorem pre_merge_wf t pf bd b : pre_merge t pf bd = Ok b -> wf_parents b.
Proof.
  unfold pre_merge. intros HL.
  destruct (load_files _ t [(pf, (None, None))] 0 []) as [[docs fs]| | |]; cbn [rbind] in HL; try discriminate.
  match type of HL with rbind ?X _ = _ => destruct X as [[b0 cms]| | |] end; cbn [rbind] in HL; try discriminate.
  destruct (finalize b0) as [b1| | |] eqn:Ef; cbn [rbind] in HL; try discriminate.
  pose proof (finalize_wf _ _ Ef) as W1.
  match type of HL with rbind ?X _ = _ => destruct X as [b2| | |] eqn:E2 end; cbn [rbind] in HL; try discriminate.
  assert (P2 : parents_of b2 = parents_of b1).
  { refine (fold_rbind_inv (fun x : bag => parents_of x = parents_of b1) (fun bx m => add_module bx m) _ cms (Ok b1) b2 _ E2);
      [|intros a E; injection E as <-; reflexivity].
    intros a m a' Ha Hm. rewrite (add_module_parents _ _ _ Hm). exact Ha. }
  match type of HL with rbind ?X _ = _ => destruct X as [[[b3 mm] am]| | |] eqn:E3 end; cbn [rbind] in HL; try discriminate.
  injection HL as <-.
  assert (P3 : parents_of b3 = parents_of b1).
  { refine (fold_rbind_inv (fun p : bag * list (nat * module) * list (nat * module) => parents_of (fst (fst p)) = parents_of b1)
              _ _ docs (Ok (b2, [], [])) (b3, mm, am) _ E3); [|intros a E; injection E as <-; exact P2].
    intros [[ba mma] ama] d [[ba' mma'] ama'] Ha Hd. cbn [fst] in *.
    destruct (get_defaults bd d mma false) as [mdef| | |]; cbn [rbind] in Hd; try discriminate.
    destruct (get_defaults bd d ama true) as [adef| | |]; cbn [rbind] in Hd; try discriminate.
    match type of Hd with rbind ?X _ = _ => destruct X as [b4| | |] eqn:E4 end; cbn [rbind] in Hd; try discriminate.
    match type of Hd with rbind ?X _ = _ => destruct X as [b5| | |] eqn:E5 end; cbn [rbind] in Hd; try discriminate.
    injection Hd as <- _ _.
    assert (N4 : parents_of b4 = parents_of ba).
    { destruct (d_modules (ld_doc d)) as [[l|]|]; try (injection E4 as <-; reflexivity). exact (add_modules_parents _ _ _ _ _ _ _ E4). }
    assert (N5 : parents_of b5 = parents_of b4).
    { destruct (d_apps (ld_doc d)) as [[l|]|]; try (injection E5 as <-; reflexivity); exact (add_modules_parents _ _ _ _ _ _ _ E5). }
    rewrite N5, N4. exact Ha. }
  unfold wf_parents in *. rewrite P3. exact W1.
Qed.

Definition combine_prov (own pp : option (list (str * list str))) : option (list (str * list str)) :=
  match own, pp with
  | Some o, Some p => Some (union_provided o p)
  | Some o, None => Some o
  | None, p => p
  end.
Definition upd_prov (c pc : context) : option context :=
  Some (with_provided c (option_map (shadow_filter (c_modules c)) (combine_prov (c_provided c) (c_provided pc)))).

Lemma upd_prov_parent c pc c' : upd_prov c pc = Some c' -> c_parent_index c' = c_parent_index c.
Proof. unfold upd_prov. intros E. injection E as <-. reflexivity. Qed.

(* with valid parents the merge step is the generic parents-first step *)
Lemma merge_one_is_gstep b0 b x : wf_parents b0 -> parents_of b = parents_of b0 -> In x (topo_order b0) ->
  merge_provides_one b x = gstep upd_prov b x.
Proof.
  intros [_ Hval] Hp Hx. apply topo_order_In in Hx. destruct Hx as [Hi Hk].
  unfold merge_provides_one, gstep. destruct (snd x) as [|k] eqn:Ek; [reflexivity|].
  assert (Hlen : length b = length b0) by (rewrite <- (parents_length b), <- (parents_length b0), Hp; reflexivity).
  destruct (bag_get b (fst x)) as [c|] eqn:Eg; [|reflexivity].
  (* the depth is positive, so there is a parent, and it is a context of the bag *)
  assert (Hd : depth b (fst x) = S k) by (unfold depth; rewrite Hlen, (count_parents_ext b b0 Hp); fold (depth b0 (fst x)); congruence).
  destruct (c_parent_index c) as [p|] eqn:Epi; [|rewrite (depth_root b (fst x) c Eg Epi) in Hd; discriminate].
  assert (Hpl : p < length b).
  { rewrite <- (parents_length b). rewrite Hp. apply (Hval (fst x) p). rewrite <- Hp, nth_parents, Eg. cbn. rewrite Epi. reflexivity. }
  destruct (bag_get b p) as [pc|] eqn:Egp; [|unfold bag_get in Egp; apply nth_error_None in Egp; lia].
  unfold upd_prov, combine_prov. reflexivity.
Qed.

Lemma gstep_parents b x : parents_of (gstep upd_prov b x) = parents_of b.
Proof.
  unfold gstep. destruct (snd x); [reflexivity|]. destruct (bag_get b (fst x)) as [c|] eqn:Eg; [|reflexivity].
  destruct (c_parent_index c) as [p|]; [|reflexivity]. destruct (bag_get b p) as [pc|]; [|reflexivity].
  cbn. apply (set_ctx_parents _ _ _ c Eg). reflexivity.
Qed.

Lemma merge_is_gpass b0 : wf_parents b0 -> merge_provides b0 = fold_left (gstep upd_prov) (topo_order b0) b0.
Proof.
  intros W. unfold merge_provides.
  assert (G : forall l b, parents_of b = parents_of b0 -> (forall x, In x l -> In x (topo_order b0)) ->
                          fold_left merge_provides_one l b = fold_left (gstep upd_prov) l b).
  { induction l as [|x t IH]; intros b Hp Hin; cbn [fold_left]; [reflexivity|].
    rewrite (merge_one_is_gstep b0 b x W Hp (Hin x (or_introl eq_refl))).
    apply IH; [rewrite gstep_parents; exact Hp|intros y Hy; apply Hin; right; exact Hy]. }
  apply G; [reflexivity|tauto].
Qed.

(* ---------- the chain of contexts seen from a context ---------- *)
Lemma chain_up_S f b i : chain_up (S f) b i =
  i :: match bag_get b i with
       | Some c => match c_parent_index c with Some p => chain_up f b p | None => [] end
       | None => [] end.
Proof. reflexivity. Qed.
Lemma chain_ends_eq n b i : chain_ends n (parents_of b) i =
  match bag_get b i with
  | Some c => match c_parent_index c with
              | Some p => match n with O => false | S n' => chain_ends n' (parents_of b) p end
              | None => true end
  | None => true end.
Proof. destruct n; cbn [chain_ends]; rewrite nth_parents; destruct (bag_get b i) as [c|]; cbn; try reflexivity; destruct (c_parent_index c); reflexivity. Qed.

(* once the chain from i is known to end within n links, any fuel above n gives the same chain *)
Lemma chain_stable b : forall n i f, chain_ends n (parents_of b) i = true -> n < f ->
  chain_up f b i = chain_up (S n) b i.
Proof.
  induction n as [|n IH]; intros i f Hc Hf; (destruct f as [|f]; [lia|]); rewrite chain_ends_eq in Hc; rewrite !chain_up_S.
  - destruct (bag_get b i) as [c|]; [|reflexivity]. destruct (c_parent_index c); [discriminate|reflexivity].
  - destruct (bag_get b i) as [c|]; [|reflexivity]. destruct (c_parent_index c) as [p|]; [|reflexivity].
    f_equal. apply IH; [exact Hc|lia].
Qed.

(* the chain from i ends exactly after depth-many links *)
Lemma chain_ends_depth b : forall n i, chain_ends n (parents_of b) i = true -> chain_ends (count_parents n b i) (parents_of b) i = true.
Proof.
  induction n as [|n IH]; intros i Hc; [exact Hc|]. rewrite chain_ends_eq in Hc. rewrite count_S.
  destruct (bag_get b i) as [c|] eqn:Eg; [|rewrite chain_ends_eq, Eg; reflexivity].
  destruct (c_parent_index c) as [p|] eqn:Ep; [|rewrite chain_ends_eq, Eg, Ep; reflexivity].
  rewrite chain_ends_eq, Eg, Ep. apply IH, Hc.
Qed.

(* the nodes of a chain are contexts of the bag, with strictly decreasing depths: they are distinct *)
Lemma chain_nodes b : wf_parents b -> forall d i, i < length b -> depth b i = d ->
  length (chain_up (S d) b i) = S d /\ NoDup (chain_up (S d) b i) /\
  (forall j, In j (chain_up (S d) b i) -> j < length b /\ depth b j <= d).
Proof.
  intros [Ha Hv]. induction d as [|d IH]; intros i Hi Hd; rewrite chain_up_S.
  - destruct (bag_get b i) as [c|] eqn:Eg; [|exfalso; unfold bag_get in Eg; apply nth_error_None in Eg; lia].
    destruct (c_parent_index c) as [p|] eqn:Ep; [rewrite (depth_parent b i c p Ha Eg Ep) in Hd; discriminate|].
    split; [reflexivity|]. split; [constructor; [intros []|constructor]|]. intros j [<-|[]]. split; [exact Hi|lia].
  - destruct (bag_get b i) as [c|] eqn:Eg; [|exfalso; unfold bag_get in Eg; apply nth_error_None in Eg; lia].
    destruct (c_parent_index c) as [p|] eqn:Ep; [|rewrite (depth_root b i c Eg Ep) in Hd; discriminate].
    assert (Hpl : p < length b).
    { rewrite <- (parents_length b). apply (Hv i p). rewrite nth_parents, Eg. cbn. rewrite Ep. reflexivity. }
    pose proof (depth_parent b i c p Ha Eg Ep) as Hdp. rewrite Hd in Hdp. injection Hdp as Hdp.
    destruct (IH p Hpl (eq_sym Hdp)) as (Hlen & ND & Hall).
    split; [cbn [length]; rewrite Hlen; reflexivity|]. split.
    + constructor; [|exact ND]. intros Hin. destruct (Hall i Hin) as [_ Hle]. lia.
    + intros j [<-|Hj]; [split; [exact Hi|lia]|]. destruct (Hall j Hj) as [H1 H2]. split; [exact H1|lia].
Qed.

Lemma depth_lt_length b i : wf_parents b -> i < length b -> S (depth b i) <= length b.
Proof.
  intros W Hi. destruct (chain_nodes b W (depth b i) i Hi eq_refl) as (Hlen & ND & Hall).
  rewrite <- Hlen. rewrite <- (seq_length (length b) 0). apply NoDup_incl_length; [exact ND|].
  intros j Hj. apply in_seq. destruct (Hall j Hj). lia.
Qed.

Lemma chain_cons b i c p : wf_parents b -> bag_get b i = Some c -> c_parent_index c = Some p ->
  chain b i = i :: chain b p.
Proof.
  intros W Hg Hp. pose proof W as [Ha Hv]. unfold chain.
  assert (Hi : i < length b) by (unfold bag_get in Hg; apply nth_error_Some; rewrite Hg; discriminate).
  assert (Hpl : p < length b).
  { rewrite <- (parents_length b). apply (Hv i p). rewrite nth_parents, Hg. cbn. rewrite Hp. reflexivity. }
  pose proof (depth_lt_length b i W Hi) as Hdi. pose proof (depth_parent b i c p Ha Hg Hp) as Hdp.
  destruct (length b) as [|n] eqn:En; [lia|].
  rewrite chain_up_S, Hg, Hp. f_equal.
  (* the chain from p ends after depth p links, and depth p + 1 < length *)
  assert (Hcp : chain_ends (depth b p) (parents_of b) p = true).
  { unfold depth. rewrite En. apply chain_ends_depth. rewrite <- En. apply acyclic_chain; [exact Ha|lia]. }
  rewrite (chain_stable b (depth b p) p n Hcp) by lia.
  rewrite (chain_stable b (depth b p) p (S n) Hcp) by lia. reflexivity.
Qed.

(* ---------- what a context sees under a name ---------- *)
Lemma resolve_unfold b j c p : wf_parents b -> bag_get b j = Some c ->
  resolve_module b j p =
  match alookup p (c_modules c) with
  | Some m => Some m
  | None => match c_parent_index c with Some q => resolve_module b q p | None => None end
  end.
Proof.
  intros W Hg. unfold resolve_module.
  assert (Hi : j < length b) by (unfold bag_get in Hg; apply nth_error_Some; rewrite Hg; discriminate).
  destruct (c_parent_index c) as [q|] eqn:Ep.
  - rewrite (chain_cons b j c q W Hg Ep). unfold ctxs_of. cbn [flat_map]. rewrite Hg. cbn [app find_module].
    destruct (alookup p (c_modules c)); reflexivity.
  - unfold chain. destruct (length b) as [|n]; [lia|]. rewrite chain_up_S, Hg, Ep. unfold ctxs_of. cbn [flat_map]. rewrite Hg.
    cbn [app find_module]. destruct (alookup p (c_modules c)); reflexivity.
Qed.

Definition good (b : bag) (j : nat) (n p : str) : Prop := exists mp, resolve_module b j p = Some mp /\ In n (provides_of mp).
Definition prov_sound (b : bag) (j : nat) : Prop :=
  forall c prov n ps p, bag_get b j = Some c -> c_provided c = Some prov -> In (n, ps) prov -> In p ps -> good b j n p.

Require Import Laze.proofs.StmtFacts.

Lemma combine_prov_In own pp comb n ps p : combine_prov own pp = Some comb -> In (n, ps) comb -> In p ps ->
  (exists o ps1, own = Some o /\ In (n, ps1) o /\ In p ps1) \/ (exists q ps2, pp = Some q /\ In (n, ps2) q /\ In p ps2).
Proof.
  unfold combine_prov. destruct own as [o|], pp as [q|]; intros E Hin Hp; try discriminate.
  - injection E as <-. unfold union_provided in Hin. apply in_app_or in Hin. destruct Hin as [Hin|Hin].
    + apply in_map_iff in Hin. destruct Hin as ([k ps1] & E & Hk). cbn [fst snd] in E.
      destruct (alookup k q) as [ps2|] eqn:Eq; injection E as -> <-.
      * apply iset_union_In in Hp. destruct Hp as [Hp|Hp]; [left; exists o, ps1; auto|right; exists q, ps2; split; [reflexivity|]; split; [apply alookup_In; exact Eq|exact Hp]].
      * left. exists o, ps1. auto.
    + apply filter_In in Hin. destruct Hin as [Hin _]. right. exists q, ps. auto.
  - injection E as <-. left. exists o, ps. auto.
  - injection E as <-. right. exists q, ps. auto.
Qed.

Lemma shadow_filter_In mods comb n ps' p : In (n, ps') (shadow_filter mods comb) -> In p ps' ->
  exists ps, In (n, ps) comb /\ In p ps /\
    match alookup p mods with
    | Some m => match m_provides m with Some l => mem_str n l = true | None => False end
    | None => True end.
Proof.
  unfold shadow_filter. intros Hin Hp. apply in_map_iff in Hin. destruct Hin as ([k ps] & E & Hk). cbn [fst snd] in E.
  injection E as -> <-. apply filter_In in Hp. destruct Hp as [Hp Hkeep]. exists ps. split; [exact Hk|]. split; [exact Hp|].
  destruct (alookup p mods) as [m|]; [|exact I]. destruct (m_provides m); [exact Hkeep|discriminate].
Qed.

Section Merge.
  Variable b3 : bag.
  Hypothesis W3 : wf_parents b3.
  Hypothesis L3 : bag_local_ok b3.

  Let F := fold_left (gstep upd_prov) (topo_order b3) b3.

  Lemma F_parents : parents_of F = parents_of b3.
  Proof. unfold F. apply fold_parents. apply gstep_parents. Qed.
  Lemma F_wf : wf_parents F.
  Proof. unfold wf_parents. rewrite F_parents. exact W3. Qed.
  Lemma F_length : length F = length b3.
  Proof. rewrite <- (parents_length F), <- (parents_length b3), F_parents. reflexivity. Qed.
  Lemma F_depth j : depth F j = depth b3 j.
  Proof. unfold depth. rewrite F_length. apply count_parents_ext. exact F_parents. Qed.

  (* every context of the merged bag, described from b3 and its parent's merged state *)
  Lemma F_spec j c2 : bag_get b3 j = Some c2 ->
    exists c, bag_get F j = Some c /\ c_parent_index c = c_parent_index c2 /\ c_modules c = c_modules c2 /\
      match c_parent_index c2 with
      | None => c_provided c = c_provided c2
      | Some q => match bag_get F q with
                  | Some pc => c_provided c = option_map (shadow_filter (c_modules c2)) (combine_prov (c_provided c2) (c_provided pc))
                  | None => c_provided c = c_provided c2 end
      end.
  Proof.
    intros Hg. assert (Hj : j < length b3) by (unfold bag_get in Hg; apply nth_error_Some; rewrite Hg; discriminate).
    destruct (gpass_spec upd_prov upd_prov_parent b3 (proj1 W3) j Hj c2 Hg) as (c & Hc & Hp & Hm). fold F in Hc, Hm.
    exists c. split; [exact Hc|]. split; [exact Hp|].
    destruct (c_parent_index c2) as [q|]; [|subst c; auto].
    destruct (bag_get F q) as [pc|]; [|subst c; auto]. subst c. cbn. auto.
  Qed.

  Theorem merged_sound : forall d j, j < length b3 -> depth b3 j = d -> prov_sound F j.
  Proof.
    induction d as [d IH] using lt_wf_ind. intros j Hj Hd c prov n ps' p Hgc Hprov Hin Hp.
    destruct (bag_get b3 j) as [c2|] eqn:Eg2; [|exfalso; unfold bag_get in Eg2; apply nth_error_None in Eg2; lia].
    destruct (F_spec j c2 Eg2) as (c' & Hc' & Hpar & Hmods & Hpv). rewrite Hgc in Hc'. injection Hc' as <-.
    pose proof (L3 c2 (nth_error_In _ _ Eg2)) as Hloc.
    (* an entry that comes from the context's own modules *)
    assert (Hown : forall o ps1, c_provided c2 = Some o -> In (n, ps1) o -> In p ps1 -> good F j n p).
    { intros o ps1 Eo Hi1 Hp1. destruct (Hloc o n ps1 p Eo Hi1 Hp1) as (m & Hm & Hn).
      exists m. split; [|exact Hn]. pose proof (resolve_unfold F j c p F_wf Hgc) as Hr. rewrite Hmods, Hm in Hr. exact Hr. }
    destruct (c_parent_index c2) as [q|] eqn:Epar.
    - destruct (bag_get F q) as [pc|] eqn:Egq.
      + rewrite Hprov in Hpv. destruct (combine_prov (c_provided c2) (c_provided pc)) as [comb|] eqn:Ecomb; [|discriminate].
        cbn [option_map] in Hpv. injection Hpv as ->.
        destruct (shadow_filter_In _ _ _ _ _ Hin Hp) as (ps & Hic & Hpp & Hkeep).
        destruct (combine_prov_In _ _ _ _ _ _ Ecomb Hic Hpp) as [(o & ps1 & Eo & Hi1 & Hp1)|(qq & ps2 & Eq & Hi2 & Hp2)].
        * exact (Hown o ps1 Eo Hi1 Hp1).
        * (* inherited from the parent, which is final and sound *)
          assert (Hql : q < length b3) by (rewrite <- F_length; unfold bag_get in Egq; apply nth_error_Some; rewrite Egq; discriminate).
          assert (Hdq : depth b3 q < d).
          { pose proof (depth_parent b3 j c2 q (proj1 W3) Eg2 Epar). lia. }
          destruct (IH (depth b3 q) Hdq q Hql eq_refl pc qq n ps2 p Egq Eq Hi2 Hp2) as (mp & Hr & Hn).
          pose proof (resolve_unfold F j c p F_wf Hgc) as Hru. rewrite Hmods, Hpar in Hru.
          destruct (alookup p (c_modules c2)) as [m|] eqn:Em.
          -- exists m. split; [exact Hru|]. unfold provides_of. destruct (m_provides m) as [l|]; [|destruct Hkeep].
             cbn. apply mem_str_In. exact Hkeep.
          -- exists mp. split; [rewrite Hru; exact Hr|exact Hn].
      + rewrite Hprov in Hpv. exact (Hown prov ps' (eq_sym Hpv) Hin Hp).
    - rewrite Hprov in Hpv. exact (Hown prov ps' (eq_sym Hpv) Hin Hp).
  Qed.
End Merge.

(* ---------- the side condition prov_okb, for every loaded bag and every builder ---------- *)
Theorem load_prov_ok t pf bd b : load t pf bd = Ok b -> forall builder, prov_okb b builder = true.
Proof.
  intros HL builder. rewrite load_is_merge in HL. unfold rmap in HL.
  destruct (pre_merge t pf bd) as [b3| | |] eqn:E3; cbn [rbind] in HL; try discriminate. injection HL as <-.
  pose proof (pre_merge_wf _ _ _ _ E3) as W3. pose proof (pre_merge_local _ _ _ _ E3) as L3.
  rewrite (merge_is_gpass b3 W3).
  set (F := fold_left (gstep upd_prov) (topo_order b3) b3).
  unfold prov_okb. destruct (bag_get F builder) as [c|] eqn:Eg; [|reflexivity].
  assert (Hbl : builder < length b3).
  { rewrite <- (F_length b3). unfold bag_get in Eg. apply nth_error_Some. fold F. rewrite Eg. discriminate. }
  pose proof (merged_sound b3 W3 L3 (depth b3 builder) builder Hbl eq_refl) as HS. fold F in HS.
  destruct (c_provided c) as [prov|] eqn:Ep; [|reflexivity]. cbn [odflt].
  apply forallb_forall. intros [n ps0] Hkv. cbn [fst].
  destruct (alookup n prov) as [ps|] eqn:Ea; [|reflexivity].
  apply forallb_forall. intros p Hp.
  destruct (HS c prov n ps p Eg Ep (alookup_In _ _ _ Ea) Hp) as (mp & Hr & Hn).
  rewrite Hr. apply mem_str_In. exact Hn.
Qed.

(* ---------- C01 for loaded projects: only the app condition is left ---------- *)
Require Import Laze.model.Ninja Laze.model.Generate Laze.proofs.ResolverFacts.

Theorem configured_build_closed_loaded H EV t pf bd b le builder binary select disable cli_env info entries :
  load t pf bd = Ok b -> app_okb b builder binary = true ->
  configure_build H EV b le builder binary select disable cli_env = Ok (Built info entries) ->
  exists rst app',
    bi_modules info = map m_name (sel rst) /\
    m_name app' = m_name binary /\
    m_selects app' = select ++ m_selects binary ++ [Hard (ctx_module_name (bi_builder info))] /\
    In app' (sel rst) /\
    forall x, In x (sel rst) -> forall d, In d (m_selects x) -> closed_dep rst d.
Proof.
  intros HL Ha HC. exact (configured_build_closed H EV b le builder binary select disable cli_env info entries
                            (load_keys_ok _ _ _ _ HL) (load_prov_ok _ _ _ _ HL builder) Ha HC).
Qed.
