(* CacheClosed.v — C08 meets C01: whatever a run hands to main — regenerated or served from the cache,
   after ANY history of runs, kills, edits and damaged cache files in the build directory — every build
   it reports is the resolver's result on the CURRENT tree and is closed under hard dependencies. *)
From Coq Require Import Ascii String.
From Coq Require Import List Arith Bool NArith Lia.
Import ListNotations.
Require Import Laze.model.Base Laze.model.Env Laze.model.Allow Laze.model.Ninja Laze.model.Ctx Laze.model.Resolver
        Laze.model.Generate Laze.model.Load Laze.model.Cache Laze.model.Checks.
Require Import Laze.proofs.BaseFacts Laze.proofs.GenerateFacts Laze.proofs.CacheFacts Laze.proofs.CacheInstance
        Laze.proofs.LoadFrame Laze.proofs.ResolverFacts Laze.proofs.ResolverInv Laze.proofs.CacheNarrow Laze.proofs.LoadStored.
Open Scope list_scope.

Section Closed.
  Variable H : list ascii -> N.
  Variable EV : str -> evr.
  Variable bd : str.
  Variable store : str -> N -> list ydoc.
  Notation crun := (crun H EV bd store).
  Notation cstep := (cstep H EV bd store).
  Notation cgen := (cgen H EV bd store).
  Notation cload_ts := (cload_ts bd store).
  Notation cfresh := (fresh vtree cargs tstate gen_result).

  Definition build_closed (info : build_info) : Prop :=
    exists rst app',
      bi_modules info = map m_name (sel rst) /\
      m_name app' = bi_binary info /\
      In app' (sel rst) /\
      forall x, In x (sel rst) -> forall d, In d (m_selects x) -> closed_dep rst d.

  (* the builds of a generation of a tree, for any arguments *)
  Lemma cgen_builds_closed t a r : cgen t a = Ok r -> forall info, In info (gr_builds r) -> build_closed info.
  Proof.
    unfold Cache.cgen. intros Hg info Hin.
    destruct (load (ytree_of store t) project_file bd) as [b| | |] eqn:Eload; cbn [rbind] in Hg; try discriminate.
    destruct (cli_selects a) as [s| | |]; cbn [rbind] in Hg; try discriminate.
    destruct (cli_env a) as [cenv| | |]; cbn [rbind] in Hg; try discriminate.
    exact (generated_builds_closed H EV _ _ _ _ _ _ _ _ _ _ _ _ _ Eload Hg info Hin).
  Qed.

  (* ... and free of conflicts and of disabled modules (for the disables of its builder's chain and of the arguments
     the generation was made for) *)
  Definition build_exclusive (disable : list str) (info : build_info) : Prop :=
    exists (b : bag) (builder : nat) rst,
      bi_modules info = map m_name (sel rst) /\
      no_disabled (fold_left (fun acc x => iset_insert x acc) disable (collect_disabled b builder)) (sel rst) /\
      no_conflict (sel rst).

  Lemma cgen_builds_exclusive t a r : cgen t a = Ok r -> forall info, In info (gr_builds r) -> build_exclusive (ca_disable a) info.
  Proof.
    unfold Cache.cgen. intros Hg info Hin.
    destruct (load (ytree_of store t) project_file bd) as [b| | |] eqn:Eload; cbn [rbind] in Hg; try discriminate.
    destruct (cli_selects a) as [s| | |]; cbn [rbind] in Hg; try discriminate.
    destruct (cli_env a) as [cenv| | |]; cbn [rbind] in Hg; try discriminate.
    destruct (generate_builds H EV _ _ _ _ _ _ _ _ _ _ Hg) as (bs & bins & _ & _ & Hbuilds).
    apply Hbuilds in Hin. destruct Hin as ([i m] & es & _ & Hc). unfold cfg in Hc. cbn [fst snd] in Hc.
    destruct (configured_build_exclusive H EV _ _ _ _ _ _ _ _ _ Hc) as (rst & H1 & H2 & H3).
    exists b, i, rst. split; [exact H1|]. split; assumption.
  Qed.

  Lemma cview_builds_incl a r info : In info (gr_builds (cview a r)) -> In info (gr_builds r).
  Proof.
    unfold cview. destruct (ca_builders a) as [|names]; [exact (fun h => h)|]. cbn [gr_builds].
    intros Hi. apply in_flat_map in Hi. destruct Hi as (n & _ & Hf). apply filter_In in Hf. exact (proj1 Hf).
  Qed.

  Theorem reported_builds_closed t0 ops a k w' o :
    crun a k (fold_left cstep ops (cfresh t0)) = (w', o) ->
    forall r, o = OHit r \/ o = ORegen r -> forall info, In info (gr_builds r) -> build_closed info.
  Proof.
    set (w := fold_left cstep ops (cfresh t0)).
    assert (HI : Inv vtree cargs tstate gen_result cprecheck cload_ts cgen cis_local w)
      by apply (inv_history vtree cargs tstate gen_result cprecheck cload_ts cgen cts_valid caccepts cview cis_local).
    intros Hrun r [-> | ->] info Hin.
    - (* a hit: the cached result is a generation of the current tree *)
      destruct (hit_sound _ _ _ _ cprecheck cload_ts cgen cts_valid caccepts cview cis_local
                  (frame_gen H EV bd store (load_frame_holds bd store)) a k w w' r HI Hrun)
        as (_ & c0 & r0 & _ & _ & _ & _ & _ & Hg & _ & Hv).
      subst r. apply cview_builds_incl in Hin. exact (cgen_builds_closed _ _ _ Hg info Hin).
    - (* regenerated *)
      unfold Cache.crun, Cache.mrun in Hrun.
      destruct (cprecheck a) as [u| | |]; try discriminate.
      destruct (lookup _ _ _ _ cts_valid caccepts cview cis_local a w); [discriminate|].
      destruct (cload_ts (w_tree _ _ _ _ w)); try discriminate.
      destruct (Nat.eqb k 1); [discriminate|]. destruct (Nat.eqb k 2); [discriminate|]. destruct (Nat.eqb k 3); [discriminate|].
      destruct (cgen (w_tree _ _ _ _ w) a) as [r0| | |] eqn:Hg; try discriminate.
      destruct (Nat.eqb k 4 || Nat.eqb k 5); [discriminate|]. destruct (Nat.eqb k 6); [discriminate|].
      destruct (Nat.eqb k 7); [discriminate|]. injection Hrun as _ <-.
      exact (cgen_builds_closed _ _ _ Hg info Hin).
  Qed.

  (* the same for exclusivity; a hit is only accepted for equal --disable lists, so the disables are the requested ones *)
  Theorem reported_builds_exclusive t0 ops a k w' o :
    crun a k (fold_left cstep ops (cfresh t0)) = (w', o) ->
    forall r, o = OHit r \/ o = ORegen r -> forall info, In info (gr_builds r) -> build_exclusive (ca_disable a) info.
  Proof.
    set (w := fold_left cstep ops (cfresh t0)).
    assert (HI : Inv vtree cargs tstate gen_result cprecheck cload_ts cgen cis_local w)
      by apply (inv_history vtree cargs tstate gen_result cprecheck cload_ts cgen cts_valid caccepts cview cis_local).
    intros Hrun r [-> | ->] info Hin.
    - destruct (hit_sound _ _ _ _ cprecheck cload_ts cgen cts_valid caccepts cview cis_local
                  (frame_gen H EV bd store (load_frame_holds bd store)) a k w w' r HI Hrun)
        as (_ & c0 & r0 & _ & Hr0 & Hacc & _ & _ & Hg & _ & Hv).
      subst r. apply cview_builds_incl in Hin.
      destruct (caccepts_spec _ _ _ Hacc) as (_ & _ & _ & _ & _ & _ & _ & _ & _ & Hdis & _).
      rewrite <- Hdis. exact (cgen_builds_exclusive _ _ _ Hg info Hin).
    - unfold Cache.crun, Cache.mrun in Hrun.
      destruct (cprecheck a) as [u| | |]; try discriminate.
      destruct (lookup _ _ _ _ cts_valid caccepts cview cis_local a w); [discriminate|].
      destruct (cload_ts (w_tree _ _ _ _ w)); try discriminate.
      destruct (Nat.eqb k 1); [discriminate|]. destruct (Nat.eqb k 2); [discriminate|]. destruct (Nat.eqb k 3); [discriminate|].
      destruct (cgen (w_tree _ _ _ _ w) a) as [r0| | |] eqn:Hg; try discriminate.
      destruct (Nat.eqb k 4 || Nat.eqb k 5); [discriminate|]. destruct (Nat.eqb k 6); [discriminate|].
      destruct (Nat.eqb k 7); [discriminate|]. injection Hrun as _ <-.
      exact (cgen_builds_exclusive _ _ _ Hg info Hin).
  Qed.
End Closed.
