(* ResolverFacts.v — the resolver's postcondition (C01): closure under hard dependencies,
   proved for every lookup/provider function, every state and every dependency graph. *)
From Coq Require Import Ascii String.
From Coq Require Import List Arith Bool NArith Lia.
Import ListNotations.
Require Import Laze.model.Base Laze.model.Env Laze.model.Allow Laze.model.Ninja Laze.model.Ctx
        Laze.model.Resolver Laze.proofs.BaseFacts.
Open Scope list_scope.

(* ---- association-list lemmas ---- *)
Lemma get_app_at_same {V} k (v : V) m : get_list k (app_at k v m) = get_list k m ++ [v].
Proof.
  induction m as [|[k' l] r IH]; cbn.
  - rewrite str_eqb_refl. reflexivity.
  - destruct (str_eqb k k') eqn:E; cbn; rewrite E; auto.
Qed.
Lemma get_app_at_other {V} k k' (v : V) m : str_eqb k k' = false -> get_list k (app_at k' v m) = get_list k m.
Proof.
  intros Hne. induction m as [|[k2 l] r IH]; cbn.
  - rewrite Hne. reflexivity.
  - destruct (str_eqb k' k2) eqn:E; cbn.
    + apply str_eqb_eq in E; subst. rewrite Hne. reflexivity.
    + destruct (str_eqb k k2); auto.
Qed.
Lemma get_app_at_incl {V} k k' (v : V) m x : In x (get_list k m) -> In x (get_list k (app_at k' v m)).
Proof.
  intros H. destruct (str_eqb k k') eqn:E.
  - apply str_eqb_eq in E; subst. rewrite get_app_at_same. apply in_or_app; auto.
  - rewrite get_app_at_other; auto.
Qed.

Section C01.
  Variable lookup : str -> option module.
  Variable provs : str -> option (list str).

  (* a dependency name is satisfied: a selected module of that name, or a selected provider *)
  Definition Sat (st : rstate) (n : str) : Prop :=
    selected n st = true \/ exists p, In p (sel st) /\ In n (provides_of p).
  Definition DepOK (st : rstate) (d : dep) : Prop :=
    match d with
    | Hard n => Sat st n
    | IfThenHard o n => Sat st n \/ (selected o st = false /\ In (Hard n) (get_list o (ifthen st)))
    | _ => True
    end.
  Definition Step (st st' : rstate) : Prop :=
    exists l, sel st' = sel st ++ l
    /\ (forall x, In x l -> forall d, In d (m_selects x) -> DepOK st' d)
    /\ (forall o d, In d (get_list o (ifthen st)) -> In d (get_list o (ifthen st')))
    /\ (forall o n, In (Hard n) (get_list o (ifthen st)) -> selected o st = false -> selected o st' = true -> Sat st' n).

  (* every listed provider name, once selected, is a selected module providing n *)
  Definition ProvSound (st : rstate) : Prop :=
    forall n ps p, provs n = Some ps -> In p ps -> selected p st = true ->
      exists mp, In mp (sel st) /\ In n (provides_of mp).
  Hypothesis lookup_name : forall n m, lookup n = Some m -> m_name m = n.
  (* the provider sets only list modules that (as seen from the builder) provide the name *)
  Hypothesis provided_sound : forall n ps p, provs n = Some ps -> In p ps ->
    exists mp, lookup p = Some mp /\ In n (provides_of mp).
  (* the app is selected directly, not through lookup: whatever its name resolves to must
     provide the same names (it is the app itself unless a nearer context shadows it) *)
  Variable app : module.
  Hypothesis app_ok : forall a0, lookup (m_name app) = Some a0 -> provides_of a0 = provides_of app.

  (* selected modules are lookup images (or the app) *)
  Definition okmod (m : module) : Prop := lookup (m_name m) = Some m \/ m = app.
  Definition Good (st : rstate) : Prop := forall x, In x (sel st) -> okmod x.

  Lemma good_prov_sound st : Good st -> ProvSound st.
  Proof.
    intros G n ps p Hp Hin Hsel. unfold selected in Hsel. apply existsb_exists in Hsel as (x & Hx & E).
    apply str_eqb_eq in E. destruct (provided_sound n ps p Hp Hin) as (mp & Hl & Hn).
    exists x. split; [exact Hx|]. destruct (G x Hx) as [Hlx | ->].
    - rewrite <- E in Hlx. rewrite Hl in Hlx. inversion Hlx; subst. exact Hn.
    - rewrite E in Hl. rewrite (app_ok mp Hl) in Hn. exact Hn.
  Qed.

  Lemma selected_app n st st' l : sel st' = sel st ++ l -> selected n st = true -> selected n st' = true.
  Proof. unfold selected; intros -> H. rewrite existsb_app, H. reflexivity. Qed.
  Lemma Sat_mono st st' l n : sel st' = sel st ++ l -> Sat st n -> Sat st' n.
  Proof.
    intros E [H|[p [Hp Hn]]]; [left; eauto using selected_app|].
    right; exists p; rewrite E; split; auto using in_or_app.
  Qed.

  Lemma Step_refl st : Step st st.
  Proof. exists []. rewrite app_nil_r. repeat split; auto; try (intros; contradiction). intros; congruence. Qed.

  Lemma DepOK_step a b d : DepOK a d -> Step a b -> DepOK b d.
  Proof.
    intros H (l & E & _ & Hg & Hh). destruct d; cbn in *; auto.
    - eapply Sat_mono; eauto.
    - destruct H as [H|[Ho Hr]]; [left; eapply Sat_mono; eauto|].
      destruct (selected o b) eqn:Eo; [left; eauto | right; auto].
  Qed.

  Lemma Step_trans a b c : Step a b -> Step b c -> Step a c.
  Proof.
    intros Hab Hbc. pose proof Hab as (l1 & E1 & N1 & G1 & H1). pose proof Hbc as (l2 & E2 & N2 & G2 & H2).
    exists (l1 ++ l2). repeat split.
    - rewrite E2, E1, app_assoc. reflexivity.
    - intros x Hx d Hd. apply in_app_or in Hx as [Hx|Hx]; [eapply DepOK_step; eauto | eauto].
    - auto.
    - intros o n Hr Hoa Hoc. destruct (selected o b) eqn:Eb.
      + eapply Sat_mono; [exact E2|]. eauto.
      + eauto.
  Qed.

  Definition rec_post (rec : rstate -> module -> res rstate) :=
    forall st m st', Good st -> okmod m -> rec st m = Ok st' ->
      Step st st' /\ selected (m_name m) st' = true /\ Good st'.

  Lemma by_name_post rec : rec_post rec -> forall st n st', Good st ->
    by_name lookup rec st n = Ok st' -> Step st st' /\ selected n st' = true /\ Good st'.
  Proof.
    unfold by_name; intros Hr st n st' G H. destruct (lookup n) eqn:E; [|discriminate].
    pose proof (lookup_name n m E) as En.
    apply Hr in H as (H1 & H2 & H3); [|exact G|left; rewrite En; exact E].
    rewrite En in H2. auto.
  Qed.

  Lemma rlist_post rec : rec_post rec -> forall pn ps cur cnt st' cnt', Good cur ->
    rlist lookup rec pn ps cur cnt = Ok (st', cnt') ->
    Step cur st' /\ (cnt < cnt' -> exists p, In p ps /\ selected p st' = true) /\ cnt <= cnt' /\ Good st'.
  Proof.
    intros Hr pn ps; induction ps as [|p ps IH]; cbn [rlist]; intros cur cnt st' cnt' G H.
    - inversion H; subst. split; [apply Step_refl|split;[lia|split;[lia|exact G]]].
    - destruct (selected p cur) eqn:Es.
      + apply IH in H as (S1 & Hc & Hle & G'); [|exact G]. split; [auto|split;[|split;[lia|exact G']]]. intros _.
        exists p; split; [left; auto|]. destruct S1 as (l & E & _). eauto using selected_app.
      + destruct (has_key pn (disabled cur)).
        * destruct (Nat.ltb 0 cnt).
          -- inversion H; subst. split; [apply Step_refl|split;[lia|split;[lia|exact G]]].
          -- apply IH in H as (S1 & Hc & Hle & G'); [|exact G]. split; [auto|split;[|split;[lia|exact G']]]. intros Hlt.
             destruct (Hc Hlt) as (q & Hq & Hs). exists q; split; [right; auto|auto].
        * destruct (by_name lookup rec cur p) eqn:EB; try discriminate.
          -- apply by_name_post in EB as (S0 & Hsel & G0); auto. apply IH in H as (S1 & Hc & Hle & G'); [|exact G0].
             split; [eapply Step_trans; eauto|split;[|split;[lia|exact G']]]. intros _. exists p; split; [left; auto|].
             destruct S1 as (l & E & _). eauto using selected_app.
          -- apply IH in H as (S1 & Hc & Hle & G'); [|exact G]. split; [auto|split;[|split;[lia|exact G']]]. intros Hlt.
             destruct (Hc Hlt) as (q & Hq & Hs). exists q; split; [right; auto|auto].
  Qed.

  Lemma Step_add_ifthen cur o d : selected o cur = false -> Step cur (add_ifthen o d cur).
  Proof.
    intros Ho. exists []. cbn. rewrite app_nil_r. repeat split; auto; try (intros; contradiction).
    - intros; apply get_app_at_incl; auto.
    - intros o' n _ H1 H2. unfold selected in *. cbn in *. congruence.
  Qed.

  Lemma classify_go_ok d cur n opt st' :
    classify d cur = Go n opt -> (opt = false -> Sat st' n) -> DepOK st' d.
  Proof.
    destruct d; cbn; intros H Hs; try (inversion H; subst; auto; fail); try exact I.
    destruct (selected o cur); inversion H; subst. left; auto.
  Qed.

  Lemma Good_add_ifthen cur o d : Good cur -> Good (add_ifthen o d cur).
  Proof. intros G x Hx. apply G. exact Hx. Qed.

  Lemma deps_post rec : rec_post rec -> forall ds cur st', Good cur ->
    deps lookup provs rec ds cur = Ok st' -> Step cur st' /\ (forall d, In d ds -> DepOK st' d) /\ Good st'.
  Proof.
    intros Hr ds; induction ds as [|d ds IH]; cbn [deps]; intros cur st' G H.
    - inversion H; subst. split; [apply Step_refl|split;[intros ? []|exact G]].
    - destruct (classify d cur) as [o d'|n opt] eqn:EC.
      + (* register *)
        assert (Ho : selected o cur = false /\
                     (match d with IfThenHard o' n' => o' = o /\ d' = Hard n' | IfThenSoft _ _ => True | _ => False end)).
        { destruct d; cbn in EC; try discriminate; destruct (selected o0 cur) eqn:E; inversion EC; subst; auto. }
        destruct Ho as [Ho Hd]. apply IH in H as (S1 & Hds & G'); [|apply Good_add_ifthen; exact G].
        pose proof (Step_add_ifthen cur o d' Ho) as S0.
        split; [eapply Step_trans; eauto|split;[|exact G']]. intros d0 [<-|Hin]; [|auto].
        eapply DepOK_step; [|exact S1]. destruct d; try contradiction; cbn; auto.
        destruct Hd as [-> ->]. right. split; [unfold selected in *; cbn; auto|].
        cbn. rewrite get_app_at_same. apply in_or_app; right; left; auto.
      + (* go *)
        set (PR := match provs n with
                   | Some ps => match rlist lookup rec n ps cur 0 with
                                | Ok (c, cnt) => if Nat.ltb 0 cnt then Ok (c, true) else Ok (cur, false)
                                | Err e => Err e | Panic k => Panic k | Fuel => Fuel end
                   | None => Ok (cur, false) end) in *.
        assert (HPR : forall cur1 wp, PR = Ok (cur1, wp) -> Step cur cur1 /\ (wp = true -> Sat cur1 n) /\ Good cur1).
        { subst PR. intros cur1 wp. destruct (provs n) as [ps|] eqn:EP.
          - destruct (rlist lookup rec n ps cur 0) as [[c cnt]| | |] eqn:EL; try discriminate.
            apply rlist_post in EL as (S0 & Hc & _ & Gc); auto.
            destruct (Nat.ltb 0 cnt) eqn:Ec; intros E; inversion E; subst.
            + split; auto. split; [|exact Gc]. intros _. apply Nat.ltb_lt in Ec. destruct (Hc Ec) as (p & Hp & Hs).
              destruct (good_prov_sound cur1 Gc n ps p EP Hp Hs) as (mp & H1 & H2). right; eauto.
            + split; [apply Step_refl|split;[discriminate|exact G]].
          - intros E; inversion E; subst. split; [apply Step_refl|split;[discriminate|exact G]]. }
        destruct PR as [[cur1 wp]| | |] eqn:EPR; try discriminate.
        destruct (HPR cur1 wp eq_refl) as (S0 & Hwp & G1). clear HPR.
        assert (Hfin : forall cur2 (Sat2 : opt = false -> Sat cur2 n), Step cur1 cur2 -> Good cur2 ->
                  deps lookup provs rec ds cur2 = Ok st' ->
                  Step cur st' /\ (forall d0 : dep, d = d0 \/ In d0 ds -> DepOK st' d0) /\ Good st').
        { intros cur2 Sat2 S12 G2 HD. apply IH in HD as (S2 & Hds & G'); [|exact G2]. split; [eauto using Step_trans|split;[|exact G']].
          intros d0 [<-|Hin]; [|auto]. eapply DepOK_step; [|exact S2].
          eapply classify_go_ok; eauto. }
        destruct (wp && has_key n (disabled cur1)) eqn:Ewd.
        * apply andb_true_iff in Ewd as [-> _]. eapply Hfin; eauto using Step_refl.
        * destruct (by_name lookup rec cur1 n) eqn:EB; try discriminate.
          -- apply by_name_post in EB as (S12 & Hsel & G2); auto. eapply Hfin; eauto. intros _; left; auto.
          -- destruct (opt || wp) eqn:Eow; [|discriminate]. eapply Hfin; eauto using Step_refl.
             intros ->. cbn in Eow. subst. auto.
  Qed.

  Theorem resolve_post : forall f, rec_post (resolve_deep lookup provs f).
  Proof.
    induction f as [|f IH]; intros st m st' G Hm0 H; cbn [resolve_deep] in H; [discriminate|].
    destruct (selected (m_name m) st) eqn:E1; [inversion H; subst; split; [apply Step_refl|auto]|].
    destruct (blocked st m); [discriminate|].
    set (st1 := enter st m) in *.
    assert (G1 : Good st1).
    { intros x Hx. change (sel st1) with (sel st ++ [m]) in Hx. apply in_app_or in Hx as [Hx|[<-|[]]]; [apply G; exact Hx|exact Hm0]. }
    apply deps_post in H as ((l & E & N & Gg & Hh) & Hds & G'); auto.
    assert (Esel : sel st1 = sel st ++ [m]) by reflexivity.
    assert (Hm : selected (m_name m) st' = true).
    { eapply selected_app; [exact E|]. unfold selected. rewrite Esel, existsb_app. cbn.
      rewrite str_eqb_refl. apply orb_true_r. }
    split; [|split;[exact Hm|exact G']].
    exists ([m] ++ l). repeat split.
    - rewrite E, Esel, <- app_assoc. reflexivity.
    - intros x [<-|Hx] d Hd; [apply Hds; apply in_or_app; auto | eauto].
    - intros o d Hd. apply Gg. exact Hd.
    - intros o n Hr Ho Ho'. destruct (str_eqb o (m_name m)) eqn:Eo.
      + apply str_eqb_eq in Eo; subst o. specialize (Hds (Hard n)). cbn in Hds. apply Hds.
        apply in_or_app; right. exact Hr.
      + apply (Hh o n); [exact Hr| |auto].
        unfold selected in *. rewrite Esel, existsb_app, Ho. cbn. rewrite Eo. reflexivity.
  Qed.

  (* closure of the result: every selected module has its hard dependencies satisfied, and
     its if-then-hard dependencies satisfied whenever the condition module is selected *)
  Definition closed_dep (st : rstate) (d : dep) : Prop :=
    match d with
    | Hard n => Sat st n
    | IfThenHard o n => selected o st = true -> Sat st n
    | _ => True
    end.

  Lemma good_init d0 : Good (init_state d0).
  Proof. intros x []. Qed.

  Theorem closure f d0 st' :
    resolve_deep lookup provs f (init_state d0) app = Ok st' ->
    In app (sel st') /\
    forall x, In x (sel st') -> forall d, In d (m_selects x) -> closed_dep st' d.
  Proof.
    intros H. pose proof H as H0.
    apply resolve_post in H as ((l & E & N & _) & Hsel & _); [|apply good_init|right; reflexivity].
    cbn in E. subst l.
    split.
    - destruct f as [|f]; [discriminate|]. cbn [resolve_deep] in H0.
      cbn [init_state selected sel existsb] in H0.
      destruct (blocked (init_state d0) app); [discriminate|].
      apply deps_post in H0 as ((l & E & _) & _); [|apply resolve_post|].
      + rewrite E. cbn. left. reflexivity.
      + intros x [<-|[]]. right; reflexivity.
    - intros x Hx d Hd. specialize (N x Hx d Hd). destruct d; cbn in *; auto.
      intros Ho. destruct N as [|[Hn _]]; [auto|congruence].
  Qed.
End C01.
