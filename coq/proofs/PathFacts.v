(* PathFacts.v — injectivity facts behind object naming (C07): decimal printing, with_extension,
   path_push. *)
From Coq Require Import Ascii String.
From Coq Require Import List Arith Bool NArith Lia.
Import ListNotations.
Require Import Laze.model.Base Laze.model.Path Laze.model.Generate Laze.proofs.BaseFacts.
Open Scope list_scope.

(* ---------- show_dec is injective ---------- *)
Definition enough (f : nat) (n : N) : Prop := (N.to_nat (N.log2 n) < f)%nat.

Lemma show_go_len f n acc : (1 <= f)%nat -> (1 + length acc <= length (show_dec_go f n acc))%nat.
Proof.
  revert n acc. induction f as [|f IH]; intros n acc H; [lia|]. cbn [show_dec_go].
  destruct (N.ltb n 10); [cbn; lia|].
  destruct f as [|f']; [cbn; lia|]. specialize (IH (N.div n 10) (ascii_of_N (48 + N.modulo n 10) :: acc)).
  cbn [length] in IH. lia.
Qed.

Lemma log2_div10 n : (10 <= n)%N -> (N.log2 (n / 10) < N.log2 n)%N.
Proof.
  intros H. assert (H2 : (n / 10 <= N.shiftr n 1)%N).
  { rewrite N.shiftr_div_pow2. change (2 ^ 1)%N with 2%N.
    apply N.div_le_lower_bound; [lia|]. pose proof (N.mul_div_le n 10). lia. }
  apply N.log2_le_mono in H2. rewrite N.log2_shiftr in H2.
  assert (H3 : (3 <= N.log2 n)%N). { change 3%N with (N.log2 8). apply N.log2_le_mono. lia. }
  lia.
Qed.

Lemma digit_inj a b : (a < 10)%N -> (b < 10)%N -> ascii_of_N (48 + a) = ascii_of_N (48 + b) -> a = b.
Proof.
  intros Ha Hb E. apply (f_equal N_of_ascii) in E.
  rewrite !N_ascii_embedding in E by lia. lia.
Qed.

Lemma show_go_inj : forall f n1 n2 acc1 acc2,
  enough f n1 -> enough f n2 -> length acc1 = length acc2 ->
  show_dec_go f n1 acc1 = show_dec_go f n2 acc2 -> n1 = n2 /\ acc1 = acc2.
Proof.
  induction f as [|f IH]; intros n1 n2 acc1 acc2 E1 E2 HL H; [unfold enough in E1; lia|].
  cbn [show_dec_go] in H.
  destruct (N.ltb n1 10) eqn:L1; destruct (N.ltb n2 10) eqn:L2.
  - apply N.ltb_lt in L1, L2. injection H as Hd Ha. split; [|exact Ha].
    rewrite !N.mod_small in Hd by lia. apply digit_inj in Hd; lia.
  - apply N.ltb_ge in L2. exfalso.
    assert (Hf : (1 <= f)%nat).
    { unfold enough in E2. assert (3 <= N.log2 n2)%N by (change 3%N with (N.log2 8); apply N.log2_le_mono; lia). lia. }
    pose proof (show_go_len f (n2 / 10) (ascii_of_N (48 + n2 mod 10) :: acc2) Hf) as G.
    rewrite <- H in G. cbn [length] in G. lia.
  - apply N.ltb_ge in L1. exfalso.
    assert (Hf : (1 <= f)%nat).
    { unfold enough in E1. assert (3 <= N.log2 n1)%N by (change 3%N with (N.log2 8); apply N.log2_le_mono; lia). lia. }
    pose proof (show_go_len f (n1 / 10) (ascii_of_N (48 + n1 mod 10) :: acc1) Hf) as G.
    rewrite H in G. cbn [length] in G. lia.
  - apply N.ltb_ge in L1, L2.
    apply IH in H.
    + destruct H as [Hq Ha]. injection Ha as Hd Hacc. split; [|exact Hacc].
      apply digit_inj in Hd; [|apply N.mod_lt; lia|apply N.mod_lt; lia].
      rewrite (N.div_mod n1 10), (N.div_mod n2 10) by lia. rewrite Hq, Hd. reflexivity.
    + unfold enough in *. pose proof (log2_div10 n1 L1). lia.
    + unfold enough in *. pose proof (log2_div10 n2 L2). lia.
    + cbn. lia.
Qed.

Theorem show_dec_inj n1 n2 : show_dec n1 = show_dec n2 -> n1 = n2.
Proof.
  unfold show_dec. intros H.
  set (f := S (Nat.max (N.to_nat (N.log2 n1)) (N.to_nat (N.log2 n2)))).
  assert (G : forall n g, enough g n -> forall g', (g <= g')%nat -> forall acc, show_dec_go g n acc = show_dec_go g' n acc).
  { intros n g. revert n. induction g as [|g IHg]; intros n En g' Hg acc; [unfold enough in En; lia|].
    destruct g' as [|g'']; [lia|]. cbn [show_dec_go]. destruct (N.ltb n 10) eqn:L; [reflexivity|].
    apply N.ltb_ge in L. apply IHg; [|lia]. unfold enough in *. pose proof (log2_div10 n L). lia. }
  rewrite (G n1 _ (Nat.lt_succ_diag_r _) f) in H by (subst f; lia).
  rewrite (G n2 _ (Nat.lt_succ_diag_r _) f) in H by (subst f; lia).
  apply show_go_inj in H; [apply H| | |reflexivity]; unfold enough; subst f; lia.
Qed.

(* ---------- object extension and path ---------- *)
Lemma app_inv_tail_str (a b c : str) : a ++ c = b ++ c -> a = b.
Proof. apply app_inv_tail. Qed.

Theorem object_ext_inj h1 h2 rout : object_ext true h1 rout = object_ext true h2 rout -> h1 = h2.
Proof.
  unfold object_ext. intros H. apply show_dec_inj. eapply app_inv_tail. exact H.
Qed.

Lemma path_push_inj a b1 b2 :
  is_absolute b1 = false -> is_absolute b2 = false -> path_push a b1 = path_push a b2 -> b1 = b2.
Proof.
  unfold path_push. intros A1 A2. rewrite A1, A2. destruct a as [|c a']; [auto|].
  destruct (last_char (c :: a')) as [l|]; [|auto].
  destruct (is_slash l); intros H.
  - eapply app_inv_head. exact H.
  - apply app_inv_head in H. inversion H. reflexivity.
Qed.

Lemma with_extension_inj p n e1 e2 :
  file_name p = Some n -> e1 <> [] -> e2 <> [] -> with_extension p e1 = with_extension p e2 -> e1 = e2.
Proof.
  unfold with_extension. intros Hn H1 H2. rewrite Hn.
  destruct e1 as [|c1 t1]; [contradiction|]. destruct e2 as [|c2 t2]; [contradiction|].
  intros H. apply app_inv_head in H. apply app_inv_head in H. inversion H. reflexivity.
Qed.

(* ---------- rel_root: what is pushed onto the object directory is never absolute ---------- *)
Definition noslash (x : str) : Prop := forall c, In c x -> is_slash c = false.

Lemma split_slash_noslash : forall p cur, noslash cur -> Forall noslash (split_slash p cur).
Proof.
  induction p as [|c t IH]; intros cur Hc; cbn [split_slash].
  - constructor; [|constructor]. intros d Hd. apply Hc. apply in_rev. exact Hd.
  - destruct (is_slash c) eqn:E.
    + constructor; [intros d Hd; apply Hc; apply in_rev; exact Hd|]. apply IH. intros d [].
    + apply IH. intros d [<-|Hd]; [exact E|apply Hc, Hd].
Qed.

Lemma drop_comps_Forall (P : str -> Prop) : forall l k first abs, Forall P l -> Forall P (drop_comps l k first abs).
Proof.
  induction l as [|x t IH]; intros k first abs HF; destruct k as [|k]; cbn [drop_comps]; try exact HF.
  inversion HF as [|? ? Hx Ht]; subst. destruct x as [|c r].
  - destruct (first && abs); apply IH, Ht.
  - destruct (str_eqb (c :: r) [ch_dot] && negb (first && negb abs)); apply IH, Ht.
Qed.

Lemma trim_left_Forall (P : str -> Prop) l : Forall P l -> Forall P (trim_left l).
Proof.
  induction l as [|x t IH]; intros HF; cbn [trim_left]; [constructor|].
  inversion HF as [|? ? Hx Ht]; subst. destruct (is_filler x); [apply IH, Ht|exact HF].
Qed.

Lemma trim_left_head l x t : trim_left l = x :: t -> is_filler x = false.
Proof.
  induction l as [|y r IH]; cbn [trim_left]; [discriminate|].
  destruct (is_filler y) eqn:E; [exact IH|]. intros [= <- _]. exact E.
Qed.

(* trimming fillers at the end keeps a head that is no filler *)
Lemma trim_right_head x t : is_filler x = false -> exists t', rev (trim_left (rev (x :: t))) = x :: t'.
Proof.
  intros Hx. induction t as [|y r IH] using rev_ind.
  - cbn. rewrite Hx. exists []. reflexivity.
  - assert (E : rev (x :: r ++ [y]) = y :: rev (x :: r)).
    { change (x :: r ++ [y]) with ((x :: r) ++ [y]). rewrite rev_app_distr. reflexivity. }
    rewrite E. cbn [trim_left]. destruct (is_filler y).
    + exact IH.
    + exists (r ++ [y]). rewrite <- E, rev_involutive. reflexivity.
Qed.

Lemma join_slash_head x t : x <> [] -> noslash x -> is_absolute (join_slash (x :: t)) = false.
Proof.
  intros Hne Hns. destruct x as [|c r]; [contradiction|].
  assert (Hc : is_slash c = false) by (apply Hns; left; reflexivity).
  destruct t; cbn; exact Hc.
Qed.

Theorem rel_root_relative p : is_absolute (rel_root p) = false.
Proof.
  unfold rel_root. destruct (is_absolute p) eqn:Ea; [|exact Ea].
  unfold strip_prefix.
  assert (Hp : list_prefix (components [ch_slash]) (components p) = true).
  { change (components [ch_slash]) with [[ch_slash]]. unfold components. rewrite Ea. reflexivity. }
  rewrite Hp.
  change (length (components [ch_slash])) with 1. cbv iota beta.
  set (rest := drop_comps (split_slash p []) 1 true (is_absolute p)).
  assert (HF : Forall noslash (trim_left rest)).
  { apply trim_left_Forall, drop_comps_Forall, split_slash_noslash. intros c []. }
  destruct (trim_left rest) as [|x t] eqn:Et; [reflexivity|].
  pose proof (trim_left_head _ _ _ Et) as Hx.
  destruct (trim_right_head x t Hx) as [t' ->].
  apply join_slash_head.
  - intros ->. discriminate Hx.
  - inversion HF; assumption.
Qed.
