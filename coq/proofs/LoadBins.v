(* LoadBins.v — in a loaded bag every binary (app) knows its context and its directory: the two
   lookups that the generator unwraps (panic sites 101 and 102 of the model) cannot fail. *)
From Coq Require Import Ascii String.
From Coq Require Import List Arith Bool NArith Lia.
Import ListNotations.
Require Import Laze.model.Base Laze.model.Env Laze.model.Allow Laze.model.Ctx Laze.model.Load Laze.model.Checks.
Require Import Laze.proofs.BaseFacts Laze.proofs.LoadNames Laze.proofs.LoadKeys Laze.proofs.LoadOnce.
Open Scope list_scope.

Definition is_some {A} (o : option A) : bool := match o with Some _ => true | None => false end.
Definition bin_okb (m : module) : bool := negb (m_is_binary m) || (is_some (m_context_id m) && is_some (m_relpath m)).
Definition ctx_bins (c : context) : bool := forallb (fun km => bin_okb (snd km)) (c_modules c).
Definition bag_bins (b : bag) : bool := forallb ctx_bins b.

Lemma bag_bins_app b1 b2 : bag_bins (b1 ++ b2) = bag_bins b1 && bag_bins b2.
Proof. unfold bag_bins. apply forallb_app. Qed.

Lemma bag_bins_set_ctx b i c : bag_bins b = true -> ctx_bins c = true -> bag_bins (set_ctx b i c) = true.
Proof.
  unfold set_ctx. intros Hk Hc. rewrite bag_bins_app. apply andb_true_iff. split.
  - unfold bag_bins in *. rewrite forallb_forall in *. intros x Hx. apply Hk. eapply In_firstn. exact Hx.
  - change (c :: skipn (S i) b) with ([c] ++ skipn (S i) b). rewrite bag_bins_app. apply andb_true_iff. split.
    + unfold bag_bins. cbn. rewrite andb_true_r. exact Hc.
    + unfold bag_bins in *. rewrite forallb_forall in *. intros x Hx. apply Hk.
      rewrite <- (firstn_skipn (S i) b). apply in_or_app. right. exact Hx.
Qed.

Lemma bag_bins_get b i c : bag_bins b = true -> bag_get b i = Some c -> ctx_bins c = true.
Proof.
  unfold bag_bins, bag_get. intros Hk Hg. rewrite forallb_forall in Hk. apply Hk. eapply nth_error_In. exact Hg.
Qed.

Lemma fold_bins {A} (f : bag -> A -> bag) : (forall b a, bag_bins b = true -> bag_bins (f b a) = true) ->
  forall l b, bag_bins b = true -> bag_bins (fold_left f l b) = true.
Proof. intros Hf. induction l as [|a t IH]; intros b Hk; cbn [fold_left]; [exact Hk|]. apply IH, Hf, Hk. Qed.

Lemma inherit_env_bins b nm : bag_bins b = true -> bag_bins (inherit_env b nm) = true.
Proof.
  intros Hk. unfold inherit_env. destruct (snd nm); [exact Hk|].
  destruct (bag_get b (fst nm)) as [c|] eqn:Eg; [|exact Hk].
  destruct (c_parent_index c) as [p|]; [|exact Hk]. destruct (bag_get b p) as [pc|]; [|exact Hk].
  destruct (c_env pc); [|exact Hk]. apply bag_bins_set_ctx; [exact Hk|]. exact (bag_bins_get _ _ _ Hk Eg).
Qed.
Lemma inherit_var_options_bins b nm : bag_bins b = true -> bag_bins (inherit_var_options b nm) = true.
Proof.
  intros Hk. unfold inherit_var_options. destruct (snd nm); [exact Hk|].
  destruct (bag_get b (fst nm)) as [c|] eqn:Eg; [|exact Hk].
  destruct (c_var_options c); [exact Hk|]. destruct (c_parent_index c) as [p|]; [|exact Hk].
  destruct (bag_get b p) as [pc|]; [|exact Hk]. apply bag_bins_set_ctx; [exact Hk|]. exact (bag_bins_get _ _ _ Hk Eg).
Qed.
Lemma merge_provides_bins b : bag_bins b = true -> bag_bins (merge_provides b) = true.
Proof.
  unfold merge_provides. apply fold_bins. intros b0 nm Hk. unfold merge_provides_one. destruct (snd nm); [exact Hk|].
  destruct (bag_get b0 (fst nm)) as [c|] eqn:Eg; [|exact Hk]. apply bag_bins_set_ctx; [exact Hk|]. exact (bag_bins_get _ _ _ Hk Eg).
Qed.

Lemma add_module_bins b m b' : bag_bins b = true -> negb (m_is_binary m) || is_some (m_relpath m) = true ->
  add_module b m = Ok b' -> bag_bins b' = true.
Proof.
  unfold add_module. intros Hk Hm. destruct (bag_index b (m_context_name m)) as [i|]; [|discriminate].
  destruct (bag_get b i) as [c|] eqn:Eg; [|discriminate].
  destruct (alookup (m_name m) (c_modules c)); [discriminate|].
  intros E. injection E as <-. apply bag_bins_set_ctx; [exact Hk|].
  unfold ctx_bins. cbn [with_modules c_modules]. rewrite forallb_app. apply andb_true_iff. split.
  - exact (bag_bins_get _ _ _ Hk Eg).
  - cbn [forallb snd]. rewrite andb_true_r. unfold bin_okb, with_context_id. cbn. exact Hm.
Qed.

Lemma finalize_bins b0 b : bag_bins b0 = true -> finalize b0 = Ok b -> bag_bins b = true.
Proof.
  unfold finalize. intros Hk.
  set (b1 := if mem_str (S_ "default") (bag_names b0) then b0 else b0 ++ [context_default]).
  assert (K1 : bag_bins b1 = true).
  { unfold b1. destruct (mem_str (S_ "default") (bag_names b0)); [exact Hk|]. rewrite bag_bins_app, Hk. vm_compute. reflexivity. }
  clearbody b1.
  destruct (resolve_parents (bag_names b1) (map c_parent_name b1)) as [ps|]; [|discriminate].
  destruct (negb (acyclic ps)); [discriminate|]. intros E. injection E as <-.
  apply fold_bins; [intros; apply inherit_var_options_bins; assumption|].
  apply fold_bins; [intros; apply inherit_env_bins; assumption|].
  unfold bag_bins in *. rewrite forallb_forall in *. intros c Hc. apply in_map_iff in Hc. destruct Hc as ([c0 p] & <- & Hin).
  cbn. apply K1. eapply in_combine_l. exact Hin.
Qed.

Lemma add_context_bins b c b' : bag_bins b = true -> ctx_bins c = true -> add_context b c = Ok b' -> bag_bins b' = true.
Proof.
  unfold add_context. intros Hk Hc. destruct (mem_str (c_name c) (bag_names b)); [discriminate|].
  intros E. injection E as <-. rewrite bag_bins_app, Hk. unfold bag_bins. cbn. rewrite andb_true_r. exact Hc.
Qed.

Lemma convert_context_bins y ib f root c m : convert_context y ib f root = Ok (c, m) -> ctx_bins c = true /\ m_is_binary m = false.
Proof.
  unfold convert_context. intros H.
  repeat match type of H with rbind ?X _ = _ => destruct X; cbn [rbind] in H; try discriminate end.
  injection H as <- <-. split; reflexivity.
Qed.

Lemma add_modules_bins bd b d mods is_binary defaults b' :
  bag_bins b = true -> add_modules bd b d mods is_binary defaults = Ok b' -> bag_bins b' = true.
Proof.
  unfold add_modules. intros Hk HF.
  apply (fold_rbind_inv (fun x => bag_bins x = true)
           (fun b0 y => fold_left (fun acc c => rbind acc (fun b1 =>
                          rbind (convert_module bd y c is_binary (ld_file d) (ld_root d) defaults) (add_module b1)))
                          (contexts_of (ym_context y)) (Ok b0))) with (l := mods) (acc := Ok b); [|intros a E; injection E as <-; exact Hk|exact HF].
  intros a y a' Ha HF2.
  apply (fold_rbind_inv (fun x => bag_bins x = true)
           (fun b1 c => rbind (convert_module bd y c is_binary (ld_file d) (ld_root d) defaults) (add_module b1)))
    with (l := contexts_of (ym_context y)) (acc := Ok a); [|intros a0 E; injection E as <-; exact Ha|exact HF2].
  intros a0 c a1 Ha0 E. destruct (convert_module bd y c is_binary (ld_file d) (ld_root d) defaults) as [m| | |] eqn:Ec; cbn [rbind] in E; try discriminate.
  apply (add_module_bins a0 m a1 Ha0); [|exact E].
  rewrite (proj1 (convert_module_relpath _ _ _ _ _ _ _ _ Ec)). cbn. apply orb_true_r.
Qed.

Theorem load_bins_ok t pf bd b : load t pf bd = Ok b -> bag_bins b = true.
Proof.
  unfold load. intros HL.
  destruct (load_files _ t [(pf, (None, None))] 0 []) as [[docs fs]| | |]; cbn [rbind] in HL; try discriminate.
  match type of HL with rbind ?X _ = _ => destruct X as [[b0 cms]| | |] eqn:E1 end; cbn [rbind] in HL; try discriminate.
  assert (K0 : bag_bins b0 = true /\ forall m, In m cms -> m_is_binary m = false).
  { refine (fold_rbind_inv (fun p : bag * list module => bag_bins (fst p) = true /\ forall m, In m (snd p) -> m_is_binary m = false) _ _ docs (Ok ([], [])) (b0, cms) _ E1);
      [|intros a E; injection E as <-; split; [reflexivity|intros m []]].
    intros [ba cmsa] d [ba' cmsa'] Ha Hd. cbn [fst snd] in *.
    refine (fold_rbind_inv (fun p : bag * list module => bag_bins (fst p) = true /\ forall m, In m (snd p) -> m_is_binary m = false) _ _ _ (Ok (ba, cmsa)) (ba', cmsa') _ Hd);
      [|intros a E; injection E as <-; exact Ha].
    intros [bb cmsb] lb [bb' cmsb'] Hb Hlb. cbn [fst snd] in *.
    refine (fold_rbind_inv (fun p : bag * list module => bag_bins (fst p) = true /\ forall m, In m (snd p) -> m_is_binary m = false) _ _ _ (Ok (bb, cmsb)) (bb', cmsb') _ Hlb);
      [|intros a E; injection E as <-; exact Hb].
    intros [bc cmsc] y [bc' cmsc'] Hc Hy. cbn [fst snd] in *.
    destruct (convert_context y (snd lb || yc_is_builder y) (ld_file d) (ld_root d)) as [[c m]| | |] eqn:Ecc; cbn [rbind] in Hy; try discriminate.
    destruct (add_context bc c) as [bn| | |] eqn:Ea; cbn [rbind] in Hy; try discriminate.
    injection Hy as <- <-. destruct (convert_context_bins _ _ _ _ _ _ Ecc) as [Hcb Hmb]. split.
    - exact (add_context_bins _ _ _ (proj1 Hc) Hcb Ea).
    - intros m0 Hm0. apply in_app_or in Hm0. destruct Hm0 as [Hm0|[<-|[]]]; [exact (proj2 Hc m0 Hm0)|exact Hmb]. }
  destruct K0 as [K0 Kc].
  destruct (finalize b0) as [b1| | |] eqn:Ef; cbn [rbind] in HL; try discriminate.
  pose proof (finalize_bins _ _ K0 Ef) as K1.
  match type of HL with rbind ?X _ = _ => destruct X as [b2| | |] eqn:E2 end; cbn [rbind] in HL; try discriminate.
  assert (K2 : bag_bins b2 = true).
  { revert E2 Kc K1. clear. revert b1. induction cms as [|m t IH]; intros b1 E2 Kc K1; cbn [fold_left] in E2.
    - injection E2 as <-. exact K1.
    - cbn [rbind] in E2. destruct (add_module b1 m) as [bx| | |] eqn:Ea;
        try (exfalso; clear -E2; induction t; cbn in E2; [discriminate|auto]).
      apply (IH bx E2); [intros m0 Hm0; apply Kc; right; exact Hm0|].
      apply (add_module_bins b1 m bx K1); [|exact Ea]. rewrite (Kc m (or_introl eq_refl)). reflexivity. }
  match type of HL with rbind ?X _ = _ => destruct X as [[[b3 mm] am]| | |] eqn:E3 end; cbn [rbind] in HL; try discriminate.
  assert (K3 : bag_bins b3 = true).
  { refine (fold_rbind_inv (fun p : bag * list (nat * module) * list (nat * module) => bag_bins (fst (fst p)) = true)
              _ _ docs (Ok (b2, [], [])) (b3, mm, am) _ E3); [|intros a E; injection E as <-; exact K2].
    intros [[ba mma] ama] d [[ba' mma'] ama'] Ha Hd. cbn [fst] in *.
    destruct (get_defaults bd d mma false) as [mdef| | |]; cbn [rbind] in Hd; try discriminate.
    destruct (get_defaults bd d ama true) as [adef| | |]; cbn [rbind] in Hd; try discriminate.
    match type of Hd with rbind ?X _ = _ => destruct X as [b4| | |] eqn:E4 end; cbn [rbind] in Hd; try discriminate.
    match type of Hd with rbind ?X _ = _ => destruct X as [b5| | |] eqn:E5 end; cbn [rbind] in Hd; try discriminate.
    injection Hd as <- _ _.
    assert (K4 : bag_bins b4 = true).
    { destruct (d_modules (ld_doc d)) as [[l|]|]; try (injection E4 as <-; exact Ha). exact (add_modules_bins _ _ _ _ _ _ _ Ha E4). }
    destruct (d_apps (ld_doc d)) as [[l|]|]; try (injection E5 as <-; exact K4); exact (add_modules_bins _ _ _ _ _ _ _ K4 E5). }
  injection HL as <-. apply merge_provides_bins, K3.
Qed.

(* the two facts the generator relies on *)
Corollary loaded_binary_ok t pf bd b m : load t pf bd = Ok b -> In m (all_modules b) -> m_is_binary m = true ->
  m_context_id m <> None /\ m_relpath m <> None.
Proof.
  intros HL Hin Hb. pose proof (load_bins_ok _ _ _ _ HL) as HK.
  unfold all_modules in Hin. apply in_flat_map in Hin. destruct Hin as (c & Hc & Hm).
  unfold bag_bins in HK. rewrite forallb_forall in HK. specialize (HK c Hc).
  unfold ctx_bins in HK. rewrite forallb_forall in HK.
  apply in_map_iff in Hm. destruct Hm as (km & <- & Hkm). specialize (HK km Hkm).
  unfold bin_okb in HK. rewrite Hb in HK. cbn in HK. apply andb_prop in HK. destruct HK as [H1 H2].
  split; [destruct (m_context_id (snd km)); [discriminate|discriminate H1]|destruct (m_relpath (snd km)); [discriminate|discriminate H2]].
Qed.
