(* SelectFront.v — C20 at the level of one configured build: `--select X` on the command line
   gives the same result (builds, statements, tasks, refusals) as the app with X written in front
   of its (loaded) selects and no --select. *)
From Coq Require Import Ascii String.
From Coq Require Import List Arith Bool NArith Lia.
Import ListNotations.
Require Import Laze.model.Base Laze.model.Env Laze.model.Expand Laze.model.Path Laze.model.Hash
        Laze.model.Allow Laze.model.Ninja Laze.model.Ctx Laze.model.Resolver Laze.model.Imports
        Laze.model.Generate Laze.proofs.GenerateFacts.
Open Scope list_scope.

Section SF.
  Variable H : list ascii -> N.
  Variable EV : str -> evr.

  Lemma resolve_build_select_in_front b builder bn bin X d0 :
    resolve_build b builder bn bin X d0 = resolve_build b builder bn (with_selects bin (X ++ m_selects bin)) [] d0.
  Proof. unfold resolve_build. rewrite select_in_front. reflexivity. Qed.

  Lemma shadowed_with_selects b builder bin s : shadowed b builder (with_selects bin s) = shadowed b builder bin.
  Proof. reflexivity. Qed.

  Lemma global_env_with_selects b le builder bctx bin s ms relpath cli :
    global_env b le builder bctx (with_selects bin s) ms relpath cli = global_env b le builder bctx bin ms relpath cli.
  Proof. reflexivity. Qed.

  Theorem configure_select_in_front b le builder bin X disable cli :
    configure_build H EV b le builder bin X disable cli =
    configure_build H EV b le builder (with_selects bin (X ++ m_selects bin)) [] disable cli.
  Proof.
    unfold configure_build.
    destruct (bag_get b builder) as [bctx|]; [|reflexivity].
    rewrite <- resolve_build_select_in_front.
    reflexivity.
  Qed.
End SF.
