(* ImportsClosure.v — what Module::get_imports_recursive (Imports.imports_postorder) computes: the
   modules REACHABLE from a module through active imports (uses / depends; a dependency name stands for
   the selected module of that name and for every selected provider of it), each exactly once, the
   module itself last — also when imports are cyclic.  C04 (whose exports a module sees), C05 (who is
   affected by an export) and C19 (whose build-dep files a statement waits for) are stated over this
   list; this file says which list it is. *)
From Coq Require Import Ascii String.
From Coq Require Import List Arith Bool NArith Lia Relations.
Import ListNotations.
Require Import Laze.model.Base Laze.model.Env Laze.model.Allow Laze.model.Ninja Laze.model.Ctx Laze.model.Resolver
               Laze.model.Imports.
Require Import Laze.proofs.BaseFacts.
Open Scope list_scope.

Section Closure.
  Variable ms : list module.
  Variable provs : list (str * list module).
  Hypothesis provs_selected : forall n y, In y (get_list n provs) -> In y ms.
  Hypothesis names_unique : NoDup (map m_name ms).

  (* the modules one import entry stands for *)
  Definition dep_targets (d : dep) : list module :=
    match import_target ms d with
    | None => []
    | Some n => (match find_sel n ms with Some o => [o] | None => [] end) ++ get_list n provs
    end.
  Definition succs (m : module) : list module := flat_map dep_targets (m_imports m).
  Definition edge (m x : module) : Prop := In x (succs m).
  Definition reach : module -> module -> Prop := clos_refl_trans module edge.

  Definition visit (f : nat) (acc : list module * list str) (x : module) : list module * list str :=
    let '(r, s) := imports_rec f ms provs (snd acc) x in (fst acc ++ r, s).

  Lemma imports_rec_unfold f seen m :
    imports_rec (S f) ms provs seen m =
    if mem_str (m_name m) seen then ([], seen)
    else let '(res, s1) := fold_left (visit f) (succs m) ([], m_name m :: seen) in (res ++ [m], s1).
  Proof.
    cbn [imports_rec]. destruct (mem_str (m_name m) seen); [reflexivity|].
    fold (visit f).
    assert (G : forall ds acc,
      fold_left (fun (acc : list module * list str) (d : dep) =>
                   match import_target ms d with
                   | None => acc
                   | Some n => fold_left (visit f) (get_list n provs)
                                 (match find_sel n ms with Some other => visit f acc other | None => acc end)
                   end) ds acc
      = fold_left (visit f) (flat_map dep_targets ds) acc).
    { induction ds as [|d t IH]; intros acc; cbn [fold_left flat_map]; [reflexivity|].
      rewrite fold_left_app, IH. f_equal. unfold dep_targets.
      destruct (import_target ms d) as [n|]; [|reflexivity].
      destruct (find_sel n ms); reflexivity. }
    unfold succs. rewrite <- G. reflexivity.
  Qed.

  Lemma succs_selected m x : In x (succs m) -> In x ms.
  Proof.
    unfold succs. intros Hx. apply in_flat_map in Hx. destruct Hx as (d & _ & Hx). unfold dep_targets in Hx.
    destruct (import_target ms d) as [n|]; [|destruct Hx].
    apply in_app_or in Hx. destruct Hx as [Hx|Hx]; [|exact (provs_selected n x Hx)].
    destruct (find_sel n ms) as [o|] eqn:E; [|destruct Hx]. destruct Hx as [<-|[]].
    unfold find_sel in E. apply find_some in E. exact (proj1 E).
  Qed.

  Lemma same_name_same_module a b : In a ms -> In b ms -> m_name a = m_name b -> a = b.
  Proof.
    intros Ha Hb E. revert names_unique Ha Hb. clear provs_selected. induction ms as [|x t IH]; intros ND Ha Hb; [destruct Ha|].
    cbn [map] in ND. inversion ND as [|? ? Hnot ND']. subst.
    destruct Ha as [<-|Ha], Hb as [<-|Hb]; [reflexivity| | |exact (IH ND' Ha Hb)].
    - exfalso. apply Hnot. rewrite E. apply in_map, Hb.
    - exfalso. apply Hnot. rewrite <- E. apply in_map, Ha.
  Qed.

  (* ---------- what every call delivers, whatever the fuel ---------- *)
  Record spec (seen : list str) (m : module) (out : list module) (seen' : list str) : Prop := {
    sp_mono : incl seen seen';
    sp_new : forall y, In y out -> ~ In (m_name y) seen /\ In (m_name y) seen';
    sp_only : forall n, In n seen' -> In n seen \/ exists y, In y out /\ m_name y = n;
    sp_nodup : NoDup (map m_name out);
    sp_reach : forall y, In y out -> reach m y;
    sp_sel : forall y, In y out -> In y ms }.

  (* the same for the fold over a list of modules [l], all reachable from [root] in one step *)
  Record lspec (root : module) (o : list module) (s : list str) (o' : list module) (s' : list str) : Prop := {
    ls_mono : incl s s';
    ls_ext : exists r, o' = o ++ r /\ forall y, In y r -> ~ In (m_name y) s /\ In (m_name y) s';
    ls_only : forall n, In n s' -> In n s \/ exists y, In y o' /\ m_name y = n;
    ls_nodup : NoDup (map m_name o) -> (forall y, In y o -> In (m_name y) s) -> NoDup (map m_name o');
    ls_reach : (forall y, In y o -> reach root y) -> forall y, In y o' -> reach root y;
    ls_sel : (forall y, In y o -> In y ms) -> forall y, In y o' -> In y ms }.

  Lemma NoDup_map_app (a b : list module) :
    NoDup (map m_name a) -> NoDup (map m_name b) -> (forall y, In y b -> ~ In (m_name y) (map m_name a)) ->
    NoDup (map m_name (a ++ b)).
  Proof.
    intros Ha Hb Hd. rewrite map_app. induction a as [|x t IH]; cbn [map app]; [exact Hb|].
    cbn [map] in Ha. inversion Ha as [|? ? Hx Ht]. subst. constructor.
    - intros Hin. apply in_app_or in Hin. destruct Hin as [Hin|Hin]; [contradiction|].
      apply in_map_iff in Hin. destruct Hin as (y & Ey & Hy). apply (Hd y Hy). left. symmetry. exact Ey.
    - apply IH; [exact Ht|]. intros y Hy Hin. apply (Hd y Hy). right. exact Hin.
  Qed.

  Lemma fold_spec f (IH : forall seen m out seen', In m ms -> imports_rec f ms provs seen m = (out, seen') -> spec seen m out seen') :
    forall root l o s o' s', (forall x, In x l -> In x ms /\ edge root x) ->
      fold_left (visit f) l (o, s) = (o', s') -> lspec root o s o' s'.
  Proof.
    intros root. induction l as [|x t IHl]; intros o s o' s' Hl HF.
    - cbn in HF. injection HF as <- <-. constructor.
      + apply incl_refl.
      + exists []. split; [symmetry; apply app_nil_r|intros y []].
      + intros n Hn. left. exact Hn.
      + intros ND _. exact ND.
      + intros Hr. exact Hr.
      + intros Hs. exact Hs.
    - cbn [fold_left] in HF. unfold visit at 2 in HF. cbn [fst snd] in HF.
      destruct (imports_rec f ms provs s x) as [r s1] eqn:Er.
      destruct (Hl x (or_introl eq_refl)) as [Hx Hedge].
      pose proof (IH _ _ _ _ Hx Er) as Sx.
      assert (Hl' : forall x0, In x0 t -> In x0 ms /\ edge root x0) by (intros x0 Hx0; apply Hl; right; exact Hx0).
      pose proof (IHl _ _ _ _ Hl' HF) as St.
      destruct (ls_ext _ _ _ _ _ St) as (r2 & Eo' & Hr2).
      constructor.
      + eapply incl_tran; [exact (sp_mono _ _ _ _ Sx)|exact (ls_mono _ _ _ _ _ St)].
      + exists (r ++ r2). split; [rewrite Eo', app_assoc; reflexivity|].
        intros y Hy. apply in_app_or in Hy. destruct Hy as [Hy|Hy].
        * destruct (sp_new _ _ _ _ Sx y Hy) as [Hn Hi]. split; [exact Hn|apply (ls_mono _ _ _ _ _ St), Hi].
        * destruct (Hr2 y Hy) as [Hn Hi]. split; [|exact Hi]. intros Hs. apply Hn. apply (sp_mono _ _ _ _ Sx), Hs.
      + intros n Hn. destruct (ls_only _ _ _ _ _ St n Hn) as [Hs1|Hy]; [|right; exact Hy].
        destruct (sp_only _ _ _ _ Sx n Hs1) as [Hs|(y & Hy & Ey)]; [left; exact Hs|].
        right. exists y. split; [|exact Ey]. rewrite Eo'. apply in_or_app. left. apply in_or_app. right. exact Hy.
      + intros ND Hos. apply (ls_nodup _ _ _ _ _ St).
        * apply NoDup_map_app; [exact ND|exact (sp_nodup _ _ _ _ Sx)|].
          intros y Hy Hin. apply in_map_iff in Hin. destruct Hin as (z & Ez & Hz).
          apply (proj1 (sp_new _ _ _ _ Sx y Hy)). rewrite <- Ez. apply Hos, Hz.
        * intros y Hy. apply in_app_or in Hy. destruct Hy as [Hy|Hy].
          -- apply (sp_mono _ _ _ _ Sx), Hos, Hy.
          -- exact (proj2 (sp_new _ _ _ _ Sx y Hy)).
      + intros Hr. apply (ls_reach _ _ _ _ _ St). intros y Hy. apply in_app_or in Hy. destruct Hy as [Hy|Hy]; [apply Hr, Hy|].
        apply rt_trans with x; [apply rt_step; exact Hedge|exact (sp_reach _ _ _ _ Sx y Hy)].
      + intros Hs. apply (ls_sel _ _ _ _ _ St). intros y Hy. apply in_app_or in Hy. destruct Hy as [Hy|Hy]; [apply Hs, Hy|].
        exact (sp_sel _ _ _ _ Sx y Hy).
  Qed.

  Lemma imports_rec_spec : forall f seen m out seen', In m ms -> imports_rec f ms provs seen m = (out, seen') -> spec seen m out seen'.
  Proof.
    induction f as [|f IH]; intros seen m out seen' Hm HR.
    - cbn in HR. injection HR as <- <-. constructor; try (intros y []).
      + apply incl_refl.
      + intros n Hn. left. exact Hn.
      + constructor.
    - rewrite imports_rec_unfold in HR. destruct (mem_str (m_name m) seen) eqn:Em.
      + injection HR as <- <-. constructor; try (intros y []).
        * apply incl_refl.
        * intros n Hn. left. exact Hn.
        * constructor.
      + apply mem_str_false in Em.
        destruct (fold_left (visit f) (succs m) ([], m_name m :: seen)) as [res s1] eqn:EF. injection HR as <- <-.
        assert (Hl : forall x, In x (succs m) -> In x ms /\ edge m x) by (intros x Hx; split; [exact (succs_selected m x Hx)|exact Hx]).
        pose proof (fold_spec f IH m _ _ _ _ _ Hl EF) as St.
        destruct (ls_ext _ _ _ _ _ St) as (r & Er & Hr). cbn [app] in Er. subst r.
        constructor.
        * intros n Hn. apply (ls_mono _ _ _ _ _ St). right. exact Hn.
        * intros y Hy. apply in_app_or in Hy. destruct Hy as [Hy|[<-|[]]].
          -- destruct (Hr y Hy) as [Hn Hi]. split; [|exact Hi]. intros Hs. apply Hn. right. exact Hs.
          -- split; [exact Em|]. apply (ls_mono _ _ _ _ _ St). left. reflexivity.
        * intros n Hn. destruct (ls_only _ _ _ _ _ St n Hn) as [[<-|Hs]|(y & Hy & Ey)].
          -- right. exists m. split; [apply in_or_app; right; left; reflexivity|reflexivity].
          -- left. exact Hs.
          -- right. exists y. split; [apply in_or_app; left; exact Hy|exact Ey].
        * apply NoDup_map_app.
          -- apply (ls_nodup _ _ _ _ _ St); [constructor|intros y []].
          -- cbn. constructor; [intros []|constructor].
          -- intros y [<-|[]] Hin. apply in_map_iff in Hin. destruct Hin as (z & Ez & Hz).
             apply (proj1 (Hr z Hz)). left. symmetry. exact Ez.
        * intros y Hy. apply in_app_or in Hy. destruct Hy as [Hy|[<-|[]]]; [|apply rt_refl].
          apply (ls_reach _ _ _ _ _ St); [intros z []|exact Hy].
        * intros y Hy. apply in_app_or in Hy. destruct Hy as [Hy|[<-|[]]]; [|exact Hm].
          apply (ls_sel _ _ _ _ _ St); [intros z []|exact Hy].
  Qed.

  (* ---------- with enough fuel the visited set is closed under edges ---------- *)
  Definition unseenL (V : list str) (seen : list str) : nat := length (filter (fun n => negb (mem_str n seen)) V).

  Lemma unseenL_mono V s s' : incl s s' -> unseenL V s' <= unseenL V s.
  Proof.
    intros Hi. unfold unseenL. induction V as [|u t IH]; cbn [filter]; [lia|].
    destruct (mem_str u s') eqn:E1, (mem_str u s) eqn:E2; cbn [negb length]; try lia.
    apply mem_str_In in E2. apply Hi in E2. apply mem_str_In in E2. congruence.
  Qed.

  Lemma unseenL_cons V n s : In n V -> ~ In n s -> S (unseenL V (n :: s)) <= unseenL V s.
  Proof.
    unfold unseenL. induction V as [|u t IH]; intros Hn Hs; [destruct Hn|]. cbn [filter].
    assert (Hle : length (filter (fun k => negb (mem_str k (n :: s))) t) <= length (filter (fun k => negb (mem_str k s)) t)).
    { clear. induction t as [|v t IHt]; cbn [filter]; [lia|].
      destruct (mem_str v (n :: s)) eqn:E1, (mem_str v s) eqn:E2; cbn [negb length]; try lia.
      apply mem_str_In in E2. assert (Hin : In v (n :: s)) by (right; exact E2). apply mem_str_In in Hin. congruence. }
    destruct Hn as [->|Hn].
    - assert (E1 : mem_str n (n :: s) = true) by (apply mem_str_In; left; reflexivity).
      assert (E2 : mem_str n s = false) by (apply mem_str_false; exact Hs).
      rewrite E1, E2. cbn [negb length]. lia.
    - specialize (IH Hn Hs).
      destruct (mem_str u (n :: s)) eqn:E1, (mem_str u s) eqn:E2; cbn [negb length]; try lia.
      apply mem_str_In in E2. assert (Hin : In u (n :: s)) by (right; exact E2). apply mem_str_In in Hin. congruence.
  Qed.

  Variable U : list str.
  Hypothesis U_names : forall x, In x ms -> In (m_name x) U.
  Definition unseen (seen : list str) : nat := unseenL U seen.
  Lemma unseen_mono s s' : incl s s' -> unseen s' <= unseen s.
  Proof. apply unseenL_mono. Qed.
  Lemma unseen_cons n s : In n U -> ~ In n s -> S (unseen (n :: s)) <= unseen s.
  Proof. apply unseenL_cons. Qed.

  Definition closed (out : list module) (seen' : list str) : Prop :=
    forall y, In y out -> forall z, In z (succs y) -> In (m_name z) seen'.

  Lemma fold_closed f
    (IHs : forall seen m out seen', In m ms -> imports_rec f ms provs seen m = (out, seen') -> spec seen m out seen')
    (IH : forall seen m out seen', In m ms -> unseen seen < f -> imports_rec f ms provs seen m = (out, seen') ->
                                   In (m_name m) seen' /\ closed out seen') :
    forall root l o s o' s', (forall x, In x l -> In x ms /\ edge root x) -> unseen s < f ->
      fold_left (visit f) l (o, s) = (o', s') ->
      (forall x, In x l -> In (m_name x) s') /\ (closed o s -> closed o' s').
  Proof.
    intros root. induction l as [|x t IHl]; intros o s o' s' Hl Hf HF.
    - cbn in HF. injection HF as <- <-. split; [intros x []|auto].
    - cbn [fold_left] in HF. unfold visit at 2 in HF. cbn [fst snd] in HF.
      destruct (imports_rec f ms provs s x) as [r s1] eqn:Er.
      destruct (Hl x (or_introl eq_refl)) as [Hx Hedge].
      pose proof (IHs _ _ _ _ Hx Er) as Sx.
      destruct (IH _ _ _ _ Hx Hf Er) as [Hxs Hcl].
      assert (Hl' : forall x0, In x0 t -> In x0 ms /\ edge root x0) by (intros x0 Hx0; apply Hl; right; exact Hx0).
      assert (Hf' : unseen s1 < f) by (pose proof (unseen_mono _ _ (sp_mono _ _ _ _ Sx)); lia).
      destruct (IHl _ _ _ _ Hl' Hf' HF) as [Ht Hc].
      pose proof (fold_spec f IHs root _ _ _ _ _ Hl' HF) as St.
      split.
      + intros x0 [<-|Hx0]; [apply (ls_mono _ _ _ _ _ St), Hxs|apply Ht, Hx0].
      + intros Hco. apply Hc. intros y Hy z Hz. apply in_app_or in Hy. destruct Hy as [Hy|Hy].
        * apply (sp_mono _ _ _ _ Sx). exact (Hco y Hy z Hz).
        * exact (Hcl y Hy z Hz).
  Qed.

  Lemma imports_rec_closed : forall f seen m out seen', In m ms -> unseen seen < f ->
    imports_rec f ms provs seen m = (out, seen') -> In (m_name m) seen' /\ closed out seen'.
  Proof.
    induction f as [|f IH]; intros seen m out seen' Hm Hf HR; [lia|].
    rewrite imports_rec_unfold in HR. destruct (mem_str (m_name m) seen) eqn:Em.
    - injection HR as <- <-. split; [apply mem_str_In; exact Em|intros y []].
    - apply mem_str_false in Em.
      destruct (fold_left (visit f) (succs m) ([], m_name m :: seen)) as [res s1] eqn:EF. injection HR as <- <-.
      assert (Hl : forall x, In x (succs m) -> In x ms /\ edge m x) by (intros x Hx; split; [exact (succs_selected m x Hx)|exact Hx]).
      assert (Hf' : unseen (m_name m :: seen) < f) by (pose proof (unseen_cons (m_name m) seen (U_names m Hm) Em); lia).
      destruct (fold_closed f (imports_rec_spec f) IH m _ _ _ _ _ Hl Hf' EF) as [Hsucc Hcl].
      pose proof (fold_spec f (imports_rec_spec f) m _ _ _ _ _ Hl EF) as St.
      split; [apply (ls_mono _ _ _ _ _ St); left; reflexivity|].
      intros y Hy z Hz. apply in_app_or in Hy. destruct Hy as [Hy|[<-|[]]].
      + exact (Hcl (fun y0 (H0 : In y0 []) => match H0 with end) y Hy z Hz).
      + apply Hsucc, Hz.
  Qed.

  (* ---------- the order: what a module imports comes before it, unless it leads back to it ---------- *)
  Definition before (z y : module) (l : list module) : Prop := exists l1 l2, l = l1 ++ l2 /\ In z l1 /\ In y l2.

  Lemma before_app_l z y a b : before z y a -> before z y (a ++ b).
  Proof. intros (l1 & l2 & -> & Hz & Hy). exists l1, (l2 ++ b). split; [rewrite app_assoc; reflexivity|]. split; [exact Hz|apply in_or_app; left; exact Hy]. Qed.
  Lemma before_app_r z y a b : before z y b -> before z y (a ++ b).
  Proof. intros (l1 & l2 & -> & Hz & Hy). exists (a ++ l1), l2. split; [rewrite app_assoc; reflexivity|]. split; [apply in_or_app; right; exact Hz|exact Hy]. Qed.
  Lemma before_split z y a b : In z a -> In y b -> before z y (a ++ b).
  Proof. intros Hz Hy. exists a, b. auto. Qed.

  (* for every edge y -> z out of a delivered module: z was delivered before y, or z was seen before the call, or z
     leads back to y (an import cycle) *)
  Definition ordered (seen : list str) (out : list module) : Prop :=
    forall y z, In y out -> edge y z -> before z y out \/ In (m_name z) seen \/ reach z y.

  Lemma fold_ordered f
    (IHs : forall seen m out seen', In m ms -> imports_rec f ms provs seen m = (out, seen') -> spec seen m out seen')
    (IH : forall seen m out seen', In m ms -> unseen seen < f -> imports_rec f ms provs seen m = (out, seen') -> ordered seen out)
    (S0 : list str) :
    forall root l o s o' s', (forall x, In x l -> In x ms /\ edge root x) -> unseen s < f ->
      fold_left (visit f) l (o, s) = (o', s') ->
      (forall n, In n s -> In n S0 \/ exists y, In y o /\ m_name y = n) -> (forall y, In y o -> In y ms) ->
      ordered S0 o ->
      (forall n, In n s' -> In n S0 \/ exists y, In y o' /\ m_name y = n) /\ ordered S0 o'.
  Proof.
    intros root. induction l as [|x t IHl]; intros o s o' s' Hl Hf HF HI Hsel HG.
    - cbn in HF. injection HF as <- <-. split; assumption.
    - cbn [fold_left] in HF. unfold visit at 2 in HF. cbn [fst snd] in HF.
      destruct (imports_rec f ms provs s x) as [r s1] eqn:Er.
      destruct (Hl x (or_introl eq_refl)) as [Hx Hedge].
      pose proof (IHs _ _ _ _ Hx Er) as Sx. pose proof (IH _ _ _ _ Hx Hf Er) as Ox.
      assert (Hl' : forall x0, In x0 t -> In x0 ms /\ edge root x0) by (intros x0 Hx0; apply Hl; right; exact Hx0).
      assert (Hf' : unseen s1 < f) by (pose proof (unseen_mono _ _ (sp_mono _ _ _ _ Sx)); lia).
      apply (IHl _ _ _ _ Hl' Hf' HF).
      + intros n Hn. destruct (sp_only _ _ _ _ Sx n Hn) as [Hs|(y & Hy & Ey)].
        * destruct (HI n Hs) as [H0|(y & Hy & Ey)]; [left; exact H0|right; exists y; split; [apply in_or_app; left; exact Hy|exact Ey]].
        * right. exists y. split; [apply in_or_app; right; exact Hy|exact Ey].
      + intros y Hy. apply in_app_or in Hy. destruct Hy as [Hy|Hy]; [apply Hsel, Hy|exact (sp_sel _ _ _ _ Sx y Hy)].
      + intros y z Hy Hyz. apply in_app_or in Hy. destruct Hy as [Hy|Hy].
        * destruct (HG y z Hy Hyz) as [Hb|[Hs|Hr]]; [left; apply before_app_l; exact Hb|right; left; exact Hs|right; right; exact Hr].
        * destruct (Ox y z Hy Hyz) as [Hb|[Hs|Hr]]; [left; apply before_app_r; exact Hb| |right; right; exact Hr].
          destruct (HI _ Hs) as [H0|(z' & Hz' & Ez)]; [right; left; exact H0|].
          left. assert (Ezz : z' = z).
          { apply same_name_same_module; [apply Hsel, Hz'|exact (succs_selected y z Hyz)|exact Ez]. }
          subst z'. apply before_split; assumption.
  Qed.

  Lemma imports_rec_ordered : forall f seen m out seen', In m ms -> unseen seen < f ->
    imports_rec f ms provs seen m = (out, seen') -> ordered seen out.
  Proof.
    induction f as [|f IH]; intros seen m out seen' Hm Hf HR; [lia|].
    rewrite imports_rec_unfold in HR. destruct (mem_str (m_name m) seen) eqn:Em.
    - injection HR as <- <-. intros y z [].
    - apply mem_str_false in Em.
      destruct (fold_left (visit f) (succs m) ([], m_name m :: seen)) as [res s1] eqn:EF. injection HR as <- <-.
      assert (Hl : forall x, In x (succs m) -> In x ms /\ edge m x) by (intros x Hx; split; [exact (succs_selected m x Hx)|exact Hx]).
      assert (Hf' : unseen (m_name m :: seen) < f) by (pose proof (unseen_cons (m_name m) seen (U_names m Hm) Em); lia).
      pose proof (fold_spec f (imports_rec_spec f) m _ _ _ _ _ Hl EF) as St.
      destruct (fold_closed f (imports_rec_spec f) (imports_rec_closed f) m _ _ _ _ _ Hl Hf' EF) as [Hsucc _].
      destruct (fold_ordered f (imports_rec_spec f) IH (m_name m :: seen) m _ _ _ _ _ Hl Hf' EF) as [HI HG].
      { intros n Hn. left. exact Hn. }
      { intros y []. }
      { intros y z []. }
      assert (Hres_sel : forall y, In y res -> In y ms) by (intros y Hy; apply (ls_sel _ _ _ _ _ St); [intros z []|exact Hy]).
      assert (Hres_reach : forall y, In y res -> reach m y) by (intros y Hy; apply (ls_reach _ _ _ _ _ St); [intros z []|exact Hy]).
      (* a name of the base set is the module itself or was seen before *)
      assert (Hbase : forall y z, In z ms -> reach m y -> In (m_name z) (m_name m :: seen) -> In (m_name z) seen \/ reach z y).
      { intros y z Hz Hry [E|Hs]; [|left; exact Hs]. right.
        rewrite (same_name_same_module z m Hz Hm (eq_sym E)). exact Hry. }
      intros y z Hy Hyz. pose proof (succs_selected y z Hyz) as Hz. apply in_app_or in Hy. destruct Hy as [Hy|[<-|[]]].
      + destruct (HG y z Hy Hyz) as [Hb|[Hs|Hr]]; [left; apply before_app_l; exact Hb| |right; right; exact Hr].
        right. exact (Hbase y z Hz (Hres_reach y Hy) Hs).
      + destruct (HI _ (Hsucc z Hyz)) as [Hs|(z' & Hz' & Ez)].
        * right. apply (Hbase m z Hz); [apply rt_refl|exact Hs].
        * left. rewrite <- (same_name_same_module z' z (Hres_sel z' Hz') Hz Ez). apply before_split; [exact Hz'|left; reflexivity].
  Qed.
End Closure.

(* ---------- the list get_imports_recursive returns ---------- *)
Section Postorder.
  Variable ms : list module.
  Variable provs : list (str * list module).
  Hypothesis provs_selected : forall n y, In y (get_list n provs) -> In y ms.
  Hypothesis names_unique : NoDup (map m_name ms).

  Lemma unseen_nil_le : unseen (map m_name ms) [] <= length ms.
  Proof.
    unfold unseen, unseenL. rewrite <- (map_length m_name ms). generalize (map m_name ms). intros l.
    induction l as [|x t IH]; cbn [filter length]; [lia|]. destruct (negb (mem_str x [])); cbn [length]; lia.
  Qed.

  (* every selected module reachable from [self] through active imports is in the list *)
  Theorem imports_postorder_complete self y : In self ms -> reach ms provs self y -> In y (imports_postorder ms provs self).
  Proof.
    intros Hs Hr. unfold imports_postorder.
    destruct (imports_rec (S (length ms)) ms provs [] self) as [out seen'] eqn:ER. cbn [fst].
    pose proof (imports_rec_spec ms provs provs_selected _ _ _ _ _ Hs ER) as Sp.
    assert (Hf : unseen (map m_name ms) [] < S (length ms)) by (pose proof unseen_nil_le; lia).
    destruct (imports_rec_closed ms provs provs_selected (map m_name ms) (fun x Hx => in_map m_name ms x Hx) _ _ _ _ _ Hs Hf ER) as [Hself Hcl].
    assert (Hname : forall z, In z ms -> In (m_name z) seen' -> In z out).
    { intros z Hz Hn. destruct (sp_only _ _ _ _ _ _ Sp _ Hn) as [[]|(z' & Hz' & Ez)].
      rewrite <- (same_name_same_module ms names_unique z' z (sp_sel _ _ _ _ _ _ Sp z' Hz') Hz Ez). exact Hz'. }
    apply clos_rt_rtn1 in Hr. induction Hr as [|b c Hbc _ IH]; [apply Hname; [exact Hs|exact Hself]|].
    apply Hname; [exact (succs_selected ms provs provs_selected b c Hbc)|exact (Hcl b IH c Hbc)].
  Qed.

  (* ... nothing else is: every member is reachable and selected, *)
  Theorem imports_postorder_sound self y : In self ms -> In y (imports_postorder ms provs self) -> reach ms provs self y /\ In y ms.
  Proof.
    intros Hs Hy. unfold imports_postorder in Hy.
    destruct (imports_rec (S (length ms)) ms provs [] self) as [out seen'] eqn:ER. cbn [fst] in Hy.
    pose proof (imports_rec_spec ms provs provs_selected _ _ _ _ _ Hs ER) as Sp.
    split; [exact (sp_reach _ _ _ _ _ _ Sp y Hy)|exact (sp_sel _ _ _ _ _ _ Sp y Hy)].
  Qed.

  Theorem imports_postorder_iff self y : In self ms -> (In y (imports_postorder ms provs self) <-> reach ms provs self y).
  Proof.
    intros Hs. split; [intros Hy; exact (proj1 (imports_postorder_sound self y Hs Hy))|apply imports_postorder_complete; exact Hs].
  Qed.

  (* ... each module is there once (its exports are merged once), *)
  Theorem imports_postorder_nodup self : In self ms -> NoDup (map m_name (imports_postorder ms provs self)).
  Proof.
    intros Hs. unfold imports_postorder.
    destruct (imports_rec (S (length ms)) ms provs [] self) as [out seen'] eqn:ER. cbn [fst].
    exact (sp_nodup _ _ _ _ _ _ (imports_rec_spec ms provs provs_selected _ _ _ _ _ Hs ER)).
  Qed.

  (* ... and the module itself comes last (its own exports override what it imports). *)
  Theorem imports_postorder_self_last self : exists deps, imports_postorder ms provs self = deps ++ [self].
  Proof.
    unfold imports_postorder. rewrite imports_rec_unfold. cbn [mem_str existsb].
    destruct (fold_left (visit ms provs (length ms)) (succs ms provs self) ([], [m_name self])) as [res s1].
    exists res. reflexivity.
  Qed.

  (* ... and dependencies come first: what a delivered module imports stands before it in the list — so the importer's
     exports are merged later and win — unless the imported module leads back to the importer (an import cycle, where
     no order can put each before the other). *)
  Theorem imports_postorder_dependencies_first self y z : In self ms ->
    In y (imports_postorder ms provs self) -> edge ms provs y z -> ~ reach ms provs z y ->
    before z y (imports_postorder ms provs self).
  Proof.
    intros Hs Hy Hyz Hnr. unfold imports_postorder in *.
    destruct (imports_rec (S (length ms)) ms provs [] self) as [out seen'] eqn:ER. cbn [fst] in *.
    assert (Hf : unseen (map m_name ms) [] < S (length ms)) by (pose proof unseen_nil_le; lia).
    destruct (imports_rec_ordered ms provs provs_selected names_unique (map m_name ms) (fun x Hx => in_map m_name ms x Hx) _ _ _ _ _ Hs Hf ER y z Hy Hyz)
      as [Hb|[[]|Hr]]; [exact Hb|contradiction].
  Qed.
End Postorder.
