(* DownloadOrder.v — the `download:` clause of C19 as theorems about the module loop of one build:
   (1) a downloading module registers its source directory with its tag file, nothing else touches
       that table;
   (2) every source of a module whose own build-dep files are [ld] gets a statement
       `build <source>: phony || <ld sorted>` (for a downloading module [ld] contains its tag file:
       LoadDownload below);
   (3) every source of a module without such files whose source directory lies in a registered
       download directory gets `build <source>: phony <tag file of that directory>`;
   (4) over the whole loop: for every module of the build order, the table it sees is exactly the
       table of the downloading modules before it, and its statements are in the final set.
   Statements are identified by their text (the statement set de-duplicates by text). *)
From Coq Require Import Ascii String.
From Coq Require Import List Arith Bool NArith Lia.
Import ListNotations.
Require Import Laze.model.Base Laze.model.Env Laze.model.Expand Laze.model.Path Laze.model.Hash Laze.model.Ninja
               Laze.model.Ctx Laze.model.Generate.
Require Import Laze.proofs.BaseFacts Laze.proofs.StmtFacts Laze.proofs.WfFacts.
Open Scope list_scope.

Definition phony_after (out : str) (ins deps : option (list str)) : stmt :=
  SBuild {| nb_rule := S_ "phony"; nb_inputs := ins; nb_outs := [out]; nb_deps := deps; nb_env := None; nb_always := false |}.
Definition has_text (st : loopst) (s : stmt) : Prop := In (show_stmt s) (map show_stmt (ls_entries st)).

Lemma has_text_ext a b s : ext a b -> has_text a s -> has_text b s.
Proof. intros [t E] Hs. unfold has_text in *. rewrite E, map_app. apply in_or_app. left. exact Hs. Qed.
Lemma has_text_add s st : has_text (add_entry s st) s.
Proof.
  unfold has_text, add_entry. cbn [ls_entries]. apply sset_insert_text. right. reflexivity.
Qed.

(* ext together with an untouched download table *)
Definition ext2 (a b : loopst) : Prop := ext a b /\ ls_dldirs b = ls_dldirs a.
Lemma ext2_refl a : ext2 a a. Proof. split; [apply ext_refl|reflexivity]. Qed.
Lemma ext2_trans a b c : ext2 a b -> ext2 b c -> ext2 a c.
Proof. intros [X1 D1] [X2 D2]. split; [eapply ext_trans; eassumption|congruence]. Qed.
Lemma ext2_add_entry s st : ext2 st (add_entry s st). Proof. split; [apply ext_add_entry|reflexivity]. Qed.
Lemma ext2_add_object o st : ext2 st (add_object o st). Proof. split; [apply ext_add_object|reflexivity]. Qed.
Lemma ext2_add_depfiles n f st : ext2 st (add_depfiles n f st). Proof. split; [apply ext_add_depfiles|reflexivity]. Qed.
Lemma ext2_fold_entries l : forall st, ext2 st (fold_left (fun s e => add_entry e s) l st).
Proof.
  induction l as [|e t IH]; intros st; cbn [fold_left]; [apply ext2_refl|].
  eapply ext2_trans; [apply ext2_add_entry|apply IH].
Qed.

Section DL.
  Variable H : list ascii -> N.
  Variable EV : str -> evr.

  Lemma compile_source_waits rules mr flat objdir bn an srcdir combined dh local tag st source st' :
    compile_source H EV rules mr flat objdir bn an srcdir combined dh local tag st source = Ok st' ->
    ext2 st st' /\
    exists srcpath, expand_eval EV flat PEmpty (path_push srcdir source) = Ok srcpath /\
      (forall ld, local = Some ld -> has_text st' (phony_after srcpath None (Some (sort_paths ld)))) /\
      (forall tf, local = None -> tag = Some tf -> has_text st' (phony_after srcpath (Some [tf]) None)).
  Proof.
    unfold compile_source. intros HC.
    inv_step HC. rename a into srcpath. inv_step HC. destruct a as [rule nrule]. inv_step HC. rename a into rout.
    injection HC as <-.
    match goal with |- context [add_object ?o (add_entry ?s st)] => set (st1 := add_object o (add_entry s st)) end.
    assert (X1 : ext2 st st1) by (eapply ext2_trans; [apply ext2_add_entry|apply ext2_add_object]).
    destruct local as [ld|]; [|destruct tag as [tf|]].
    - split; [eapply ext2_trans; [exact X1|apply ext2_add_entry]|].
      exists srcpath. split; [reflexivity|]. split.
      + intros ld' [= <-]. apply has_text_add.
      + intros tf Hn. discriminate Hn.
    - split; [eapply ext2_trans; [exact X1|apply ext2_add_entry]|].
      exists srcpath. split; [reflexivity|]. split.
      + intros ld Hn. discriminate Hn.
      + intros tf' _ [= <-]. apply has_text_add.
    - split; [exact X1|]. exists srcpath. split; [reflexivity|]. split; intros ? Hn; try discriminate Hn.
      intros Hn2. discriminate Hn2.
  Qed.

  Lemma sources_pass_waits rules mr flat objdir bn an srcdir combined dh local tag : forall srcs st st',
    fold_left (fun acc source => rbind acc (fun s =>
                 compile_source H EV rules mr flat objdir bn an srcdir combined dh local tag s source)) srcs (Ok st) = Ok st' ->
    ext2 st st' /\
    forall source, In source srcs ->
      exists srcpath, expand_eval EV flat PEmpty (path_push srcdir source) = Ok srcpath /\
        (forall ld, local = Some ld -> has_text st' (phony_after srcpath None (Some (sort_paths ld)))) /\
        (forall tf, local = None -> tag = Some tf -> has_text st' (phony_after srcpath (Some [tf]) None)).
  Proof.
    induction srcs as [|src t IH]; intros st st' HF; cbn [fold_left] in HF.
    - injection HF as <-. split; [apply ext2_refl|]. intros s [].
    - cbn [rbind] in HF.
      destruct (compile_source H EV rules mr flat objdir bn an srcdir combined dh local tag st src) as [s1| | |] eqn:Ec;
        try (exfalso; clear -HF; induction t; cbn in HF; [discriminate|auto]).
      destruct (compile_source_waits _ _ _ _ _ _ _ _ _ _ _ _ _ _ Ec) as [X1 (sp & Esp & Hl & Ht)].
      destruct (IH _ _ HF) as [X' Hall]. split; [eapply ext2_trans; eassumption|].
      intros source [<-|Hin]; [|exact (Hall source Hin)].
      exists sp. split; [exact Esp|]. split.
      + intros ld E. apply (has_text_ext s1); [exact (proj1 X')|exact (Hl ld E)].
      + intros tf E1 E2. apply (has_text_ext s1); [exact (proj1 X')|exact (Ht tf E1 E2)].
  Qed.

  Lemma rules_pass_ext2 rules flat : forall srcs mr st mr' st',
    fold_left (fun acc source => rbind acc (fun '(mr, s) =>
                match extension source with
                | None => Err e_missing_ext
                | Some e =>
                    match alookup e rules with
                    | None => Err e_no_rule
                    | Some rule =>
                        rbind (to_ninja H EV flat rule) (fun nr =>
                        Ok (match alookup e mr with Some _ => mr | None => mr ++ [(e, nr)] end,
                            add_entry (SRule nr) s))
                    end
                end)) srcs (Ok (mr, st)) = Ok (mr', st') ->
    ext2 st st'.
  Proof.
    induction srcs as [|src t IH]; intros mr st mr' st' HF; cbn [fold_left] in HF.
    - injection HF as _ <-. apply ext2_refl.
    - cbn [rbind] in HF.
      destruct (extension src) as [e|]; [|exfalso; clear -HF; induction t; cbn in HF; [discriminate|auto]].
      destruct (alookup e rules) as [rule|]; [|exfalso; clear -HF; induction t; cbn in HF; [discriminate|auto]].
      destruct (to_ninja H EV flat rule) as [nr| | |] eqn:En; cbn [rbind] in HF;
        try (exfalso; clear -HF; induction t; cbn in HF; [discriminate|auto]).
      apply IH in HF. eapply ext2_trans; [apply ext2_add_entry|exact HF].
  Qed.

  (* the table of download directories is fixed before the loop (dldirs_all): a step never changes it *)

  Theorem module_step_download rules merge_opts ms gdeps objdir bn an st m menv mdeps st' :
    module_step H EV rules merge_opts ms gdeps objdir bn an st (m, menv, mdeps) = Ok st' ->
    ext st st' /\ ls_dldirs st' = ls_dldirs st /\
    forall srcdir, m_srcdir m = Some srcdir -> m_build m = None ->
    exists flat, flatten_with_opts_option merge_opts menv = Ok flat /\
      forall source, In source (all_sources m ms) ->
        exists srcpath, expand_eval EV flat PEmpty (path_push srcdir source) = Ok srcpath /\
          (forall ld, m_build_dep_files m = Some ld -> has_text st' (phony_after srcpath None (Some (sort_paths ld)))) /\
          (forall sx tf, m_build_dep_files m = None -> m_download m = None ->
                         expand_eval EV flat PIgnore srcdir = Ok sx -> containing_path (ls_dldirs st) sx = Some tf ->
                         has_text st' (phony_after srcpath (Some [tf]) None)).
  Proof.
    unfold module_step. intros HS.
    destruct (m_srcdir m) as [srcdir|]; [|injection HS as <-; split; [apply ext_refl|split; [reflexivity|intros ? [=]]]].
    destruct (flatten_with_opts_option merge_opts menv) as [flat| | |]; cbn [rbind] in HS; try discriminate.
    match type of HS with rbind ?X _ = _ => destruct X as [dl_stmts| | |] eqn:Edl end; cbn [rbind] in HS; try discriminate.
    pose proof (ext2_fold_entries dl_stmts st) as X0.
    set (st0 := fold_left (fun s e => add_entry e s) dl_stmts st) in *.
    match type of HS with rbind ?X _ = _ => destruct X as [[sta tag]| | |] eqn:Esta end; cbn [rbind] in HS; try discriminate.
    assert (Ha : ext st sta /\ ls_dldirs sta = ls_dldirs st
                 /\ (forall sx, m_download m = None -> expand_eval EV flat PIgnore srcdir = Ok sx -> tag = containing_path (ls_dldirs st) sx)).
    { destruct (m_download m) as [d|].
      - injection Esta as <- <-. split; [exact (proj1 X0)|].
        split; [exact (proj2 X0)|intros ? [=]].
      - unfold rmap in Esta. destruct (expand_eval EV flat PIgnore srcdir) as [sx0| | |]; cbn [rbind] in Esta; try discriminate.
        injection Esta as <- <-. split; [exact (proj1 X0)|]. split; [exact (proj2 X0)|].
        intros sx _ [= <-]. rewrite (proj2 X0). reflexivity. }
    destruct Ha as (Xa & Da & Htag). clear Esta.
    match type of HS with rbind ?X _ = _ => destruct X as [imported0| | |] end; cbn [rbind] in HS; try discriminate.
    match type of HS with context [match m_build_dep_files m with Some l => add_depfiles (m_name m) l sta | None => sta end] =>
      set (st1 := match m_build_dep_files m with Some l => add_depfiles (m_name m) l sta | None => sta end) in HS end.
    assert (X1 : ext2 sta st1).
    { unfold st1. destruct (m_build_dep_files m); [apply ext2_add_depfiles|apply ext2_refl]. }
    clearbody st1.
    destruct (m_build m) as [cb|].
    - (* custom build *)
      repeat (match type of HS with rbind ?X _ = _ => destruct X end; cbn [rbind] in HS; try discriminate).
      injection HS as <-.
      match goal with |- ext st ?X /\ _ => assert (X2 : ext2 st1 X) end.
      { repeat (eapply ext2_trans; [|apply ext2_add_entry]). apply ext2_add_depfiles. }
      split; [eapply ext_trans; [exact Xa|eapply ext_trans; [exact (proj1 X1)|exact (proj1 X2)]]|].
      split; [etransitivity; [exact (proj2 X2)|]; etransitivity; [exact (proj2 X1)|exact Da]|intros ? _ [=]].
    - match type of HS with rbind ?X _ = _ => destruct X as [[module_rules st2]| | |] eqn:Er end; cbn [rbind] in HS; try discriminate.
      apply rules_pass_ext2 in Er.
      destruct (sources_pass_waits _ _ _ _ _ _ _ _ _ _ _ _ _ _ HS) as [X3 Hall].
      split; [eapply ext_trans; [exact Xa|eapply ext_trans; [exact (proj1 X1)|eapply ext_trans; [exact (proj1 Er)|exact (proj1 X3)]]]|].
      split; [etransitivity; [exact (proj2 X3)|]; etransitivity; [exact (proj2 Er)|]; etransitivity; [exact (proj2 X1)|exact Da]|].
      intros sd [= <-] _. exists flat. split; [reflexivity|].
      intros source Hin. destruct (Hall source Hin) as (sp & Esp & Hl & Ht).
      exists sp. split; [exact Esp|]. split; [exact Hl|].
      intros sx tf Hn Hd Hsx Hc. apply Ht; [exact Hn|]. rewrite (Htag sx Hd Hsx). exact Hc.
  Qed.

  Lemma loop_ext rules merge_opts ms gdeps objdir bn an : forall in_order st st',
    fold_left (fun acc mm => rbind acc (fun st0 => module_step H EV rules merge_opts ms gdeps objdir bn an st0 mm))
              in_order (Ok st) = Ok st' ->
    ext st st' /\ ls_dldirs st' = ls_dldirs st.
  Proof.
    induction in_order as [|mm t IH]; intros st st' HF; cbn [fold_left] in HF.
    - injection HF as <-. split; [apply ext_refl|reflexivity].
    - cbn [rbind] in HF.
      destruct (module_step H EV rules merge_opts ms gdeps objdir bn an st mm) as [s1| | |] eqn:Es;
        try (exfalso; clear -HF; induction t; cbn in HF; [discriminate|auto]).
      destruct mm as [[m menv] mdeps].
      destruct (module_step_download _ _ _ _ _ _ _ _ _ _ _ _ Es) as (X1 & D1 & _).
      destruct (IH _ _ HF) as [X' D']. split; [eapply ext_trans; eassumption|].
      rewrite D', D1. reflexivity.
  Qed.

  Lemma loop_split rules merge_opts ms gdeps objdir bn an : forall pre post st st',
    fold_left (fun acc mm => rbind acc (fun st0 => module_step H EV rules merge_opts ms gdeps objdir bn an st0 mm))
              (pre ++ post) (Ok st) = Ok st' ->
    exists sm, fold_left (fun acc mm => rbind acc (fun st0 => module_step H EV rules merge_opts ms gdeps objdir bn an st0 mm))
                         pre (Ok st) = Ok sm /\
               fold_left (fun acc mm => rbind acc (fun st0 => module_step H EV rules merge_opts ms gdeps objdir bn an st0 mm))
                         post (Ok sm) = Ok st'.
  Proof.
    intros pre post st st' HF. rewrite fold_left_app in HF.
    match type of HF with fold_left _ post ?X = _ => destruct X as [sm| | |] eqn:Ep end;
      try (exfalso; clear -HF; induction post; cbn in HF; [discriminate|auto]).
    exists sm. split; [reflexivity|exact HF].
  Qed.

  (* (4) the loop of one build, started with a table [dirs] of download directories (configure_build
     starts it with dldirs_all of the whole build order): every module, wherever it stands in the order,
     sees that table, and what it emits for its sources is in the final set *)
  Theorem loop_download_order rules merge_opts ms gdeps objdir bn an dirs pre m menv mdeps post st' srcdir :
    fold_left (fun acc mm => rbind acc (fun st0 => module_step H EV rules merge_opts ms gdeps objdir bn an st0 mm))
              (pre ++ (m, menv, mdeps) :: post)
              (Ok {| ls_entries := []; ls_objects := []; ls_depfiles := []; ls_dldirs := dirs |}) = Ok st' ->
    m_srcdir m = Some srcdir -> m_build m = None ->
    exists flat, flatten_with_opts_option merge_opts menv = Ok flat /\
      forall source, In source (all_sources m ms) ->
        exists srcpath, expand_eval EV flat PEmpty (path_push srcdir source) = Ok srcpath /\
          (forall ld, m_build_dep_files m = Some ld -> has_text st' (phony_after srcpath None (Some (sort_paths ld)))) /\
          (forall sx tf, m_build_dep_files m = None -> m_download m = None ->
                         expand_eval EV flat PIgnore srcdir = Ok sx -> containing_path dirs sx = Some tf ->
                         has_text st' (phony_after srcpath (Some [tf]) None)).
  Proof.
    intros HF Hsd Hb.
    destruct (loop_split _ _ _ _ _ _ _ _ _ _ _ HF) as (sm & Hpre & Hpost).
    destruct (loop_ext _ _ _ _ _ _ _ _ _ _ Hpre) as [_ Dm]. cbn [ls_dldirs] in Dm.
    cbn [fold_left rbind] in Hpost.
    destruct (module_step H EV rules merge_opts ms gdeps objdir bn an sm (m, menv, mdeps)) as [s1| | |] eqn:Es;
      try (exfalso; clear -Hpost; induction post; cbn in Hpost; [discriminate|auto]).
    destruct (module_step_download _ _ _ _ _ _ _ _ _ _ _ _ Es) as (_ & _ & Hm).
    destruct (Hm srcdir Hsd Hb) as (flat & Ef & Hall).
    destruct (loop_ext _ _ _ _ _ _ _ _ _ _ Hpost) as [Xp _].
    exists flat. split; [exact Ef|]. intros source Hin.
    destruct (Hall source Hin) as (sp & Esp & Hl & Ht). exists sp. split; [exact Esp|]. split.
    - intros ld E. apply (has_text_ext s1); [exact Xp|exact (Hl ld E)].
    - intros sx tf E1 E2 E3 E4. apply (has_text_ext s1); [exact Xp|]. apply (Ht sx tf E1 E2 E3).
      rewrite Dm. exact E4.
  Qed.

  (* every downloading module of the build order is in the table, with its own tag file *)
  Lemma dldirs_all_has : forall (l : list (module * env * option (list module))) m menv mdeps srcdir d,
    In (m, menv, mdeps) l -> m_srcdir m = Some srcdir -> m_download m = Some d ->
    exists tf, alookup srcdir (dldirs_all l) = Some tf.
  Proof.
    intros l m menv mdeps srcdir d Hin Hs Hd. unfold dldirs_all.
    assert (G : forall l0 acc, (alookup srcdir acc <> None \/ In (m, menv, mdeps) l0) ->
              alookup srcdir (fold_left (fun acc mm => match m_srcdir (fst (fst mm)), m_download (fst (fst mm)) with
                                                       | Some sd, Some d0 => ainsert sd (dl_tagfile d0 sd) acc
                                                       | _, _ => acc end) l0 acc) <> None).
    { induction l0 as [|mm t IH]; intros acc Hor; cbn [fold_left].
      - destruct Hor as [Hn|[]]. exact Hn.
      - apply IH. destruct Hor as [Hn|[->|Hin0]].
        + left. destruct (m_srcdir (fst (fst mm))) as [sd|]; [|exact Hn]. destruct (m_download (fst (fst mm))) as [d0|]; [|exact Hn].
          destruct (str_eqb srcdir sd) eqn:E.
          * apply str_eqb_eq in E. subst sd. rewrite alookup_ainsert_same. discriminate.
          * apply str_eqb_neq in E. rewrite alookup_ainsert_other by exact E. exact Hn.
        + left. cbn [fst]. rewrite Hs, Hd. rewrite alookup_ainsert_same. discriminate.
        + right. exact Hin0. }
    specialize (G l [] (or_intror Hin)). destruct (alookup srcdir _) as [tf|]; [exists tf; reflexivity|contradiction].
  Qed.
End DL.

(* a registered directory is found: a path equal to a registered directory, or below one, has a tag file *)
Lemma containing_path_some dirs p k v :
  In (k, v) dirs -> path_starts_with p k = true -> containing_path dirs p <> None.
Proof.
  intros Hin Hp. unfold containing_path.
  destruct (find (fun kv => path_eq (fst kv) p) dirs) as [kv|]; [discriminate|].
  destruct (find (fun kv => path_starts_with p (fst kv)) dirs) as [kv|] eqn:Ef; [discriminate|].
  exfalso. apply (find_none _ _ Ef) in Hin. cbn [fst] in Hin. congruence.
Qed.

(* ... and what is found is a registered directory that contains the path *)
Lemma containing_path_sound dirs p tf :
  containing_path dirs p = Some tf ->
  exists k, In (k, tf) dirs /\ (path_eq k p = true \/ path_starts_with p k = true).
Proof.
  unfold containing_path. intros Hc.
  destruct (find (fun kv => path_eq (fst kv) p) dirs) as [[k v]|] eqn:E1.
  - injection Hc as <-. apply find_some in E1. exists k. split; [exact (proj1 E1)|left; exact (proj2 E1)].
  - destruct (find (fun kv => path_starts_with p (fst kv)) dirs) as [[k v]|] eqn:E2; [|discriminate].
    injection Hc as <-. apply find_some in E2. exists k. split; [exact (proj1 E2)|right; exact (proj2 E2)].
Qed.

(* ---------- one configured build ---------- *)
Require Import Laze.model.Allow Laze.model.Resolver Laze.model.Imports Laze.proofs.GenerateFacts.

Lemma find_order_names (mods : list (module * env * option (list module))) : forall order in_order,
  rmapM (fun n => opt_unwrap 103 (find (fun mm => str_eqb n (m_name (fst (fst mm)))) mods)) order = Ok in_order ->
  map (fun mm => m_name (fst (fst mm))) in_order = order /\ forall mm, In mm in_order -> In mm mods.
Proof.
  intros order in_order HR. apply rmapM_ok in HR.
  induction HR as [|n mm order in_order Hf _ IH]; [split; [reflexivity|intros ? []]|].
  destruct IH as [IHn IHi]. unfold opt_unwrap in Hf.
  destruct (find (fun mm0 => str_eqb n (m_name (fst (fst mm0)))) mods) as [x|] eqn:Ef; [|discriminate].
  injection Hf as ->. apply find_some in Ef. destruct Ef as [Hin Hn]. apply str_eqb_eq in Hn.
  split; [cbn [map]; rewrite IHn, <- Hn; reflexivity|].
  intros y [<-|Hy]; [exact Hin|exact (IHi y Hy)].
Qed.

Section Build.
  Variable H : list ascii -> N.
  Variable EV : str -> evr.

  (* In the statements of a configured build: the modules are visited in the build order of the
     build info; a module at any position of it, with [pre] before it, has for each of its sources
     the ordering statement on its own build-dep files, or — having none and not downloading itself —
     on the tag file of the download directory (of a module in [pre]) that contains its sources. *)
  Theorem configured_build_download_order b le builder binary select disable cli_env info entries :
    configure_build H EV b le builder binary select disable cli_env = Ok (Built info entries) ->
    exists (in_order : list (module * env * option (list module))) merge_opts ms,
      map (fun mm => m_name (fst (fst mm))) in_order = bi_build_order info /\
      forall pre m menv mdeps post srcdir,
        in_order = pre ++ (m, menv, mdeps) :: post -> m_srcdir m = Some srcdir -> m_build m = None ->
        exists flat, flatten_with_opts_option merge_opts menv = Ok flat /\
          forall source, In source (all_sources m ms) ->
            exists srcpath, expand_eval EV flat PEmpty (path_push srcdir source) = Ok srcpath /\
              (forall ld, m_build_dep_files m = Some ld ->
                          In (show_stmt (phony_after srcpath None (Some (sort_paths ld)))) (map show_stmt entries)) /\
              (forall sx tf, m_build_dep_files m = None -> m_download m = None ->
                             expand_eval EV flat PIgnore srcdir = Ok sx -> containing_path (dldirs_all in_order) sx = Some tf ->
                             In (show_stmt (phony_after srcpath (Some [tf]) None)) (map show_stmt entries)).
  Proof.
    unfold configure_build. intros HC.
    repeat (inv_step HC).
    all: repeat match type of HC with
                | (let '(_, _) := ?p in _) = _ => destruct p
                end; repeat (inv_step HC).
    all: try discriminate.
    match goal with
    | E : rmapM (fun n => opt_unwrap 103 _) _ = Ok ?io |- _ => destruct (find_order_names _ _ _ E) as [Hnames _]; exists io
    end.
    match goal with
    | E : fold_left (fun acc mm => rbind acc (fun st0 => module_step H EV ?rules ?mo ?ms ?gd ?od ?bn ?an st0 mm)) ?l (Ok ?s0) = Ok ?stx |- _ =>
        exists mo, ms; rename E into Hloop; set (stf := stx) in *
    end.
    injection HC as <- <-. cbn [bi_build_order]. split; [exact Hnames|].
    assert (Hsub : forall q, has_text stf q -> In (show_stmt q) (map show_stmt l0)).
    { intros q Hs.
      match goal with
      | E : match get_rule (S_ "POST_LINK") ?rs with _ => _ end = Ok (_, l0) |- _ =>
          destruct (get_rule (S_ "POST_LINK") rs) as [prule|];
            [destruct (r_out prule); [|discriminate E]; inv_step E; injection E as _ <-|injection E as _ <-]
      end.
      all: repeat (apply sset_insert_text; left). all: exact Hs. }
    intros pre m menv mdeps post srcdir -> Hsd Hb.
    destruct (loop_download_order H EV _ _ _ _ _ _ _ _ _ _ _ _ _ _ _ Hloop Hsd Hb) as (flat & Ef & Hall).
    exists flat. split; [exact Ef|]. intros source Hin.
    destruct (Hall source Hin) as (sp & Esp & Hl & Ht). exists sp. split; [exact Esp|]. split.
    - intros ld Hq. apply Hsub. exact (Hl ld Hq).
    - intros sx tf Hq1 Hq2 Hq3 Hq4. apply Hsub. exact (Ht sx tf Hq1 Hq2 Hq3 Hq4).
  Qed.
End Build.

(* ---------- the loader: a downloading module waits for its own tag file ---------- *)
Require Import Laze.model.Load.

(* convert_module: a module with `download:` is a build dependency, exports the tag file of its
   download directory among its build-dep files, and (without an explicit srcdir:) has that
   directory as source directory — so by (2) each of its own sources waits for the tag file. *)
Theorem convert_module_download build_dir y context is_binary filename root defaults m d :
  convert_module build_dir y context is_binary filename root defaults = Ok m -> ym_download y = Some d ->
  let m0 := init_module (ym_name y) context is_binary filename root defaults in
  let dir := dl_srcdir build_dir d (odflt [ch_dot] (m_relpath m0)) (m_name m0) in
  m_download m = Some d /\ m_is_build_dep m = true /\
  (exists ld, m_build_dep_files m = Some ld /\ In (dl_tagfile d dir) ld) /\
  (ym_srcdir y = None -> m_srcdir m = Some dir).
Proof.
  unfold convert_module. intros HC Hd. rewrite Hd in HC.
  repeat (inv_step HC). injection HC as <-. cbn.
  split; [reflexivity|]. split; [reflexivity|]. split.
  - eexists. split; [reflexivity|]. apply iset_insert_In'. left. reflexivity.
  - intros ->. reflexivity.
Qed.
