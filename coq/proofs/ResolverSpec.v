(* ResolverSpec.v — C12: a fuel-free, snapshot-free big-step specification of the documented
   greedy resolution, and the proof that the resolver function refines it; plus the
   clause-level lemmas (optional transparency, first-reached, shadowing, provider order). *)
From Coq Require Import Ascii String.
From Coq Require Import List Arith Bool NArith Lia.
Import ListNotations.
Require Import Laze.model.Base Laze.model.Env Laze.model.Allow Laze.model.Ninja Laze.model.Ctx
        Laze.model.Resolver Laze.proofs.BaseFacts Laze.proofs.ResolverFacts.
Open Scope list_scope.

Section Spec.
  Variable lookup : str -> option module.
  Variable provs : str -> option (list str).

  Definition outcome := option rstate.       (* Some st = taken, resulting state; None = refused *)
  Definition rel := rstate -> module -> outcome -> Prop.

  (* resolving a name: the nearest definition, or refusal if there is none *)
  Inductive evn (R : rel) : rstate -> str -> outcome -> Prop :=
  | evn_found st n m r : lookup n = Some m -> R st m r -> evn R st n r
  | evn_missing st n : lookup n = None -> evn R st n None.

  (* the providers of a name, in order: already selected ones count; once the name is
     claimed/disabled no new provider is taken (stop after the first hit); every other
     provider is attempted, failures are skipped *)
  Inductive evl (R : rel) (pn : str) : list str -> rstate -> nat -> rstate -> nat -> Prop :=
  | evl_nil cur c : evl R pn [] cur c cur c
  | evl_selected p ps cur c st' c' :
      selected p cur = true -> evl R pn ps cur (S c) st' c' -> evl R pn (p :: ps) cur c st' c'
  | evl_claimed_stop p ps cur c :
      selected p cur = false -> has_key pn (disabled cur) = true -> 0 < c -> evl R pn (p :: ps) cur c cur c
  | evl_claimed_skip p ps cur st' c' :
      selected p cur = false -> has_key pn (disabled cur) = true -> evl R pn ps cur 0 st' c' ->
      evl R pn (p :: ps) cur 0 st' c'
  | evl_taken p ps cur c cur2 st' c' :
      selected p cur = false -> has_key pn (disabled cur) = false -> evn R cur p (Some cur2) ->
      evl R pn ps cur2 (S c) st' c' -> evl R pn (p :: ps) cur c st' c'
  | evl_failed p ps cur c st' c' :
      selected p cur = false -> has_key pn (disabled cur) = false -> evn R cur p None ->
      evl R pn ps cur c st' c' -> evl R pn (p :: ps) cur c st' c'.

  (* the provider phase of one dependency: resulting state and "was provided" *)
  Inductive evp (R : rel) : rstate -> str -> rstate -> bool -> Prop :=
  | evp_none cur n : provs n = None -> evp R cur n cur false
  | evp_hit cur n ps c cnt : provs n = Some ps -> evl R n ps cur 0 c cnt -> 0 < cnt -> evp R cur n c true
  | evp_miss cur n ps c : provs n = Some ps -> evl R n ps cur 0 c 0 -> evp R cur n cur false.

  (* the dependency list of a module, left to right *)
  Inductive evd (R : rel) : rstate -> list dep -> outcome -> Prop :=
  | evd_nil st : evd R st [] (Some st)
  | evd_register st d o d' ds r :                       (* if-then whose condition is not selected yet *)
      classify d st = Register o d' -> evd R (add_ifthen o d' st) ds r -> evd R st (d :: ds) r
  | evd_provided_only st d n opt ds cur1 r :            (* a provider claimed the name: no exact match *)
      classify d st = Go n opt -> evp R st n cur1 true -> has_key n (disabled cur1) = true ->
      evd R cur1 ds r -> evd R st (d :: ds) r
  | evd_resolved st d n opt ds cur1 wp cur2 r :
      classify d st = Go n opt -> evp R st n cur1 wp -> wp && has_key n (disabled cur1) = false ->
      evn R cur1 n (Some cur2) -> evd R cur2 ds r -> evd R st (d :: ds) r
  | evd_tolerated st d n opt ds cur1 wp r :             (* optional or provided: as if not written *)
      classify d st = Go n opt -> evp R st n cur1 wp -> wp && has_key n (disabled cur1) = false ->
      evn R cur1 n None -> opt || wp = true -> evd R cur1 ds r -> evd R st (d :: ds) r
  | evd_failed st d n opt ds cur1 wp :
      classify d st = Go n opt -> evp R st n cur1 wp -> wp && has_key n (disabled cur1) = false ->
      evn R cur1 n None -> opt || wp = false -> evd R st (d :: ds) None.

  (* a module: already selected / refused (disabled, conflicting) / taken when first reached,
     then its dependencies followed by the if-then dependencies registered for it *)
  Inductive ev : rel :=
  | ev_already st m : selected (m_name m) st = true -> ev st m (Some st)
  | ev_refused st m : selected (m_name m) st = false -> blocked st m = true -> ev st m None
  | ev_take st m r :
      selected (m_name m) st = false -> blocked st m = false ->
      evd ev (enter st m) (m_selects m ++ get_list (m_name m) (ifthen (enter st m))) r ->
      ev st m r.

  (* ---------- the function refines the specification ---------- *)
  Definition sound (R : rel) (rec : rstate -> module -> res rstate) : Prop :=
    forall st m, (forall st', rec st m = Ok st' -> R st m (Some st')) /\
                 (forall e, rec st m = Err e -> R st m None).

  Lemma by_name_sound R rec : sound R rec -> forall st n,
    (forall st', by_name lookup rec st n = Ok st' -> evn R st n (Some st')) /\
    (forall e, by_name lookup rec st n = Err e -> evn R st n None).
  Proof.
    intros Hs st n. unfold by_name. destruct (lookup n) as [m|] eqn:E.
    - destruct (Hs st m) as [H1 H2]. split; intros; eapply evn_found; eauto.
    - split; intros; [discriminate|apply evn_missing; exact E].
  Qed.

  Lemma rlist_sound R rec : sound R rec -> forall pn ps cur cnt st' cnt',
    rlist lookup rec pn ps cur cnt = Ok (st', cnt') -> evl R pn ps cur cnt st' cnt'.
  Proof.
    intros Hs pn ps; induction ps as [|p ps IH]; cbn [rlist]; intros cur cnt st' cnt' H.
    - inversion H; subst. constructor.
    - destruct (selected p cur) eqn:Es; [apply evl_selected; auto|].
      destruct (has_key pn (disabled cur)) eqn:Ek.
      + destruct (Nat.ltb 0 cnt) eqn:Ec.
        * inversion H; subst. apply evl_claimed_stop; auto. apply Nat.ltb_lt. exact Ec.
        * apply Nat.ltb_ge in Ec. assert (cnt = 0) by lia. subst. apply evl_claimed_skip; auto.
      + destruct (by_name_sound R rec Hs cur p) as [B1 B2].
        destruct (by_name lookup rec cur p) as [c|e| |] eqn:EB; try discriminate.
        * eapply evl_taken; eauto.
        * eapply evl_failed; eauto.
  Qed.

  Lemma deps_sound R rec : sound R rec -> forall ds cur,
    (forall st', deps lookup provs rec ds cur = Ok st' -> evd R cur ds (Some st')) /\
    (forall e, deps lookup provs rec ds cur = Err e -> evd R cur ds None).
  Proof.
    intros Hs ds; induction ds as [|d ds IH]; intros cur; cbn [deps].
    - split; [intros st' H; inversion H; subst; constructor | intros e H; discriminate].
    - destruct (classify d cur) as [o d'|n opt] eqn:EC.
      + destruct (IH (add_ifthen o d' cur)) as [I1 I2].
        split; intros; eapply evd_register; eauto.
      + (* providers phase *)
        assert (HP : forall cur1 wp,
                   match provs n with
                   | Some ps => match rlist lookup rec n ps cur 0 with
                                | Ok (c, cnt) => if Nat.ltb 0 cnt then Ok (c, true) else Ok (cur, false)
                                | Err e => Err e | Panic k => Panic k | Fuel => Fuel end
                   | None => Ok (cur, false) end = Ok (cur1, wp) -> evp R cur n cur1 wp).
        { intros cur1 wp. destruct (provs n) as [ps|] eqn:EPn.
          - destruct (rlist lookup rec n ps cur 0) as [[c cnt]| | |] eqn:EL; try discriminate.
            apply (rlist_sound R rec Hs) in EL. destruct (Nat.ltb 0 cnt) eqn:Ec; intros E; inversion E; subst.
            + apply Nat.ltb_lt in Ec. eapply evp_hit; eauto.
            + apply Nat.ltb_ge in Ec. assert (cnt = 0) by lia. subst. eapply evp_miss; eauto.
          - intros E; inversion E; subst. apply evp_none. exact EPn. }
        destruct (match provs n with
                  | Some ps => _ | None => _ end) as [[cur1 wp]|e0|k|] eqn:EP;
          try (split; intros; discriminate).
        2:{ (* rlist never returns Err *)
            exfalso. destruct (provs n) as [ps|]; [|discriminate].
            destruct (rlist lookup rec n ps cur 0) as [[c cnt]|e1| |] eqn:EL; try discriminate.
            - destruct (Nat.ltb 0 cnt); discriminate.
            - clear -EL. revert EL. generalize 0. generalize cur. induction ps as [|p ps IHp]; intros c0 k0; cbn [rlist]; [discriminate|].
              destruct (selected p c0); [apply IHp|]. destruct (has_key n (disabled c0)).
              + destruct (Nat.ltb 0 k0); [discriminate|apply IHp].
              + destruct (by_name lookup rec c0 p); try discriminate; apply IHp. }
        specialize (HP cur1 wp eq_refl).
        destruct (wp && has_key n (disabled cur1)) eqn:Ewd.
        * apply andb_true_iff in Ewd as [-> Hk]. destruct (IH cur1) as [I1 I2].
          split; intros; eapply evd_provided_only; eauto.
        * destruct (by_name_sound R rec Hs cur1 n) as [B1 B2].
          destruct (by_name lookup rec cur1 n) as [cur2|e| |] eqn:EB; try (split; intros; discriminate).
          -- destruct (IH cur2) as [I1 I2]. split; intros; eapply evd_resolved; eauto.
          -- destruct (opt || wp) eqn:Eow.
             ++ destruct (IH cur1) as [I1 I2]. split; intros; eapply evd_tolerated; eauto.
             ++ split; intros; [discriminate|]. eapply evd_failed; eauto.
  Qed.

  Theorem resolve_refines : forall f, sound ev (resolve_deep lookup provs f).
  Proof.
    induction f as [|f IH]; intros st m; cbn [resolve_deep]; [split; intros; discriminate|].
    destruct (selected (m_name m) st) eqn:E1.
    - split; intros; [|discriminate]. inversion H; subst. apply ev_already. exact E1.
    - destruct (blocked st m) eqn:E2.
      + split; intros; [discriminate|]. apply ev_refused; assumption.
      + destruct (deps_sound ev (resolve_deep lookup provs f) IH
                             (m_selects m ++ get_list (m_name m) (ifthen (enter st m))) (enter st m)) as [D1 D2].
        split; [intros st' Hx; apply ev_take; auto | intros e Hx; apply ev_take; eauto].
  Qed.

  (* ---------- clause lemmas, on the function ---------- *)

  (* an optional dependency that cannot be resolved leaves everything exactly as if it had not
     been written: the loop continues from the very same state (every map included) *)
  Theorem optional_transparent rec n ds cur :
    (forall ps, provs n = Some ps -> exists c, rlist lookup rec n ps cur 0 = Ok (c, 0)) ->
    (exists e, by_name lookup rec cur n = Err e) ->
    deps lookup provs rec (Soft n :: ds) cur = deps lookup provs rec ds cur.
  Proof.
    intros Hp [e He]. cbn [deps classify]. destruct (provs n) as [ps|].
    - destruct (Hp ps eq_refl) as [c Hc]. rewrite Hc. cbn [Nat.ltb Nat.leb andb]. rewrite He. reflexivity.
    - cbn [andb]. rewrite He. reflexivity.
  Qed.

  (* an if-then dependency whose condition is not (yet) selected only registers itself *)
  Theorem ifthen_registers rec o n ds cur :
    selected o cur = false ->
    deps lookup provs rec (IfThenHard o n :: ds) cur = deps lookup provs rec ds (add_ifthen o (Hard n) cur).
  Proof. intros H. cbn [deps classify]. rewrite H. reflexivity. Qed.
End Spec.

(* a module is taken when first reached and never moves: the selection list only grows at the
   end (this is the first component of Step in the closure proof) *)
Theorem first_reached lookup provs :
  (forall n m, lookup n = Some m -> m_name m = n) ->
  (forall n ps p, provs n = Some ps -> In p ps -> exists mp, lookup p = Some mp /\ In n (provides_of mp)) ->
  forall app, (forall a0, lookup (m_name app) = Some a0 -> provides_of a0 = provides_of app) ->
  forall f st m st', Good lookup app st -> okmod lookup app m ->
    resolve_deep lookup provs f st m = Ok st' -> exists l, sel st' = sel st ++ l.
Proof.
  intros H1 H2 app H3 f st m st' G Hm H.
  destruct (resolve_post lookup provs H1 H2 app H3 f st m st' G Hm H) as ((l & E & _) & _). exists l. exact E.
Qed.

(* shadowing: a name resolves to the definition in the context nearest to the builder *)
Theorem nearest_definition cs1 c cs2 n m :
  (forall c', In c' cs1 -> alookup n (c_modules c') = None) ->
  alookup n (c_modules c) = Some m ->
  find_module (cs1 ++ c :: cs2) n = Some m.
Proof.
  induction cs1 as [|c1 t IH]; intros Hn Hm; cbn [app find_module].
  - rewrite Hm. reflexivity.
  - rewrite (Hn c1 (or_introl eq_refl)). apply IH; [|exact Hm]. intros c' I. apply Hn. right. exact I.
Qed.

(* provider order after merging a context with its parent: the context's own providers in
   definition order, then the parent's that are not among them *)
Theorem provider_order own parent n ps pps :
  alookup n own = Some ps -> alookup n parent = Some pps ->
  alookup n (union_provided own parent) = Some (iset_union ps pps).
Proof.
  intros Ho Hp. unfold union_provided.
  assert (G : forall l, alookup n l = Some ps ->
              alookup n (map (fun kv => (fst kv, match alookup (fst kv) parent with
                                                  | Some q => iset_union (snd kv) q | None => snd kv end)) l
                         ++ filter (fun kv => match alookup (fst kv) own with Some _ => false | None => true end) parent)
              = Some (iset_union ps pps)).
  { induction l as [|[k v] t IH]; cbn [map app alookup fst snd]; [discriminate|].
    destruct (str_eqb n k) eqn:E.
    - intros Hx. inversion Hx; subst. apply str_eqb_eq in E. subst k. rewrite Hp. reflexivity.
    - exact IH. }
  apply G. exact Ho.
Qed.

Theorem provider_order_own_only own parent n ps :
  alookup n own = Some ps -> alookup n parent = None ->
  alookup n (union_provided own parent) = Some ps.
Proof.
  intros Ho Hp. unfold union_provided.
  assert (G : forall l, alookup n l = Some ps ->
              alookup n (map (fun kv => (fst kv, match alookup (fst kv) parent with
                                                  | Some q => iset_union (snd kv) q | None => snd kv end)) l
                         ++ filter (fun kv => match alookup (fst kv) own with Some _ => false | None => true end) parent)
              = Some ps).
  { induction l as [|[k v] t IH]; cbn [map app alookup fst snd]; [discriminate|].
    destruct (str_eqb n k) eqn:E.
    - intros Hx. inversion Hx; subst. apply str_eqb_eq in E. subst k. rewrite Hp. reflexivity.
    - exact IH. }
  apply G. exact Ho.
Qed.
