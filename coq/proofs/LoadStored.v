(* LoadStored.v — in a loaded bag a module's context id is the position of the context that holds
   it, and a context holds at most one module per name. Consequence: what a builder resolves an app's
   name to, with the app's own context id, IS the app — so the side condition app_okb of the resolver
   theorems holds for every configured build (which, after fix 94ae0f6, is never a shadowed app). *)
From Coq Require Import Ascii String.
From Coq Require Import List Arith Bool NArith Lia.
Import ListNotations.
Require Import Laze.model.Base Laze.model.Env Laze.model.Allow Laze.model.Ctx Laze.model.Load Laze.model.Checks.
Require Import Laze.proofs.BaseFacts Laze.proofs.StmtFacts Laze.proofs.LoadNames Laze.proofs.FinalizeFacts Laze.proofs.LoadKeys.
Open Scope list_scope.

Definition mods_inv (j : nat) (ms : list (str * module)) : Prop :=
  NoDup (map fst ms) /\ forall k m, In (k, m) ms -> forall i, m_context_id m = Some i -> i = j.
Definition ctx_inv (j : nat) (c : context) : Prop := mods_inv j (c_modules c).
Definition bag_inv (b : bag) : Prop := forall j c, bag_get b j = Some c -> ctx_inv j c.

Lemma bag_get_lt (b : bag) j c : bag_get b j = Some c -> j < length b.
Proof. unfold bag_get. intros E. apply nth_error_Some. rewrite E. discriminate. Qed.

Lemma bag_inv_set_ctx b i c : i < length b -> bag_inv b -> ctx_inv i c -> bag_inv (set_ctx b i c).
Proof.
  intros Hi Hb Hc j c' Hg. destruct (Nat.eq_dec j i) as [->|Hne].
  - rewrite (set_ctx_same b i c Hi) in Hg. injection Hg as <-. exact Hc.
  - rewrite (set_ctx_other b i j c Hi Hne) in Hg. exact (Hb j c' Hg).
Qed.

Lemma bag_inv_snoc b c : bag_inv b -> ctx_inv (length b) c -> bag_inv (b ++ [c]).
Proof.
  intros Hb Hc j c' Hg. unfold bag_get in Hg. destruct (Nat.lt_ge_cases j (length b)) as [Hlt|Hge].
  - rewrite nth_error_app1 in Hg by exact Hlt. exact (Hb j c' Hg).
  - rewrite nth_error_app2 in Hg by exact Hge. destruct (j - length b) as [|n] eqn:En.
    + cbn in Hg. injection Hg as <-. replace j with (length b) by lia. exact Hc.
    + cbn in Hg. destruct n; discriminate Hg.
Qed.

Lemma fold_inv {A} (f : bag -> A -> bag) : (forall b a, bag_inv b -> bag_inv (f b a)) ->
  forall l b, bag_inv b -> bag_inv (fold_left f l b).
Proof. intros Hf. induction l as [|a t IH]; intros b Hk; cbn [fold_left]; [exact Hk|]. apply IH, Hf, Hk. Qed.

Lemma inherit_env_inv b nm : bag_inv b -> bag_inv (inherit_env b nm).
Proof.
  intros Hk. unfold inherit_env. destruct (snd nm); [exact Hk|].
  destruct (bag_get b (fst nm)) as [c|] eqn:Eg; [|exact Hk].
  destruct (c_parent_index c) as [p|]; [|exact Hk]. destruct (bag_get b p) as [pc|]; [|exact Hk].
  destruct (c_env pc); [|exact Hk]. apply bag_inv_set_ctx; [exact (bag_get_lt _ _ _ Eg)|exact Hk|exact (Hk _ _ Eg)].
Qed.
Lemma inherit_var_options_inv b nm : bag_inv b -> bag_inv (inherit_var_options b nm).
Proof.
  intros Hk. unfold inherit_var_options. destruct (snd nm); [exact Hk|].
  destruct (bag_get b (fst nm)) as [c|] eqn:Eg; [|exact Hk].
  destruct (c_var_options c); [exact Hk|]. destruct (c_parent_index c) as [p|]; [|exact Hk].
  destruct (bag_get b p) as [pc|]; [|exact Hk]. apply bag_inv_set_ctx; [exact (bag_get_lt _ _ _ Eg)|exact Hk|exact (Hk _ _ Eg)].
Qed.
Lemma merge_provides_inv b : bag_inv b -> bag_inv (merge_provides b).
Proof.
  unfold merge_provides. apply fold_inv. intros b0 nm Hk. unfold merge_provides_one. destruct (snd nm); [exact Hk|].
  destruct (bag_get b0 (fst nm)) as [c|] eqn:Eg; [|exact Hk].
  apply bag_inv_set_ctx; [exact (bag_get_lt _ _ _ Eg)|exact Hk|exact (Hk _ _ Eg)].
Qed.

Lemma alookup_none_notin {V} k (l : list (str * V)) : alookup k l = None -> ~ In k (map fst l).
Proof.
  induction l as [|[k0 v0] t IH]; cbn; [intros _ []|]. destruct (str_eqb k k0) eqn:E; [discriminate|].
  intros Hn [Hk|Hin]; [subst k0; rewrite str_eqb_refl in E; discriminate|exact (IH Hn Hin)].
Qed.

Lemma add_module_inv b m b' : bag_inv b -> add_module b m = Ok b' -> bag_inv b'.
Proof.
  unfold add_module. intros Hk. destruct (bag_index b (m_context_name m)) as [i|]; [|discriminate].
  destruct (bag_get b i) as [c|] eqn:Eg; [|discriminate].
  destruct (alookup (m_name m) (c_modules c)) eqn:El; [discriminate|].
  intros E. injection E as <-. apply bag_inv_set_ctx; [exact (bag_get_lt _ _ _ Eg)|exact Hk|].
  destruct (Hk _ _ Eg) as [ND Hpos]. unfold ctx_inv, mods_inv. cbn [with_modules c_modules]. split.
  - rewrite map_app. cbn [map fst]. apply NoDup_app_single; [exact ND|apply alookup_none_notin, El].
  - intros k m0 Hin i0 Hi0. apply in_app_or in Hin. destruct Hin as [Hin|[E|[]]]; [exact (Hpos k m0 Hin i0 Hi0)|].
    injection E as _ <-. unfold with_context_id in Hi0. cbn in Hi0. injection Hi0 as <-. reflexivity.
Qed.

Lemma nth_error_combine_map {A B C} (f : A * B -> C) (la : list A) (lb : list B) j c :
  nth_error (map f (combine la lb)) j = Some c -> exists a b0, nth_error la j = Some a /\ c = f (a, b0).
Proof.
  revert lb j. induction la as [|a t IH]; intros lb j Hn; [destruct j; discriminate|].
  destruct lb as [|b0 tb]; [destruct j; discriminate|]. destruct j as [|j]; cbn in Hn.
  - injection Hn as <-. exists a, b0. split; reflexivity.
  - exact (IH tb j Hn).
Qed.

Lemma finalize_inv b0 b : bag_inv b0 -> finalize b0 = Ok b -> bag_inv b.
Proof.
  unfold finalize. intros Hk.
  set (b1 := if mem_str (S_ "default") (bag_names b0) then b0 else b0 ++ [context_default]).
  assert (K1 : bag_inv b1).
  { unfold b1. destruct (mem_str (S_ "default") (bag_names b0)); [exact Hk|]. apply bag_inv_snoc; [exact Hk|].
    unfold ctx_inv, mods_inv. cbn. split; [constructor; [intros []|constructor]|].
    intros k m [E|[]] i Hi. injection E as _ <-. discriminate Hi. }
  clearbody b1.
  destruct (resolve_parents (bag_names b1) (map c_parent_name b1)) as [ps|]; [|discriminate].
  destruct (negb (acyclic ps)); [discriminate|]. intros E. injection E as <-.
  apply fold_inv; [intros; apply inherit_var_options_inv; assumption|].
  apply fold_inv; [intros; apply inherit_env_inv; assumption|].
  intros j c Hg. unfold bag_get in Hg. apply nth_error_combine_map in Hg. destruct Hg as (c0 & p & Hn & ->).
  exact (K1 j c0 Hn).
Qed.

Lemma add_context_inv b c b' : bag_inv b -> c_modules c = [] -> add_context b c = Ok b' -> bag_inv b'.
Proof.
  unfold add_context. intros Hk Hc. destruct (mem_str (c_name c) (bag_names b)); [discriminate|].
  intros E. injection E as <-. apply bag_inv_snoc; [exact Hk|]. unfold ctx_inv, mods_inv. rewrite Hc. split; [constructor|intros k m []].
Qed.

Lemma convert_context_nomods y ib f root c m : convert_context y ib f root = Ok (c, m) -> c_modules c = [].
Proof.
  unfold convert_context. intros H.
  repeat match type of H with rbind ?X _ = _ => destruct X; cbn [rbind] in H; try discriminate end.
  injection H as <- _. reflexivity.
Qed.

Lemma add_modules_inv bd b d mods is_binary defaults b' :
  bag_inv b -> add_modules bd b d mods is_binary defaults = Ok b' -> bag_inv b'.
Proof.
  unfold add_modules. intros Hk HF.
  apply (fold_rbind_inv bag_inv
           (fun b0 y => fold_left (fun acc c => rbind acc (fun b1 =>
                          rbind (convert_module bd y c is_binary (ld_file d) (ld_root d) defaults) (add_module b1)))
                          (contexts_of (ym_context y)) (Ok b0))) with (l := mods) (acc := Ok b); [|intros a E; injection E as <-; exact Hk|exact HF].
  intros a y a' Ha HF2.
  apply (fold_rbind_inv bag_inv
           (fun b1 c => rbind (convert_module bd y c is_binary (ld_file d) (ld_root d) defaults) (add_module b1)))
    with (l := contexts_of (ym_context y)) (acc := Ok a); [|intros a0 E; injection E as <-; exact Ha|exact HF2].
  intros a0 c a1 Ha0 E. destruct (convert_module bd y c is_binary (ld_file d) (ld_root d) defaults) as [m| | |]; cbn [rbind] in E; try discriminate.
  exact (add_module_inv _ _ _ Ha0 E).
Qed.

Theorem load_stored_inv t pf bd b : load t pf bd = Ok b -> bag_inv b.
Proof.
  unfold load. intros HL.
  destruct (load_files _ t [(pf, (None, None))] 0 []) as [[docs fs]| | |]; cbn [rbind] in HL; try discriminate.
  match type of HL with rbind ?X _ = _ => destruct X as [[b0 cms]| | |] eqn:E1 end; cbn [rbind] in HL; try discriminate.
  assert (K0 : bag_inv b0).
  { refine (fold_rbind_inv (fun p : bag * list module => bag_inv (fst p)) _ _ docs (Ok ([], [])) (b0, cms) _ E1);
      [|intros a E; injection E as <-; intros j c Hg; destruct j; discriminate Hg].
    intros [ba cmsa] d [ba' cmsa'] Ha Hd. cbn [fst] in *.
    refine (fold_rbind_inv (fun p : bag * list module => bag_inv (fst p)) _ _ _ (Ok (ba, cmsa)) (ba', cmsa') _ Hd);
      [|intros a E; injection E as <-; exact Ha].
    intros [bb cmsb] lb [bb' cmsb'] Hb Hlb. cbn [fst] in *.
    refine (fold_rbind_inv (fun p : bag * list module => bag_inv (fst p)) _ _ _ (Ok (bb, cmsb)) (bb', cmsb') _ Hlb);
      [|intros a E; injection E as <-; exact Hb].
    intros [bc cmsc] y [bc' cmsc'] Hc Hy. cbn [fst] in *.
    destruct (convert_context y (snd lb || yc_is_builder y) (ld_file d) (ld_root d)) as [[c m]| | |] eqn:Ecc; cbn [rbind] in Hy; try discriminate.
    destruct (add_context bc c) as [bn| | |] eqn:Ea; cbn [rbind] in Hy; try discriminate.
    injection Hy as <- _. exact (add_context_inv _ _ _ Hc (convert_context_nomods _ _ _ _ _ _ Ecc) Ea). }
  destruct (finalize b0) as [b1| | |] eqn:Ef; cbn [rbind] in HL; try discriminate.
  pose proof (finalize_inv _ _ K0 Ef) as K1.
  match type of HL with rbind ?X _ = _ => destruct X as [b2| | |] eqn:E2 end; cbn [rbind] in HL; try discriminate.
  assert (K2 : bag_inv b2).
  { refine (fold_rbind_inv bag_inv (fun bx m => add_module bx m) _ cms (Ok b1) b2 _ E2);
      [|intros a E; injection E as <-; exact K1].
    intros a m a' Ha Hm. exact (add_module_inv _ _ _ Ha Hm). }
  match type of HL with rbind ?X _ = _ => destruct X as [[[b3 mm] am]| | |] eqn:E3 end; cbn [rbind] in HL; try discriminate.
  assert (K3 : bag_inv b3).
  { refine (fold_rbind_inv (fun p : bag * list (nat * module) * list (nat * module) => bag_inv (fst (fst p)))
              _ _ docs (Ok (b2, [], [])) (b3, mm, am) _ E3); [|intros a E; injection E as <-; exact K2].
    intros [[ba mma] ama] d [[ba' mma'] ama'] Ha Hd. cbn [fst] in *.
    destruct (get_defaults bd d mma false) as [mdef| | |]; cbn [rbind] in Hd; try discriminate.
    destruct (get_defaults bd d ama true) as [adef| | |]; cbn [rbind] in Hd; try discriminate.
    match type of Hd with rbind ?X _ = _ => destruct X as [b4| | |] eqn:E4 end; cbn [rbind] in Hd; try discriminate.
    match type of Hd with rbind ?X _ = _ => destruct X as [b5| | |] eqn:E5 end; cbn [rbind] in Hd; try discriminate.
    injection Hd as <- _ _.
    assert (K4 : bag_inv b4).
    { destruct (d_modules (ld_doc d)) as [[l|]|]; try (injection E4 as <-; exact Ha). exact (add_modules_inv _ _ _ _ _ _ _ Ha E4). }
    destruct (d_apps (ld_doc d)) as [[l|]|]; try (injection E5 as <-; exact K4); exact (add_modules_inv _ _ _ _ _ _ _ K4 E5). }
  injection HL as <-. apply merge_provides_inv, K3.
Qed.

(* ---------- what a builder resolves an app's name to ---------- *)
Require Import Laze.model.Ninja Laze.model.Resolver Laze.model.Imports Laze.model.Generate.
Require Import Laze.proofs.GenerateFacts Laze.proofs.LoadBins.

Lemma find_module_at b n seen : forall l, find_module (ctxs_of b l) n = Some seen ->
  exists j c, In j l /\ bag_get b j = Some c /\ alookup n (c_modules c) = Some seen.
Proof.
  induction l as [|j t IH]; cbn [ctxs_of flat_map]; [discriminate|].
  destruct (bag_get b j) as [c|] eqn:Eg; cbn [app find_module].
  - destruct (alookup n (c_modules c)) as [m|] eqn:El.
    + intros [= <-]. exists j, c. split; [left; reflexivity|]. split; [exact Eg|exact El].
    + intros Hf. destruct (IH Hf) as (j' & c' & Hin & Hg & Ha). exists j', c'. split; [right; exact Hin|]. split; assumption.
  - intros Hf. destruct (IH Hf) as (j' & c' & Hin & Hg & Ha). exists j', c'. split; [right; exact Hin|]. split; assumption.
Qed.

Lemma nodup_keys_unique {V} (l : list (str * V)) k v1 v2 :
  NoDup (map fst l) -> In (k, v1) l -> In (k, v2) l -> v1 = v2.
Proof.
  induction l as [|[k0 v0] t IH]; intros ND H1 H2; [destruct H1|]. cbn [map fst] in ND. inversion ND as [|? ? Hn ND']; subst.
  destruct H1 as [E1|H1], H2 as [E2|H2].
  - congruence.
  - injection E1 as -> _. exfalso. apply Hn. apply in_map_iff. exists (k, v2). split; [reflexivity|exact H2].
  - injection E2 as -> _. exfalso. apply Hn. apply in_map_iff. exists (k, v1). split; [reflexivity|exact H1].
  - exact (IH ND' H1 H2).
Qed.

Lemma alookup_In_same {V} k (l : list (str * V)) v : alookup k l = Some v -> In (k, v) l.
Proof.
  induction l as [|[k0 v0] t IH]; cbn; [discriminate|]. destruct (str_eqb k k0) eqn:E.
  - intros [= <-]. apply str_eqb_eq in E. subst k0. left. reflexivity.
  - intros Hl. right. exact (IH Hl).
Qed.

(* in a loaded bag: an app that is not shadowed for a builder is what the builder resolves its name to *)
Theorem unshadowed_is_resolved t pf bd b builder binary :
  load t pf bd = Ok b -> In binary (all_modules b) -> m_is_binary binary = true ->
  shadowed b builder binary = false ->
  forall seen, resolve_module b builder (m_name binary) = Some seen -> seen = binary.
Proof.
  intros HL Hin Hisb Hsh seen Hres.
  pose proof (load_stored_inv _ _ _ _ HL) as HI. pose proof (load_keys_ok _ _ _ _ HL) as HK.
  destruct (loaded_binary_ok _ _ _ _ _ HL Hin Hisb) as [Hcid _].
  destruct (m_context_id binary) as [i|] eqn:Ei; [|contradiction].
  unfold shadowed in Hsh. rewrite Hres in Hsh. apply negb_false_iff in Hsh. rewrite Ei in Hsh.
  destruct (m_context_id seen) as [i'|] eqn:Ei'; [|discriminate]. cbn in Hsh. apply Nat.eqb_eq in Hsh. subst i'.
  unfold resolve_module in Hres. destruct (find_module_at _ _ _ _ Hres) as (j & c & _ & Hg & Hl).
  apply alookup_In_same in Hl.
  assert (Ej : i = j) by exact (proj2 (HI j c Hg) _ _ Hl i Ei'). subst j.
  unfold all_modules in Hin. apply in_flat_map in Hin. destruct Hin as (c' & Hc' & Hm).
  apply In_nth_error in Hc'. destruct Hc' as [j' Hj'].
  apply in_map_iff in Hm. destruct Hm as ([k m0] & Em & Hkm). cbn [snd] in Em. subst m0.
  assert (Ej' : i = j') by exact (proj2 (HI j' c' Hj') _ _ Hkm i Ei). subst j'.
  unfold bag_get in Hg. rewrite Hg in Hj'. injection Hj' as <-.
  assert (Ek : k = m_name binary).
  { pose proof (keys_okb_get _ _ _ HK Hg) as Hok. unfold ctx_ok in Hok. rewrite forallb_forall in Hok.
    specialize (Hok _ Hkm). cbn [fst snd] in Hok. apply str_eqb_eq in Hok. symmetry. exact Hok. }
  subst k. exact (nodup_keys_unique _ _ _ _ (proj1 (HI i c Hg)) Hl Hkm).
Qed.

(* the side condition app_okb of the resolver theorems, for every configured build of a loaded project *)
Theorem configured_app_ok H EV t pf bd b le builder binary select disable cli_env info entries :
  load t pf bd = Ok b -> In binary (all_modules b) -> m_is_binary binary = true ->
  configure_build H EV b le builder binary select disable cli_env = Ok (Built info entries) ->
  app_okb b builder binary = true.
Proof.
  intros HL Hin Hisb HC. pose proof (configure_build_not_shadowed H EV _ _ _ _ _ _ _ _ _ HC) as Hsh.
  unfold app_okb. destruct (resolve_module b builder (m_name binary)) as [seen|] eqn:Er; [|reflexivity].
  rewrite (unshadowed_is_resolved _ _ _ _ _ _ HL Hin Hisb Hsh seen Er).
  generalize (provides_of binary). intros l. induction l as [|x r IH]; [reflexivity|]. cbn. rewrite str_eqb_refl. exact IH.
Qed.

(* ---------- C01 without side conditions ---------- *)
Require Import Laze.proofs.LoadProvides Laze.proofs.CacheNarrow Laze.proofs.GenTotal Laze.proofs.ResolverFacts.

(* for every configured build of a loaded project whose app is one of the project's apps *)
Theorem configured_build_closed_app H EV t pf bd b le builder binary select disable cli_env info entries :
  load t pf bd = Ok b -> In binary (all_modules b) -> m_is_binary binary = true ->
  configure_build H EV b le builder binary select disable cli_env = Ok (Built info entries) ->
  exists rst app',
    bi_modules info = map m_name (sel rst) /\
    m_name app' = m_name binary /\
    m_selects app' = select ++ m_selects binary ++ [Hard (ctx_module_name (bi_builder info))] /\
    In app' (sel rst) /\
    forall x, In x (sel rst) -> forall d, In d (m_selects x) -> closed_dep rst d.
Proof.
  intros HL Hin Hisb HC.
  exact (configured_build_closed_loaded H EV t pf bd b le builder binary select disable cli_env info entries HL
           (configured_app_ok H EV _ _ _ _ _ _ _ _ _ _ _ _ HL Hin Hisb HC) HC).
Qed.

(* ... hence for every build that a generation of a loaded project reports *)
Theorem generated_builds_closed H EV t pf bd b le bsel asel local part select disable cli_env g :
  load t pf bd = Ok b ->
  generate H EV b le bsel asel local part select disable cli_env = Ok g ->
  forall info, In info (gr_builds g) ->
  exists rst app',
    bi_modules info = map m_name (sel rst) /\
    m_name app' = bi_binary info /\
    In app' (sel rst) /\
    forall x, In x (sel rst) -> forall d, In d (m_selects x) -> closed_dep rst d.
Proof.
  intros HL HG info Hin.
  destruct (generate_builds H EV _ _ _ _ _ _ _ _ _ _ HG) as (bs & bins & Hbs & Hbins & Hbuilds).
  apply Hbuilds in Hin. destruct Hin as ([i m] & es & Hbm & Hc). unfold cfg in Hc. cbn [fst snd] in Hc.
  apply CacheNarrow.part_filter_In, CacheNarrow.pairs_In in Hbm. destruct Hbm as [_ Hm].
  destruct (selected_bins_valid _ _ _ _ Hbins m Hm) as [Hmin Hisb].
  destruct (configured_build_closed_app H EV _ _ _ _ _ _ _ _ _ _ _ _ HL Hmin Hisb Hc) as (rst & app' & H1 & H2 & _ & H4 & H5).
  exists rst, app'. split; [exact H1|]. split; [|split; [exact H4|exact H5]].
  destruct (configure_build_inv H EV _ _ _ _ _ _ _ _ _ Hc) as (bctx & ba & bin_ctx & anc & rst0 & _ & _ & _ & _ & _ & _ & _ & _ & Hb2).
  rewrite Hb2. exact H2.
Qed.
