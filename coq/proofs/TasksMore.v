(* TasksMore.v — C16, the remaining clauses: the app is built first unless `build: false`; a failing
   ninja run prevents every task; the exit status is 0 exactly when something ran and nothing failed. *)
From Coq Require Import Ascii String.
From Coq Require Import List Arith Bool NArith Lia.
Import ListNotations.
Require Import Laze.model.Base Laze.model.Env Laze.model.Ninja Laze.model.Ctx Laze.model.Generate Laze.model.Tasks.
Require Import Laze.proofs.TasksFacts.
Open Scope list_scope.

Section More.
  Variable ninja_ok : list str -> bool.
  Variable task_ok : str -> str -> bool.

  Definition matching_of (builds : list build_info) (c : mcli) (name : str) : list build_info :=
    filter (fun b => selected_build c b && match task_of_build name b with Some _ => true | None => false end) builds.
  Definition runnable_of (builds : list build_info) (c : mcli) (name : str) : list build_info :=
    filter (fun b => match task_of_build name b with Some (inl _) => true | _ => false end) (matching_of builds c name).
  (* the outputs that have to be built before the tasks run: those of runnable builds whose task does
     not say build: false *)
  Definition prebuild_targets (builds : list build_info) (c : mcli) (name : str) : list str :=
    flat_map (fun b => match task_of_build name b with
                       | Some (inl t) => if t_build t then [bi_out b] else []
                       | _ => [] end) (runnable_of builds c name).
  Definition task_argv (builds : list build_info) (file : str) (c : mcli) (name : str) : list str :=
    ninja_argv file (Nat.ltb 0 (mc_verbose c)) (Some (prebuild_targets builds c name)) (mc_jobs c) None.

  Lemma errors_zero kg : forall targets e acts e', run_tasks task_ok kg targets e = (acts, e') ->
    (e' = 0 <-> e = 0 /\ forall b a, In (ATask b a) acts -> task_ok b a = true).
  Proof.
    intros targets e acts e' HR. destruct (run_tasks_spec task_ok kg targets e acts e' HR) as (n & Ha & He & _).
    subst acts e'. split.
    - intros Hz. assert (E0 : e = 0) by lia. split; [exact E0|].
      assert (Hf : filter (failing task_ok) (firstn n targets) = []) by (destruct (filter _ _); [reflexivity|cbn in Hz; lia]).
      intros b a Hin. apply in_map_iff in Hin. destruct Hin as (x & Hx & Hxin). unfold act_of in Hx. injection Hx as <- <-.
      destruct (task_ok (bi_builder x) (bi_binary x)) eqn:Eok; [reflexivity|exfalso].
      assert (Hin2 : In x (filter (failing task_ok) (firstn n targets))).
      { apply filter_In. split; [exact Hxin|]. unfold failing. rewrite Eok. reflexivity. }
      rewrite Hf in Hin2. destruct Hin2.
    - intros [-> Hall]. cbn.
      assert (Hf : filter (failing task_ok) (firstn n targets) = []).
      { revert Hall. generalize (firstn n targets). intros l. induction l as [|x t IH]; intros Hall; [reflexivity|]. cbn [filter].
        assert (Hx : task_ok (bi_builder x) (bi_binary x) = true) by (apply Hall; left; reflexivity).
        unfold failing at 1. rewrite Hx. cbn [negb]. apply IH. intros b a Hin. apply Hall. right. exact Hin. }
      rewrite Hf. reflexivity.
  Qed.

  (* build first: ninja is invoked iff some runnable build's task wants the app built and -G was not
     given; with exactly the outputs of those builds as targets and -j/-v passed through; it comes
     first; if it fails nothing else happens and the exit status is 1 *)
  Theorem task_build_first builds file c name :
    mc_task c = Some name ->
    let o := main_after_generate ninja_ok task_ok builds file c in
    let argv := task_argv builds file c name in
    (forall a, In (ANinja a) (o_actions o) -> a = argv /\ prebuild_targets builds c name <> [] /\ mc_generate_only c = false) /\
    (runnable_of builds c name <> [] -> (length (matching_of builds c name) <= 1 \/ mc_multiple c = true) ->
     prebuild_targets builds c name <> [] -> mc_generate_only c = false ->
     exists acts, o_actions o = ANinja argv :: acts /\ (ninja_ok argv = false -> acts = [] /\ o_exit o = 1)).
  Proof.
    intros Ht. cbv zeta. unfold main_after_generate. rewrite Ht.
    fold (matching_of builds c name). fold (runnable_of builds c name).
    change (flat_map _ (runnable_of builds c name)) with (prebuild_targets builds c name).
    fold (task_argv builds file c name).
    destruct (runnable_of builds c name) as [|r0 rs] eqn:Er.
    { split; [intros a []|intros Hne; contradiction]. }
    rewrite <- Er.
    destruct (Nat.ltb 1 (length (matching_of builds c name)) && negb (mc_multiple c)) eqn:Emult.
    { split; [intros a []|]. intros _ Hm. exfalso. apply andb_prop in Emult. destruct Emult as [E1 E2].
      apply Nat.ltb_lt in E1. apply negb_true_iff in E2. destruct Hm as [Hm|Hm]; [lia|congruence]. }
    destruct (prebuild_targets builds c name) as [|t0 ts] eqn:Ep.
    - cbn [negb andb]. destruct (run_tasks task_ok (mc_keep_going c) (runnable_of builds c name) 0) as [acts errors] eqn:ER.
      cbn [o_actions app]. split; [|intros _ _ Hne; contradiction].
      intros a Hin. exfalso. destruct (run_tasks_spec task_ok _ _ _ _ _ ER) as (n & Ha & _). subst acts.
      apply in_map_iff in Hin. destruct Hin as (x & Hx & _). discriminate Hx.
    - cbn [negb andb]. destruct (mc_generate_only c) eqn:Eg; cbn [negb andb].
      + destruct (run_tasks task_ok (mc_keep_going c) (runnable_of builds c name) 0) as [acts errors] eqn:ER.
        cbn [o_actions app]. split; [|intros _ _ _ Hg; discriminate Hg].
        intros a Hin. exfalso. destruct (run_tasks_spec task_ok _ _ _ _ _ ER) as (n & Ha & _). subst acts.
        apply in_map_iff in Hin. destruct Hin as (x & Hx & _). discriminate Hx.
      + destruct (ninja_ok (task_argv builds file c name)) eqn:Eok; cbn [negb].
        * destruct (run_tasks task_ok (mc_keep_going c) (runnable_of builds c name) 0) as [acts errors] eqn:ER.
          cbn [o_actions app]. split.
          -- intros a [Ha|Hin]; [injection Ha as <-; split; [reflexivity|split; [discriminate|reflexivity]]|].
             exfalso. destruct (run_tasks_spec task_ok _ _ _ _ _ ER) as (n & Ha & _). subst acts.
             apply in_map_iff in Hin. destruct Hin as (x & Hx & _). discriminate Hx.
          -- intros _ _ _ _. exists acts. split; [reflexivity|intros Hf; discriminate Hf].
        * cbn [o_actions o_exit]. split.
          -- intros a [Ha|[]]. injection Ha as <-. split; [reflexivity|split; [discriminate|reflexivity]].
          -- intros _ _ _ _. exists []. split; [reflexivity|intros _; split; reflexivity].
  Qed.

  (* exit status: 0 exactly when there is a runnable match, no refusal, ninja (if invoked) succeeded
     and every executed task succeeded *)
  Theorem task_exit_status builds file c name :
    mc_task c = Some name ->
    let o := main_after_generate ninja_ok task_ok builds file c in
    (o_exit o = 0 \/ o_exit o = 1) /\
    (o_exit o = 0 <->
       runnable_of builds c name <> [] /\
       (length (matching_of builds c name) <= 1 \/ mc_multiple c = true) /\
       (forall a, In (ANinja a) (o_actions o) -> ninja_ok a = true) /\
       (forall b a, In (ATask b a) (o_actions o) -> task_ok b a = true)).
  Proof.
    intros Ht. cbv zeta. unfold main_after_generate. rewrite Ht.
    fold (matching_of builds c name). fold (runnable_of builds c name).
    change (flat_map _ (runnable_of builds c name)) with (prebuild_targets builds c name).
    fold (task_argv builds file c name).
    destruct (runnable_of builds c name) as [|r0 rs] eqn:Er.
    { cbn [o_exit]. split; [right; reflexivity|]. split; [discriminate|]. intros (Hne & _). contradiction. }
    rewrite <- Er.
    assert (Hrne : runnable_of builds c name <> []) by (rewrite Er; discriminate).
    destruct (Nat.ltb 1 (length (matching_of builds c name)) && negb (mc_multiple c)) eqn:Emult.
    { cbn [o_exit]. split; [right; reflexivity|]. split; [discriminate|]. intros (_ & Hm & _). exfalso.
      apply andb_prop in Emult. destruct Emult as [E1 E2]. apply Nat.ltb_lt in E1. apply negb_true_iff in E2.
      destruct Hm as [Hm|Hm]; [lia|congruence]. }
    assert (Hmult : length (matching_of builds c name) <= 1 \/ mc_multiple c = true).
    { apply andb_false_iff in Emult. destruct Emult as [E|E]; [left; apply Nat.ltb_ge in E; exact E|right; apply negb_false_iff in E; exact E]. }
    set (need := negb (match prebuild_targets builds c name with [] => true | _ => false end) && negb (mc_generate_only c)).
    destruct (need && negb (ninja_ok (task_argv builds file c name))) eqn:Efail.
    { cbn [o_exit o_actions]. split; [right; reflexivity|]. split; [discriminate|]. intros (_ & _ & Hn & _). exfalso.
      apply andb_prop in Efail. destruct Efail as [_ E2]. apply negb_true_iff in E2.
      rewrite (Hn _ (or_introl eq_refl)) in E2. discriminate. }
    destruct (run_tasks task_ok (mc_keep_going c) (runnable_of builds c name) 0) as [acts errors] eqn:ER.
    cbn [o_exit o_actions].
    pose proof (errors_zero _ _ _ _ _ ER) as Hz.
    split; [destruct (Nat.ltb 0 errors); [right|left]; reflexivity|].
    split.
    - intros Hex. assert (E0 : errors = 0) by (destruct errors; [reflexivity|discriminate Hex]).
      split; [exact Hrne|]. split; [exact Hmult|]. split.
      + intros a Hin. apply in_app_or in Hin. destruct Hin as [Hin|Hin].
        * destruct need eqn:En; [|destruct Hin]. destruct Hin as [Ha|[]]. injection Ha as <-.
          cbn [andb] in Efail. apply negb_false_iff in Efail. exact Efail.
        * exfalso. destruct (run_tasks_spec task_ok _ _ _ _ _ ER) as (n & Ha & _). subst acts.
          apply in_map_iff in Hin. destruct Hin as (x & Hx & _). discriminate Hx.
      + intros b a Hin. apply in_app_or in Hin. destruct Hin as [Hin|Hin].
        * destruct need; [destruct Hin as [Hx|[]]; discriminate Hx|destruct Hin].
        * exact (proj2 (proj1 Hz E0) b a Hin).
    - intros (_ & _ & _ & Htasks).
      assert (E0 : errors = 0).
      { apply Hz. split; [reflexivity|]. intros b a Hin. apply Htasks. apply in_or_app. right. exact Hin. }
      rewrite E0. reflexivity.
  Qed.
End More.
