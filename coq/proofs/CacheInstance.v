(* CacheInstance.v — the cache machine instantiated with laze's loader and generator:
   what the acceptance conditions say, that identical arguments are accepted, and what a hit
   reports compared with a run of the same arguments in an empty build directory. *)
From Coq Require Import Ascii String.
From Coq Require Import List Arith Bool NArith Lia.
Import ListNotations.
Require Import Laze.model.Base Laze.model.Env Laze.model.Allow Laze.model.Ninja Laze.model.Ctx
               Laze.model.Generate Laze.model.Load Laze.model.Tasks Laze.model.Cache.
Require Import Laze.proofs.WorkList Laze.proofs.BaseFacts Laze.proofs.LayerFacts Laze.proofs.GenerateFacts
               Laze.proofs.CacheFacts Laze.proofs.CacheNarrow.
Open Scope list_scope.

(* ---------- equality tests ---------- *)
Lemma list_eqb_str a : forall b, list_eqb str_eqb a b = true <-> a = b.
Proof.
  induction a as [|x a IH]; intros [|y b]; cbn; try (split; [discriminate|discriminate]); [tauto|].
  rewrite andb_true_iff, str_eqb_eq, IH. split; [intros [-> ->]; reflexivity|intros E; injection E; auto].
Qed.

Lemma envkey_eqb_refl v : envkey_eqb v v = true.
Proof. destruct v as [s|l]; cbn; [apply str_eqb_refl|apply list_eqb_str; reflexivity]. Qed.

Lemma akeys_ainsert_nodup {V} k (v : V) : forall l, NoDup (akeys l) -> NoDup (akeys (ainsert k v l)).
Proof.
  induction l as [|[k' v'] t IH]; intros ND; cbn.
  - constructor; [intros []|constructor].
  - inversion ND as [|? ? Hn ND']; subst. destruct (str_eqb k k') eqn:E; cbn; [constructor; assumption|].
    constructor; [|apply IH; exact ND'].
    intros Hin. apply akeys_ainsert_In in Hin. destruct Hin as [->|Hin]; [|contradiction].
    rewrite str_eqb_refl in E. discriminate.
Qed.

Lemma merge_nodup other : forall e, NoDup (akeys e) -> NoDup (akeys (merge e other)).
Proof.
  unfold merge. induction other as [|kv t IH]; intros e ND; cbn [fold_left]; [exact ND|].
  apply IH. unfold merge_entry, env_insert. destruct (env_get (fst kv) e); apply akeys_ainsert_nodup; exact ND.
Qed.

Lemma assign_nodup e a e' : NoDup (akeys e) -> assign_from_string e a = Ok e' -> NoDup (akeys e').
Proof.
  unfold assign_from_string. intros ND.
  destruct (split_once (S_ "+=") a []) as [[var value]|].
  - intros E. injection E as <-. exact (merge_nodup [(var, EList [value])] e ND).
  - destruct (split_once (S_ "=") a []) as [[var value]|]; [|discriminate].
    intros E. injection E as <-. exact (merge_nodup [(var, Single value)] e ND).
Qed.

Lemma cli_env_nodup a e : cli_env a = Ok (Some e) -> NoDup (akeys e).
Proof.
  unfold cli_env. destruct (ca_define a) as [|d l]; [discriminate|].
  generalize (d :: l). intros defs.
  assert (G : forall acc r, match acc with Ok e0 => NoDup (akeys e0) | _ => True end ->
                            fold_left (fun acc x => rbind acc (fun e0 => assign_from_string e0 x)) defs acc = Ok r ->
                            NoDup (akeys r)).
  { induction defs as [|x t IH]; intros acc r Hacc Hr; cbn [fold_left] in Hr.
    - subst acc. exact Hacc.
    - apply IH in Hr; [exact Hr|].
      destruct acc as [e0| | |]; cbn [rbind]; try exact I.
      destruct (assign_from_string e0 x) as [e1| | |] eqn:Ea; try exact I. exact (assign_nodup _ _ _ Hacc Ea). }
  unfold rmap. intros Hc.
  match type of Hc with rbind ?X _ = _ => destruct X as [r| | |] eqn:Ef end; cbn [rbind] in Hc; try discriminate.
  injection Hc as <-. apply (G (Ok []) r); [constructor|exact Ef].
Qed.

Lemma alookup_nodup {V} k (v : V) : forall l, NoDup (akeys l) -> In (k, v) l -> alookup k l = Some v.
Proof.
  induction l as [|[k' v'] t IH]; intros ND Hin; [destruct Hin|].
  inversion ND as [|? ? Hn ND']; subst. cbn. destruct Hin as [E|Hin].
  - injection E as -> ->. rewrite str_eqb_refl. reflexivity.
  - destruct (str_eqb k k') eqn:E; [|apply IH; assumption].
    apply str_eqb_eq in E. subst k'. exfalso. apply Hn. apply in_map_iff. exists (k, v). split; [reflexivity|exact Hin].
Qed.

Lemma env_sub_refl x : NoDup (akeys x) -> env_sub x x = true.
Proof.
  intros ND. unfold env_sub. apply forallb_forall. intros [k v] Hin. cbn [fst snd].
  rewrite (alookup_nodup k v x ND Hin). apply envkey_eqb_refl.
Qed.

Lemma sel_superset_refl s : sel_superset s s = true.
Proof. destruct s as [|l]; [reflexivity|]. cbn. apply forallb_forall. intros n Hn. apply mem_str_In. exact Hn. Qed.
Lemma names_known_refl s l : names_known s s l = true.
Proof. destruct s; reflexivity. Qed.
Lemma sel_same_order_refl s : sel_same_order s s = true.
Proof. destruct s as [|l]; [reflexivity|]. cbn. apply list_eqb_str. reflexivity. Qed.

(* identical arguments are accepted *)
Theorem caccepts_refl a r : cprecheck a = Ok tt -> negb (ca_info a) = true -> caccepts a r a = true.
Proof.
  unfold cprecheck, caccepts. intros Hp Hinfo. rewrite Hinfo, andb_true_r.
  destruct (cli_selects a) as [sel| | |]; cbn [rbind] in Hp; try discriminate.
  destruct (cli_env a) as [oe| | |] eqn:Ee; cbn [rbind] in Hp; try discriminate.
  rewrite N.eqb_refl, !sel_superset_refl, !names_known_refl. cbn [andb].
  assert (Hpart : opt_eqb (fun x y => Nat.eqb (fst x) (fst y) && Nat.eqb (snd x) (snd y)) (ca_partition a) (ca_partition a) = true).
  { destruct (ca_partition a) as [[m n]|]; cbn; [rewrite !Nat.eqb_refl; reflexivity|reflexivity]. }
  rewrite Hpart. cbn [andb].
  assert (Hord : match ca_partition a with
                 | Some _ => sel_same_order (ca_builders a) (ca_builders a) && sel_same_set (ca_apps a) (ca_apps a)
                 | None => true end = true).
  { destruct (ca_partition a); [|reflexivity]. unfold sel_same_set. rewrite sel_same_order_refl, sel_superset_refl. reflexivity. }
  rewrite Hord. cbn [andb].
  assert (Hloc : match ca_local a, ca_local a with Some p, Some q => str_eqb p q | _, _ => true end = true).
  { destruct (ca_local a); [apply str_eqb_refl|reflexivity]. }
  rewrite Hloc. cbn [andb].
  rewrite (proj2 (list_eqb_str (ca_select a) _) eq_refl), (proj2 (list_eqb_str (ca_disable a) _) eq_refl). cbn [andb].
  destruct oe as [e|]; [|reflexivity]. cbn. rewrite (env_sub_refl e (cli_env_nodup _ _ Ee)). reflexivity.
Qed.

(* what acceptance means: the cache is never accepted after one of these changed *)
Theorem caccepts_spec c r a : caccepts c r a = true ->
  ca_bin c = ca_bin a /\
  ca_partition c = ca_partition a /\
  sel_superset (ca_builders c) (ca_builders a) = true /\ sel_superset (ca_apps c) (ca_apps a) = true /\
  (ca_partition a <> None -> sel_same_order (ca_builders c) (ca_builders a) = true /\ sel_same_set (ca_apps c) (ca_apps a) = true) /\
  names_known (ca_builders c) (ca_builders a) (map bi_builder (gr_builds r)) = true /\
  names_known (ca_apps c) (ca_apps a) (map bi_binary (gr_builds r)) = true /\
  (forall p q, ca_local a = Some p -> ca_local c = Some q -> p = q) /\
  ca_select c = ca_select a /\ ca_disable c = ca_disable a /\
  (exists x y, cli_env c = Ok x /\ cli_env a = Ok y /\ env_same x y = true) /\
  ca_info a = false.
Proof.
  unfold caccepts. rewrite !andb_true_iff.
  intros [[[[[[[[[[[Hbin Hpart] Hb] Ha] Hord] Hkb] Hka] Hloc] Hsel] Hdis] Henv] Hinfo].
  split; [apply N.eqb_eq; exact Hbin|]. split.
  { destruct (ca_partition c) as [[m n]|], (ca_partition a) as [[m' n']|]; cbn in Hpart; try discriminate; [|reflexivity].
    apply andb_true_iff in Hpart. destruct Hpart as [E1 E2]. apply Nat.eqb_eq in E1, E2. cbn in E1, E2. subst. reflexivity. }
  split; [exact Hb|]. split; [exact Ha|]. split.
  { intros Hne. destruct (ca_partition a); [|contradiction]. apply andb_true_iff in Hord. exact Hord. }
  split; [exact Hkb|]. split; [exact Hka|]. split.
  { intros p q Hp Hq. rewrite Hp, Hq in Hloc. apply str_eqb_eq. exact Hloc. }
  split; [apply list_eqb_str; exact Hsel|]. split; [apply list_eqb_str; exact Hdis|].
  split; [|apply negb_true_iff; exact Hinfo].
  destruct (cli_env c) as [x| | |]; try discriminate. destruct (cli_env a) as [y| | |]; try discriminate.
  exists x, y. auto.
Qed.

(* the builds a hit hands to main *)
Lemma cview_builds a r x :
  In x (gr_builds (cview a r)) /\ selects (ca_builders a) (bi_builder x) = true <->
  In x (gr_builds r) /\ selects (ca_builders a) (bi_builder x) = true.
Proof.
  unfold cview. destruct (ca_builders a) as [|names]; [tauto|]. cbn [gr_builds selects].
  rewrite in_flat_map. split.
  - intros [(n & Hn & Hf) Hs]. apply filter_In in Hf. tauto.
  - intros [Hx Hs]. split; [|exact Hs]. exists (bi_builder x). apply mem_str_In in Hs.
    split; [apply nodup_str_In; exact Hs|]. apply filter_In. split; [exact Hx|apply str_eqb_refl].
Qed.
Lemma cview_stmts a r : gr_stmts (cview a r) = gr_stmts r /\ gr_file (cview a r) = gr_file r.
Proof. unfold cview. destruct (ca_builders a); split; reflexivity. Qed.

(* ---------- the files the loader records are files of the tree ---------- *)
Lemma alookup_ytree_of store t f : alookup f (ytree_of store t) <> None -> alookup f t <> None.
Proof.
  unfold ytree_of. induction t as [|[f' v] r IH]; cbn; [tauto|].
  destruct (str_eqb f f'); [discriminate|exact IH].
Qed.

Lemma alookup_ytree_of_eq store (t : vtree) f : alookup f (ytree_of store t) = option_map (store f) (alookup f t).
Proof.
  unfold ytree_of. induction t as [|[f' v] r IH]; cbn; [reflexivity|].
  destruct (str_eqb f f') eqn:E; [|exact IH]. apply str_eqb_eq in E. subst f'. reflexivity.
Qed.

Theorem cts_valid_self bd store t ts : cload_ts bd store t = Ok ts -> cts_valid ts t = true.
Proof.
  unfold cload_ts, loaded_files. intros HL.
  destruct (load (ytree_of store t) project_file bd); cbn [rbind] in HL; try discriminate.
  unfold rmap in HL.
  destruct (load_files _ (ytree_of store t) [(project_file, (None, None))] 0 []) as [[ds fs]| | |] eqn:ELF; cbn [rbind] in HL; try discriminate.
  injection HL as <-. unfold cts_valid. cbn [fst snd]. apply andb_true_intro. split.
  - apply forallb_forall. intros [f v] Hin. cbn [fst snd].
    apply in_map_iff in Hin. destruct Hin as (f0 & E & Hf). injection E as -> <-.
    apply in_map_iff in Hf. destruct Hf as (inc & <- & Hinc).
    assert (Hne : alookup (fst inc) t <> None).
    { apply (alookup_ytree_of store). eapply load_files_in_tree; [|exact ELF|exact Hinc]. intros i inc0 Hi. lia. }
    unfold version. destruct (alookup (fst inc) t) as [v|]; [|contradiction]. cbn. apply N.eqb_refl.
  - apply forallb_forall. intros g Hg. apply absent_of_absent in Hg. unfold file_exists in Hg.
    rewrite alookup_ytree_of_eq in Hg. destruct (alookup g t); [discriminate Hg|reflexivity].
Qed.

Lemma changed_file_invalidates (ts : tstate) (t : vtree) f v :
  In (f, v) (fst ts) -> alookup f t <> Some v -> cts_valid ts t = false.
Proof.
  intros Hin Hne. destruct (cts_valid ts t) eqn:E; [|reflexivity]. exfalso.
  unfold cts_valid in E. apply andb_prop in E. destruct E as [E _]. rewrite forallb_forall in E. specialize (E (f, v) Hin). cbn [fst snd] in E.
  destruct (alookup f t) as [v'|]; [|discriminate]. apply N.eqb_eq in E. subst. apply Hne. reflexivity.
Qed.

Lemma appeared_file_invalidates (ts : tstate) (t : vtree) f :
  In f (snd ts) -> alookup f t <> None -> cts_valid ts t = false.
Proof.
  intros Hin Hne. destruct (cts_valid ts t) eqn:E; [|reflexivity]. exfalso.
  unfold cts_valid in E. apply andb_prop in E. destruct E as [_ E]. rewrite forallb_forall in E. specialize (E f Hin).
  destruct (alookup f t); [discriminate E|apply Hne; reflexivity].
Qed.

Section InstanceFacts.
  Variable H : list ascii -> N.
  Variable EV : str -> evr.
  Variable bd : str.
  Variable store : str -> N -> list ydoc.

  Notation crun := (crun H EV bd store).
  Notation cstep := (cstep H EV bd store).
  Notation cgen := (cgen H EV bd store).
  Notation cload_ts := (cload_ts bd store).
  Notation cworld := (world vtree cargs tstate gen_result).
  Notation CInv := (Inv vtree cargs tstate gen_result cprecheck cload_ts cgen cis_local).
  Notation cfresh := (fresh vtree cargs tstate gen_result).

  (* every build directory state reachable by runs, kills and edits is coherent *)
  Theorem reachable_coherent t0 ops : CInv (fold_left cstep ops (cfresh t0)).
  Proof. apply inv_history. Qed.

  (* The loader reads only the files it records; their versions determine what it reads.
     (Assumed of Load.v's [load]/[load_files] here; see DESIGN.md.) *)
  Definition load_frame : Prop :=
    forall t1 t2 ts, cload_ts t1 = Ok ts -> cts_valid ts t2 = true ->
                     cload_ts t2 = Ok ts /\ load (ytree_of store t2) project_file bd = load (ytree_of store t1) project_file bd.

  Lemma frame_gen : load_frame ->
    forall t1 t2 ts, cload_ts t1 = Ok ts -> cts_valid ts t2 = true ->
                     cload_ts t2 = Ok ts /\ forall a, cgen t2 a = cgen t1 a.
  Proof.
    intros LF t1 t2 ts H1 H2. destruct (LF _ _ _ H1 H2) as [Ha Hb]. split; [exact Ha|].
    intros a. unfold Cache.cgen. rewrite Hb. reflexivity.
  Qed.

  (* a run served from the cache, against the same arguments in an empty build directory *)
  Theorem hit_is_fresh a k w w' r' :
    load_frame -> CInv w -> crun a k w = (w', OHit r') ->
    w' = w /\
    exists c r,
      s_cache _ _ _ (get_slot _ _ _ _ w (cis_local a)) = Some c /\
      s_ninja _ _ _ (get_slot _ _ _ _ w (cis_local a)) = NComplete r /\
      r' = cview a r /\ caccepts (c_args _ _ _ c) r a = true /\ cts_valid (c_ts _ _ _ c) (w_tree _ _ _ _ w) = true /\
      (* same build directory spelling, project root and binary path; same -D list; no --partition;
         --apps narrowing in global mode only *)
      (ca_le (c_args _ _ _ c) = ca_le a -> ca_define (c_args _ _ _ c) = ca_define a -> ca_partition a = None ->
       (ca_local a = None \/ ca_apps a = ca_apps (c_args _ _ _ c)) -> ca_local (c_args _ _ _ c) = ca_local a ->
       (forall b, load (ytree_of store (w_tree _ _ _ _ w)) project_file bd = Ok b -> ctx_names_ok b) ->
       exists g',
         snd (crun a 0 (cfresh (w_tree _ _ _ _ w))) = ORegen g' /\
         (forall x, In x (gr_builds g') <->
                    In x (gr_builds r') /\ selects (ca_builders a) (bi_builder x) = true /\ selects (ca_apps a) (bi_binary x) = true) /\
         (forall t, In t (map show_stmt (gr_stmts g')) -> In t (map show_stmt (gr_stmts r)))).
  Proof.
    intros LF HI Hrun.
    destruct (hit_sound _ _ _ _ cprecheck cload_ts cgen cts_valid caccepts cview cis_local (frame_gen LF) a k w w' r' HI Hrun)
      as (-> & c & r & Hc & Hr & Hacc & Hts & Hl & Hg & Hn & Hv).
    split; [reflexivity|]. exists c, r. repeat split; try assumption.
    intros Hle Hdef Hpart Hloc Hlocal Hnames.
    destruct (caccepts_spec _ _ _ Hacc) as (_ & Hp2 & Hbs & Has & _ & Hkb & Hka & _ & Hsel & Hdis & _).
    (* unfold the cached generation *)
    unfold Cache.cgen in Hg.
    destruct (load (ytree_of store (w_tree _ _ _ _ w)) project_file bd) as [b| | |] eqn:Eload; cbn [rbind] in Hg; try discriminate.
    destruct (cli_selects (c_args _ _ _ c)) as [sel| | |] eqn:Esel; cbn [rbind] in Hg; try discriminate.
    destruct (cli_env (c_args _ _ _ c)) as [cenv| | |] eqn:Eenv; cbn [rbind] in Hg; try discriminate.
    rewrite Hp2, Hpart in Hg.
    assert (Esel' : cli_selects a = Ok sel) by (unfold cli_selects in *; rewrite <- Hsel; exact Esel).
    assert (Eenv' : cli_env a = Ok cenv) by (unfold cli_env in *; rewrite <- Hdef; exact Eenv).
    rewrite Hle, Hlocal, Hdis in Hg.
    assert (Hloc' : ca_local a = None \/ ca_apps a = ca_apps (c_args _ _ _ c)) by exact Hloc.
    destruct (generate_narrow H EV b (ca_le a) _ _ (ca_builders a) (ca_apps a) (ca_local a) sel (ca_disable a) cenv r
                (Hnames b eq_refl) Hg Hbs Has Hkb Hka Hloc') as (g' & Hg' & Hbuilds & Hstmts).
    exists g'. split.
    - (* the fresh run *)
      assert (Hp : cprecheck a = Ok tt) by (unfold cprecheck; rewrite Esel', Eenv'; reflexivity).
      assert (Hcg : cgen (w_tree _ _ _ _ w) a = Ok g').
      { unfold Cache.cgen. rewrite Eload, Esel', Eenv'. cbn [rbind]. rewrite Hpart. exact Hg'. }
      unfold Cache.crun, Cache.mrun. rewrite Hp.
      assert (Hlk : lookup vtree cargs tstate gen_result cts_valid caccepts cview cis_local a (cfresh (w_tree _ _ _ _ w)) = None)
        by (unfold lookup; destruct (cis_local a); reflexivity).
      rewrite Hlk. change (w_tree _ _ _ _ (cfresh (w_tree _ _ _ _ w))) with (w_tree _ _ _ _ w).
      rewrite Hl. cbn [Nat.eqb orb]. rewrite Hcg. reflexivity.
    - split; [|exact Hstmts].
      intros x. rewrite Hbuilds, Hv. split.
      + intros (Hx & Hs1 & Hs2). split; [|tauto]. apply (proj2 (cview_builds a r x)). tauto.
      + intros (Hx & Hs1 & Hs2). split; [|tauto]. apply (proj1 (cview_builds a r x)). tauto.
  Qed.

  (* with --partition the cache is only accepted for the same selection: the fresh run then is the
     cached generation itself *)
  Theorem hit_with_partition a k w w' r' :
    load_frame -> CInv w -> crun a k w = (w', OHit r') -> ca_partition a <> None ->
    exists c r,
      s_cache _ _ _ (get_slot _ _ _ _ w (cis_local a)) = Some c /\
      s_ninja _ _ _ (get_slot _ _ _ _ w (cis_local a)) = NComplete r /\ r' = cview a r /\
      (ca_le (c_args _ _ _ c) = ca_le a -> ca_define (c_args _ _ _ c) = ca_define a ->
       ca_local (c_args _ _ _ c) = ca_local a ->
       snd (crun a 0 (cfresh (w_tree _ _ _ _ w))) = ORegen r /\
       (forall x, In x (gr_builds r) <->
                  In x (gr_builds r') /\ selects (ca_builders a) (bi_builder x) = true /\ selects (ca_apps a) (bi_binary x) = true)).
  Proof.
    intros LF HI Hrun Hpart.
    destruct (hit_sound _ _ _ _ cprecheck cload_ts cgen cts_valid caccepts cview cis_local (frame_gen LF) a k w w' r' HI Hrun)
      as (-> & c & r & Hc & Hr & Hacc & Hts & Hl & Hg & Hn & Hv).
    exists c, r. split; [exact Hc|]. split; [exact Hn|]. split; [exact Hv|].
    intros Hle Hdef Hlocal.
    destruct (caccepts_spec _ _ _ Hacc) as (_ & Hp2 & _ & _ & Hord & _ & _ & _ & Hsel & Hdis & _).
    destruct (Hord Hpart) as [Hbo Has].
    unfold Cache.cgen in Hg.
    destruct (load (ytree_of store (w_tree _ _ _ _ w)) project_file bd) as [b| | |] eqn:Eload; cbn [rbind] in Hg; try discriminate.
    destruct (cli_selects (c_args _ _ _ c)) as [sel| | |] eqn:Esel; cbn [rbind] in Hg; try discriminate.
    destruct (cli_env (c_args _ _ _ c)) as [cenv| | |] eqn:Eenv; cbn [rbind] in Hg; try discriminate.
    assert (Esel' : cli_selects a = Ok sel) by (unfold cli_selects in *; rewrite <- Hsel; exact Esel).
    assert (Eenv' : cli_env a = Ok cenv) by (unfold cli_env in *; rewrite <- Hdef; exact Eenv).
    rewrite Hp2, Hle, Hlocal, Hdis in Hg.
    rewrite (generate_same_selection H EV b (ca_le a) _ _ (ca_builders a) (ca_apps a) (ca_local a) _ sel (ca_disable a) cenv Hbo Has) in Hg.
    assert (Hcg : cgen (w_tree _ _ _ _ w) a = Ok r).
    { unfold Cache.cgen. rewrite Eload, Esel', Eenv'. cbn [rbind]. exact Hg. }
    split.
    - assert (Hp : cprecheck a = Ok tt) by (unfold cprecheck; rewrite Esel', Eenv'; reflexivity).
      unfold Cache.crun, Cache.mrun. rewrite Hp.
      assert (Hlk : lookup vtree cargs tstate gen_result cts_valid caccepts cview cis_local a (cfresh (w_tree _ _ _ _ w)) = None)
        by (unfold lookup; destruct (cis_local a); reflexivity).
      rewrite Hlk. change (w_tree _ _ _ _ (cfresh (w_tree _ _ _ _ w))) with (w_tree _ _ _ _ w).
      rewrite Hl. cbn [Nat.eqb orb]. rewrite Hcg. reflexivity.
    - intros x. rewrite Hv. split.
      + intros Hx. destruct (generated_builds_selected H EV _ _ _ _ _ _ _ _ _ _ Hg x Hx) as [S1 S2].
        split; [|tauto]. apply (proj2 (cview_builds a r x)). tauto.
      + intros (Hx & S1 & S2). apply (proj1 (cview_builds a r x)). tauto.
  Qed.

  (* an unchanged project with an identical command line is served from the cache *)
  Theorem identical_command_line_hits a w w1 r : ca_info a = false ->
    crun a 0 w = (w1, ORegen r) -> exists k, crun a k w1 = (w1, OHit (cview a r)).
  Proof.
    intros Hinfo. apply (identical_run_hits _ _ _ _ _ _ _ _ _ _ _ (fun x => negb (ca_info x))); [| |rewrite Hinfo; reflexivity].
    - intros a0 r0. apply caccepts_refl.
    - intros t ts. apply cts_valid_self.
  Qed.
End InstanceFacts.

(* ---------- runs that never hit: --info-export, and the first run after a damaged cache file ---------- *)
Section NeverHit.
  Variable H : list ascii -> N.
  Variable EV : str -> evr.
  Variable bd : str.
  Variable store : str -> N -> list ydoc.
  Notation crun := (crun H EV bd store).
  Notation cstep := (cstep H EV bd store).
  Notation clookup := (lookup vtree cargs tstate gen_result cts_valid caccepts cview cis_local).

  Lemma no_lookup_no_hit a k w : clookup a w = None -> forall r, snd (crun a k w) <> OHit r.
  Proof.
    intros Hl r. unfold Cache.crun, Cache.mrun. destruct (cprecheck a) as [u| | |]; cbn [snd]; try discriminate.
    rewrite Hl. destruct (cload_ts bd store (w_tree _ _ _ _ w)); cbn [snd]; try discriminate.
    destruct (Nat.eqb k 1); [discriminate|]. destruct (Nat.eqb k 2); [discriminate|]. destruct (Nat.eqb k 3); [discriminate|].
    destruct (cgen H EV bd store (w_tree _ _ _ _ w) a); cbn [snd]; try discriminate.
    destruct (Nat.eqb k 4 || Nat.eqb k 5); [discriminate|]. destruct (Nat.eqb k 6); [discriminate|].
    destruct (Nat.eqb k 7); discriminate.
  Qed.

  (* a run with --info-export is never served from the cache *)
  Theorem info_export_never_hits a k w : ca_info a = true -> forall r, snd (crun a k w) <> OHit r.
  Proof.
    intros Hi. apply no_lookup_no_hit. unfold Cache.lookup.
    destruct (s_cache _ _ _ (get_slot _ _ _ _ w (cis_local a))) as [c|]; [|reflexivity].
    unfold caccepts. rewrite Hi. cbn [negb]. rewrite andb_false_r. reflexivity.
  Qed.

  (* after the cache file of a mode was damaged, the next run in that mode is not served from it *)
  Theorem damaged_cache_never_hits a k (w : world vtree cargs tstate gen_result) :
    forall r, snd (crun a k (cstep w (Corrupt (cis_local a)))) <> OHit r.
  Proof.
    apply no_lookup_no_hit. unfold Cache.cstep, Cache.mstep, Cache.lookup.
    destruct (cis_local a); reflexivity.
  Qed.
End NeverHit.
