(* StmtFacts.v — mechanisms of statement generation used by C03, C06, C07, C19:
   optional sources by guard, nearest rule, statement sets without duplicates, union of
   build-dep files, object paths. *)
From Coq Require Import Ascii String.
From Coq Require Import List Arith Bool NArith Lia.
Import ListNotations.
Require Import Laze.model.Base Laze.model.Env Laze.model.Expand Laze.model.Path Laze.model.Hash
        Laze.model.Allow Laze.model.Ninja Laze.model.Ctx Laze.model.Resolver Laze.model.Imports
        Laze.model.Generate Laze.proofs.BaseFacts.
Open Scope list_scope.

(* ---------- C03: which sources ---------- *)
Theorem optional_sources_spec m ms s :
  In s (optional_sources m ms) <->
  exists g l, In (g, l) (odflt [] (m_sources_optional m)) /\ find_sel g ms <> None /\ In s l.
Proof.
  unfold optional_sources. destruct (m_sources_optional m) as [opt|]; cbn [odflt].
  - rewrite in_flat_map. split.
    + intros ((g, l) & Hin & Hs). cbn [fst snd] in Hs. destruct (find_sel g ms) eqn:E; [|contradiction].
      exists g, l. split; [exact Hin|]. split; [congruence|exact Hs].
    + intros (g & l & Hin & Hg & Hs). exists (g, l). split; [exact Hin|]. cbn [fst snd].
      destruct (find_sel g ms); [exact Hs|contradiction].
  - split; [intros []|intros (g & l & [] & _)].
Qed.

Theorem all_sources_spec m ms s :
  In s (all_sources m ms) <-> In s (m_sources m) \/ In s (optional_sources m ms).
Proof. unfold all_sources. apply in_app_iff. Qed.

Lemma find_sel_selected g ms : find_sel g ms <> None <-> In g (map m_name ms).
Proof.
  unfold find_sel. split.
  - intros H. destruct (find _ ms) as [x|] eqn:E; [|contradiction]. apply find_some in E as [I Eq].
    apply str_eqb_eq in Eq. subst. apply in_map. exact I.
  - intros H. apply in_map_iff in H as (x & <- & I). intros E.
    pose proof (find_none _ _ E x I) as F. cbn in F. rewrite str_eqb_refl in F. discriminate.
Qed.

(* ---------- C03: nearest rule ---------- *)
Lemma find_app {A} (f : A -> bool) l1 l2 :
  find f (l1 ++ l2) = match find f l1 with Some x => Some x | None => find f l2 end.
Proof. induction l1 as [|a l IH]; cbn; [reflexivity|]. destruct (f a); [reflexivity|exact IH]. Qed.

(* inserting a context's rules: the last rule with that key wins, else what was there *)
Lemma insert_rules_lookup k : forall (rs : list (str * rule)) acc,
  alookup k (fold_left (fun a kr => ainsert (rule_key (snd kr)) (snd kr) a) rs acc) =
  match find (fun kr => str_eqb k (rule_key (snd kr))) (rev rs) with
  | Some kr => Some (snd kr)
  | None => alookup k acc
  end.
Proof.
  induction rs as [|kr rs IH]; intros acc; [reflexivity|].
  cbn [fold_left rev]. rewrite IH. rewrite find_app.
  destruct (find (fun kr0 => str_eqb k (rule_key (snd kr0))) (rev rs)) as [x|]; [reflexivity|].
  cbn [find]. destruct (str_eqb k (rule_key (snd kr))) eqn:E.
  - apply str_eqb_eq in E. subst. apply alookup_ainsert_same.
  - apply alookup_ainsert_other. apply str_eqb_neq. exact E.
Qed.

Lemma flat_map_rev_single {A B} (f : A -> list B) l :
  (forall x, length (f x) <= 1) -> rev (flat_map f l) = flat_map f (rev l).
Proof.
  intros H. induction l as [|x t IH]; [reflexivity|]. cbn [flat_map rev].
  rewrite rev_app_distr, IH, flat_map_app. cbn [flat_map]. rewrite app_nil_r.
  specialize (H x). destruct (f x) as [|y [|z r]]; cbn in *; try reflexivity; lia.
Qed.

Definition ctx_rule (k : str) (c : context) : option rule :=
  match find (fun kr => str_eqb k (rule_key (snd kr))) (rev (odflt [] (c_rules c))) with
  | Some kr => Some (snd kr) | None => None end.

Fixpoint first_rule (k : str) (cs : list context) : option rule :=   (* cs: nearest context first *)
  match cs with
  | [] => None
  | c :: t => match ctx_rule k c with Some r => Some r | None => first_rule k t end
  end.

Lemma collect_fold_lookup k : forall (cs : list context) acc,
  alookup k (fold_left (fun acc c => match c_rules c with
                                     | Some rs => fold_left (fun a kr => ainsert (rule_key (snd kr)) (snd kr) a) rs acc
                                     | None => acc end) cs acc) =
  match first_rule k (rev cs) with Some r => Some r | None => alookup k acc end.
Proof.
  induction cs as [|c cs IH]; intros acc; [reflexivity|].
  cbn [fold_left rev]. rewrite IH.
  assert (F : forall l1 l2, first_rule k (l1 ++ l2) = match first_rule k l1 with Some r => Some r | None => first_rule k l2 end).
  { induction l1 as [|x l1 IHl]; intros l2; cbn; [reflexivity|]. destruct (ctx_rule k x); [reflexivity|apply IHl]. }
  rewrite F. destruct (first_rule k (rev cs)) as [r|]; [reflexivity|].
  cbn [first_rule]. unfold ctx_rule. destruct (c_rules c) as [rs|]; cbn [odflt].
  - rewrite insert_rules_lookup. destruct (find _ (rev rs)); reflexivity.
  - cbn. reflexivity.
Qed.

(* the rule for an input extension (or rule name) is the one of the context nearest to the
   builder that defines one; within a context the later definition wins *)
Theorem nearest_rule b builder k :
  alookup k (collect_rules b builder) = first_rule k (ctxs_of b (chain b builder)).
Proof.
  unfold collect_rules. rewrite collect_fold_lookup. unfold parents_root_first.
  assert (E : rev (ctxs_of b (rev (chain b builder))) = ctxs_of b (chain b builder)).
  { unfold ctxs_of. rewrite flat_map_rev_single; [rewrite rev_involutive; reflexivity|].
    intros i. destruct (bag_get b i); cbn; lia. }
  rewrite E. destruct (first_rule k _); reflexivity.
Qed.

(* ---------- C06 / C10: statement sets ---------- *)
Lemma NoDup_app_single {A} (l : list A) x : NoDup l -> ~ In x l -> NoDup (l ++ [x]).
Proof.
  induction l as [|a t IH]; intros H Hn; cbn; [constructor; [intros []|constructor]|].
  inversion H; subst. constructor.
  - rewrite in_app_iff. cbn. intros [I|[E|[]]]; [contradiction|]. subst. apply Hn. left. reflexivity.
  - apply IH; [assumption|]. intros I. apply Hn. right. exact I.
Qed.


Lemma sset_insert_In s x l : In x (sset_insert s l) <-> In x l \/ (x = s /\ ~ In (show_stmt s) (map show_stmt l)).
Proof.
  unfold sset_insert. destruct (existsb _ l) eqn:E.
  - split; [intros H; left; exact H|]. intros [H|[-> Hn]]; [exact H|].
    exfalso. apply Hn. apply existsb_exists in E as (y & Hy & Ey). apply str_eqb_eq in Ey.
    rewrite <- Ey. apply in_map. exact Hy.
  - rewrite in_app_iff. cbn. split.
    + intros [H|[<-|[]]]; [left; exact H|]. right. split; [reflexivity|].
      intros Hin. apply in_map_iff in Hin as (y & Ey & Hy).
      assert (X : existsb (fun x0 => str_eqb (show_stmt x0) (show_stmt s)) l = true).
      { apply existsb_exists. exists y. split; [exact Hy|]. apply str_eqb_eq. exact Ey. }
      congruence.
    + intros [H|[-> _]]; auto.
Qed.

Lemma sset_insert_text s l t :
  In t (map show_stmt (sset_insert s l)) <-> In t (map show_stmt l) \/ t = show_stmt s.
Proof.
  unfold sset_insert. destruct (existsb _ l) eqn:E.
  - split; [intros H; left; exact H|]. intros [H|H]; [exact H|]. subst t.
    apply existsb_exists in E as (y & Hy & Ey). apply str_eqb_eq in Ey. rewrite <- Ey. apply in_map. exact Hy.
  - rewrite map_app, in_app_iff. cbn. intuition.
Qed.

(* identical statements collapse: every statement text occurs once *)
Lemma sset_insert_nodup s l : NoDup (map show_stmt l) -> NoDup (map show_stmt (sset_insert s l)).
Proof.
  intros H. unfold sset_insert. destruct (existsb _ l) eqn:E; [exact H|].
  rewrite map_app. cbn. apply NoDup_app_single; [exact H|].
  intros Hin. apply in_map_iff in Hin as (y & Ey & Hy).
  assert (X : existsb (fun x0 => str_eqb (show_stmt x0) (show_stmt s)) l = true).
  { apply existsb_exists. exists y. split; [exact Hy|]. apply str_eqb_eq. exact Ey. }
  congruence.
Qed.

(* the prefix of a statement set is kept: first occurrences never move *)
Lemma sset_insert_prefix s l : exists t, sset_insert s l = l ++ t.
Proof. unfold sset_insert. destruct (existsb _ l); [exists []; rewrite app_nil_r; reflexivity | eexists; reflexivity]. Qed.

Lemma sset_fold_nodup es : forall acc, NoDup (map show_stmt acc) ->
  NoDup (map show_stmt (fold_left (fun a e => sset_insert e a) es acc)).
Proof. induction es as [|e t IH]; intros acc H; cbn; [exact H|]. apply IH. apply sset_insert_nodup. exact H. Qed.

Lemma sset_fold_text es t : forall acc,
  In t (map show_stmt (fold_left (fun a e => sset_insert e a) es acc)) <->
  In t (map show_stmt acc) \/ In t (map show_stmt es).
Proof.
  induction es as [|e r IH]; intros acc; cbn [fold_left map].
  - cbn. tauto.
  - rewrite IH, sset_insert_text. cbn. intuition.
Qed.

Lemma sset_fold_prefix es : forall acc, exists t, fold_left (fun a e => sset_insert e a) es acc = acc ++ t.
Proof.
  induction es as [|e r IH]; intros acc; cbn [fold_left]; [exists []; rewrite app_nil_r; reflexivity|].
  destruct (sset_insert_prefix e acc) as [t1 E1]. destruct (IH (sset_insert e acc)) as [t2 E2].
  exists (t1 ++ t2). rewrite E2, E1, app_assoc. reflexivity.
Qed.

(* ---------- C19: union of build-dep files ---------- *)
Lemma iset_insert_In' x y l : In y (iset_insert x l) <-> y = x \/ In y l.
Proof.
  unfold iset_insert. destruct (mem_str x l) eqn:E.
  - apply mem_str_In in E. split; [intros Hy; right; exact Hy | intros [->|Hy]; assumption].
  - rewrite in_app_iff. cbn. split; [intros [Hy|[<-|[]]]; auto | intros [->|Hy]; auto].
Qed.

Lemma iset_union_In a b x : In x (iset_union a b) <-> In x a \/ In x b.
Proof.
  unfold iset_union. revert a. induction b as [|y t IH]; intros a; cbn [fold_left].
  - cbn. tauto.
  - rewrite IH, iset_insert_In'. cbn. intuition (subst; auto).
Qed.

Theorem imported_files_spec (look : module -> list str) l f : forall acc,
  In f (fold_left (fun files d => iset_union files (look d)) l acc) <->
  In f acc \/ exists d, In d l /\ In f (look d).
Proof.
  induction l as [|d t IH]; intros acc; cbn [fold_left].
  - split; [auto|]. intros [H|(d & [] & _)]. exact H.
  - rewrite IH, iset_union_In. split.
    + intros [[H|H]|(d' & Hd & Hf)]; [left; exact H | right; exists d; split; [left; reflexivity|exact H] | right; exists d'; split; [right; exact Hd|exact Hf]].
    + intros [H|(d' & [<-|Hd] & Hf)]; [left; left; exact H | left; right; exact Hf | right; exists d'; split; [exact Hd|exact Hf]].
Qed.

(* global build deps reach every module that is not itself one *)
Lemma mset_insert_In x y l : In y (mset_insert x l) -> y = x \/ In y l.
Proof.
  unfold mset_insert. destruct (existsb _ l); [intros H; right; exact H|].
  rewrite in_app_iff. cbn. intuition.
Qed.
Lemma mset_insert_keeps x y l : In y l -> In y (mset_insert x l).
Proof. unfold mset_insert. destruct (existsb _ l); [auto|]. intros H. apply in_or_app. left. exact H. Qed.
Lemma mset_insert_has x l : exists y, In y (mset_insert x l) /\ module_eqb x y = true.
Proof.
  unfold mset_insert. destruct (existsb (module_eqb x) l) eqn:E.
  - apply existsb_exists in E as (y & Hy & Ey). exists y. auto.
  - exists x. split; [apply in_or_app; right; left; reflexivity|].
    unfold module_eqb. rewrite !str_eqb_refl. reflexivity.
Qed.

Theorem global_deps_included (gds : list module) g : forall acc,
  In g gds -> exists y, In y (fold_left (fun acc d => mset_insert d acc) gds acc) /\ module_eqb g y = true.
Proof.
  induction gds as [|d t IH]; intros acc Hin; [contradiction|]. cbn [fold_left].
  destruct Hin as [<-|Hin].
  - destruct (mset_insert_has d acc) as (y & Hy & Ey). exists y. split; [|exact Ey].
    clear -Hy. revert Hy. generalize (mset_insert d acc). induction t as [|x t IHt]; intros l Hy; cbn; [exact Hy|].
    apply IHt. apply mset_insert_keeps. exact Hy.
  - apply IH. exact Hin.
Qed.
