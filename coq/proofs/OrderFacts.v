(* OrderFacts.v — the model of solvent's DepGraph walk (Generate.v: g_next / g_walk) yields a
   duplicate-free topological order that contains the target, or reports a cycle (C03, C19). *)
From Coq Require Import Ascii String.
From Coq Require Import List Arith Bool NArith Lia.
Import ListNotations.
Require Import Laze.model.Base Laze.model.Env Laze.model.Allow Laze.model.Ninja Laze.model.Ctx
        Laze.model.Generate Laze.proofs.BaseFacts.
Open Scope list_scope.

Definition gdeps (g : depgraph) (n : str) : list str := odflt [] (alookup n (g_deps g)).

Lemma find_none_all {A} (f : A -> bool) l : find f l = None -> forall x, In x l -> f x = false.
Proof.
  induction l as [|a l IH]; cbn; intros H x Hx; [contradiction|].
  destruct (f a) eqn:E; [discriminate|]. destruct Hx as [<-|Hx]; auto.
Qed.
Lemma find_some_in {A} (f : A -> bool) l x : find f l = Some x -> In x l /\ f x = true.
Proof.
  induction l as [|a l IH]; cbn; intros H; [discriminate|].
  destruct (f a) eqn:E; [inversion H; subst; auto|]. destruct (IH H); auto.
Qed.

Inductive reach (g : depgraph) : str -> str -> Prop :=
| reach_refl a : reach g a a
| reach_step a b c : In b (gdeps g a) -> reach g b c -> reach g a c.

Lemma g_next_found fuel g sat : forall path pos n,
  g_next fuel g sat path pos = Some n ->
  reach g pos n /\ (forall d, In d (gdeps g n) -> In d sat) /\ (mem_str pos sat = false -> mem_str n sat = false).
Proof.
  induction fuel as [|fuel IH]; cbn [g_next]; intros path pos n H; [discriminate|].
  destruct (mem_str pos path); [discriminate|].
  destruct (alookup pos (g_deps g)) as [deplist|] eqn:EL.
  - destruct (find _ deplist) as [m|] eqn:E.
    + apply find_some_in in E as [Hin Hm]. apply negb_true_iff in Hm.
      apply IH in H as (R & D & S). split.
      * eapply reach_step; [|exact R]. unfold gdeps. rewrite EL. exact Hin.
      * split; [exact D|]. intros _. apply S. exact Hm.
    + inversion H; subst. split; [constructor|]. split; [|auto].
      intros d Hd. unfold gdeps in Hd. rewrite EL in Hd. cbn in Hd.
      pose proof (find_none_all _ _ E d Hd) as Hf. apply negb_false_iff in Hf. apply mem_str_In. exact Hf.
  - inversion H; subst. split; [constructor|]. split; [|auto].
    intros d Hd. unfold gdeps in Hd. rewrite EL in Hd. destruct Hd.
Qed.

(* every dependency of an element occurs earlier in the list *)
Definition topo (g : depgraph) (l : list str) : Prop :=
  forall pre n post, l = pre ++ n :: post -> forall d, In d (gdeps g n) -> In d pre.

Lemma g_walk_spec fuel g target : forall sat acc res,
  g_walk fuel g target sat acc = Some res ->
  (forall x, In x sat <-> In x acc) -> NoDup acc -> topo g (rev acc) ->
  NoDup res /\ topo g res /\ In target res /\ (exists l, res = rev acc ++ l).
Proof.
  induction fuel as [|fuel IH]; intros sat acc res H Hso Hnd Htp; [discriminate|].
  cbn [g_walk] in H. destruct (mem_str target sat) eqn:Et.
  - inversion H; subst. split; [apply NoDup_rev; auto|]. split; [auto|]. split.
    + apply in_rev. rewrite rev_involutive. apply Hso. apply mem_str_In. exact Et.
    + exists []. rewrite app_nil_r. reflexivity.
  - destruct (g_next (S (length (g_nodes g))) g sat [] target) as [n|] eqn:EN; [|discriminate].
    apply g_next_found in EN as (R & D & S). specialize (S Et).
    assert (Hn : ~ In n acc). { intros Hc. apply Hso in Hc. apply mem_str_In in Hc. congruence. }
    apply IH in H.
    + destruct H as (H1 & H2 & H3 & (l & El)). repeat split; auto. exists (n :: l). rewrite El. cbn.
      rewrite <- app_assoc. reflexivity.
    + intros x; cbn. rewrite Hso. tauto.
    + constructor; auto.
    + cbn. intros pre m post E d Hd.
      destruct post as [|p post' _] using rev_ind.
      * apply app_inj_tail in E as [E1 E2]. subst. apply in_rev. rewrite rev_involutive. apply Hso. auto.
      * rewrite app_comm_cons, app_assoc in E. apply app_inj_tail in E as [E1 E2]. eapply Htp; eauto.
Qed.

(* the order delivered by dependencies_of: duplicate-free, every dependency before its user,
   the target present (hence everything the target depends on, too) *)
Theorem dependencies_of_ok g target res :
  dependencies_of g target = Some res -> NoDup res /\ topo g res /\ In target res.
Proof.
  unfold dependencies_of. intros H. apply g_walk_spec in H; cbn; try tauto; try constructor.
  intros pre n post E. destruct pre; discriminate.
Qed.

Corollary dependencies_of_covers g target res d :
  dependencies_of g target = Some res -> In d (gdeps g target) -> In d res.
Proof.
  intros H Hd. destruct (dependencies_of_ok g target res H) as (_ & T & I).
  apply in_split in I as (pre & post & E). specialize (T pre target post E d Hd).
  rewrite E. apply in_or_app. left. exact T.
Qed.

(* a dependency precedes its user *)
Corollary dependencies_of_before g target res u d :
  dependencies_of g target = Some res -> In u res -> In d (gdeps g u) ->
  exists pre post, res = pre ++ u :: post /\ In d pre.
Proof.
  intros H Hu Hd. destruct (dependencies_of_ok g target res H) as (_ & T & _).
  apply in_split in Hu as (pre & post & E). exists pre, post. split; [exact E|]. eapply T; eauto.
Qed.

(* ---------- a cycle among the dependencies reachable from the target: no order is delivered ---------- *)
(* one or more dependency edges *)
Inductive reach1 (g : depgraph) : str -> str -> Prop :=
| reach1_step a b c : In b (gdeps g a) -> reach g b c -> reach1 g a c.

Lemma nodup_split_unique {A} (x : A) : forall pre1 post1 pre2 post2,
  NoDup (pre1 ++ x :: post1) -> pre1 ++ x :: post1 = pre2 ++ x :: post2 -> pre1 = pre2 /\ post1 = post2.
Proof.
  induction pre1 as [|a t IH]; intros post1 pre2 post2 ND E2; destruct pre2 as [|b u]; cbn in *.
  - injection E2 as ->. split; reflexivity.
  - injection E2 as <- E2. exfalso. inversion ND as [|? ? Hx _]; subst. apply Hx. apply in_or_app. right. left. reflexivity.
  - injection E2 as -> E2. exfalso. inversion ND as [|? ? Hx _]; subst. apply Hx. apply in_or_app. right. left. reflexivity.
  - injection E2 as <- E2. inversion ND as [|? ? _ ND']; subst. destruct (IH post1 u post2 ND' E2) as [-> ->]. split; reflexivity.
Qed.

(* in a duplicate-free topological order, whatever is reachable from u by one or more edges lies strictly before u *)
Lemma topo_reach_before g res : NoDup res -> topo g res ->
  forall b v, reach g b v -> forall pre post, res = pre ++ b :: post -> In v pre \/ v = b.
Proof.
  intros ND T b v R. induction R as [a|a b c Hab Rbc IH]; intros pre post E; [right; reflexivity|left].
  pose proof (T pre a post E b Hab) as Hb.
  apply in_split in Hb as (p1 & p2 & Ep). subst pre.
  specialize (IH p1 (p2 ++ a :: post)). rewrite <- app_assoc in E. cbn [app] in E.
  destruct (IH E) as [Hc| ->]; apply in_or_app; [left; exact Hc|right; left; reflexivity].
Qed.

Theorem order_has_no_cycle g target res u :
  dependencies_of g target = Some res -> In u res -> ~ reach1 g u u.
Proof.
  intros HD Hu Hc. destruct (dependencies_of_ok g target res HD) as (ND & T & _).
  apply in_split in Hu as (pre & post & E). inversion Hc as [a b c Hab Rbc Ea Ec]. subst a c.
  pose proof (T pre u post E b Hab) as Hb. apply in_split in Hb as (p1 & p2 & Ep). subst pre.
  assert (E' : res = p1 ++ b :: (p2 ++ u :: post)) by (rewrite E, <- app_assoc; reflexivity).
  destruct (topo_reach_before g res ND T b u Rbc p1 _ E') as [Ha|Ha].
  - (* u occurs in p1 and again after it *)
    rewrite E' in ND. rewrite app_comm_cons, app_assoc in ND. apply NoDup_remove_2 in ND. apply ND.
    apply in_or_app. left. apply in_or_app. left. exact Ha.
  - (* u = b: it occurs twice *)
    subst b. rewrite E' in ND. apply NoDup_remove_2 in ND. apply ND.
    apply in_or_app. right. apply in_or_app. right. left. reflexivity.
Qed.

(* everything reachable from the target is in the order ... *)
Lemma order_closed g target res : dependencies_of g target = Some res ->
  forall a v, reach g a v -> In a res -> In v res.
Proof.
  intros HD a v R. destruct (dependencies_of_ok g target res HD) as (_ & T & _).
  induction R as [a|a b c Hab Rbc IH]; intros Ha; [exact Ha|]. apply IH.
  apply in_split in Ha as (pre & post & E). rewrite E. apply in_or_app. left. exact (T pre a post E b Hab).
Qed.

(* ... so a cycle that the target reaches makes dependencies_of deliver nothing: the build is dropped *)
Theorem reachable_cycle_drops g target u :
  reach g target u -> reach1 g u u -> dependencies_of g target = None.
Proof.
  intros Rt Hc. destruct (dependencies_of g target) as [res|] eqn:HD; [exfalso|reflexivity].
  destruct (dependencies_of_ok g target res HD) as (_ & _ & Ht).
  exact (order_has_no_cycle g target res u HD (order_closed g target res HD target u Rt Ht) Hc).
Qed.
