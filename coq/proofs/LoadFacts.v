(* LoadFacts.v — C17: what defaults mean field by field, removal entries, context lists. *)
From Coq Require Import Ascii String.
From Coq Require Import List Arith Bool NArith Lia.
Import ListNotations.
Require Import Laze.model.Base Laze.model.Env Laze.model.Expand Laze.model.Path Laze.model.Allow
        Laze.model.Ninja Laze.model.Ctx Laze.model.Load Laze.proofs.BaseFacts.
Open Scope list_scope.

(* '-name' entries remove 'name' (and themselves) *)
Theorem process_removes_spec l d :
  In d (process_removes l) <->
  In d l /\ starts_minus (dep_name d) = false /\
  ~ exists r, In r l /\ starts_minus (dep_name r) = true /\ tl (dep_name r) = dep_name d.
Proof.
  unfold process_removes. rewrite filter_In. split.
  - intros [Hin Hf]. apply negb_true_iff in Hf. apply orb_false_iff in Hf as [H1 H2].
    split; [exact Hin|]. split; [exact H1|]. intros (r & Hr & Hm & Ht).
    apply mem_str_false in H2. apply H2. apply in_flat_map. exists r. split; [exact Hr|].
    rewrite Hm. left. exact Ht.
  - intros (Hin & H1 & H2). split; [exact Hin|]. apply negb_true_iff. apply orb_false_iff. split; [exact H1|].
    apply mem_str_false. intros I. apply in_flat_map in I as (r & Hr & Hx).
    destruct (starts_minus (dep_name r)) eqn:E; [|contradiction]. destruct Hx as [Hx|[]].
    apply H2. exists r. auto.
Qed.

Ltac inv H :=
  match type of H with
  | rbind ?x _ = Ok _ => let E := fresh "E" in destruct x eqn:E; cbn [rbind] in H; try discriminate H
  | (match ?x with _ => _ end) = Ok _ => let E := fresh "E" in destruct x eqn:E; try discriminate H
  | (let '(_, _) := ?p in _) = Ok _ => destruct p
  end.

(* a module written under defaults D: every list field is D's followed by its own, env fields are
   D's merged with its own, and the scalar fields are its own *)
Theorem convert_module_fields bd y ctx is_binary filename root (D : module) m :
  convert_module bd y ctx is_binary filename root (Some D) = Ok m ->
  exists sel uses depends,
    deps_of_specs (odflt [] (ym_selects y)) = Ok sel /\
    rmapM dependency_from_string (odflt [] (ym_uses y)) = Ok uses /\
    deps_of_specs (odflt [] (ym_depends y)) = Ok depends /\
    m_selects m = process_removes (m_selects D ++ sel ++ depends) /\
    m_imports m = process_removes (m_imports D ++ uses ++ depends) /\
    m_sources m = m_sources D ++
                  flat_map (fun s => match s with DStr x => [x] | DMap _ => [] end) (odflt [] (ym_sources y)) /\
    m_blocklist m = match m_blocklist D with Some d => Some (d ++ odflt [] (ym_blocklist y)) | None => ym_blocklist y end /\
    m_allowlist m = match m_allowlist D with Some d => Some (d ++ odflt [] (ym_allowlist y)) | None => ym_allowlist y end /\
    m_build m = ym_build y /\
    m_is_build_dep m = (match ym_download y with Some _ => true | None => ym_is_build_dep y end) /\
    m_is_global_build_dep m = ym_is_global_build_dep y /\ m_download m = ym_download y /\
    m_name m = match ym_name y with
               | Some n => n
               | None => match root with
                         | Some r => match strip_prefix (parent filename) r with Some x => x | None => parent filename end
                         | None => parent filename end
               end /\
    m_context_name m = match ctx with Some c => c | None => m_context_name D end /\
    m_notify_all m = (m_notify_all D || ym_notify_all y) /\
    (ym_download y = None -> m_build_dep_files m = m_build_dep_files D).
Proof.
  unfold convert_module. intros H.
  inv H. inv H. inv H. inv H.
  repeat (inv H).
  inversion H; subst; clear H. cbn.
  exists a0, a1, a2. repeat split; try reflexivity. intros ->. reflexivity.
Qed.

(* a module with a list of contexts is converted once per context, in order *)
Theorem context_list_expands l : contexts_of (CList l) = map Some l.
Proof. reflexivity. Qed.
Theorem context_single c : contexts_of (CSingle c) = [Some c].
Proof. reflexivity. Qed.

(* rejections *)
Theorem duplicate_context_rejected b c : In (c_name c) (bag_names b) -> add_context b c = Err e_dup_context.
Proof. intros H. unfold add_context. apply mem_str_In in H. rewrite H. reflexivity. Qed.

Theorem unknown_context_rejected b m : bag_index b (m_context_name m) = None -> add_module b m = Err e_unknown_context.
Proof. intros H. unfold add_module. rewrite H. reflexivity. Qed.

Theorem duplicate_module_rejected b m i c x :
  bag_index b (m_context_name m) = Some i -> bag_get b i = Some c ->
  alookup (m_name m) (c_modules c) = Some x -> add_module b m = Err e_dup_module.
Proof. intros H1 H2 H3. unfold add_module. rewrite H1, H2, H3. reflexivity. Qed.

Theorem unknown_parent_rejected b :
  resolve_parents (bag_names (if mem_str (S_ "default") (bag_names b) then b else b ++ [context_default]))
                  (map c_parent_name (if mem_str (S_ "default") (bag_names b) then b else b ++ [context_default])) = None ->
  finalize b = Err e_unknown_parent.
Proof.
  intros H. unfold finalize. cbv zeta.
  match goal with |- match ?X with _ => _ end = _ => replace X with (@None (list (option nat))) by (symmetry; exact H) end.
  reflexivity.
Qed.
