(* LoadFrame.v — the loader reads only the files it records: two trees that agree on those files
   (same versions, hence same contents) load to the same result. This is what makes the recorded
   tree state a sound summary of the input of a generation. *)
From Coq Require Import Ascii String.
From Coq Require Import List Arith Bool NArith Lia.
Import ListNotations.
Require Import Laze.model.Base Laze.model.Path Laze.model.Load Laze.model.Cache.
Require Import Laze.proofs.BaseFacts Laze.proofs.CacheInstance.
Open Scope list_scope.

Definition step_pending (inc : finc) (start : nat) (ds : list ydoc) (pending : list finc) : list finc :=
  fold_left (fun p d =>
     let p1 := fold_left (fun p s => finc_insert (path_join (path_join (parent (fst inc)) s) (S_ "laze.yml"), Some (ld_idx d)) p)
                         (odflt [] (d_subdirs (ld_doc d))) p in
     fold_left (fun p s => finc_insert (path_join (parent (fst inc)) s, Some (ld_idx d)) p)
               (odflt [] (d_includes (ld_doc d))) p1)
    (map (fun id => {| ld_doc := snd id; ld_file := fst inc; ld_idx := start + fst id; ld_included_by := snd inc |})
         (combine (seq 0 (length ds)) ds)) pending.

Lemma load_files_S f (t : ytree) (pending : list finc) pos docs :
  load_files (S f) t pending pos docs =
  match nth_error pending pos with
  | None => Ok (docs, pending)
  | Some inc =>
      match alookup (fst inc) t with
      | None => Err e_nofile
      | Some ds =>
          load_files f t (step_pending inc (length docs) ds pending) (S pos)
            (docs ++ map (fun id => {| ld_doc := snd id; ld_file := fst inc; ld_idx := length docs + fst id;
                                       ld_included_by := snd inc |}) (combine (seq 0 (length ds)) ds))
      end
  end.
Proof. reflexivity. Qed.

(* a property of lists of includes that finc_insert preserves is preserved by a whole step *)
Lemma step_pending_ind (P : list finc -> Prop) :
  (forall x l, P l -> P (finc_insert x l)) ->
  forall inc start ds pending, P pending -> P (step_pending inc start ds pending).
Proof.
  intros HP inc start ds. unfold step_pending. generalize (map (fun id : nat * ydoc =>
      {| ld_doc := snd id; ld_file := fst inc; ld_idx := start + fst id; ld_included_by := snd inc |})
      (combine (seq 0 (length ds)) ds)). intros new.
  induction new as [|d t IH]; intros pending Hp; cbn [fold_left]; [exact Hp|].
  apply IH.
  assert (G : forall (g : str -> finc) l p, P p -> P (fold_left (fun p0 s => finc_insert (g s) p0) l p)).
  { intros g l. induction l as [|s r IHl]; intros p Hp0; cbn [fold_left]; [exact Hp0|]. apply IHl, HP, Hp0. }
  apply (G (fun s => (path_join (parent (fst inc)) s, Some (ld_idx d)))).
  apply (G (fun s => (path_join (path_join (parent (fst inc)) s) (S_ "laze.yml"), Some (ld_idx d)))). exact Hp.
Qed.

Lemma step_pending_ext inc start ds (pending : list finc) : exists ext, step_pending inc start ds pending = pending ++ ext.
Proof.
  apply (step_pending_ind (fun l => exists ext, l = pending ++ ext)).
  - intros x l [e ->]. destruct (finc_insert_ext x (pending ++ e)) as [e2 ->]. exists (e ++ e2). rewrite app_assoc. reflexivity.
  - exists []. rewrite app_nil_r. reflexivity.
Qed.

Lemma NoDup_snoc {A} (l : list A) x : NoDup l -> ~ In x l -> NoDup (l ++ [x]).
Proof.
  induction l as [|y t IH]; intros ND Hn; cbn; [constructor; [intros []|constructor]|].
  inversion ND as [|? ? Hy ND']; subst. constructor.
  - rewrite in_app_iff. intros [H|[H|[]]]; [contradiction|]. apply Hn. left. symmetry. exact H.
  - apply IH; [exact ND'|]. intros H. apply Hn. right. exact H.
Qed.

Lemma finc_insert_nodup x (l : list finc) : NoDup (map fst l) -> NoDup (map fst (finc_insert x l)).
Proof.
  unfold finc_insert. intros ND. destruct (existsb (finc_eqb x) l) eqn:E; [exact ND|].
  rewrite map_app. cbn [map]. apply NoDup_snoc; [exact ND|].
  intros Hin. apply in_map_iff in Hin. destruct Hin as (y & Hy & Hl).
  assert (existsb (finc_eqb x) l = true); [|congruence].
  apply existsb_exists. exists y. split; [exact Hl|]. unfold finc_eqb. apply str_eqb_eq. symmetry; exact Hy.
Qed.

(* ---------- the result extends the work list; the files of the result are distinct ---------- *)
Lemma load_files_prefix : forall fuel (t : ytree) (pending : list finc) pos docs ds (fs : list finc),
  load_files fuel t pending pos docs = Ok (ds, fs) -> exists ext, fs = pending ++ ext.
Proof.
  induction fuel as [|f IH]; intros t pending pos docs ds fs HL; [discriminate|].
  rewrite load_files_S in HL. destruct (nth_error pending pos) as [inc|].
  - destruct (alookup (fst inc) t) as [ds0|]; [|discriminate].
    apply IH in HL. destruct HL as [e ->]. destruct (step_pending_ext inc (length docs) ds0 pending) as [e2 ->].
    exists (e2 ++ e). rewrite app_assoc. reflexivity.
  - injection HL as _ <-. exists []. rewrite app_nil_r. reflexivity.
Qed.

Lemma load_files_nodup : forall fuel (t : ytree) (pending : list finc) pos docs ds (fs : list finc),
  NoDup (map fst pending) -> load_files fuel t pending pos docs = Ok (ds, fs) -> NoDup (map fst fs).
Proof.
  induction fuel as [|f IH]; intros t pending pos docs ds fs ND HL; [discriminate|].
  rewrite load_files_S in HL. destruct (nth_error pending pos) as [inc|].
  - destruct (alookup (fst inc) t) as [ds0|]; [|discriminate].
    apply IH in HL; [exact HL|]. apply (step_pending_ind (fun l => NoDup (map fst l))); [|exact ND].
    intros x l. apply finc_insert_nodup.
  - injection HL as _ <-. exact ND.
Qed.

(* ---------- agreement on the recorded files is enough ---------- *)
Lemma load_files_agree : forall fuel (t1 t2 : ytree) (pending : list finc) pos docs ds (fs : list finc),
  load_files fuel t1 pending pos docs = Ok (ds, fs) ->
  (forall inc : finc, In inc fs -> alookup (fst inc) t2 = alookup (fst inc) t1) ->
  load_files fuel t2 pending pos docs = Ok (ds, fs).
Proof.
  induction fuel as [|f IH]; intros t1 t2 pending pos docs ds fs HL Hag; [discriminate|].
  rewrite load_files_S in HL |- *. destruct (nth_error pending pos) as [inc|] eqn:En; [|exact HL].
  destruct (alookup (fst inc) t1) as [ds0|] eqn:Ea; [|discriminate].
  assert (Hin : In inc fs).
  { destruct (load_files_prefix _ _ _ _ _ _ _ HL) as [e ->].
    destruct (step_pending_ext inc (length docs) ds0 pending) as [e2 ->].
    rewrite <- app_assoc. apply in_or_app. left. eapply nth_error_In. exact En. }
  rewrite (Hag inc Hin), Ea. apply (IH t1); assumption.
Qed.

(* ---------- fuel: one unit per recorded file, plus one ---------- *)
Lemma load_files_fuel : forall fuel (t : ytree) (pending : list finc) pos docs ds (fs : list finc),
  load_files fuel t pending pos docs = Ok (ds, fs) ->
  forall fuel', length fs - pos < fuel' -> load_files fuel' t pending pos docs = Ok (ds, fs).
Proof.
  induction fuel as [|f IH]; intros t pending pos docs ds fs HL fuel' Hf; [discriminate|].
  destruct fuel' as [|f']; [lia|].
  rewrite load_files_S in HL |- *. destruct (nth_error pending pos) as [inc|] eqn:En; [|exact HL].
  destruct (alookup (fst inc) t) as [ds0|]; [|discriminate].
  assert (Hlen : pos < length fs).
  { destruct (load_files_prefix _ _ _ _ _ _ _ HL) as [e ->].
    destruct (step_pending_ext inc (length docs) ds0 pending) as [e2 ->].
    rewrite !app_length. assert (pos < length pending) by (apply nth_error_Some; rewrite En; discriminate). lia. }
  apply (IH _ _ _ _ _ _ HL). lia.
Qed.

Lemma alookup_In_keys {V} k (l : list (str * V)) : alookup k l <> None -> In k (akeys l).
Proof.
  induction l as [|[k' v] t IH]; cbn; [tauto|].
  destruct (str_eqb k k') eqn:E; [intros _; left; symmetry; apply str_eqb_eq; exact E|]. intros Hn. right. apply IH, Hn.
Qed.

Lemma alookup_ytree_of_eq store (t : vtree) f : alookup f (ytree_of store t) = option_map (store f) (alookup f t).
Proof.
  unfold ytree_of. induction t as [|[f' v] r IH]; cbn; [reflexivity|].
  destruct (str_eqb f f') eqn:E; [|exact IH]. apply str_eqb_eq in E. subst f'. reflexivity.
Qed.

Section Frame.
  Variable bd : str.
  Variable store : str -> N -> list ydoc.

  Theorem load_frame_holds : load_frame bd store.
  Proof.
    unfold load_frame. intros t1 t2 ts HL Hv.
    unfold cload_ts, loaded_files in HL.
    destruct (load (ytree_of store t1) project_file bd) as [b1| | |] eqn:Eload; cbn [rbind] in HL; try discriminate.
    unfold rmap in HL.
    destruct (load_files _ (ytree_of store t1) [(project_file, None)] 0 []) as [[ds fs]| | |] eqn:ELF; cbn [rbind] in HL; try discriminate.
    injection HL as <-.
    (* the recorded files have the same version, hence the same content, in both trees *)
    assert (Hin1 : forall inc : finc, In inc fs -> alookup (fst inc) (ytree_of store t1) <> None).
    { intros inc Hinc. eapply load_files_in_tree; [|exact ELF|exact Hinc]. intros i inc0 Hi. lia. }
    assert (Hver : forall inc : finc, In inc fs -> alookup (fst inc) t2 = alookup (fst inc) t1 /\ alookup (fst inc) t1 <> None).
    { intros inc Hinc. pose proof (alookup_ytree_of store t1 (fst inc) (Hin1 inc Hinc)) as Hne.
      unfold cts_valid in Hv. rewrite forallb_forall in Hv.
      specialize (Hv (fst inc, version t1 (fst inc))). cbn [fst snd] in Hv.
      assert (Hm : In (fst inc, version t1 (fst inc)) (map (fun f => (f, version t1 f)) (map fst fs))).
      { apply in_map_iff. exists (fst inc). split; [reflexivity|]. apply in_map. exact Hinc. }
      specialize (Hv Hm). unfold version in Hv |- *.
      destruct (alookup (fst inc) t1) as [v1|]; [|contradiction]. cbn in Hv.
      destruct (alookup (fst inc) t2) as [v2|]; [|discriminate]. apply N.eqb_eq in Hv. subst. split; [reflexivity|discriminate]. }
    assert (Hag : forall inc : finc, In inc fs -> alookup (fst inc) (ytree_of store t2) = alookup (fst inc) (ytree_of store t1)).
    { intros inc Hinc. rewrite !alookup_ytree_of_eq. rewrite (proj1 (Hver inc Hinc)). reflexivity. }
    pose proof (load_files_agree _ _ (ytree_of store t2) _ _ _ _ _ ELF Hag) as ELF2.
    (* the fuel of the second tree suffices: the recorded files are distinct files of that tree *)
    assert (Hlen : length fs <= length (ytree_of store t2)).
    { assert (ND : NoDup (map fst fs)).
      { eapply load_files_nodup; [|exact ELF]. cbn. constructor; [intros []|constructor]. }
      assert (Hincl : incl (map fst fs) (akeys (ytree_of store t2))).
      { intros f Hf. apply in_map_iff in Hf. destruct Hf as (inc & <- & Hinc). apply alookup_In_keys.
        rewrite (Hag inc Hinc). apply Hin1, Hinc. }
      pose proof (NoDup_incl_length ND Hincl) as Hl. unfold akeys in Hl. rewrite !map_length in Hl. exact Hl. }
    assert (ELF3 : load_files (S (S (length (ytree_of store t2) * 8))) (ytree_of store t2) [(project_file, None)] 0 [] = Ok (ds, fs)).
    { apply (load_files_fuel _ _ _ _ _ _ _ ELF2). lia. }
    assert (Eload2 : load (ytree_of store t2) project_file bd = load (ytree_of store t1) project_file bd).
    { unfold load. rewrite ELF3, ELF. reflexivity. }
    split; [|rewrite Eload2; exact Eload].
    unfold cload_ts, loaded_files. rewrite Eload2, Eload. cbn [rbind]. rewrite ELF3. unfold rmap. cbn [rbind snd].
    f_equal. apply map_ext_in. intros f Hf. apply in_map_iff in Hf. destruct Hf as (inc & <- & Hinc).
    unfold version. rewrite (proj1 (Hver inc Hinc)). reflexivity.
  Qed.
End Frame.
