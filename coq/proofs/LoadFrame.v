(* LoadFrame.v — the loader reads only the files it records: two trees that agree on those files
   (same versions, hence same contents) load to the same result. This is what makes the recorded
   tree state a sound summary of the input of a generation. *)
From Coq Require Import Ascii String.
From Coq Require Import List Arith Bool NArith Lia.
Import ListNotations.
Require Import Laze.model.Base Laze.model.Path Laze.model.Load Laze.model.Cache.
Require Import Laze.proofs.BaseFacts Laze.proofs.WorkList Laze.proofs.CacheInstance.
Open Scope list_scope.

Lemma flat_map_ext_in' {A B} (f g : A -> list B) l : (forall a, In a l -> f a = g a) -> flat_map f l = flat_map g l.
Proof.
  induction l as [|a r IH]; intros H; [reflexivity|]. cbn [flat_map].
  rewrite (H a (or_introl eq_refl)), IH; [reflexivity|]. intros b Hb. apply H. right. exact Hb.
Qed.

Section Frame.
  Variable bd : str.
  Variable store : str -> N -> list ydoc.

  Theorem load_frame_holds : load_frame bd store.
  Proof.
    unfold load_frame. intros t1 t2 ts HL Hv.
    unfold cload_ts, loaded_files in HL.
    destruct (load (ytree_of store t1) project_file bd) as [b1| | |] eqn:Eload; cbn [rbind] in HL; try discriminate.
    unfold rmap in HL.
    destruct (load_files _ (ytree_of store t1) [(project_file, (None, None))] 0 []) as [[ds fs]| | |] eqn:ELF; cbn [rbind] in HL; try discriminate.
    injection HL as <-.
    unfold cts_valid in Hv. cbn [fst snd] in Hv. apply andb_prop in Hv. destruct Hv as [Hv Hab].
    rewrite forallb_forall in Hv, Hab.
    (* the recorded files have the same version, hence the same content, in both trees *)
    assert (Hin1 : forall inc : finc, In inc fs -> alookup (fst inc) (ytree_of store t1) <> None).
    { intros inc Hinc. eapply load_files_in_tree; [|exact ELF|exact Hinc]. intros i inc0 Hi. lia. }
    assert (Hver : forall inc : finc, In inc fs -> alookup (fst inc) t2 = alookup (fst inc) t1 /\ alookup (fst inc) t1 <> None).
    { intros inc Hinc. pose proof (alookup_ytree_of store t1 (fst inc) (Hin1 inc Hinc)) as Hne.
      specialize (Hv (fst inc, version t1 (fst inc))). cbn [fst snd] in Hv.
      assert (Hm : In (fst inc, version t1 (fst inc)) (map (fun f => (f, version t1 f)) (map fst fs))).
      { apply in_map_iff. exists (fst inc). split; [reflexivity|]. apply in_map. exact Hinc. }
      specialize (Hv Hm). unfold version in Hv |- *.
      destruct (alookup (fst inc) t1) as [v1|]; [|contradiction]. cbn in Hv.
      destruct (alookup (fst inc) t2) as [v2|]; [|discriminate]. apply N.eqb_eq in Hv. subst. split; [reflexivity|discriminate]. }
    assert (Hag : forall inc : finc, In inc fs -> alookup (fst inc) (ytree_of store t2) = alookup (fst inc) (ytree_of store t1)).
    { intros inc Hinc. rewrite !alookup_ytree_of_eq. rewrite (proj1 (Hver inc Hinc)). reflexivity. }
    (* the files that were looked for and not found are not there in the second tree either, so
       every import finds the same lazefile *)
    assert (Habs : forall g, In g (absent_of (ytree_of store t1) ds) -> file_exists (ytree_of store t2) g = false).
    { intros g Hg. specialize (Hab g Hg). unfold file_exists. rewrite alookup_ytree_of_eq.
      destruct (alookup g t2); [discriminate Hab|reflexivity]. }
    assert (Himp : forall d s, In d ds -> In s (odflt [] (d_imports (ld_doc d))) ->
                   get_lazefile (ytree_of store t2) s = get_lazefile (ytree_of store t1) s /\
                   preferred_over (ytree_of store t2) s = preferred_over (ytree_of store t1) s).
    { intros d s Hd Hs. destruct (load_files_imports _ _ _ _ _ _ _ ELF d Hd) as [[]|Hgood].
      destruct (Hgood s Hs) as (f & y & Hg & Hy & Hf).
      destruct (get_lazefile_agree (ytree_of store t1) (ytree_of store t2) s f Hg) as [H1 H2].
      - unfold file_exists. subst f. rewrite (Hag y Hy).
        destruct (alookup (fst y) (ytree_of store t1)) eqn:E; [reflexivity|]. exfalso. apply (Hin1 y Hy). exact E.
      - intros g Hg'. apply Habs. unfold absent_of. apply in_flat_map. exists d. split; [exact Hd|].
        apply in_flat_map. exists s. split; [exact Hs|exact Hg'].
      - rewrite H1, Hg. split; [reflexivity|exact H2]. }
    pose proof (load_files_agree _ _ (ytree_of store t2) _ _ _ _ _ ELF Hag (fun d s Hd Hs => proj1 (Himp d s Hd Hs))) as ELF2.
    (* the fuel of the second tree suffices *)
    assert (ELF3 : load_files (load_fuel (ytree_of store t2)) (ytree_of store t2) [(project_file, (None, None))] 0 [] = Ok (ds, fs)).
    { apply (load_files_fuel _ _ _ _ _ _ _ ELF2). pose proof (load_files_bound _ _ _ _ _ ELF2) as Hb. unfold load_fuel. lia. }
    assert (Eload2 : load (ytree_of store t2) project_file bd = load (ytree_of store t1) project_file bd).
    { unfold load. rewrite ELF3, ELF. reflexivity. }
    split; [|rewrite Eload2; exact Eload].
    unfold cload_ts, loaded_files. rewrite Eload2, Eload. cbn [rbind]. rewrite ELF3. unfold rmap. cbn [rbind fst snd].
    f_equal. f_equal.
    - apply map_ext_in. intros f Hf. apply in_map_iff in Hf. destruct Hf as (inc & <- & Hinc).
      unfold version. rewrite (proj1 (Hver inc Hinc)). reflexivity.
    - unfold absent_of. apply flat_map_ext_in'. intros d Hd. apply flat_map_ext_in'. intros s0 Hs0.
      apply (proj2 (Himp d s0 Hd Hs0)).
  Qed.
End Frame.
