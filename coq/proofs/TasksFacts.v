(* TasksFacts.v — C16 / C18: what laze does after generation. *)
From Coq Require Import Ascii String.
From Coq Require Import List Arith Bool NArith Lia.
Import ListNotations.
Require Import Laze.model.Base Laze.model.Env Laze.model.Ninja Laze.model.Ctx Laze.model.Resolver
        Laze.model.Imports Laze.model.Generate Laze.model.Tasks Laze.proofs.BaseFacts.
Open Scope list_scope.

Lemma firstn_In' {A} (l : list A) n x : In x (firstn n l) -> In x l.
Proof. revert n; induction l as [|a t IH]; intros n H; destruct n; cbn in *; try contradiction; destruct H; auto. right. eapply IH. eauto. Qed.

Definition act_of (b : build_info) : action := ATask (bi_builder b) (bi_binary b).
Definition failing (task_ok : str -> str -> bool) (b : build_info) : bool := negb (task_ok (bi_builder b) (bi_binary b)).

Section Run.
  Variable task_ok : str -> str -> bool.

  (* executed tasks are a prefix of the targets, in order; the error count is the number of
     failing executed tasks; execution stops exactly after the keep_going-th failure *)
  Theorem run_tasks_spec kg : forall targets e acts e',
    run_tasks task_ok kg targets e = (acts, e') ->
    exists n, acts = map act_of (firstn n targets) /\
              e' = e + length (filter (failing task_ok) (firstn n targets)) /\
              (n < length targets -> 0 < kg /\ kg <= e' /\
                 exists last, nth_error targets (n - 1) = Some last /\ failing task_ok last = true /\ 0 < n).
  Proof.
    induction targets as [|b t IH]; intros e acts e' H; cbn [run_tasks] in H.
    - inversion H; subst. exists 0. cbn. split; [reflexivity|]. split; [lia|]. intros; lia.
    - destruct (task_ok (bi_builder b) (bi_binary b)) eqn:Eok.
      + destruct (run_tasks task_ok kg t e) as [acts0 e0] eqn:ER. inversion H; subst.
        destruct (IH e acts0 e' ER) as (n & Ha & He & Hs). exists (S n). cbn [firstn map filter].
        unfold failing at 1. rewrite Eok. cbn [negb]. split; [rewrite Ha; reflexivity|]. split; [exact He|].
        intros Hlt. cbn [length] in Hlt. destruct (Hs ltac:(lia)) as (K1 & K2 & last & Hn & Hf & Hpos).
        split; [exact K1|]. split; [exact K2|]. exists last. split; [|split; [exact Hf|lia]].
        replace (S n - 1) with (S (n - 1)) by lia. cbn. exact Hn.
      + destruct (Nat.ltb 0 kg && Nat.leb kg (S e)) eqn:Estop.
        * inversion H; subst. apply andb_true_iff in Estop as [K1 K2]. apply Nat.ltb_lt in K1. apply Nat.leb_le in K2.
          exists 1. cbn [firstn map filter]. unfold failing at 1. rewrite Eok. cbn [negb length].
          split; [reflexivity|]. split; [lia|]. intros _. split; [exact K1|]. split; [lia|].
          exists b. cbn. unfold failing. rewrite Eok. auto.
        * destruct (run_tasks task_ok kg t (S e)) as [acts0 e0] eqn:ER. inversion H; subst.
          destruct (IH (S e) acts0 e' ER) as (n & Ha & He & Hs). exists (S n). cbn [firstn map filter].
          unfold failing at 1. rewrite Eok. cbn [negb length]. split; [rewrite Ha; reflexivity|]. split; [lia|].
          intros Hlt. cbn [length] in Hlt. destruct (Hs ltac:(lia)) as (K1 & K2 & last & Hn & Hf & Hpos).
          split; [exact K1|]. split; [exact K2|]. exists last. split; [|split; [exact Hf|lia]].
          replace (S n - 1) with (S (n - 1)) by lia. cbn. exact Hn.
  Qed.

  (* keep_going 0: every task is executed *)
  Theorem run_tasks_all : forall targets e,
    fst (run_tasks task_ok 0 targets e) = map act_of targets.
  Proof.
    induction targets as [|b t IH]; intros e; cbn [run_tasks]; [reflexivity|].
    destruct (task_ok _ _).
    - specialize (IH e). destruct (run_tasks task_ok 0 t e). cbn in *. rewrite IH. reflexivity.
    - cbn [Nat.ltb Nat.leb andb]. specialize (IH (S e)). destruct (run_tasks task_ok 0 t (S e)). cbn in *. rewrite IH. reflexivity.
  Qed.
End Run.

(* ---------- main ---------- *)
Section MainFacts.
  Variable ninja_ok : list str -> bool.
  Variable task_ok : str -> str -> bool.

  (* plain build: one ninja invocation on the generated file; targets are exactly the outputs of
     the selected builds unless nothing was selected; -j/-k/-v passed; exit code reports ninja *)
  Theorem plain_build builds file c :
    mc_task c = None -> mc_generate_only c = false ->
    let targets := if is_all (mc_builders c) && is_all (mc_apps c) then None
                   else Some (map bi_out (filter (selected_build c) builds)) in
    let argv := ninja_argv file (Nat.ltb 0 (mc_verbose c)) targets (mc_jobs c) (Some (mc_keep_going c)) in
    main_after_generate ninja_ok task_ok builds file c =
    match targets with
    | Some [] => {| o_actions := []; o_exit := 0 |}
    | _ => {| o_actions := [ANinja argv]; o_exit := if ninja_ok argv then 0 else 1 |}
    end.
  Proof. intros Ht Hg. unfold main_after_generate. rewrite Ht, Hg. reflexivity. Qed.

  (* ninja never runs without explicit targets unless nothing was selected away: an invocation either
     names at least one target, or the command line selects every builder and every app *)
  Theorem plain_build_targets builds file c argv :
    mc_task c = None ->
    In (ANinja argv) (o_actions (main_after_generate ninja_ok task_ok builds file c)) ->
    (is_all (mc_builders c) && is_all (mc_apps c) = true /\
     argv = ninja_argv file (Nat.ltb 0 (mc_verbose c)) None (mc_jobs c) (Some (mc_keep_going c))) \/
    (exists t ts, map bi_out (filter (selected_build c) builds) = t :: ts /\
     argv = ninja_argv file (Nat.ltb 0 (mc_verbose c)) (Some (t :: ts)) (mc_jobs c) (Some (mc_keep_going c))).
  Proof.
    intros Ht. unfold main_after_generate. rewrite Ht.
    destruct (mc_generate_only c); [intros []|].
    destruct (is_all (mc_builders c) && is_all (mc_apps c)) eqn:Eall.
    - cbn [o_actions]. intros [E|[]]. injection E as <-. left. split; reflexivity.
    - destruct (map bi_out (filter (selected_build c) builds)) as [|t ts] eqn:Em; cbn [o_actions]; [intros []|].
      intros [E|[]]. injection E as <-. right. exists t, ts. split; reflexivity.
  Qed.

  Theorem generate_only_runs_nothing builds file c :
    mc_task c = None -> mc_generate_only c = true ->
    main_after_generate ninja_ok task_ok builds file c = {| o_actions := []; o_exit := 0 |}.
  Proof. intros Ht Hg. unfold main_after_generate. rewrite Ht, Hg. reflexivity. Qed.

  (* the argument vector: -f file first, flags only as requested, then the targets *)
  Theorem ninja_argv_shape file verbose targets jobs kg :
    exists flags, ninja_argv file verbose targets jobs kg = [S_ "-f"; file] ++ flags ++ odflt [] targets /\
      (verbose = true -> In (S_ "-v") flags) /\
      (forall x, In x flags -> x = S_ "-v" \/ x = S_ "-j" \/ x = S_ "-k" \/
                 (exists j, jobs = Some j /\ x = show_dec (N.of_nat j)) \/ (exists k, kg = Some k /\ x = show_dec (N.of_nat k))).
  Proof.
    unfold ninja_argv.
    exists ((if verbose then [S_ "-v"] else []) ++
            match jobs with Some j => [S_ "-j"; show_dec (N.of_nat j)] | None => [] end ++
            match kg with Some k => [S_ "-k"; show_dec (N.of_nat k)] | None => [] end).
    split; [rewrite <- !app_assoc; reflexivity|]. split.
    - intros ->. apply in_or_app. left. left. reflexivity.
    - intros x Hx. rewrite !in_app_iff in Hx. destruct Hx as [Hx|[Hx|Hx]].
      + destruct verbose; [destruct Hx as [<-|[]]; auto | destruct Hx].
      + destruct jobs as [j|]; [|destruct Hx]. destruct Hx as [<-|[<-|[]]]; [auto|]. right; right; right; left. eauto.
      + destruct kg as [k|]; [|destruct Hx]. destruct Hx as [<-|[<-|[]]]; [auto|]. right; right; right; right. eauto.
  Qed.

  (* tasks: what is run, in which order, and the exit status *)
  Theorem task_run builds file c name :
    mc_task c = Some name ->
    let matching := filter (fun b => selected_build c b &&
                                     match task_of_build name b with Some _ => true | None => false end) builds in
    let runnable := filter (fun b => match task_of_build name b with Some (inl _) => true | _ => false end) matching in
    let o := main_after_generate ninja_ok task_ok builds file c in
    (runnable = [] -> o_actions o = [] /\ o_exit o = 1) /\
    (runnable <> [] -> 1 < length matching -> mc_multiple c = false -> o_actions o = [] /\ o_exit o = 1) /\
    (forall b a, In (ATask b a) (o_actions o) -> exists bi, In bi runnable /\ bi_builder bi = b /\ bi_binary bi = a) /\
    (forall argv, In (ANinja argv) (o_actions o) -> mc_generate_only c = false /\
        exists acts, o_actions o = ANinja argv :: acts /\ forall x, In x acts -> exists b a, x = ATask b a).
  Proof.
    intros Ht. cbn zeta. unfold main_after_generate. rewrite Ht.
    set (matching := filter _ builds). set (runnable := filter _ matching).
    split; [intros ->; cbn; auto|]. split.
    - intros Hne Hlen Hm. destruct runnable as [|r0 rs] eqn:Er; [contradiction|].
      apply Nat.ltb_lt in Hlen. rewrite Hlen, Hm. cbn. auto.
    - destruct runnable as [|r0 rs] eqn:Er.
      + cbn. split; [intros b a []|intros argv []].
      + rewrite <- Er. clear Er.
        destruct (Nat.ltb 1 (length matching) && negb (mc_multiple c)); [cbn; split; [intros b a []|intros argv []]|].
        set (ninja_targets := flat_map _ runnable).
        set (need := negb (match ninja_targets with [] => true | _ => false end) && negb (mc_generate_only c)).
        set (argv0 := ninja_argv file _ (Some ninja_targets) (mc_jobs c) None).
        assert (Hacts : forall acts e, run_tasks task_ok (mc_keep_going c) runnable 0 = (acts, e) ->
                          forall x, In x acts -> exists bi, In bi runnable /\ x = act_of bi).
        { intros acts e HR x Hx. apply run_tasks_spec in HR as (n & Ha & _). subst acts.
          apply in_map_iff in Hx as (bi & <- & Hin). exists bi. split; [|reflexivity].
          eapply firstn_In'. exact Hin. }
        destruct (need && negb (ninja_ok argv0)) eqn:Efail.
        * cbn [o_actions]. split.
          -- intros b a [H|[]]. discriminate.
          -- intros argv [H|[]]. inversion H; subst. apply andb_true_iff in Efail as [Hn _].
             unfold need in Hn. apply andb_true_iff in Hn as [_ Hg]. apply negb_true_iff in Hg.
             split; [exact Hg|]. exists []. split; [reflexivity|intros x []].
        * destruct (run_tasks task_ok (mc_keep_going c) runnable 0) as [acts e] eqn:ER. cbn [o_actions]. split.
          -- intros b a Hin. apply in_app_or in Hin as [Hin|Hin].
             ++ destruct need; [destruct Hin as [H|[]]; discriminate | destruct Hin].
             ++ destruct (Hacts acts e eq_refl _ Hin) as (bi & Hbi & E). inversion E. exists bi. auto.
          -- intros argv Hin. apply in_app_or in Hin as [Hin|Hin].
             ++ destruct need eqn:En; [|destruct Hin]. destruct Hin as [H|[]]. inversion H; subst.
                unfold need in En. apply andb_true_iff in En as [_ Hg]. apply negb_true_iff in Hg.
                split; [exact Hg|]. exists acts. split; [reflexivity|].
                intros x Hx. destruct (Hacts acts e eq_refl _ Hx) as (bi & _ & ->). eexists _, _. reflexivity.
             ++ destruct (Hacts acts e eq_refl _ Hin) as (bi & _ & E). discriminate.
  Qed.
End MainFacts.

(* a task is runnable iff every required variable is set and every required module selected *)
Theorem task_check_spec (EV : str -> evr) flat ms t :
  task_check flat ms t = None <->
  (forall v, In v (odflt [] (t_required_vars t)) -> alookup v flat <> None) /\
  (forall n, In n (odflt [] (t_required_modules t)) -> In n (map m_name ms)).
Proof.
  unfold task_check. split.
  - intros H. destruct (find _ (odflt [] (t_required_vars t))) eqn:E1; [discriminate|].
    destruct (find _ (odflt [] (t_required_modules t))) eqn:E2; [discriminate|]. split.
    + intros v Hv. pose proof (find_none _ _ E1 v Hv) as F. cbn in F. destruct (alookup v flat); [discriminate|discriminate].
    + intros n Hn. pose proof (find_none _ _ E2 n Hn) as F. cbn in F.
      destruct (find_sel n ms) as [x|] eqn:Ex; [|discriminate].
      unfold find_sel in Ex. apply find_some in Ex as [I Eq]. apply str_eqb_eq in Eq. subst. apply in_map. exact I.
  - intros [H1 H2].
    destruct (find _ (odflt [] (t_required_vars t))) as [v|] eqn:E1.
    { apply find_some in E1 as [I F]. specialize (H1 v I). destruct (alookup v flat); [discriminate|contradiction]. }
    destruct (find _ (odflt [] (t_required_modules t))) as [n|] eqn:E2; [|reflexivity].
    apply find_some in E2 as [I F]. specialize (H2 n I). apply in_map_iff in H2 as (x & <- & Hx).
    unfold find_sel in F. destruct (find (fun m => str_eqb (m_name x) (m_name m)) ms) eqn:Ef; [discriminate|].
    pose proof (find_none _ _ Ef x Hx) as G. cbn in G. rewrite str_eqb_refl in G. discriminate.
Qed.
