(* FrameFacts.v — C05: what a module's environment depends on. *)
From Coq Require Import Ascii String.
From Coq Require Import List Arith Bool NArith Lia.
Import ListNotations.
Require Import Laze.model.Base Laze.model.Env Laze.model.Allow Laze.model.Ninja Laze.model.Ctx
        Laze.model.Resolver Laze.model.Imports Laze.proofs.BaseFacts.
Open Scope list_scope.

(* what build_env reads of an imported module *)
Definition import_view (self : module) (d : module) : env * str * bool :=
  (m_env_export d, module_define d, negb (module_eqb d self) && m_is_build_dep d).

(* the environment part of build_env, written over the views *)
Definition env_step (notify_all : bool) (acc : res env) (v : env * str * bool) : res env :=
  rbind acc (fun e =>
    let e1 := merge e (fst (fst v)) in
    if notify_all then Ok e1
    else match env_get (S_ "notify") e1 with
         | None => Ok (env_insert (S_ "notify") (EList [snd (fst v)]) e1)
         | Some (EList l) => Ok (env_insert (S_ "notify") (EList (l ++ [snd (fst v)])) e1)
         | Some (Single s) => Ok (env_insert (S_ "notify") (EList [s; snd (fst v)]) e1)
         end).

Definition env_of_views (genv : env) (notify_all : bool) (all_defines : list str) (local : env)
           (views : list (env * str * bool)) : res env :=
  rbind (fold_left (env_step notify_all) views (Ok genv)) (fun e =>
    let e1 := if notify_all then env_insert (S_ "notify") (EList all_defines) e else e in
    Ok (merge e1 local)).

Definition benv_step (self : module) (acc : res (env * option (list module))) (d : module) : res (env * option (list module)) :=
  rbind acc (fun '(e, bd) =>
    let e1 := merge e (m_env_export d) in
    rbind (if m_notify_all self then Ok e1
           else match env_get (S_ "notify") e1 with
                | None => Ok (env_insert (S_ "notify") (EList [module_define d]) e1)
                | Some (EList l) => Ok (env_insert (S_ "notify") (EList (l ++ [module_define d])) e1)
                | Some (Single s) => Ok (env_insert (S_ "notify") (EList [s; module_define d]) e1)
                end) (fun e2 =>
    let bd1 := if negb (module_eqb d self) && m_is_build_dep d
               then Some (mset_insert d (odflt [] bd)) else bd in
    Ok (e2, bd1))).

Lemma benv_step_view self acc d :
  rmap fst (benv_step self acc d) = env_step (m_notify_all self) (rmap fst acc) (import_view self d).
Proof.
  unfold benv_step, env_step, import_view. destruct acc as [[e bd]| | |]; cbn [rmap rbind fst snd]; try reflexivity.
  destruct (m_notify_all self); cbn [rbind fst]; [reflexivity|].
  destruct (env_get (S_ "notify") (merge e (m_env_export d))) as [[s|l]|]; reflexivity.
Qed.

Lemma build_env_fold (self : module) : forall deps acc,
  rmap fst (fold_left (benv_step self) deps acc)
  = fold_left (env_step (m_notify_all self)) (map (import_view self) deps) (rmap fst acc).
Proof.
  induction deps as [|d t IH]; intros acc; [reflexivity|].
  cbn [fold_left map]. rewrite IH, benv_step_view. reflexivity.
Qed.

(* the module environment is a function of: the global env, the views of the imported modules
   (their exported env, their define, ...), the notify_all flag with the defines of all selected
   non-context modules, and the module's own local env -- and of nothing else *)
Theorem build_env_is_env_of_views genv ms provs self :
  rmap fst (build_env genv ms provs self) =
  env_of_views genv (m_notify_all self)
               (map module_define (filter (fun d => negb (is_context_module d)) ms))
               (m_env_local self)
               (map (import_view self) (imports_postorder ms provs self)).
Proof.
  unfold build_env, env_of_views.
  change (fold_left _ (imports_postorder ms provs self) (Ok (genv, None)))
    with (fold_left (benv_step self) (imports_postorder ms provs self) (Ok (genv, None))).
  pose proof (build_env_fold self (imports_postorder ms provs self) (Ok (genv, None))) as F.
  cbn [rmap rbind fst] in F. rewrite <- F.
  destruct (fold_left (benv_step self) (imports_postorder ms provs self) (Ok (genv, None))) as [[e bd]| | |];
    cbn [rmap rbind fst]; reflexivity.
Qed.

(* frame: two projects that agree on what the module imports (views), on its flag, on the set of
   defines and on its local env give it the same environment *)
Corollary module_env_frame genv ms provs self ms' provs' self' :
  map (import_view self) (imports_postorder ms provs self) =
  map (import_view self') (imports_postorder ms' provs' self') ->
  m_notify_all self = m_notify_all self' ->
  map module_define (filter (fun d => negb (is_context_module d)) ms) =
  map module_define (filter (fun d => negb (is_context_module d)) ms') ->
  m_env_local self = m_env_local self' ->
  rmap fst (build_env genv ms provs self) = rmap fst (build_env genv ms' provs' self').
Proof.
  intros H1 H2 H3 H4. rewrite !build_env_is_env_of_views. rewrite H1, H2, H3, H4. reflexivity.
Qed.
