(* ImportsBuild.v — ImportsClosure instantiated with what the resolver delivers for a build of a loaded
   project: the selected modules have pairwise different names and every provider on record is selected,
   so for every selected module the import list of its build environment is exactly the set of selected
   modules reachable from it through active imports, each once, itself last. *)
From Coq Require Import Ascii String.
From Coq Require Import List Arith Bool NArith Lia.
Import ListNotations.
Require Import Laze.model.Base Laze.model.Env Laze.model.Allow Laze.model.Ninja Laze.model.Ctx Laze.model.Resolver
               Laze.model.Imports Laze.model.Checks Laze.model.Load.
Require Import Laze.proofs.BaseFacts Laze.proofs.ResolverTotal Laze.proofs.GenTotal Laze.proofs.LoadKeys Laze.proofs.ImportsClosure
               Laze.proofs.GenerateFacts.
Open Scope list_scope.

Lemma resolve_build_names_nodup b builder bname binary cli_selects disabled0 rst :
  keys_okb b = true -> In (m_name binary) (map m_name (all_modules b)) ->
  resolve_build b builder bname binary cli_selects disabled0 = Ok rst -> NoDup (map m_name (sel rst)).
Proof.
  intros Hk Hb HR. unfold resolve_build, resolver_fuel in HR.
  set (U := map m_name (all_modules b)) in *.
  assert (HU : forall n m, resolve_module b builder n = Some m -> m_name m = n /\ In n U).
  { intros n m Hl. pose proof (lookup_name_of_bag _ _ _ _ Hk Hl) as Hn. split; [exact Hn|].
    rewrite <- Hn. unfold U. apply in_map. exact (resolve_module_in _ _ _ _ Hl). }
  pose proof (resolve_total (resolve_module b builder)
                (fun n => match (match bag_get b builder with Some c => c_provided c | None => None end) with
                          | Some p => alookup n p | None => None end)
                U HU (S (S (length (all_modules b))))) as HT.
  assert (Hlen : length U = length (all_modules b)) by (unfold U; apply map_length).
  destruct (HT (init_state disabled0) (build_binary binary bname cli_selects)) as [_ Hok].
  - split; [constructor|intros x []].
  - rewrite Hlen. cbn [init_state sel length]. lia.
  - exact Hb.
  - destruct (Hok rst HR) as [[ND _] _]. exact ND.
Qed.

Section Build.
  Variables (t : ytree) (pf bd : str) (b : bag).
  Hypothesis loaded : load t pf bd = Ok b.
  Variables (builder : nat) (bname : str) (binary : module) (cli_selects : list dep) (disabled0 : list str) (rst : rstate).
  Hypothesis binary_of_project : In binary (all_modules b).
  Hypothesis resolved : resolve_build b builder bname binary cli_selects disabled0 = Ok rst.

  Let ND : NoDup (map m_name (sel rst)).
  Proof. apply (resolve_build_names_nodup b builder bname binary cli_selects disabled0 rst (load_keys_ok _ _ _ _ loaded)); [apply in_map; exact binary_of_project|exact resolved]. Qed.
  Let PS : forall n y, In y (get_list n (provby rst)) -> In y (sel rst).
  Proof. exact (resolve_build_prov_in_sel _ _ _ _ _ _ _ resolved). Qed.

  Theorem build_imports_are_reachable self y : In self (sel rst) ->
    (In y (imports_postorder (sel rst) (provby rst) self) <-> reach (sel rst) (provby rst) self y).
  Proof. exact (imports_postorder_iff (sel rst) (provby rst) PS ND self y). Qed.

  Theorem build_imports_once self : In self (sel rst) -> NoDup (map m_name (imports_postorder (sel rst) (provby rst) self)).
  Proof. exact (imports_postorder_nodup (sel rst) (provby rst) PS self). Qed.

  Theorem build_imports_selected self y : In self (sel rst) -> In y (imports_postorder (sel rst) (provby rst) self) -> In y (sel rst).
  Proof. intros Hs Hy. exact (proj2 (imports_postorder_sound (sel rst) (provby rst) PS self y Hs Hy)). Qed.

  Theorem build_imports_dependencies_first self y z : In self (sel rst) ->
    In y (imports_postorder (sel rst) (provby rst) self) -> edge (sel rst) (provby rst) y z -> ~ reach (sel rst) (provby rst) z y ->
    before z y (imports_postorder (sel rst) (provby rst) self).
  Proof. exact (imports_postorder_dependencies_first (sel rst) (provby rst) PS ND self y z). Qed.
End Build.
