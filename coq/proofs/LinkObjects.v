(* LinkObjects.v — C03, the composition: the LINK statement of a configured build consumes exactly
   one object per source file of every selected module, in build order, and nothing else. Each object
   comes from its source by the rule that the build's rule table (nearest context on the builder's
   chain, C03_nearest_rule) has for the source's extension. *)
From Coq Require Import Ascii String.
From Coq Require Import List Arith Bool NArith Lia.
Import ListNotations.
Require Import Laze.model.Base Laze.model.Env Laze.model.Expand Laze.model.Path Laze.model.Hash Laze.model.Allow
               Laze.model.Ninja Laze.model.Ctx Laze.model.Resolver Laze.model.Imports Laze.model.Generate.
Require Import Laze.proofs.BaseFacts Laze.proofs.StmtFacts Laze.proofs.GenerateFacts Laze.proofs.WfFacts
               Laze.proofs.DownloadOrder Laze.proofs.StepFrame.
Open Scope list_scope.

Section Objects.
  Variable H : list ascii -> N.
  Variable EV : str -> evr.

  (* the object of one source: the source path expanded in the module's env; the rule of the build's
     table for its extension; the rule's text expanded in the module's env ([mr]); the object path
     from (source path, hash of that rule text xor hash of the order-only deps, output extension) *)
  Definition source_object (rules : list (str * rule)) (mr : list (str * nrule)) (flat : fenv)
             (objdir bn an srcdir : str) (dh : N) (source : str) : option str :=
    match expand_eval EV flat PEmpty (path_push srcdir source) with
    | Ok srcpath =>
        match extension srcpath with
        | Some ext =>
            match alookup ext rules, alookup ext mr with
            | Some rule, Some nrule =>
                match r_out rule with
                | Some rout => Some (object_path objdir bn an (r_shareable rule) srcpath (N.lxor (rule_hash H nrule) dh) rout)
                | None => None end
            | _, _ => None end
        | None => None end
    | _ => None
    end.

  Lemma compile_source_object rules mr flat objdir bn an srcdir combined dh local tag st source st' :
    compile_source H EV rules mr flat objdir bn an srcdir combined dh local tag st source = Ok st' ->
    exists obj, source_object rules mr flat objdir bn an srcdir dh source = Some obj /\ ls_objects st' = ls_objects st ++ [obj].
  Proof.
    unfold compile_source, source_object.
    destruct (expand_eval EV flat PEmpty (path_push srcdir source)) as [srcpath| | |]; cbn [rbind]; try discriminate.
    destruct (extension srcpath) as [ext|]; cbn [rbind]; try discriminate.
    destruct (alookup ext rules) as [rule|]; cbn [rbind]; try discriminate.
    destruct (alookup ext mr) as [nrule|]; cbn [rbind]; try discriminate.
    destruct (r_out rule) as [rout|]; cbn [rbind]; try discriminate.
    intros [= <-]. eexists. split; [reflexivity|].
    destruct local; [|destruct tag]; reflexivity.
  Qed.

  Lemma sources_pass_objects rules mr flat objdir bn an srcdir combined dh local tag : forall srcs st st',
    fold_left (fun acc source => rbind acc (fun s =>
                 compile_source H EV rules mr flat objdir bn an srcdir combined dh local tag s source)) srcs (Ok st) = Ok st' ->
    exists objs, map (source_object rules mr flat objdir bn an srcdir dh) srcs = map Some objs /\
                 ls_objects st' = ls_objects st ++ objs.
  Proof.
    induction srcs as [|src t IH]; intros st st' HF; cbn [fold_left] in HF.
    - injection HF as <-. exists []. split; [reflexivity|rewrite app_nil_r; reflexivity].
    - cbn [rbind] in HF.
      destruct (compile_source H EV rules mr flat objdir bn an srcdir combined dh local tag st src) as [s1| | |] eqn:Ec;
        try (kill_fold HF t).
      destruct (compile_source_object _ _ _ _ _ _ _ _ _ _ _ _ _ _ Ec) as (obj & Eo & Ho).
      destruct (IH _ _ HF) as (objs & Em & Hs). exists (obj :: objs). split.
      + cbn [map]. rewrite Eo, Em. reflexivity.
      + rewrite Hs, Ho, <- app_assoc. reflexivity.
  Qed.

  (* the per-module rule table: extension -> the rule of the build's table, expanded in the module's env *)
  Definition mr_ok (rules : list (str * rule)) (flat : fenv) (mr : list (str * nrule)) : Prop :=
    forall e nr, alookup e mr = Some nr -> exists rule, alookup e rules = Some rule /\ to_ninja H EV flat rule = Ok nr.

  Lemma rules_pass_mr rules flat : forall srcs mr s mr' s',
    fold_left (fun acc source => rbind acc (fun '(mr, s) =>
                match extension source with
                | None => Err e_missing_ext
                | Some e =>
                    match alookup e rules with
                    | None => Err e_no_rule
                    | Some rule =>
                        rbind (to_ninja H EV flat rule) (fun nr =>
                        Ok (match alookup e mr with Some _ => mr | None => mr ++ [(e, nr)] end,
                            add_entry (SRule nr) s))
                    end
                end)) srcs (Ok (mr, s)) = Ok (mr', s') ->
    mr_ok rules flat mr -> mr_ok rules flat mr' /\ ls_objects s' = ls_objects s.
  Proof.
    induction srcs as [|src t IH]; intros mr s mr' s' HF Hm; cbn [fold_left] in HF.
    - injection HF as <- <-. split; [exact Hm|reflexivity].
    - cbn [rbind] in HF.
      destruct (extension src) as [e|]; [|kill_fold HF t].
      destruct (alookup e rules) as [rule|] eqn:Er; [|kill_fold HF t].
      destruct (to_ninja H EV flat rule) as [nr| | |] eqn:En; cbn [rbind] in HF; try (kill_fold HF t).
      apply IH in HF; [exact HF|].
      intros e' nr' Hl. destruct (alookup e mr) as [old|] eqn:Eo; [exact (Hm e' nr' Hl)|].
      rewrite alookup_snoc in Hl. destruct (alookup e' mr) as [x|] eqn:Ex; [injection Hl as <-; exact (Hm e' x Ex)|].
      destruct (str_eqb e' e) eqn:Ee; [|discriminate]. injection Hl as <-. apply str_eqb_eq in Ee. subst e'.
      exists rule. split; [exact Er|exact En].
  Qed.

  (* what one module contributes to the link line *)
  Definition module_objects (rules : list (str * rule)) (merge_opts : option (list (str * mergeopt)))
             (ms : list module) (objdir bn an : str) (mm : module * env * option (list module)) (objs : list str) : Prop :=
    let '(m, menv, _) := mm in
    match m_srcdir m with
    | None => objs = []                                         (* a context module *)
    | Some srcdir =>
        match m_build m with
        | Some _ => objs = []                                   (* a custom build: its outputs are not linked *)
        | None =>
            exists flat mr dh,
              flatten_with_opts_option merge_opts menv = Ok flat /\ mr_ok rules flat mr /\
              map (source_object rules mr flat objdir bn an srcdir dh) (all_sources m ms) = map Some objs
        end
    end.

  Lemma fold_entries_objects l : forall st, ls_objects (fold_left (fun s e => add_entry e s) l st) = ls_objects st.
  Proof. induction l as [|e t IH]; intros st; cbn [fold_left]; [reflexivity|]. rewrite IH. reflexivity. Qed.

  Lemma step_tail_objects rules merge_opts ms gdeps objdir bn an m menv mdeps srcdir flat s tag s' :
    m_srcdir m = Some srcdir -> flatten_with_opts_option merge_opts menv = Ok flat ->
    step_tail H EV rules ms gdeps objdir bn an m mdeps srcdir flat s tag = Ok s' ->
    exists objs, module_objects rules merge_opts ms objdir bn an (m, menv, mdeps) objs /\ ls_objects s' = ls_objects s ++ objs.
  Proof.
    intros Hsd Hfl. unfold step_tail, module_objects. rewrite Hsd.
    match goal with |- rbind ?X _ = _ -> _ => destruct X as [imported0| | |] end; cbn [rbind]; try discriminate.
    match goal with |- context [match m_build_dep_files m with Some l => add_depfiles (m_name m) l s | None => s end] =>
      set (s1 := match m_build_dep_files m with Some l => add_depfiles (m_name m) l s | None => s end) end.
    assert (O1 : ls_objects s1 = ls_objects s) by (unfold s1; destruct (m_build_dep_files m); reflexivity).
    clearbody s1.
    destruct (m_build m) as [cb|].
    - destruct (expand_eval EV flat PEmpty (intercalate (S_ " && ") (cb_cmd cb))) as [cmd| | |]; cbn [rbind]; try discriminate.
      destruct (rmapM (fun s0 => expand_eval EV flat PEmpty (path_push srcdir s0)) (all_sources m ms)) as [srcs| | |]; cbn [rbind]; try discriminate.
      destruct (rmapM (fun o => expand_eval EV flat PEmpty o) (odflt [] (cb_out cb))) as [outs| | |]; cbn [rbind]; try discriminate.
      intros [= <-]. exists []. split; [reflexivity|]. rewrite app_nil_r. cbn [add_entry add_depfiles ls_objects]. exact O1.
    - match goal with |- rbind ?X _ = _ -> _ => destruct X as [[mr s2]| | |] eqn:E1 end; cbn [rbind]; try discriminate.
      intros HF. destruct (rules_pass_mr _ _ _ _ _ _ _ E1) as [Hmr O2]; [intros e nr Hl; discriminate Hl|].
      destruct (sources_pass_objects _ _ _ _ _ _ _ _ _ _ _ _ _ _ HF) as (objs & Em & Hs).
      exists objs. split; [|rewrite Hs, O2, O1; reflexivity].
      eexists flat, mr, _. split; [exact Hfl|]. split; [exact Hmr|exact Em].
  Qed.

  Lemma module_step_objects rules merge_opts ms gdeps objdir bn an s mm s' :
    module_step H EV rules merge_opts ms gdeps objdir bn an s mm = Ok s' ->
    exists objs, module_objects rules merge_opts ms objdir bn an mm objs /\ ls_objects s' = ls_objects s ++ objs.
  Proof.
    destruct mm as [[m menv] mdeps]. rewrite module_step_unfold.
    destruct (m_srcdir m) as [srcdir|] eqn:Hsd.
    2:{ intros [= <-]. exists []. split; [unfold module_objects; rewrite Hsd; reflexivity|rewrite app_nil_r; reflexivity]. }
    destruct (flatten_with_opts_option merge_opts menv) as [flat| | |] eqn:Hfl; cbn [rbind]; try discriminate.
    match goal with |- rbind ?X _ = _ -> _ => destruct X as [dl_stmts| | |] end; cbn [rbind]; try discriminate.
    cbv zeta.
    destruct (m_download m) as [d|].
    - cbn [rbind]. intros HT. destruct (step_tail_objects _ _ _ _ _ _ _ _ _ _ _ _ _ _ _ Hsd Hfl HT) as (objs & Hm & Ho).
      exists objs. split; [exact Hm|]. rewrite Ho. cbn [add_dldir ls_objects]. rewrite fold_entries_objects. reflexivity.
    - unfold rmap. destruct (expand_eval EV flat PIgnore srcdir) as [sx| | |]; cbn [rbind]; try discriminate.
      intros HT. destruct (step_tail_objects _ _ _ _ _ _ _ _ _ _ _ _ _ _ _ Hsd Hfl HT) as (objs & Hm & Ho).
      exists objs. split; [exact Hm|]. rewrite Ho, fold_entries_objects. reflexivity.
  Qed.

  Lemma loop_objects rules merge_opts ms gdeps objdir bn an : forall l st st',
    fold_left (fun acc mm => rbind acc (fun st0 => module_step H EV rules merge_opts ms gdeps objdir bn an st0 mm)) l (Ok st) = Ok st' ->
    exists objss, Forall2 (module_objects rules merge_opts ms objdir bn an) l objss /\ ls_objects st' = ls_objects st ++ concat objss.
  Proof.
    induction l as [|mm t IH]; intros st st' HF; cbn [fold_left] in HF.
    - injection HF as <-. exists []. split; [constructor|rewrite app_nil_r; reflexivity].
    - cbn [rbind] in HF.
      destruct (module_step H EV rules merge_opts ms gdeps objdir bn an st mm) as [s1| | |] eqn:Es; try (kill_fold HF t).
      destruct (module_step_objects _ _ _ _ _ _ _ _ _ _ Es) as (objs & Hm & Ho).
      destruct (IH _ _ HF) as (objss & HF2 & Hs). exists (objs :: objss). split; [constructor; assumption|].
      rewrite Hs, Ho. cbn [concat]. rewrite <- app_assoc. reflexivity.
  Qed.

  (* The LINK statement of a configured build: its inputs are, module by module in build order, one
     object per source of each module that is compiled by the default rules — and nothing else. *)
  Theorem configured_build_links b le builder binary select disable cli_env info entries :
    configure_build H EV b le builder binary select disable cli_env = Ok (Built info entries) ->
    exists (in_order : list (module * env * option (list module))) merge_opts ms objss lb,
      map (fun mm => m_name (fst (fst mm))) in_order = bi_build_order info /\
      bi_modules info = map m_name ms /\
      Forall2 (module_objects (collect_rules b builder) merge_opts ms (path_push (le_build_dir le) (S_ "objects"))
                              (bi_builder info) (bi_binary info)) in_order objss /\
      In (show_stmt (SBuild lb)) (map show_stmt entries) /\
      nb_inputs lb = Some (concat objss).
  Proof.
    unfold configure_build. intros HC.
    repeat (inv_step HC).
    all: repeat match type of HC with
                | (let '(_, _) := ?p in _) = _ => destruct p
                end; repeat (inv_step HC).
    all: try discriminate.
    match goal with
    | E : rmapM (fun n => opt_unwrap 103 _) _ = Ok ?io |- _ => destruct (find_order_names _ _ _ E) as [Hnames _]; exists io
    end.
    match goal with
    | E : fold_left (fun acc mm => rbind acc (fun st0 => module_step H EV ?rules ?mo ?ms ?gd ?od ?bn ?an st0 mm)) ?l (Ok ?s0) = Ok ?stx |- _ =>
        destruct (loop_objects _ _ _ _ _ _ _ _ _ _ E) as (objss & HF2 & Hobj); exists mo, ms, objss
    end.
    cbn [ls_objects app] in Hobj.
    injection HC as <- <-. cbn [bi_build_order bi_modules bi_builder bi_binary].
    eexists. split; [exact Hnames|]. split; [reflexivity|]. split; [exact HF2|].
    match goal with
    | E : match get_rule (S_ "POST_LINK") ?rs with _ => _ end = Ok (_, _) |- _ =>
        destruct (get_rule (S_ "POST_LINK") rs) as [prule|];
          [destruct (r_out prule); [|discriminate E]; inv_step E; injection E as _ <-|injection E as _ <-]
    end.
    - split; [apply sset_insert_text; left; apply sset_insert_text; left; apply sset_insert_text; right; reflexivity|].
      cbn [nb_inputs]. rewrite Hobj. reflexivity.
    - split; [apply sset_insert_text; right; reflexivity|]. cbn [nb_inputs]. rewrite Hobj. reflexivity.
  Qed.
End Objects.
