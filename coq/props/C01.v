(* C01 — every configured build is closed under its hard dependencies.
   Property theorems only; proofs in proofs/ResolverFacts.v and proofs/GenerateFacts.v. *)
From Coq Require Import Ascii String List NArith.
Import ListNotations.
Require Import Laze.model.Base Laze.model.Env Laze.model.Allow Laze.model.Ninja Laze.model.Ctx
        Laze.model.Resolver Laze.model.Generate Laze.model.Checks Laze.model.Load
        Laze.proofs.ResolverFacts Laze.proofs.GenerateFacts Laze.proofs.ResolverTotal Laze.proofs.LoadKeys Laze.proofs.LoadProvides Laze.proofs.LoadStored.
Open Scope list_scope.

(* The resolver, for every lookup function, provider map, disabled set, fuel and app: if it
   succeeds, the app is selected and every selected module has each Hard dependency satisfied
   (a selected module of that name, or a selected provider), and each IfThenHard dependency
   satisfied whenever its condition module is selected.  Side conditions: names resolve to
   modules of that name; listed providers provide; the app's name is not shadowed by a module
   with different provides (the app is selected directly, not through lookup). *)
Theorem C01_resolver_closure :
  forall (lookup : str -> option module) (provs : str -> option (list str)),
  (forall n m, lookup n = Some m -> m_name m = n) ->
  (forall n ps p, provs n = Some ps -> In p ps -> exists mp, lookup p = Some mp /\ In n (provides_of mp)) ->
  forall app, (forall a0, lookup (m_name app) = Some a0 -> provides_of a0 = provides_of app) ->
  forall f d0 st',
    resolve_deep lookup provs f (init_state d0) app = Ok st' ->
    In app (sel st') /\
    forall x, In x (sel st') -> forall d, In d (m_selects x) -> closed_dep st' d.
Proof. exact closure. Qed.
Print Assumptions C01_resolver_closure.

(* ... and for a configured build of the generator: the modules it reports are the resolver's,
   the app carries  CLI selects ++ its own ++ [Hard context::<builder>]  and the set is closed.
   The three boolean side conditions are decidable properties of the loaded project. *)
Theorem C01_closure :
  forall H EV b le builder binary select disable cli_env info entries,
  keys_okb b = true -> prov_okb b builder = true -> app_okb b builder binary = true ->
  configure_build H EV b le builder binary select disable cli_env = Ok (Built info entries) ->
  exists rst app',
    bi_modules info = map m_name (sel rst) /\
    m_name app' = m_name binary /\
    m_selects app' = select ++ m_selects binary ++ [Hard (ctx_module_name (bi_builder info))] /\
    In app' (sel rst) /\
    forall x, In x (sel rst) -> forall d, In d (m_selects x) -> closed_dep rst d.
Proof. exact configured_build_closed. Qed.
Print Assumptions C01_closure.

(* the executable closure check used on the implementation's output is the same predicate *)
Theorem C01_checker_spec : forall st,
  closedb (sel st) = true <->
  forall x, In x (sel st) -> forall d, In d (m_selects x) -> closed_dep st d.
Proof. exact closedb_spec. Qed.
Print Assumptions C01_checker_spec.

(* a build is configured only after the allow/block test and the ancestry test passed, and only
   if the resolver succeeded (C11's "only if the app's context is the builder or an ancestor") *)
Theorem C01_configured_only_if : forall H EV b le builder binary select disable cli_env info entries,
  configure_build H EV b le builder binary select disable cli_env = Ok (Built info entries) ->
  exists bctx ba bin_ctx anc rst,
    bag_get b builder = Some bctx /\
    is_allowed (bag_tree b) builder (m_blocklist binary) (m_allowlist binary) = Ok ba /\ allowed_bool ba = true /\
    m_context_id binary = Some bin_ctx /\
    is_ancestor (tree_fuel (bag_tree b)) (bag_tree b) bin_ctx builder 0 = Ok (Some anc) /\
    resolve_build b builder (c_name bctx) binary select
      (fold_left (fun a x => iset_insert x a) disable (collect_disabled b builder)) = Ok rst /\
    bi_modules info = map m_name (sel rst) /\
    bi_builder info = c_name bctx /\ bi_binary info = m_name binary.
Proof. exact configure_build_inv. Qed.
Print Assumptions C01_configured_only_if.

(* The resolver terminates within its fuel (it never answers Fuel): along one path of the recursion
   every module that is entered is a new name among the modules of the bag, so the depth is bounded
   by their number; rollbacks do not add depth.  For every bag whose module keys are their names
   (what the loader builds), every builder, every binary of the bag, every command line. *)
Theorem C01_resolver_terminates : forall b builder bname binary cli_selects disabled0,
  keys_okb b = true -> In (m_name binary) (map m_name (all_modules b)) ->
  resolve_build b builder bname binary cli_selects disabled0 <> Fuel.
Proof. exact resolve_build_terminates. Qed.
Print Assumptions C01_resolver_terminates.

(* ... and for every bag that comes out of the loader no side condition is left: the loader stores
   every module under its own name (load_keys_ok) *)
Theorem C01_resolver_terminates_loaded : forall t pf bd b builder bname binary cli_selects disabled0,
  load t pf bd = Ok b -> In binary (all_modules b) ->
  resolve_build b builder bname binary cli_selects disabled0 <> Fuel.
Proof. exact resolver_terminates_loaded. Qed.
Print Assumptions C01_resolver_terminates_loaded.

Theorem C01_loaded_keys_ok : forall t pf bd b, load t pf bd = Ok b -> keys_okb b = true.
Proof. exact load_keys_ok. Qed.
Print Assumptions C01_loaded_keys_ok.

(* The provider maps of a loaded bag are sound for every builder (what a context lists as a provider
   of a name resolves, seen from that context, to a module providing the name): prov_okb is derived
   from load too, through the parents-first merge of the provider maps with shadowing. *)
Theorem C01_loaded_prov_ok : forall t pf bd b, load t pf bd = Ok b -> forall builder, prov_okb b builder = true.
Proof. exact load_prov_ok. Qed.
Print Assumptions C01_loaded_prov_ok.

(* C01_closure for every project that loads: the only side condition left is about the app itself *)
Theorem C01_closure_loaded :
  forall H EV t pf bd b le builder binary select disable cli_env info entries,
  load t pf bd = Ok b -> app_okb b builder binary = true ->
  configure_build H EV b le builder binary select disable cli_env = Ok (Built info entries) ->
  exists rst app',
    bi_modules info = map m_name (sel rst) /\
    m_name app' = m_name binary /\
    m_selects app' = select ++ m_selects binary ++ [Hard (ctx_module_name (bi_builder info))] /\
    In app' (sel rst) /\
    forall x, In x (sel rst) -> forall d, In d (m_selects x) -> closed_dep rst d.
Proof. exact configured_build_closed_loaded. Qed.
Print Assumptions C01_closure_loaded.

(* No side condition left: for every project that loads and every build that a generation of it
   reports — whatever the selection, partition, --select, --disable and -D — the reported module list
   is the resolver's, contains the app, and is closed under hard dependencies. (After fix 94ae0f6 an
   app shadowed for a builder by a nearer definition of its name is not built; what a builder resolves
   an unshadowed app's name to IS the app: proofs/LoadStored.v.) *)
Theorem C01_generated_builds_closed :
  forall H EV t pf bd b le bsel asel local part select disable cli_env g,
  load t pf bd = Ok b ->
  generate H EV b le bsel asel local part select disable cli_env = Ok g ->
  forall info, In info (gr_builds g) ->
  exists rst app',
    bi_modules info = map m_name (sel rst) /\
    m_name app' = bi_binary info /\
    In app' (sel rst) /\
    forall x, In x (sel rst) -> forall d, In d (m_selects x) -> closed_dep rst d.
Proof. exact generated_builds_closed. Qed.
Print Assumptions C01_generated_builds_closed.

(* the side condition app_okb holds for every configured build of a loaded project's app *)
Theorem C01_app_ok_loaded : forall H EV t pf bd b le builder binary select disable cli_env info entries,
  load t pf bd = Ok b -> In binary (all_modules b) -> m_is_binary binary = true ->
  configure_build H EV b le builder binary select disable cli_env = Ok (Built info entries) ->
  app_okb b builder binary = true.
Proof. exact configured_app_ok. Qed.
Print Assumptions C01_app_ok_loaded.

(* a configured build is never a shadowed app; an unshadowed app of a loaded project is what its
   builder resolves the app's name to *)
Theorem C01_unshadowed_is_resolved : forall t pf bd b builder binary,
  load t pf bd = Ok b -> In binary (all_modules b) -> m_is_binary binary = true ->
  shadowed b builder binary = false ->
  forall seen, resolve_module b builder (m_name binary) = Some seen -> seen = binary.
Proof. exact unshadowed_is_resolved. Qed.
Print Assumptions C01_unshadowed_is_resolved.
