(* C03 — each build compiles and links exactly the sources of its selected modules.
   Theorems on the mechanisms (sources by guard, nearest rule, build order); the composition
   into the emitted LINK statement is exercised by the byte-exact correspondence.
   Proofs: proofs/StmtFacts.v, proofs/OrderFacts.v. *)
From Coq Require Import Ascii String List NArith.
Import ListNotations.
Require Import Laze.model.Base Laze.model.Env Laze.model.Allow Laze.model.Ninja Laze.model.Ctx
        Laze.model.Resolver Laze.model.Imports Laze.model.Generate
        Laze.proofs.StmtFacts Laze.proofs.OrderFacts.
Open Scope list_scope.

(* the sources of a module in a build: its plain sources, then the optional ones whose guarding
   module is selected -- and no others *)
Theorem C03_sources : forall m ms s,
  In s (all_sources m ms) <->
  In s (m_sources m) \/
  exists g l, In (g, l) (odflt [] (m_sources_optional m)) /\ In g (map m_name ms) /\ In s l.
Proof.
  intros m ms s. rewrite all_sources_spec, optional_sources_spec. split.
  - intros [H|(g & l & H1 & H2 & H3)]; [left; exact H|]. right. exists g, l. rewrite <- find_sel_selected. auto.
  - intros [H|(g & l & H1 & H2 & H3)]; [left; exact H|]. right. exists g, l. rewrite find_sel_selected. auto.
Qed.
Print Assumptions C03_sources.

(* the rule for an input extension is taken from the context nearest to the builder that
   defines one (within a context the later definition wins) *)
Theorem C03_nearest_rule : forall b builder k,
  alookup k (collect_rules b builder) = first_rule k (ctxs_of b (chain b builder)).
Proof. exact nearest_rule. Qed.
Print Assumptions C03_nearest_rule.

(* the build order is a duplicate-free order of the nodes in which every (build) dependency
   precedes its user; the root depends on every module, so every module is in it *)
Theorem C03_order : forall g target res,
  dependencies_of g target = Some res -> NoDup res /\ topo g res /\ In target res.
Proof. exact dependencies_of_ok. Qed.
Print Assumptions C03_order.

Theorem C03_order_covers : forall g target res d,
  dependencies_of g target = Some res -> In d (gdeps g target) -> In d res.
Proof. exact dependencies_of_covers. Qed.
Print Assumptions C03_order_covers.

(* solvent's documented example: b->d; a->b,c,d; c->e gives d b e c a *)
Definition gex := fold_left (fun g nd => g_register_dependency g (fst nd) (snd nd))
  [(S_ "b", S_ "d"); (S_ "a", S_ "b"); (S_ "a", S_ "c"); (S_ "a", S_ "d"); (S_ "c", S_ "e")] g_empty.
Example C03_ex_order : dependencies_of gex (S_ "a") = Some [S_ "d"; S_ "b"; S_ "e"; S_ "c"; S_ "a"].
Proof. vm_compute. reflexivity. Qed.
