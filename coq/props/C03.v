(* C03 — each build compiles and links exactly the sources of its selected modules.
   Theorems on the mechanisms (sources by guard, nearest rule, build order) and their composition
   into the emitted LINK statement (C03_link_consumes_sources, proofs/LinkObjects.v).
   Proofs: proofs/StmtFacts.v, proofs/OrderFacts.v, proofs/LinkObjects.v. *)
From Coq Require Import Ascii String List NArith.
Import ListNotations.
Require Import Laze.model.Base Laze.model.Env Laze.model.Allow Laze.model.Ninja Laze.model.Ctx
        Laze.model.Resolver Laze.model.Imports Laze.model.Generate
        Laze.model.Path Laze.model.Expand Laze.proofs.StmtFacts Laze.proofs.OrderFacts Laze.proofs.LinkObjects.
Open Scope list_scope.

(* the sources of a module in a build: its plain sources, then the optional ones whose guarding
   module is selected -- and no others *)
Theorem C03_sources : forall m ms s,
  In s (all_sources m ms) <->
  In s (m_sources m) \/
  exists g l, In (g, l) (odflt [] (m_sources_optional m)) /\ In g (map m_name ms) /\ In s l.
Proof.
  intros m ms s. rewrite all_sources_spec, optional_sources_spec. split.
  - intros [H|(g & l & H1 & H2 & H3)]; [left; exact H|]. right. exists g, l. rewrite <- find_sel_selected. auto.
  - intros [H|(g & l & H1 & H2 & H3)]; [left; exact H|]. right. exists g, l. rewrite find_sel_selected. auto.
Qed.
Print Assumptions C03_sources.

(* the rule for an input extension is taken from the context nearest to the builder that
   defines one (within a context the later definition wins) *)
Theorem C03_nearest_rule : forall b builder k,
  alookup k (collect_rules b builder) = first_rule k (ctxs_of b (chain b builder)).
Proof. exact nearest_rule. Qed.
Print Assumptions C03_nearest_rule.

(* the build order is a duplicate-free order of the nodes in which every (build) dependency
   precedes its user; the root depends on every module, so every module is in it *)
Theorem C03_order : forall g target res,
  dependencies_of g target = Some res -> NoDup res /\ topo g res /\ In target res.
Proof. exact dependencies_of_ok. Qed.
Print Assumptions C03_order.

Theorem C03_order_covers : forall g target res d,
  dependencies_of g target = Some res -> In d (gdeps g target) -> In d res.
Proof. exact dependencies_of_covers. Qed.
Print Assumptions C03_order_covers.

(* solvent's documented example: b->d; a->b,c,d; c->e gives d b e c a *)
Definition gex := fold_left (fun g nd => g_register_dependency g (fst nd) (snd nd))
  [(S_ "b", S_ "d"); (S_ "a", S_ "b"); (S_ "a", S_ "c"); (S_ "a", S_ "d"); (S_ "c", S_ "e")] g_empty.
Example C03_ex_order : dependencies_of gex (S_ "a") = Some [S_ "d"; S_ "b"; S_ "e"; S_ "c"; S_ "a"].
Proof. vm_compute. reflexivity. Qed.

(* The composition: in the statements of a configured build there is the LINK statement whose inputs
   are, module by module in the build order of the build info, ONE object per source of each module
   compiled by the default rules (context modules and custom builds contribute none) — and nothing
   else. The object of a source (source_object): the source path expanded in the module's environment,
   the rule that the build's rule table — the nearest context on the builder's chain that has a rule
   for the extension, C03_nearest_rule — holds for it, expanded in the module's environment, and the
   object path made from (source path, hash of that rule text xor hash of the order-only deps, the
   rule's output extension). *)
Theorem C03_link_consumes_sources : forall H EV b le builder binary select disable cli_env info entries,
  configure_build H EV b le builder binary select disable cli_env = Ok (Built info entries) ->
  exists (in_order : list (module * env * option (list module))) merge_opts ms objss lb,
    map (fun mm => m_name (fst (fst mm))) in_order = bi_build_order info /\
    bi_modules info = map m_name ms /\
    Forall2 (module_objects H EV (collect_rules b builder) merge_opts ms (path_push (le_build_dir le) (S_ "objects"))
                            (bi_builder info) (bi_binary info)) in_order objss /\
    In (show_stmt (SBuild lb)) (map show_stmt entries) /\
    nb_inputs lb = Some (concat objss).
Proof. exact configured_build_links. Qed.
Print Assumptions C03_link_consumes_sources.

(* what module_objects says, spelled out for a module compiled by the default rules: as many
   objects as sources, the i-th object is the object of the i-th source *)
Theorem C03_one_object_per_source : forall H EV rules merge_opts ms objdir bn an m menv mdeps srcdir objs,
  module_objects H EV rules merge_opts ms objdir bn an (m, menv, mdeps) objs ->
  m_srcdir m = Some srcdir -> m_build m = None ->
  exists flat mr dh,
    flatten_with_opts_option merge_opts menv = Ok flat /\
    (forall e nr, alookup e mr = Some nr -> exists rule, alookup e rules = Some rule /\ to_ninja H EV flat rule = Ok nr) /\
    length objs = length (all_sources m ms) /\
    forall i source, nth_error (all_sources m ms) i = Some source ->
      exists obj, nth_error objs i = Some obj /\ source_object H EV rules mr flat objdir bn an srcdir dh source = Some obj.
Proof.
  intros H EV rules merge_opts ms objdir bn an m menv mdeps srcdir objs HM Hsd Hb.
  unfold module_objects in HM. rewrite Hsd, Hb in HM. destruct HM as (flat & mr & dh & Hf & Hmr & Hmap).
  exists flat, mr, dh. split; [exact Hf|]. split; [exact Hmr|]. split.
  - rewrite <- (map_length Some objs), <- Hmap, map_length. reflexivity.
  - intros i source Hn.
    assert (E : nth_error (map (source_object H EV rules mr flat objdir bn an srcdir dh) (all_sources m ms)) i
                = Some (source_object H EV rules mr flat objdir bn an srcdir dh source)) by (apply map_nth_error, Hn).
    rewrite Hmap in E. rewrite nth_error_map in E. destruct (nth_error objs i) as [obj|]; [|discriminate E].
    cbn in E. injection E as E. exists obj. split; [reflexivity|symmetry; exact E].
Qed.
Print Assumptions C03_one_object_per_source.
