(* C20 — command-line selections equal their in-file spelling.
   Proofs: proofs/LayerFacts.v, proofs/GenerateFacts.v. The LAZE_* environment spellings and the
   comma splitting are clap's (not modelled; exercised by the check). *)
From Coq Require Import Ascii String List NArith.
Import ListNotations.
Require Import Laze.model.Base Laze.model.Env Laze.model.Allow Laze.model.Ninja Laze.model.Ctx
        Laze.model.Resolver Laze.proofs.EnvFacts Laze.proofs.LayerFacts Laze.proofs.GenerateFacts.
Open Scope list_scope.

(* --select X: the app as the resolver sees it is the app with X written in front of its selects *)
Theorem C20_select : forall bin bn X,
  build_binary bin bn X = build_binary (with_selects bin (X ++ m_selects bin)) bn [].
Proof. exact select_in_front. Qed.
Print Assumptions C20_select.

(* ... and therefore everything laze derives for that build — refusal, resolved modules, statements, output file,
   tasks — is what it derives, with no --select, for the app with X written in front of its selects *)
Require Import Laze.model.Imports Laze.model.Generate Laze.proofs.SelectFront.
Theorem C20_select_configures_same : forall H EV b le builder bin X disable cli,
  configure_build H EV b le builder bin X disable cli =
  configure_build H EV b le builder (with_selects bin (X ++ m_selects bin)) [] disable cli.
Proof. exact configure_select_in_front. Qed.
Print Assumptions C20_select_configures_same.

(* --disable Y: the disabled set of a build is the context chain's disables plus Y *)
Theorem C20_disable : forall b builder disable y,
  In y (fold_left (fun a x => iset_insert x a) disable (collect_disabled b builder)) <->
  In y (collect_disabled b builder) \/ In y disable.
Proof. exact disabled0_In. Qed.
Print Assumptions C20_disable.

(* -D V: the -D layer comes last; merging it into the app's global env (the last module layer)
   first gives the same value for every variable where merging is associative, i.e. unless the
   layers below yield a list, the app holds a single value and the assignment is += *)
Theorem C20_define : forall acc (layers : list (option envkey)) g c,
  ~ (is_list (fold_left merge_opt layers acc) = true /\ is_single g = true /\ is_list c = true) ->
  fold_left merge_opt (layers ++ [g] ++ [c]) acc = fold_left merge_opt (layers ++ [merge_opt g c]) acc.
Proof. exact define_as_last_layer. Qed.
Print Assumptions C20_define.

(* the excluded combination is a real difference (merging is not associative): the boundary of
   the property as stated *)
Theorem C20_define_boundary :
  merge_opt (merge_opt (Some (EList [S_ "ctx"])) (Some (Single (S_ "app")))) (Some (EList [S_ "cli"]))
  <> merge_opt (Some (EList [S_ "ctx"])) (merge_opt (Some (Single (S_ "app"))) (Some (EList [S_ "cli"]))).
Proof. exact define_not_associative. Qed.
Print Assumptions C20_define_boundary.

(* The boundary of C20_select (open finding K20:cli-select-of-removed-name): the theorem is about the app AS LOADED.
   An app that removes X in-file has lost the X of the in-file spelling when it is loaded — removals are applied by
   the loader, per module — while the command-line X is put in front of the loaded list afterwards: *)
Require Import Laze.model.Load.
Example C20_select_of_removed_name :
  process_removes [Hard (S_ "x"); Hard (S_ "-x"); Hard (S_ "y")] = [Hard (S_ "y")] /\
  m_selects (build_binary (with_selects (module_new (S_ "app") None) (process_removes [Hard (S_ "-x"); Hard (S_ "y")])) (S_ "b0") [Hard (S_ "x")])
  = [Hard (S_ "x"); Hard (S_ "y"); Hard (ctx_module_name (S_ "b0"))].
Proof. vm_compute. split; reflexivity. Qed.
