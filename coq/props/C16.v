(* C16 — tasks are offered and executed only where their requirements hold.
   Proofs: proofs/TasksFacts.v. Process spawning, signals and workdir are abstracted by the
   oracles ninja_ok / task_ok. *)
From Coq Require Import Ascii String List NArith Arith Bool.
Import ListNotations.
Require Import Laze.model.Base Laze.model.Env Laze.model.Ninja Laze.model.Ctx Laze.model.Resolver
        Laze.model.Imports Laze.model.Generate Laze.model.Tasks Laze.proofs.TasksFacts.
Open Scope list_scope.

(* runnable iff required_vars are set in the build's environment and required_modules selected *)
Theorem C16_runnable_iff : forall (EV : str -> evr) flat ms t,
  task_check flat ms t = None <->
  (forall v, In v (odflt [] (t_required_vars t)) -> alookup v flat <> None) /\
  (forall n, In n (odflt [] (t_required_modules t)) -> In n (map m_name ms)).
Proof. exact task_check_spec. Qed.
Print Assumptions C16_runnable_iff.

(* selection, refusal, build-first, and which tasks run *)
Theorem C16_selection : forall ninja_ok task_ok builds file c name,
  mc_task c = Some name ->
  let matching := filter (fun b => selected_build c b &&
                                   match task_of_build name b with Some _ => true | None => false end) builds in
  let runnable := filter (fun b => match task_of_build name b with Some (inl _) => true | _ => false end) matching in
  let o := main_after_generate ninja_ok task_ok builds file c in
  (runnable = [] -> o_actions o = [] /\ o_exit o = 1) /\
  (runnable <> [] -> 1 < length matching -> mc_multiple c = false -> o_actions o = [] /\ o_exit o = 1) /\
  (forall b a, In (ATask b a) (o_actions o) -> exists bi, In bi runnable /\ bi_builder bi = b /\ bi_binary bi = a) /\
  (forall argv, In (ANinja argv) (o_actions o) -> mc_generate_only c = false /\
      exists acts, o_actions o = ANinja argv :: acts /\ forall x, In x acts -> exists b a, x = ATask b a).
Proof. exact task_run. Qed.
Print Assumptions C16_selection.

(* keep-going: the executed tasks are a prefix of the runnable matches in order; the error count is
   the number of failing executed tasks; execution stops exactly at the keep_going-th failure *)
Theorem C16_keep_going : forall task_ok kg targets e acts e',
  run_tasks task_ok kg targets e = (acts, e') ->
  exists n, acts = map act_of (firstn n targets) /\
            e' = e + length (filter (failing task_ok) (firstn n targets)) /\
            (n < length targets -> 0 < kg /\ kg <= e' /\
               exists last, nth_error targets (n - 1) = Some last /\ failing task_ok last = true /\ 0 < n).
Proof. exact run_tasks_spec. Qed.
Print Assumptions C16_keep_going.

Theorem C16_keep_going_zero : forall task_ok targets e,
  fst (run_tasks task_ok 0 targets e) = map act_of targets.
Proof. exact run_tasks_all. Qed.
Print Assumptions C16_keep_going_zero.
