(* C16 — tasks are offered and executed only where their requirements hold.
   Proofs: proofs/TasksFacts.v, proofs/TasksMore.v. Process spawning, signals and workdir are abstracted by the
   oracles ninja_ok / task_ok. *)
From Coq Require Import Ascii String List NArith Arith Bool.
Import ListNotations.
Require Import Laze.model.Base Laze.model.Env Laze.model.Ninja Laze.model.Ctx Laze.model.Resolver
        Laze.model.Imports Laze.model.Generate Laze.model.Tasks Laze.model.Expand Laze.model.Allow Laze.proofs.TasksFacts Laze.proofs.TasksMore Laze.proofs.TaskEnv.
Open Scope list_scope.

(* runnable iff required_vars are set in the build's environment and required_modules selected *)
Theorem C16_runnable_iff : forall (EV : str -> evr) flat ms t,
  task_check flat ms t = None <->
  (forall v, In v (odflt [] (t_required_vars t)) -> alookup v flat <> None) /\
  (forall n, In n (odflt [] (t_required_modules t)) -> In n (map m_name ms)).
Proof. exact task_check_spec. Qed.
Print Assumptions C16_runnable_iff.

(* selection, refusal, build-first, and which tasks run *)
Theorem C16_selection : forall ninja_ok task_ok builds file c name,
  mc_task c = Some name ->
  let matching := filter (fun b => selected_build c b &&
                                   match task_of_build name b with Some _ => true | None => false end) builds in
  let runnable := filter (fun b => match task_of_build name b with Some (inl _) => true | _ => false end) matching in
  let o := main_after_generate ninja_ok task_ok builds file c in
  (runnable = [] -> o_actions o = [] /\ o_exit o = 1) /\
  (runnable <> [] -> 1 < length matching -> mc_multiple c = false -> o_actions o = [] /\ o_exit o = 1) /\
  (forall b a, In (ATask b a) (o_actions o) -> exists bi, In bi runnable /\ bi_builder bi = b /\ bi_binary bi = a) /\
  (forall argv, In (ANinja argv) (o_actions o) -> mc_generate_only c = false /\
      exists acts, o_actions o = ANinja argv :: acts /\ forall x, In x acts -> exists b a, x = ATask b a).
Proof. exact task_run. Qed.
Print Assumptions C16_selection.

(* keep-going: the executed tasks are a prefix of the runnable matches in order; the error count is
   the number of failing executed tasks; execution stops exactly at the keep_going-th failure *)
Theorem C16_keep_going : forall task_ok kg targets e acts e',
  run_tasks task_ok kg targets e = (acts, e') ->
  exists n, acts = map act_of (firstn n targets) /\
            e' = e + length (filter (failing task_ok) (firstn n targets)) /\
            (n < length targets -> 0 < kg /\ kg <= e' /\
               exists last, nth_error targets (n - 1) = Some last /\ failing task_ok last = true /\ 0 < n).
Proof. exact run_tasks_spec. Qed.
Print Assumptions C16_keep_going.

Theorem C16_keep_going_zero : forall task_ok targets e,
  fst (run_tasks task_ok 0 targets e) = map act_of targets.
Proof. exact run_tasks_all. Qed.
Print Assumptions C16_keep_going_zero.

(* the app is built first unless `build: false`: ninja is invoked only when some runnable build's task
   wants its app built and -G was not given, with exactly the outputs of those builds as targets
   (-j/-v passed through, ninja's own keep-going left alone); it comes before every task; if it
   fails, no task runs and the exit status is 1 *)
Theorem C16_build_first : forall ninja_ok task_ok builds file c name,
  mc_task c = Some name ->
  let o := main_after_generate ninja_ok task_ok builds file c in
  let argv := task_argv builds file c name in
  (forall a, In (ANinja a) (o_actions o) -> a = argv /\ prebuild_targets builds c name <> [] /\ mc_generate_only c = false) /\
  (runnable_of builds c name <> [] -> (length (matching_of builds c name) <= 1 \/ mc_multiple c = true) ->
   prebuild_targets builds c name <> [] -> mc_generate_only c = false ->
   exists acts, o_actions o = ANinja argv :: acts /\ (ninja_ok argv = false -> acts = [] /\ o_exit o = 1)).
Proof. exact task_build_first. Qed.
Print Assumptions C16_build_first.

(* laze exits non-zero iff a build or a task failed (or nothing could be run): the exit status is 0
   or 1, and it is 0 exactly when there is a runnable match, no refusal for lack of
   --multiple-tasks, every ninja invocation succeeded and every executed task succeeded *)
Theorem C16_exit_status : forall ninja_ok task_ok builds file c name,
  mc_task c = Some name ->
  let o := main_after_generate ninja_ok task_ok builds file c in
  (o_exit o = 0 \/ o_exit o = 1) /\
  (o_exit o = 0 <->
     runnable_of builds c name <> [] /\
     (length (matching_of builds c name) <= 1 \/ mc_multiple c = true) /\
     (forall a, In (ANinja a) (o_actions o) -> ninja_ok a = true) /\
     (forall b a, In (ATask b a) (o_actions o) -> task_ok b a = true)).
Proof. exact task_exit_status. Qed.
Print Assumptions C16_exit_status.

(* the task's commands see the build's variables and exports: every task a configured build offers is a
   declaration of a context on the builder's chain or of a selected module; a runnable one is that
   declaration with its commands, exports and workdir expanded in the BUILD's flattened global
   environment plus ${out} = the build's output file; an unrunnable one carries the failed requirement *)
Theorem C16_task_sees_build_env : forall H EV b le builder binary select disable cli_env info entries,
  configure_build H EV b le builder binary select disable cli_env = Ok (Built info entries) ->
  exists bctx relpath rst gflat,
    bag_get b builder = Some bctx /\ m_relpath binary = Some relpath /\
    bi_modules info = map m_name (sel rst) /\
    flatten_with_opts_option (c_var_options bctx)
      (global_env b le builder bctx binary (sel rst) relpath cli_env) = Ok gflat /\
    forall name v, alookup name (bi_tasks info) = Some v ->
      exists t0, task_source b builder (sel rst) name t0 /\
        match v with
        | inl t' => task_check (ainsert (S_ "out") (bi_out info) gflat) (sel rst) t0 = None /\
                    task_eval EV (ainsert (S_ "out") (bi_out info) gflat) t0 = Ok t'
        | inr e => task_check (ainsert (S_ "out") (bi_out info) gflat) (sel rst) t0 = Some e
        end.
Proof. exact configured_build_tasks. Qed.
Print Assumptions C16_task_sees_build_env.

Theorem C16_task_eval_spec : forall EV flat t t', task_eval EV flat t = Ok t' ->
  rmapM (expand_eval EV flat PEmpty) (t_cmd t) = Ok (t_cmd t') /\
  match t_export t with
  | Some l => exists l', rmapM (apply_export EV flat) l = Ok l' /\ t_export t' = Some l'
  | None => t_export t' = None end /\
  match t_workdir t with
  | Some w => exists w', expand_eval EV flat PEmpty w = Ok w' /\ t_workdir t' = Some w'
  | None => t_workdir t' = None end /\
  t_build t' = t_build t /\ t_required_vars t' = t_required_vars t /\ t_required_modules t' = t_required_modules t.
Proof. exact task_eval_spec. Qed.
Print Assumptions C16_task_eval_spec.

(* WHICH declaration of a task name a build offers (proofs/TaskNearest.v). collect_tasks inserts, for the contexts of
   the builder's chain from the root down to the builder, the context's tasks and then the tasks of all selected
   modules; the LAST declaration of a name in that sequence decides — with its command, its requirements and its
   build: flag: *)
Require Import Laze.proofs.TaskNearest.
Theorem C16_last_declaration_wins : forall EV b builder flat ms tasks n,
  collect_tasks EV b builder flat ms = Ok tasks ->
  match decl_of n (task_seq (ctxs_of b (parents_root_first b builder)) ms) with
  | Some nt => exists r, task_result EV flat ms (snd nt) = Ok r /\ alookup n tasks = Some r
  | None => alookup n tasks = None
  end.
Proof. exact collect_tasks_last_wins. Qed.
Print Assumptions C16_last_declaration_wins.

(* ... so, when no selected module declares the name, the context NEAREST to the builder that declares it decides
   (contexts further up — `pre` — do not matter), *)
Theorem C16_nearest_context_wins : forall (pre post : list context) (c : context) ms n,
  declares n (flat_map m_tasks ms) = false ->
  (forall c', In c' post -> declares n (odflt [] (c_tasks c')) = false) ->
  declares n (odflt [] (c_tasks c)) = true ->
  decl_of n (task_seq (pre ++ c :: post) ms) = decl_of n (odflt [] (c_tasks c)).
Proof. exact nearest_context_wins. Qed.
Print Assumptions C16_nearest_context_wins.

(* ... and a selected module's declaration beats every context's. *)
Theorem C16_module_task_beats_contexts : forall (pre : list context) (c : context) ms n,
  declares n (flat_map m_tasks ms) = true ->
  decl_of n (task_seq (pre ++ [c]) ms) = decl_of n (flat_map m_tasks ms).
Proof. exact module_task_beats_contexts. Qed.
Print Assumptions C16_module_task_beats_contexts.
