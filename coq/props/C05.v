(* C05 — local and exported variables do not leak beyond their scope.
   Proofs: proofs/FrameFacts.v (environments), proofs/StepFrame.v (statements). *)
From Coq Require Import Ascii String List NArith.
Import ListNotations.
Require Import Laze.model.Base Laze.model.Env Laze.model.Allow Laze.model.Ninja Laze.model.Ctx
        Laze.model.Resolver Laze.model.Imports Laze.model.Generate
        Laze.proofs.FrameFacts Laze.proofs.DownloadOrder Laze.proofs.StepFrame.
Open Scope list_scope.

(* A module's environment (what its compile commands see) is computed from the build's global
   env, the exported envs/defines of exactly the modules in its import closure, its notify_all
   flag, and its own local env. No other module's local or exported env occurs in it. *)
Theorem C05_module_env_depends_on : forall genv ms provs self,
  rmap fst (build_env genv ms provs self) =
  env_of_views genv (m_notify_all self)
               (map module_define (filter (fun d => negb (is_context_module d)) ms))
               (m_env_local self)
               (map (import_view self) (imports_postorder ms provs self)).
Proof. exact build_env_is_env_of_views. Qed.
Print Assumptions C05_module_env_depends_on.

(* hence: editing the local env of M, or the exported env of an M outside X's import closure,
   leaves X's environment (and with it X's rule text, rule name and object paths) unchanged *)
Theorem C05_frame : forall genv ms provs self ms' provs' self',
  map (import_view self) (imports_postorder ms provs self) =
  map (import_view self') (imports_postorder ms' provs' self') ->
  m_notify_all self = m_notify_all self' ->
  map module_define (filter (fun d => negb (is_context_module d)) ms) =
  map module_define (filter (fun d => negb (is_context_module d)) ms') ->
  m_env_local self = m_env_local self' ->
  rmap fst (build_env genv ms provs self) = rmap fst (build_env genv ms' provs' self').
Proof. exact module_env_frame. Qed.
Print Assumptions C05_frame.

(* "its import closure" is exactly: the selected modules reachable from X through active imports (uses / depends,
   providers included) — so M's exported env takes part in X's environment iff X uses or depends on M, directly or
   transitively (proofs/ImportsClosure.v, ImportsBuild.v; import cycles included) *)
Require Laze.proofs.ImportsClosure.
Require Import Laze.model.Load Laze.proofs.ImportsBuild.
Theorem C05_exports_reach_exactly_the_importers :
  forall t pf bd b, load t pf bd = Ok b ->
  forall builder bname binary cli_selects disabled0 rst, In binary (all_modules b) ->
  resolve_build b builder bname binary cli_selects disabled0 = Ok rst ->
  forall X M, In X (sel rst) ->
  (In M (imports_postorder (sel rst) (provby rst) X) <-> ImportsClosure.reach (sel rst) (provby rst) X M).
Proof. exact build_imports_are_reachable. Qed.
Print Assumptions C05_exports_reach_exactly_the_importers.

(* The two clauses of the property, for environments, with M' in the place of M (same name, context, imports and
   flags; the env may differ) in a selection with pairwise different names whose recorded providers are selected
   (what the resolver delivers: ImportsBuild.v) — proofs/ExportFrame.v:
   (1) a LOCAL edit of M (its exports stay) changes the environment of no other module; *)
Require Import Laze.proofs.ExportFrame.
Theorem C05_local_edit_changes_only_the_module :
  forall ms provs, (forall n y, In y (get_list n provs) -> In y ms) -> NoDup (map m_name ms) ->
  forall M M', In M ms -> m_name M' = m_name M -> m_context_name M' = m_context_name M ->
  m_imports M' = m_imports M -> m_is_build_dep M' = m_is_build_dep M -> m_notify_all M' = m_notify_all M ->
  forall genv X, m_env_export M' = m_env_export M -> In X ms -> m_name X <> m_name M ->
  rmap fst (build_env genv (map (edit M M') ms) (map_provs (edit M M') provs) X) = rmap fst (build_env genv ms provs X).
Proof. exact local_edit_changes_only_the_module. Qed.
Print Assumptions C05_local_edit_changes_only_the_module.

(* (2) an edit of M's EXPORTED env changes the environment of X only if X reaches M through active imports: only M and
   the modules that use or depend on it, directly or transitively. *)
Theorem C05_export_edit_changes_only_importers :
  forall ms provs, (forall n y, In y (get_list n provs) -> In y ms) -> NoDup (map m_name ms) ->
  forall M M', In M ms -> m_name M' = m_name M -> m_context_name M' = m_context_name M ->
  m_imports M' = m_imports M -> m_is_build_dep M' = m_is_build_dep M -> m_notify_all M' = m_notify_all M ->
  forall genv X, In X ms -> ~ ImportsClosure.reach ms provs X M ->
  rmap fst (build_env genv (map (edit M M') ms) (map_provs (edit M M') provs) X) = rmap fst (build_env genv ms provs X).
Proof. exact export_edit_changes_only_importers. Qed.
Print Assumptions C05_export_edit_changes_only_importers.

(* --- statements --- *)
(* Two runs of the module loop of one (builder, app) — before and after an edit — started with the same table
   [dirs] of download directories (C05_same_download_table: related build orders have the same), whose build orders
   are related position by position: the same module names, source directories and downloads; every
   module OUTSIDE a set U (the edited module and its users) is the very same module with the very
   same environment and build deps (C05_frame), reads the table of exported files only at keys
   outside U, and sees the same global build deps unless it is one itself. Then for a module outside
   U, at any position, the loop emits THE SAME LIST of statements and objects in both runs — commands,
   object paths and rule names, byte for byte — whatever the modules in U emitted before it; and all
   of these statements are in the statement set of both builds. *)
Theorem C05_statements_frame :
  forall H EV rules merge_opts objdir bn an ms ms' gdeps gdeps' (U : str -> Prop),
  map m_name ms' = map m_name ms ->
  forall dirs l l' fa fb pre a post,
  Forall2 (R gdeps gdeps' U) l l' ->
  fold_left (fun acc mm => rbind acc (fun st0 => module_step H EV rules merge_opts ms gdeps objdir bn an st0 mm)) l
            (Ok {| ls_entries := []; ls_objects := []; ls_depfiles := []; ls_dldirs := dirs |}) = Ok fa ->
  fold_left (fun acc mm => rbind acc (fun st0 => module_step H EV rules merge_opts ms' gdeps' objdir bn an st0 mm)) l'
            (Ok {| ls_entries := []; ls_objects := []; ls_depfiles := []; ls_dldirs := dirs |}) = Ok fb ->
  l = pre ++ a :: post -> ~ U (m_name (fst (fst a))) ->
  exists pre' post' sa0 sa1 sb0 sb1 L O,
    l' = pre' ++ a :: post' /\ length pre' = length pre /\
    fold_left (fun acc mm => rbind acc (fun st0 => module_step H EV rules merge_opts ms gdeps objdir bn an st0 mm)) pre
              (Ok {| ls_entries := []; ls_objects := []; ls_depfiles := []; ls_dldirs := dirs |}) = Ok sa0 /\
    module_step H EV rules merge_opts ms gdeps objdir bn an sa0 a = Ok sa1 /\
    fold_left (fun acc mm => rbind acc (fun st0 => module_step H EV rules merge_opts ms' gdeps' objdir bn an st0 mm)) pre'
              (Ok {| ls_entries := []; ls_objects := []; ls_depfiles := []; ls_dldirs := dirs |}) = Ok sb0 /\
    module_step H EV rules merge_opts ms' gdeps' objdir bn an sb0 a = Ok sb1 /\
    emits sa0 sa1 L O /\ emits sb0 sb1 L O /\
    forall q, In q L -> has_text fa q /\ has_text fb q.
Proof.
  intros H EV rules merge_opts objdir bn an ms ms' gdeps gdeps' U Hn dirs l l' fa fb pre a post.
  exact (loop_statements_frame H EV rules merge_opts objdir bn an ms ms' gdeps gdeps' U Hn dirs l l' fa fb pre a post).
Qed.
Print Assumptions C05_statements_frame.

Theorem C05_same_download_table : forall gdeps gdeps' (U : str -> Prop) l l',
  Forall2 (R gdeps gdeps' U) l l' -> dldirs_all l' = dldirs_all l.
Proof. exact R_dldirs_all. Qed.
Print Assumptions C05_same_download_table.

(* what one step emits does not depend on the statements and objects accumulated so far: the step on
   the state with both lists emptied emits the same, and the real state is the accumulated one
   extended by it *)
Theorem C05_step_emits : forall H EV rules merge_opts ms gdeps objdir bn an s m menv mdeps s',
  module_step H EV rules merge_opts ms gdeps objdir bn an s (m, menv, mdeps) = Ok s' ->
  exists r', module_step H EV rules merge_opts ms gdeps objdir bn an
               {| ls_entries := []; ls_objects := []; ls_depfiles := ls_depfiles s; ls_dldirs := ls_dldirs s |}
               (m, menv, mdeps) = Ok r' /\
             emits s s' (ls_entries r') (ls_objects r') /\
             ls_dldirs s' = ls_dldirs r' /\ (forall n, alookup n (ls_depfiles s') = alookup n (ls_depfiles r')).
Proof.
  intros H EV rules merge_opts ms gdeps objdir bn an s m menv mdeps s' HS.
  assert (S0 : Sim (fun _ => True) (ls_entries s) (ls_objects s) s
                   {| ls_entries := []; ls_objects := []; ls_depfiles := ls_depfiles s; ls_dldirs := ls_dldirs s |}).
  { unfold Sim. cbn. split; [reflexivity|]. split; [rewrite app_nil_r; reflexivity|]. split; [reflexivity|intros; reflexivity]. }
  destruct (module_step_sim H EV (fun _ => True) _ _ _ _ _ _ _ _ _ _ _ _ _ _ _ HS S0) as (r' & Er & S1).
  - split; [exact Logic.I|]. split; intros; exact Logic.I.
  - exists r'. split; [exact Er|]. destruct S1 as (A & B & C & D). split; [split; assumption|]. split; [exact C|].
    intros n. apply D. exact Logic.I.
Qed.
Print Assumptions C05_step_emits.

(* a step writes the exported-files table at its own module's key only *)
Theorem C05_exports_own_key : forall H EV rules merge_opts ms gdeps objdir bn an s m menv mdeps s',
  module_step H EV rules merge_opts ms gdeps objdir bn an s (m, menv, mdeps) = Ok s' ->
  forall n, n <> m_name m -> alookup n (ls_depfiles s') = alookup n (ls_depfiles s).
Proof. exact module_step_dframe. Qed.
Print Assumptions C05_exports_own_key.

(* non-vacuity: an edit of module x's local env; y neither uses x nor any build dep *)
Example C05_ex_related :
  let x := module_new (S_ "x") None in
  let x' := {| m_name := m_name x; m_context_name := m_context_name x; m_selects := m_selects x; m_imports := m_imports x;
               m_provides := m_provides x; m_conflicts := m_conflicts x; m_notify_all := m_notify_all x;
               m_blocklist := m_blocklist x; m_allowlist := m_allowlist x; m_sources := m_sources x;
               m_sources_optional := m_sources_optional x; m_tasks := m_tasks x; m_build := m_build x;
               m_env_local := [(S_ "CFLAGS", Single (S_ "-Dedited"))]; m_env_export := m_env_export x;
               m_env_global := m_env_global x; m_env_early := m_env_early x; m_relpath := m_relpath x;
               m_srcdir := m_srcdir x; m_build_dep_files := m_build_dep_files x; m_is_build_dep := m_is_build_dep x;
               m_is_global_build_dep := m_is_global_build_dep x; m_is_binary := m_is_binary x;
               m_context_id := m_context_id x; m_defined_in := m_defined_in x; m_download := m_download x |} in
  let y := module_new (S_ "y") None in
  Forall2 (R [] [] (fun n => n = S_ "x"))
          [(x, [], None); (y, [], None)] [(x', [(S_ "CFLAGS", Single (S_ "-Dedited"))], None); (y, [], None)].
Proof.
  cbv zeta. constructor; [|constructor; [|constructor]].
  - cbn. split; [reflexivity|]. split; [reflexivity|]. split; [reflexivity|]. intros Hn. exfalso. apply Hn. reflexivity.
  - cbn. split; [reflexivity|]. split; [reflexivity|]. split; [reflexivity|]. intros _.
    split; [reflexivity|]. split; [|right; reflexivity].
    split; [intros Hx; discriminate Hx|]. split; [intros d []|intros _ d []].
Qed.

(* the premises are satisfiable and (2) separates: a uses b, c stands alone — c does not reach b, a does *)
Definition ex_mod (name : str) (imports : list dep) (export : env) : module :=
  {| m_name := name; m_context_name := S_ "default"; m_selects := []; m_imports := imports; m_provides := None; m_conflicts := None;
     m_notify_all := false; m_blocklist := None; m_allowlist := None; m_sources := []; m_sources_optional := None; m_tasks := [];
     m_build := None; m_env_local := []; m_env_export := export; m_env_global := []; m_env_early := []; m_relpath := None; m_srcdir := None;
     m_build_dep_files := None; m_is_build_dep := false; m_is_global_build_dep := false; m_is_binary := false;
     m_context_id := None; m_defined_in := None; m_download := None |}.
Definition ex_a := ex_mod (S_ "a") [Hard (S_ "b")] [].
Definition ex_b := ex_mod (S_ "b") [] [(S_ "CFLAGS", EList [S_ "-Ib"])].
Definition ex_b' := ex_mod (S_ "b") [] [(S_ "CFLAGS", EList [S_ "-Iedited"])].
Definition ex_c := ex_mod (S_ "c") [] [].
Example C05_ex_c_does_not_reach_b : ~ ImportsClosure.reach [ex_a; ex_b; ex_c] [] ex_c ex_b.
Proof.
  intros Hr. apply (ImportsClosure.imports_postorder_complete [ex_a; ex_b; ex_c] []) in Hr.
  - vm_compute in Hr. destruct Hr as [E|[]]. discriminate E.
  - intros n y [].
  - repeat constructor; cbn; intuition discriminate.
  - right; right; left; reflexivity.
Qed.
Example C05_ex_a_sees_the_edit :
  rmap fst (build_env [] (map (edit ex_b ex_b') [ex_a; ex_b; ex_c]) [] ex_a) <> rmap fst (build_env [] [ex_a; ex_b; ex_c] [] ex_a) /\
  rmap fst (build_env [] (map (edit ex_b ex_b') [ex_a; ex_b; ex_c]) [] ex_c) = rmap fst (build_env [] [ex_a; ex_b; ex_c] [] ex_c).
Proof. split; [vm_compute; discriminate|vm_compute; reflexivity]. Qed.
