(* C05 — local and exported variables do not leak beyond their scope.
   Proofs: proofs/FrameFacts.v. *)
From Coq Require Import Ascii String List NArith.
Import ListNotations.
Require Import Laze.model.Base Laze.model.Env Laze.model.Allow Laze.model.Ninja Laze.model.Ctx
        Laze.model.Resolver Laze.model.Imports Laze.proofs.FrameFacts.
Open Scope list_scope.

(* A module's environment (what its compile commands see) is computed from the build's global
   env, the exported envs/defines of exactly the modules in its import closure, its notify_all
   flag, and its own local env. No other module's local or exported env occurs in it. *)
Theorem C05_module_env_depends_on : forall genv ms provs self,
  rmap fst (build_env genv ms provs self) =
  env_of_views genv (m_notify_all self)
               (map module_define (filter (fun d => negb (is_context_module d)) ms))
               (m_env_local self)
               (map (import_view self) (imports_postorder ms provs self)).
Proof. exact build_env_is_env_of_views. Qed.
Print Assumptions C05_module_env_depends_on.

(* hence: editing the local env of M, or the exported env of an M outside X's import closure,
   leaves X's environment (and with it X's rule text, rule name and object paths) unchanged *)
Theorem C05_frame : forall genv ms provs self ms' provs' self',
  map (import_view self) (imports_postorder ms provs self) =
  map (import_view self') (imports_postorder ms' provs' self') ->
  m_notify_all self = m_notify_all self' ->
  map module_define (filter (fun d => negb (is_context_module d)) ms) =
  map module_define (filter (fun d => negb (is_context_module d)) ms') ->
  m_env_local self = m_env_local self' ->
  rmap fst (build_env genv ms provs self) = rmap fst (build_env genv ms' provs' self').
Proof. exact module_env_frame. Qed.
Print Assumptions C05_frame.
