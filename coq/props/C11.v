(* C11 — apps are configured only for eligible builders (allowlist / blocklist part).
   Property theorems only; proofs are in proofs/AllowFacts.v. The ancestry requirement of
   configure_build is stated in props/C01.v's model of configure (C11_ancestry_required). *)
From Coq Require Import Ascii String List Permutation.
Import ListNotations.
Require Import Laze.model.Base Laze.model.Allow Laze.proofs.AllowFacts.
Open Scope list_scope.

(* the decision is the table [decide] applied to the nearest listed ancestors *)
Theorem C11_decision_spec : forall t ctx bl al,
  wf_tree t -> is_allowed t ctx bl al = Ok (decide al bl (nearest t ctx al) (nearest t ctx bl)).
Proof. exact is_allowed_decide. Qed.
Print Assumptions C11_decision_spec.

(* "nearest": listed, the builder itself or an ancestor of it, and no listed ancestor is nearer *)
Theorem C11_nearest : forall t ctx l i d,
  nearest t ctx (Some l) = Some (i, d) ->
  chain_at t ctx d = Some i /\
  (exists n, In n l /\ entry t ctx n = Some (i, d)) /\
  (forall n j e, In n l -> entry t ctx n = Some (j, e) -> d <= e).
Proof. exact nearest_is_nearest. Qed.
Print Assumptions C11_nearest.

Theorem C11_nearest_none : forall t ctx l,
  nearest t ctx (Some l) = None <-> (forall n, In n l -> entry t ctx n = None).
Proof. exact nearest_none. Qed.
Print Assumptions C11_nearest_none.

(* the clauses of the property as corollaries: an allowlist alone excludes every builder that is not (under) a listed
   context — an empty one, or one naming only unknown contexts, excludes every builder; a blocklist alone excludes
   exactly the builders that are (under) a listed context *)
Theorem C11_allowlist_alone_excludes : forall t ctx l, wf_tree t ->
  (is_allowed t ctx None (Some l) = Ok Blocked <-> forall n, In n l -> entry t ctx n = None).
Proof. exact allowlist_alone_blocks_iff. Qed.
Print Assumptions C11_allowlist_alone_excludes.

Theorem C11_empty_allowlist_builds_nowhere : forall t ctx, wf_tree t -> is_allowed t ctx None (Some []) = Ok Blocked.
Proof. exact empty_allowlist_builds_nowhere. Qed.
Print Assumptions C11_empty_allowlist_builds_nowhere.

Theorem C11_blocklist_alone_allows : forall t ctx l, wf_tree t ->
  (is_allowed t ctx (Some l) None = Ok Allowed <-> forall n, In n l -> entry t ctx n = None).
Proof. exact blocklist_alone_allows_iff. Qed.
Print Assumptions C11_blocklist_alone_allows.

(* the decision does not depend on the order in which names are written in either list *)
Theorem C11_order_independent : forall t ctx bl bl' al al',
  wf_tree t ->
  match bl, bl' with Some a, Some b => Permutation a b | None, None => True | _, _ => False end ->
  match al, al' with Some a, Some b => Permutation a b | None, None => True | _, _ => False end ->
  is_allowed t ctx bl al = is_allowed t ctx bl' al'.
Proof. exact is_allowed_order_independent. Qed.
Print Assumptions C11_order_independent.

(* trees that laze accepts are well-formed, so the hypothesis is satisfiable and met *)
Theorem C11_accepted_trees_wf : forall ctxs t, build_tree ctxs = inl t -> wf_tree t.
Proof. exact build_tree_wf. Qed.
Print Assumptions C11_accepted_trees_wf.

(* non-vacuity: chain A <- B <- C <- bld, blocklist [B], allowlist [A;C] in both orders *)
Definition tr := match build_tree [(S_ "A", None); (S_ "B", Some (S_ "A")); (S_ "C", Some (S_ "B")); (S_ "bld", Some (S_ "C"))]
                 with inl t => t | inr _ => {| t_names := []; t_parents := [] |} end.
Example C11_ex1 : is_allowed tr 3 (Some [S_ "B"]) (Some [S_ "A"; S_ "C"]) = Ok (AllowedBy 2).
Proof. vm_compute. reflexivity. Qed.
Example C11_ex2 : is_allowed tr 3 (Some [S_ "B"]) (Some [S_ "C"; S_ "A"]) = Ok (AllowedBy 2).
Proof. vm_compute. reflexivity. Qed.
Example C11_ex3 : is_allowed tr 3 (Some [S_ "C"]) (Some [S_ "A"]) = Ok (BlockedBy 2).
Proof. vm_compute. reflexivity. Qed.
Example C11_ex4 : is_allowed tr 3 None (Some [S_ "nosuch"]) = Ok Blocked.
Proof. vm_compute. reflexivity. Qed.
Example C11_ex_wf : wf_tree tr.
Proof. vm_compute. reflexivity. Qed.
