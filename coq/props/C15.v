(* C15 — malformed projects are rejected with a diagnostic, never a crash.
   Proved here: the string-level core is total (no panic, no unbounded recursion) for every input;
   accepted trees are well-formed (parent chains end); the loader ends on EVERY tree of documents
   with a bag or an error value; and on every project that loads, for every command line, the
   generation ends with a result or an error value — none of the panic sites of the model (the
   unwrap/expect calls of the code, numbered 100-103 in Generate.v) is reachable and no fuel bound
   (parent walks, work-list, resolver, expansion) is exhausted. serde_yaml/clap (bytes to
   documents) are outside the model; the sources' inventory of potential panic sites is checked
   at run time. Proofs: proofs/GenTotal.v, LoadBins.v, ExpandFacts.v, AllowFacts.v, LoadTotal.v,
   ResolverTotal.v. *)
From Coq Require Import Ascii String List NArith.
Import ListNotations.
Require Import Laze.model.Base Laze.model.Env Laze.model.Expand Laze.model.Allow Laze.model.Ctx
        Laze.model.Load Laze.model.Resolver Laze.model.Checks Laze.proofs.ExpandFacts Laze.proofs.AllowFacts Laze.proofs.LoadFacts
        Laze.proofs.LoadTotal Laze.proofs.ResolverTotal Laze.model.Ninja Laze.model.Generate Laze.proofs.GenTotal.
Open Scope list_scope.

Theorem C15_expand_total : forall (r : fenv) pol f,
  match expand r pol f with
  | Ok _ => True
  | Err (EMissing _ | EUnclosed _ | ECycle _ | ETooDeep _) => True
  | _ => False
  end.
Proof. exact expand_total. Qed.
Print Assumptions C15_expand_total.

Theorem C15_expand_eval_total : forall EV (r : fenv) pol f, ev_real EV ->
  match expand_eval EV r pol f with
  | Ok _ => True
  | Err (EMissing _ | EUnclosed _ | ECycle _ | ETooDeep _ | EExpr _) => True
  | _ => False
  end.
Proof. exact expand_eval_total_real. Qed.
Print Assumptions C15_expand_eval_total.

(* context trees that pass the loader have no parent cycles: walks along parents terminate *)
Theorem C15_no_parent_cycles : forall ctxs t cid i d,
  build_tree ctxs = inl t -> exists r, is_ancestor (tree_fuel t) t cid i d = Ok r.
Proof. intros ctxs t cid i d H. apply is_ancestor_total. eapply build_tree_wf. exact H. Qed.
Print Assumptions C15_no_parent_cycles.

(* dependency strings: every string (also the empty one) converts *)
Theorem C15_dependency_total : forall s, exists d, dependency_from_string s = Ok d.
Proof. intros [|c t]; eexists; reflexivity. Qed.
Print Assumptions C15_dependency_total.

(* structural errors are errors, not crashes *)
Theorem C15_unknown_context_is_error : forall b m,
  bag_index b (m_context_name m) = None -> add_module b m = Err e_unknown_context.
Proof. exact unknown_context_rejected. Qed.
Print Assumptions C15_unknown_context_is_error.

(* the loader's file work-list always finishes within its fuel: a file that includes itself, or files
   that include each other, cannot make it run forever (every step takes a new file of the tree) *)
Theorem C15_loader_worklist_terminates : forall (t : ytree) pf,
  load_files (load_fuel t) t [(pf, (None, None))] 0 [] <> Fuel.
Proof. exact loader_worklist_terminates. Qed.
Print Assumptions C15_loader_worklist_terminates.

(* the dependency resolver always finishes within its fuel *)
Theorem C15_resolver_terminates : forall b builder bname binary cli_selects disabled0,
  keys_okb b = true -> In (m_name binary) (map m_name (all_modules b)) ->
  resolve_build b builder bname binary cli_selects disabled0 <> Fuel.
Proof. exact resolve_build_terminates. Qed.
Print Assumptions C15_resolver_terminates.

(* the loader ends on every tree of documents: with a bag or with an error value (never a panic
   site, never out of fuel) *)
Theorem C15_loader_ends : forall t pf bd, ends (load t pf bd).
Proof. exact load_ends. Qed.
Print Assumptions C15_loader_ends.

(* on every project that loads, for every hasher, evaluator answer, selection, partition, --select,
   --disable and -D, the generation ends with a result or an error value: the panic sites 100-103
   (builder index, the binary's context id and directory, the lookup of a build-order name among
   the build's modules) are unreachable, and no fuel bound is exhausted *)
Theorem C15_generator_ends : forall H EV t pf bd b le bsel asel local part select disable cli_env,
  load t pf bd = Ok b -> ends (generate H EV b le bsel asel local part select disable cli_env).
Proof. exact generate_ends. Qed.
Print Assumptions C15_generator_ends.

(* both together: load, then generate *)
Theorem C15_load_and_generate_end : forall H EV t pf bd le bsel asel local part select disable cli_env,
  ends (rbind (load t pf bd) (fun b => generate H EV b le bsel asel local part select disable cli_env)).
Proof.
  intros. apply ends_rbind; [apply load_ends|]. intros b HL. exact (generate_ends _ _ _ _ _ _ _ _ _ _ _ _ _ _ HL).
Qed.
Print Assumptions C15_load_and_generate_end.

(* [ends] means what it says *)
Theorem C15_ends_spec : forall A (x : res A), ends x <-> (exists a, x = Ok a) \/ (exists e, x = Err e).
Proof.
  intros A x. destruct x as [a|e|n|]; cbn; split; try tauto.
  - intros _. left. exists a. reflexivity.
  - intros _. right. exists e. reflexivity.
  - intros [[a E]|[e E]]; discriminate.
  - intros [[a E]|[e E]]; discriminate.
Qed.
