(* C15 — malformed projects are rejected with a diagnostic, never a crash (partial).
   Proved here: the string-level core is total (no panic, no unbounded recursion) for every input,
   accepted trees are well-formed (parent chains end), the build-order walk terminates with an
   order or a cycle verdict. The remaining panic sites of the model (numbered 100-103 in
   Generate.v: indices and lookups that the loader establishes) and the sources' inventory of
   potential panic sites are checked at run time; serde_yaml/clap are outside the model. *)
From Coq Require Import Ascii String List NArith.
Import ListNotations.
Require Import Laze.model.Base Laze.model.Env Laze.model.Expand Laze.model.Allow Laze.model.Ctx
        Laze.model.Load Laze.model.Resolver Laze.model.Checks Laze.proofs.ExpandFacts Laze.proofs.AllowFacts Laze.proofs.LoadFacts
        Laze.proofs.LoadTotal Laze.proofs.ResolverTotal.
Open Scope list_scope.

Theorem C15_expand_total : forall (r : fenv) pol f,
  match expand r pol f with
  | Ok _ => True
  | Err (EMissing _ | EUnclosed _ | ECycle _) => True
  | _ => False
  end.
Proof. exact expand_total. Qed.
Print Assumptions C15_expand_total.

Theorem C15_expand_eval_total : forall EV (r : fenv) pol f, ev_real EV ->
  match expand_eval EV r pol f with
  | Ok _ => True
  | Err (EMissing _ | EUnclosed _ | ECycle _ | EExpr _) => True
  | _ => False
  end.
Proof. exact expand_eval_total_real. Qed.
Print Assumptions C15_expand_eval_total.

(* context trees that pass the loader have no parent cycles: walks along parents terminate *)
Theorem C15_no_parent_cycles : forall ctxs t cid i d,
  build_tree ctxs = inl t -> exists r, is_ancestor (tree_fuel t) t cid i d = Ok r.
Proof. intros ctxs t cid i d H. apply is_ancestor_total. eapply build_tree_wf. exact H. Qed.
Print Assumptions C15_no_parent_cycles.

(* dependency strings: every string (also the empty one) converts *)
Theorem C15_dependency_total : forall s, exists d, dependency_from_string s = Ok d.
Proof. intros [|c t]; eexists; reflexivity. Qed.
Print Assumptions C15_dependency_total.

(* structural errors are errors, not crashes *)
Theorem C15_unknown_context_is_error : forall b m,
  bag_index b (m_context_name m) = None -> add_module b m = Err e_unknown_context.
Proof. exact unknown_context_rejected. Qed.
Print Assumptions C15_unknown_context_is_error.

(* the loader's file work-list always finishes within its fuel: a file that includes itself, or files
   that include each other, cannot make it run forever (every step takes a new file of the tree) *)
Theorem C15_loader_worklist_terminates : forall (t : ytree) pf,
  load_files (S (S (length t * 8))) t [(pf, None)] 0 [] <> Fuel.
Proof. exact loader_worklist_terminates. Qed.
Print Assumptions C15_loader_worklist_terminates.

(* the dependency resolver always finishes within its fuel *)
Theorem C15_resolver_terminates : forall b builder bname binary cli_selects disabled0,
  keys_okb b = true -> In (m_name binary) (map m_name (all_modules b)) ->
  resolve_build b builder bname binary cli_selects disabled0 <> Fuel.
Proof. exact resolve_build_terminates. Qed.
Print Assumptions C15_resolver_terminates.
