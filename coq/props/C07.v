(* C07 — objects are shared exactly when their compile statements are identical.
   Proofs: proofs/PathFacts.v. *)
From Coq Require Import Ascii String List NArith.
Import ListNotations.
Require Import Laze.model.Base Laze.model.Path Laze.model.Hash Laze.model.Ninja Laze.model.Generate
        Laze.proofs.PathFacts Laze.proofs.OutTargets.
Open Scope list_scope.

(* For one source path (plain relative, with a file name) and one output extension, the object
   path of a shareable rule is an injective function of the number
   (hash of the named rule) xor (hash of the order-only dependency list): *)
Theorem C07_object_path_iff : forall objdir b1 a1 b2 a2 src n h1 h2 rout,
  file_name src = Some n ->
  (forall e, is_absolute (with_extension src e) = false) ->
  (object_path objdir b1 a1 true src h1 rout = object_path objdir b2 a2 true src h2 rout <-> h1 = h2).
Proof.
  intros objdir b1 a1 b2 a2 src n h1 h2 rout Hn Hrel. unfold object_path, rel_root. rewrite !Hrel. split.
  - intros H. apply path_push_inj in H; [|apply Hrel|apply Hrel].
    apply (with_extension_inj src n) in H; [apply (object_ext_inj _ _ rout); exact H|exact Hn| |];
      unfold object_ext; intros E; destruct (show_dec _); discriminate.
  - intros ->. reflexivity.
Qed.
Print Assumptions C07_object_path_iff.

(* ... and that number is a function of the statement's content: same rule fields that are
   hashed and same dependency list give the same number (no hypothesis) *)
Theorem C07_same_content_same_hash : forall H nr1 nr2 (d1 d2 : list str),
  rule_hash_bytes nr1 = rule_hash_bytes nr2 -> d1 = d2 ->
  N.lxor (rule_hash H nr1) (H (enc_usize (length d1) ++ flat_map enc_path d1)) =
  N.lxor (rule_hash H nr2) (H (enc_usize (length d2) ++ flat_map enc_path d2)).
Proof. intros H nr1 nr2 d1 d2 E1 E2. unfold rule_hash. rewrite E1, E2. reflexivity. Qed.
Print Assumptions C07_same_content_same_hash.

(* the converse is the collision-freeness of the hash: stated as the hypothesis it is *)
Section Injective.
  Variable H : list ascii -> N.
  Definition deps_hash (d : list str) : N := H (enc_usize (length d) ++ flat_map enc_path d).
  Hypothesis comb_inj : forall nr1 d1 nr2 d2,
    N.lxor (rule_hash H nr1) (deps_hash d1) = N.lxor (rule_hash H nr2) (deps_hash d2) ->
    rule_hash_bytes nr1 = rule_hash_bytes nr2 /\ d1 = d2.

  Theorem C07_share_iff : forall objdir b1 a1 b2 a2 src n nr1 d1 nr2 d2 rout,
    file_name src = Some n ->
    (forall e, is_absolute (with_extension src e) = false) ->
    (object_path objdir b1 a1 true src (N.lxor (rule_hash H nr1) (deps_hash d1)) rout =
     object_path objdir b2 a2 true src (N.lxor (rule_hash H nr2) (deps_hash d2)) rout
     <-> rule_hash_bytes nr1 = rule_hash_bytes nr2 /\ d1 = d2).
  Proof.
    intros objdir b1 a1 b2 a2 src n nr1 d1 nr2 d2 rout Hn Hrel.
    rewrite (C07_object_path_iff objdir b1 a1 b2 a2 src n _ _ rout Hn Hrel). split.
    - apply comb_inj.
    - intros [E1 E2]. unfold rule_hash, deps_hash. rewrite E1, E2. reflexivity.
  Qed.
End Injective.
Print Assumptions C07_share_iff.

(* rules marked shareable: false: the object lives under <objdir>/<builder>/<app>/ — for EVERY source
   path: an absolute one is made relative before it is pushed (the code before the fix pushed it as
   it was, which replaces the whole prefix: one object for all builders and apps) *)
Theorem C07_nonshareable_private : forall objdir b a src h rout,
  object_path objdir b a false src h rout =
  path_push (path_push (path_push objdir b) a) (rel_root (with_extension src rout)) /\
  is_absolute (rel_root (with_extension src rout)) = false /\
  exists rest, object_path objdir b a false src h rout = path_push (path_push objdir b) a ++ rest.
Proof.
  intros objdir b a src h rout. split; [reflexivity|]. split; [apply rel_root_relative|apply nonshareable_under_builder_app].
Qed.
Print Assumptions C07_nonshareable_private.

(* ... and private means private: for builder and app names that are plain path components (non-empty, no '/') two
   different (builder, app) pairs never get the same object for a source of a non-shareable rule *)
Require Import Laze.proofs.PrivateDirs.
Theorem C07_nonshareable_distinct : forall objdir b1 a1 b2 a2 src h1 h2 rout,
  plain b1 -> plain a1 -> plain b2 -> plain a2 ->
  object_path objdir b1 a1 false src h1 rout = object_path objdir b2 a2 false src h2 rout ->
  b1 = b2 /\ a1 = a2.
Proof. exact nonshareable_private_distinct. Qed.
Print Assumptions C07_nonshareable_distinct.

(* the boundary (open finding K07:slash-in-names): with a '/' in a name, builder a/b + app c and builder a + app b/c
   share one "private" directory *)
Example C07_slash_names_clash :
  object_path (S_ "build/objects") (S_ "a/b") (S_ "c") false (S_ "x.S") 0 (S_ "o") =
  object_path (S_ "build/objects") (S_ "a") (S_ "b/c") false (S_ "x.S") 0 (S_ "o").
Proof. exact slash_names_clash. Qed.
Example C07_ex_plain : plain (S_ "b0") /\ plain (S_ "net_echo").
Proof. split; (split; [discriminate|intros c Hc; cbn in Hc; repeat (destruct Hc as [<-|Hc]; [reflexivity|]); contradiction]). Qed.

Theorem C07_decimal_injective : forall n1 n2, show_dec n1 = show_dec n2 -> n1 = n2.
Proof. exact show_dec_inj. Qed.
Print Assumptions C07_decimal_injective.

Example C07_ex : object_path (S_ "build/objects") (S_ "b") (S_ "a") true (S_ "sub/x.c") 42 (S_ "o") = S_ "build/objects/sub/x.42.o".
Proof. vm_compute. reflexivity. Qed.
Example C07_ex_private : object_path (S_ "build/objects") (S_ "b") (S_ "a") false (S_ "sub/x.S") 42 (S_ "o") = S_ "build/objects/b/a/sub/x.o".
Proof. vm_compute. reflexivity. Qed.

Example C07_ex_private_abs : object_path (S_ "build/objects") (S_ "b") (S_ "a") false (S_ "/abs/./ext//x.S") 42 (S_ "o") = S_ "build/objects/b/a/abs/./ext//x.o".
Proof. vm_compute. reflexivity. Qed.
