(* C17 — defaults, context lists and sub-directories mean what their expansion means.
   Proofs: proofs/LoadFacts.v. The textual inlining equivalence (C17_inline_equiv) and the file
   work-list (loaded once, ${relpath} per file) are exercised by the metamorphic check and the
   byte-exact correspondence on multi-file projects. *)
From Coq Require Import Ascii String List NArith Bool.
Import ListNotations.
Require Import Laze.model.Base Laze.model.Env Laze.model.Path Laze.model.Allow Laze.model.Ninja
        Laze.model.Ctx Laze.model.Load Laze.proofs.LoadFacts.
Open Scope list_scope.

(* field-wise law of defaults: lists of D first, then the module's own; scalars are its own *)
Theorem C17_defaults_fieldwise : forall bd y ctx is_binary filename (D : module) m,
  convert_module bd y ctx is_binary filename (Some D) = Ok m ->
  exists sel uses depends,
    deps_of_specs (odflt [] (ym_selects y)) = Ok sel /\
    rmapM dependency_from_string (odflt [] (ym_uses y)) = Ok uses /\
    deps_of_specs (odflt [] (ym_depends y)) = Ok depends /\
    m_selects m = process_removes (m_selects D ++ sel ++ depends) /\
    m_imports m = process_removes (m_imports D ++ uses ++ depends) /\
    m_sources m = m_sources D ++
                  flat_map (fun s => match s with DStr x => [x] | DMap _ => [] end) (odflt [] (ym_sources y)) /\
    m_blocklist m = match m_blocklist D with Some d => Some (d ++ odflt [] (ym_blocklist y)) | None => ym_blocklist y end /\
    m_allowlist m = match m_allowlist D with Some d => Some (d ++ odflt [] (ym_allowlist y)) | None => ym_allowlist y end /\
    m_build m = ym_build y /\
    m_is_build_dep m = (match ym_download y with Some _ => true | None => ym_is_build_dep y end) /\
    m_is_global_build_dep m = ym_is_global_build_dep y /\ m_download m = ym_download y /\
    m_name m = match ym_name y with Some n => n | None => parent filename end /\
    m_context_name m = match ctx with Some c => c | None => m_context_name D end /\
    m_notify_all m = (m_notify_all D || ym_notify_all y) /\
    (ym_download y = None -> m_build_dep_files m = m_build_dep_files D).
Proof. exact convert_module_fields. Qed.
Print Assumptions C17_defaults_fieldwise.

(* '-name' entries remove 'name' *)
Theorem C17_removes : forall l d,
  In d (process_removes l) <->
  In d l /\ starts_minus (dep_name d) = false /\
  ~ exists r, In r l /\ starts_minus (dep_name r) = true /\ tl (dep_name r) = dep_name d.
Proof. exact process_removes_spec. Qed.
Print Assumptions C17_removes.

(* a module with a list of contexts is the same module written once per context *)
Theorem C17_context_list : forall l, contexts_of (CList l) = map Some l.
Proof. exact context_list_expands. Qed.
Print Assumptions C17_context_list.

(* rejections: duplicate context names, unknown contexts, duplicate module names in a context,
   unknown parents *)
Theorem C17_rejects_duplicate_context : forall b c,
  In (c_name c) (bag_names b) -> add_context b c = Err e_dup_context.
Proof. exact duplicate_context_rejected. Qed.
Print Assumptions C17_rejects_duplicate_context.
Theorem C17_rejects_unknown_context : forall b m,
  bag_index b (m_context_name m) = None -> add_module b m = Err e_unknown_context.
Proof. exact unknown_context_rejected. Qed.
Print Assumptions C17_rejects_unknown_context.
Theorem C17_rejects_duplicate_module : forall b m i c x,
  bag_index b (m_context_name m) = Some i -> bag_get b i = Some c ->
  alookup (m_name m) (c_modules c) = Some x -> add_module b m = Err e_dup_module.
Proof. exact duplicate_module_rejected. Qed.
Print Assumptions C17_rejects_duplicate_module.
Theorem C17_rejects_unknown_parent : forall b,
  resolve_parents (bag_names (if mem_str (S_ "default") (bag_names b) then b else b ++ [context_default]))
                  (map c_parent_name (if mem_str (S_ "default") (bag_names b) then b else b ++ [context_default])) = None ->
  finalize b = Err e_unknown_parent.
Proof. exact unknown_parent_rejected. Qed.
Print Assumptions C17_rejects_unknown_parent.
