(* C17 — defaults, context lists and sub-directories mean what their expansion means.
   Proofs: proofs/LoadFacts.v, proofs/LoadOnce.v. The textual inlining equivalence is exercised by
   the metamorphic check and the byte-exact correspondence on multi-file projects. *)
From Coq Require Import Ascii String List NArith Bool.
Import ListNotations.
Require Import Laze.model.Base Laze.model.Env Laze.model.Path Laze.model.Allow Laze.model.Ninja
        Laze.model.Ctx Laze.model.Load Laze.proofs.LoadFacts Laze.proofs.LoadOnce.
Open Scope list_scope.

(* field-wise law of defaults: lists of D first, then the module's own; scalars are its own *)
Theorem C17_defaults_fieldwise : forall bd y ctx is_binary filename root (D : module) m,
  convert_module bd y ctx is_binary filename root (Some D) = Ok m ->
  exists sel uses depends,
    deps_of_specs (odflt [] (ym_selects y)) = Ok sel /\
    rmapM dependency_from_string (odflt [] (ym_uses y)) = Ok uses /\
    deps_of_specs (odflt [] (ym_depends y)) = Ok depends /\
    m_selects m = process_removes (m_selects D ++ sel ++ depends) /\
    m_imports m = process_removes (m_imports D ++ uses ++ depends) /\
    m_sources m = m_sources D ++
                  flat_map (fun s => match s with DStr x => [x] | DMap _ => [] end) (odflt [] (ym_sources y)) /\
    m_blocklist m = match m_blocklist D with Some d => Some (d ++ odflt [] (ym_blocklist y)) | None => ym_blocklist y end /\
    m_allowlist m = match m_allowlist D with Some d => Some (d ++ odflt [] (ym_allowlist y)) | None => ym_allowlist y end /\
    m_build m = ym_build y /\
    m_is_build_dep m = (match ym_download y with Some _ => true | None => ym_is_build_dep y end) /\
    m_is_global_build_dep m = ym_is_global_build_dep y /\ m_download m = ym_download y /\
    m_name m = match ym_name y with
               | Some n => n
               | None => match root with
                         | Some r => match strip_prefix (parent filename) r with Some x => x | None => parent filename end
                         | None => parent filename end
               end /\
    m_context_name m = match ctx with Some c => c | None => m_context_name D end /\
    m_notify_all m = (m_notify_all D || ym_notify_all y) /\
    (ym_download y = None -> m_build_dep_files m = m_build_dep_files D).
Proof. exact convert_module_fields. Qed.
Print Assumptions C17_defaults_fieldwise.

(* '-name' entries remove 'name' *)
Theorem C17_removes : forall l d,
  In d (process_removes l) <->
  In d l /\ starts_minus (dep_name d) = false /\
  ~ exists r, In r l /\ starts_minus (dep_name r) = true /\ tl (dep_name r) = dep_name d.
Proof. exact process_removes_spec. Qed.
Print Assumptions C17_removes.

(* a module with a list of contexts is the same module written once per context *)
Theorem C17_context_list : forall l, contexts_of (CList l) = map Some l.
Proof. exact context_list_expands. Qed.
Print Assumptions C17_context_list.

(* rejections: duplicate context names, unknown contexts, duplicate module names in a context,
   unknown parents *)
Theorem C17_rejects_duplicate_context : forall b c,
  In (c_name c) (bag_names b) -> add_context b c = Err e_dup_context.
Proof. exact duplicate_context_rejected. Qed.
Print Assumptions C17_rejects_duplicate_context.
Theorem C17_rejects_unknown_context : forall b m,
  bag_index b (m_context_name m) = None -> add_module b m = Err e_unknown_context.
Proof. exact unknown_context_rejected. Qed.
Print Assumptions C17_rejects_unknown_context.
Theorem C17_rejects_duplicate_module : forall b m i c x,
  bag_index b (m_context_name m) = Some i -> bag_get b i = Some c ->
  alookup (m_name m) (c_modules c) = Some x -> add_module b m = Err e_dup_module.
Proof. exact duplicate_module_rejected. Qed.
Print Assumptions C17_rejects_duplicate_module.
Theorem C17_rejects_unknown_parent : forall b,
  resolve_parents (bag_names (if mem_str (S_ "default") (bag_names b) then b else b ++ [context_default]))
                  (map c_parent_name (if mem_str (S_ "default") (bag_names b) then b else b ++ [context_default])) = None ->
  finalize b = Err e_unknown_parent.
Proof. exact unknown_parent_rejected. Qed.
Print Assumptions C17_rejects_unknown_parent.

(* each lazefile reachable from the project file is loaded once per import root: the work-list ends
   with distinct keys (file name, import root), the project file first, and the documents handed on
   are, in order, the documents of exactly these entries, each tagged with its file and root *)
Theorem C17_files_loaded_once : forall (t : ytree) pf fuel ds (fs : list finc),
  load_files fuel t [(pf, (None, None))] 0 [] = Ok (ds, fs) ->
  NoDup (map finc_key fs) /\
  map (fun d => (ld_file d, ld_root d, ld_doc d)) ds = docs_of_files t fs /\
  (exists ext, fs = (pf, (None, None)) :: ext).
Proof. exact load_files_once. Qed.
Print Assumptions C17_files_loaded_once.

(* without `imports:` there is only one root: each lazefile reachable through subdirs:/includes: is
   loaded once, whoever lists it and however often *)
Theorem C17_files_loaded_once_no_imports : forall (t : ytree) pf fuel ds (fs : list finc),
  no_imports t -> load_files fuel t [(pf, (None, None))] 0 [] = Ok (ds, fs) -> NoDup (map fst fs).
Proof. exact load_files_once_no_imports. Qed.
Print Assumptions C17_files_loaded_once_no_imports.

(* ... so the number of loaded documents tagged with a file (and root) is the number of documents that
   file has in the tree (listed by however many subdirs:/includes: entries), or 0 if it is not reached *)
Theorem C17_loaded_doc_count : forall (t : ytree) pf fuel ds (fs : list finc) f r,
  load_files fuel t [(pf, (None, None))] 0 [] = Ok (ds, fs) ->
  length (filter (fun d => str_eqb (ld_file d) f && ostr_eqb (ld_root d) r) ds) =
  if existsb (fun inc : finc => str_eqb (fst inc) f && ostr_eqb (finc_root inc) r) fs then length (odflt [] (alookup f t)) else 0.
Proof. exact loaded_doc_count. Qed.
Print Assumptions C17_loaded_doc_count.

(* ${relpath} and ${srcdir} of a module are the directory of the file it is written in *)
Theorem C17_relpath_is_file_directory : forall build_dir y context is_binary filename root defaults m,
  convert_module build_dir y context is_binary filename root defaults = Ok m ->
  m_relpath m = Some (relpath_of filename) /\ m_defined_in m = Some filename /\
  (ym_srcdir y = None -> ym_download y = None ->
   m_srcdir m = Some (if str_eqb (relpath_of filename) [ch_dot] then [] else relpath_of filename)) /\
  (forall s, ym_srcdir y = Some s -> m_srcdir m = Some s) /\
  (forall sd, m_srcdir m = Some sd ->
     alookup (S_ "relpath") (m_env_early m) = Some (Single (relpath_of filename)) /\
     alookup (S_ "srcdir") (m_env_early m) = Some (Single sd)).
Proof. exact convert_module_relpath. Qed.
Print Assumptions C17_relpath_is_file_directory.

(* non-vacuity: a project file listing sub/ twice (subdirs: and includes:) loads sub/laze.yml once *)
Example C17_ex_once :
  let d0 := {| d_contexts := None; d_builders := None; d_modules := None; d_apps := None;
               d_includes := Some [S_ "sub/laze.yml"]; d_subdirs := Some [S_ "sub"; S_ "sub"];
               d_defaults_module := None; d_defaults_app := None; d_imports := None |} in
  let d1 := {| d_contexts := None; d_builders := None; d_modules := None; d_apps := None;
               d_includes := None; d_subdirs := None;
               d_defaults_module := None; d_defaults_app := None; d_imports := None |} in
  match load_files 20 [(S_ "laze-project.yml", [d0]); (S_ "sub/laze.yml", [d1; d1])] [(S_ "laze-project.yml", (None, None))] 0 [] with
  | Ok (ds, fs) => map ld_file ds = [S_ "laze-project.yml"; S_ "sub/laze.yml"; S_ "sub/laze.yml"]
  | _ => False
  end.
Proof. vm_compute. reflexivity. Qed.

(* non-vacuity with imports: lib/ is imported (found as lib/laze.yml because lib/laze-lib.yml does not
   exist) and also listed under subdirs: — it is loaded once under each root, and the unnamed module of
   the imported instance is named relative to the import root *)
Example C17_ex_import :
  let d0 := {| d_contexts := None; d_builders := None; d_modules := None; d_apps := None;
               d_includes := None; d_subdirs := Some [S_ "lib"];
               d_defaults_module := None; d_defaults_app := None; d_imports := Some [S_ "lib"] |} in
  let d1 := {| d_contexts := None; d_builders := None; d_modules := None; d_apps := None;
               d_includes := None; d_subdirs := None;
               d_defaults_module := None; d_defaults_app := None; d_imports := None |} in
  let t := [(S_ "laze-project.yml", [d0]); (S_ "lib/laze.yml", [d1])] in
  match load_files 20 t [(S_ "laze-project.yml", (None, None))] 0 [] with
  | Ok (ds, fs) => map (fun d => (ld_file d, ld_root d)) ds =
                     [(S_ "laze-project.yml", None); (S_ "lib/laze.yml", None); (S_ "lib/laze.yml", Some (S_ "lib"))]
                   /\ absent_of t ds = [S_ "lib/laze-lib.yml"]
                   /\ m_name (init_module None None false (S_ "lib/laze.yml") (Some (S_ "lib")) None) = []
  | _ => False
  end.
Proof. vm_compute. repeat split; reflexivity. Qed.
