(* C04 — variables reach commands with the documented layer precedence.
   Property theorems only; proofs in proofs/EnvFacts.v and proofs/LayerFacts.v. *)
From Coq Require Import Ascii String List NArith.
Import ListNotations.
Require Import Laze.model.Base Laze.model.Env Laze.model.Allow Laze.model.Ninja Laze.model.Ctx
        Laze.model.Resolver Laze.model.Imports Laze.model.Generate
        Laze.proofs.EnvFacts Laze.proofs.LayerFacts Laze.proofs.FinalizeFacts.
Open Scope list_scope.

(* merging is keywise: one variable through a stack of layers *)
Theorem C04_merge_keywise : forall layers init k,
  Forall (fun l => NoDup (akeys l)) layers ->
  env_get k (fold_left merge layers init) = fold_left merge_opt (map (env_get k) layers) (env_get k init).
Proof. exact merge_layers_keywise. Qed.
Print Assumptions C04_merge_keywise.

(* closed form: "a list merged onto a list appends; in every other combination the later value
   replaces the earlier one": the last Single wipes what was before, lists after it concatenate *)
Theorem C04_merge_closed_form_single : forall pre s post acc,
  no_single post ->
  fold_left merge_opt (pre ++ Some (Single s) :: post) acc =
  if existsb is_list post then Some (EList (lists_of post)) else Some (Single s).
Proof. exact merge_layers_last_single. Qed.
Print Assumptions C04_merge_closed_form_single.

Theorem C04_merge_closed_form_lists : forall layers,
  no_single layers ->
  fold_left merge_opt layers None =
  if existsb is_list layers then Some (EList (lists_of layers)) else None.
Proof. exact merge_layers_no_single. Qed.
Print Assumptions C04_merge_closed_form_lists.

(* link commands and tasks: built-ins, the builder's context env (inherited root -> builder, with
   builder/app), global envs of the selected modules in reverse selection order, then -D *)
Theorem C04_global_layers : forall b le builder bctx binary ms relpath cli_env k,
  wf_env (odflt [] (c_env bctx)) ->
  Forall (fun m => wf_env (m_env_global m)) ms ->
  match cli_env with Some ce => wf_env ce | None => True end ->
  reserved k = false ->
  env_get k (global_env b le builder bctx binary ms relpath cli_env) =
  fold_left merge_opt
    ([env_get k (build_context_env bctx binary)]
       ++ map (fun m => env_get k (m_env_global m)) (rev ms)
       ++ [match cli_env with Some ce => env_get k ce | None => None end])
    (env_get k (base_env le)).
Proof. exact global_env_layers. Qed.
Print Assumptions C04_global_layers.

Theorem C04_reserved : forall b le builder bctx binary ms relpath cli_env,
  match cli_env with Some ce => wf_env ce | None => True end ->
  let g := global_env b le builder bctx binary ms relpath cli_env in
  let cli k := match cli_env with Some ce => env_get k ce | None => None end in
  env_get (S_ "relpath") g = merge_opt (Some (Single relpath)) (cli (S_ "relpath")) /\
  env_get (S_ "relroot") g = merge_opt (Some (Single (relroot relpath))) (cli (S_ "relroot")) /\
  env_get (S_ "contexts") g = merge_opt (Some (EList (map c_name (ctxs_of b (chain b builder))))) (cli (S_ "contexts")).
Proof. exact global_env_reserved. Qed.
Print Assumptions C04_reserved.

(* compile commands of a module: the global env, then the exported env of every selected module
   reachable through uses/depends (dependencies first, its own exports last), then its local env *)
Theorem C04_module_layers : forall genv ms provs self k,
  str_eqb k (S_ "notify") = false ->
  Forall (fun m => wf_env (m_env_export m)) (imports_postorder ms provs self) ->
  wf_env (m_env_local self) ->
  forall e bd, build_env genv ms provs self = Ok (e, bd) ->
  env_get k e =
  fold_left merge_opt
    (map (fun d => env_get k (m_env_export d)) (imports_postorder ms provs self) ++ [env_get k (m_env_local self)])
    (env_get k genv).
Proof. exact build_env_layers. Qed.
Print Assumptions C04_module_layers.

(* WHICH modules those are (proofs/ImportsClosure.v, ImportsBuild.v). For a build of a loaded project — the resolver's
   selection rst for (builder, app) — and any selected module self, the list whose exports are merged is: every
   selected module reachable from self through active imports (uses / depends; a name stands for the selected module
   of that name and for every selected provider; a conditional entry counts when its condition module is selected),
   nothing else, each once, self last — cycles among imports included. *)
Require Import Laze.model.Load Laze.proofs.ImportsClosure Laze.proofs.ImportsBuild.
Theorem C04_imports_are_the_reachable_modules :
  forall t pf bd b, load t pf bd = Ok b ->
  forall builder bname binary cli_selects disabled0 rst, In binary (all_modules b) ->
  resolve_build b builder bname binary cli_selects disabled0 = Ok rst ->
  forall self y, In self (sel rst) ->
  (In y (imports_postorder (sel rst) (provby rst) self) <-> reach (sel rst) (provby rst) self y).
Proof. exact build_imports_are_reachable. Qed.
Print Assumptions C04_imports_are_the_reachable_modules.

Theorem C04_imports_once :
  forall b builder bname binary cli_selects disabled0 rst,
  resolve_build b builder bname binary cli_selects disabled0 = Ok rst ->
  forall self, In self (sel rst) ->
  NoDup (map m_name (imports_postorder (sel rst) (provby rst) self)).
Proof. exact build_imports_once. Qed.
Print Assumptions C04_imports_once.

Theorem C04_own_exports_last : forall ms provs self, exists deps, imports_postorder ms provs self = deps ++ [self].
Proof. exact imports_postorder_self_last. Qed.
Print Assumptions C04_own_exports_last.

(* "dependencies first": what a module of the list imports stands before it — its exports are merged earlier, the
   importer's later and on top — unless the imported module leads back to the importer (an import cycle) *)
Theorem C04_dependencies_first :
  forall t pf bd b, load t pf bd = Ok b ->
  forall builder bname binary cli_selects disabled0 rst, In binary (all_modules b) ->
  resolve_build b builder bname binary cli_selects disabled0 = Ok rst ->
  forall self y z, In self (sel rst) ->
  In y (imports_postorder (sel rst) (provby rst) self) -> edge (sel rst) (provby rst) y z -> ~ reach (sel rst) (provby rst) z y ->
  before z y (imports_postorder (sel rst) (provby rst) self).
Proof. exact build_imports_dependencies_first. Qed.
Print Assumptions C04_dependencies_first.

(* two modules that import each other see each other's exports (the closure is complete on cycles) *)
Definition ex_importer (name : str) (imports : list dep) : module :=
  {| m_name := name; m_context_name := S_ "default"; m_selects := []; m_imports := imports; m_provides := None; m_conflicts := None;
     m_notify_all := false; m_blocklist := None; m_allowlist := None; m_sources := []; m_sources_optional := None; m_tasks := [];
     m_build := None; m_env_local := []; m_env_export := []; m_env_global := []; m_env_early := []; m_relpath := None; m_srcdir := None;
     m_build_dep_files := None; m_is_build_dep := false; m_is_global_build_dep := false; m_is_binary := false;
     m_context_id := None; m_defined_in := None; m_download := None |}.
Example C04_ex_import_cycle :
  let a := ex_importer (S_ "a") [Hard (S_ "b")] in
  let b := ex_importer (S_ "b") [Hard (S_ "a")] in
  map m_name (imports_postorder [a; b] [] a) = [S_ "b"; S_ "a"] /\
  map m_name (imports_postorder [a; b] [] b) = [S_ "a"; S_ "b"].
Proof. vm_compute. split; reflexivity. Qed.

(* -D: K+=v is a one-element list, K=v a single value; "+=" is tried first *)
Theorem C04_define_append : forall e a var value,
  split_once (S_ "+=") a [] = Some (var, value) ->
  assign_from_string e a = Ok (merge e [(var, EList [value])]).
Proof. exact assign_plus_first. Qed.
Print Assumptions C04_define_append.
Theorem C04_define_single : forall e a var value,
  split_once (S_ "+=") a [] = None -> split_once (S_ "=") a [] = Some (var, value) ->
  assign_from_string e a = Ok (merge e [(var, Single value)]).
Proof. exact assign_single. Qed.
Print Assumptions C04_define_single.

(* the context layers: after ContextBag::finalize the env of every context is the FINAL env of its
   parent with its own declared env merged on top (parents are merged before their children) *)
Theorem C04_context_env_inherited : forall b0 bf, finalize b0 = Ok bf ->
  let b1 := if mem_str (S_ "default") (bag_names b0) then b0 else b0 ++ [context_default] in
  forall j c, bag_get bf j = Some c ->
    exists c1, bag_get b1 j = Some c1 /\
      match c_parent_index c with
      | None => c_env c = c_env c1
      | Some p => match bag_get bf p with
                  | Some pc => c_env c = inherited (c_env pc) (c_env c1)
                  | None => c_env c = c_env c1 end
      end.
Proof. exact finalize_env_inherited. Qed.
Print Assumptions C04_context_env_inherited.

Example C04_merge_not_assoc :
  let a := EList [S_ "a"] in let b := Single (S_ "b") in let c := EList [S_ "c"] in
  merge_key (merge_key a b) c <> merge_key a (merge_key b c).
Proof. exact merge_not_assoc. Qed.
