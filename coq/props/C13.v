(* C13 — variable and expression expansion is total and substitutes exactly.
   Property theorems only; proofs are in proofs/ExpandFacts.v. *)
From Coq Require Import Ascii String List NArith.
Import ListNotations.
Require Import Laze.model.Base Laze.model.Env Laze.model.Expand Laze.proofs.ExpandFacts.
Open Scope list_scope.

(* totality: for every byte string, every variable map (cyclic ones included) and every
   policy the result is a value or one of the typed errors Missing/Unclosed/Cycle — never a
   panic, and the recursion bound (number of variables + 1) is never exhausted *)
Theorem C13_total : forall (r : fenv) pol f,
  match expand r pol f with
  | Ok _ => True
  | Err (EMissing _ | EUnclosed _ | ECycle _ | ETooDeep _) => True
  | _ => False
  end.
Proof. exact expand_total. Qed.
Print Assumptions C13_total.

(* ... and with expressions: additionally the typed expression error. [ev_real]: the
   evaluator always answers (the third answer EvNeed exists only for the harness protocol) *)
Theorem C13_total_eval : forall EV (r : fenv) pol f, ev_real EV ->
  match expand_eval EV r pol f with
  | Ok _ => True
  | Err (EMissing _ | EUnclosed _ | ECycle _ | ETooDeep _ | EExpr _) => True
  | _ => False
  end.
Proof. exact expand_eval_total_real. Qed.
Print Assumptions C13_total_eval.

Theorem C13_eval_total : forall EV s, ev_real EV ->
  match eval EV s with Ok _ => True | Err (EExpr _) => True | _ => False end.
Proof. exact eval_total_real'. Qed.
Print Assumptions C13_eval_total.

(* text containing no ${ / no $( is returned unchanged *)
Theorem C13_identity : forall (r : fenv) pol f, has_db f = false -> expand r pol f = Ok f.
Proof. exact expand_identity. Qed.
Print Assumptions C13_identity.

Theorem C13_eval_identity : forall EV s, contains_dollar_paren s = false -> eval EV s = Ok s.
Proof. exact eval_identity. Qed.
Print Assumptions C13_eval_identity.

(* exact substitution at a reference: text before (free of ${ and not ending in a backslash),
   ${k}, text after (free of ${): the reference is replaced by the recursively expanded value
   of k, or by what the policy says for an unknown name, or a cycle error if k is on the path *)
Theorem C13_subst : forall (r : fenv) pol fuel seen (l k t : str),
  has_db l = false -> is_bslash (last_byte None l) = false ->
  (forall c, In c k -> c <> ch_rbrace) -> has_db t = false ->
  expand_rec r pol (S fuel) seen (l ++ ch_dollar :: ch_lbrace :: k ++ ch_rbrace :: t)
  = rbind (value_of r pol fuel seen k) (fun v => Ok (l ++ v ++ t)).
Proof. exact expand_rec_one_ref. Qed.
Print Assumptions C13_subst.

(* ... and in general the scanner splits any string at its first unescaped reference *)
Theorem C13_scan_ref : forall (l k t : str) prev (lit : str) esc pos fuel,
  has_db l = false -> is_bslash (last_byte prev l) = false ->
  (forall c, In c k -> c <> ch_rbrace) ->
  length (l ++ ch_dollar :: ch_lbrace :: k ++ ch_rbrace :: t) < fuel ->
  scan fuel pos prev (l ++ ch_dollar :: ch_lbrace :: k ++ ch_rbrace :: t) lit esc =
  match scan (S (length t)) (pos + N.of_nat (length l) + 3 + N.of_nat (length k)) None t [] esc with
  | Ok (segs, e) => Ok (Lit (rev lit ++ l) :: Ref k :: segs, e)
  | Err x => Err x | Panic n => Panic n | Fuel => Fuel
  end.
Proof. exact scan_ref. Qed.
Print Assumptions C13_scan_ref.

Theorem C13_known : forall (r : fenv) pol (l k t v : str),
  has_db l = false -> is_bslash (last_byte None l) = false ->
  (forall c, In c k -> c <> ch_rbrace) -> has_db t = false ->
  alookup k r = Some v -> has_db v = false ->
  expand r pol (l ++ ch_dollar :: ch_lbrace :: k ++ ch_rbrace :: t) = Ok (l ++ v ++ t).
Proof. exact expand_known. Qed.
Print Assumptions C13_known.

(* unknown name: keep (Ignore/Defer), empty, or error *)
Theorem C13_policies : forall (r : fenv) pol (l k t : str),
  has_db l = false -> is_bslash (last_byte None l) = false ->
  (forall c, In c k -> c <> ch_rbrace) -> has_db t = false ->
  alookup k r = None ->
  expand r pol (l ++ ch_dollar :: ch_lbrace :: k ++ ch_rbrace :: t) =
  match pol with
  | PError => Err (EMissing k)
  | PIgnore | PDefer => Ok (l ++ (ch_dollar :: ch_lbrace :: k ++ [ch_rbrace]) ++ t)
  | PEmpty => Ok (l ++ t)
  end.
Proof. exact expand_missing. Qed.
Print Assumptions C13_policies.

(* self-referential definitions are reported as a cycle *)
Theorem C13_cycle : forall (r : fenv) pol (l k t v : str),
  (forall c, In c k -> c <> ch_rbrace) ->
  alookup k r = Some v ->
  v = l ++ ch_dollar :: ch_lbrace :: k ++ ch_rbrace :: t ->
  has_db l = false -> is_bslash (last_byte None l) = false -> has_db t = false ->
  expand r pol (ch_dollar :: ch_lbrace :: k ++ [ch_rbrace]) = Err (ECycle k).
Proof. exact expand_self_cycle. Qed.
Print Assumptions C13_cycle.

Theorem C13_cycle_on_path : forall (r : fenv) pol fuel seen (l k t : str),
  has_db l = false -> is_bslash (last_byte None l) = false ->
  (forall c, In c k -> c <> ch_rbrace) -> has_db t = false -> In k seen ->
  expand_rec r pol (S fuel) seen (l ++ ch_dollar :: ch_lbrace :: k ++ ch_rbrace :: t) = Err (ECycle k).
Proof. exact expand_rec_cycle. Qed.
Print Assumptions C13_cycle_on_path.

(* nesting: references are followed on the call stack; a reference met max_depth (100) levels down is a
   typed error, so the recursion depth is bounded whatever the variable map (the code before the fix
   overflowed the stack on a chain of some thousand variables) *)
Theorem C13_too_deep : forall (r : fenv) pol fuel seen (l k t : str),
  has_db l = false -> is_bslash (last_byte None l) = false ->
  (forall c, In c k -> c <> ch_rbrace) -> has_db t = false ->
  ~ In k seen -> max_depth <= length seen ->
  expand_rec r pol (S fuel) seen (l ++ ch_dollar :: ch_lbrace :: k ++ ch_rbrace :: t) = Err (ETooDeep k).
Proof. exact expand_rec_too_deep. Qed.
Print Assumptions C13_too_deep.
Theorem C13_below_limit_unchanged : forall (r : fenv) pol fuel seen k v,
  mem_str k seen = false -> length seen < max_depth -> alookup k r = Some v ->
  value_of r pol fuel seen k = expand_rec r pol fuel (k :: seen) v.
Proof. exact value_of_below_limit. Qed.
Print Assumptions C13_below_limit_unchanged.

(* the fuel of the model's expander is not part of its meaning: more fuel never changes a proper answer, and every
   amount from the model's bound on gives the answer of [expand], which is a value or a typed error *)
Theorem C13_more_fuel_same_answer : forall (r : fenv) pol f f' seen s, f <= f' ->
  expand_rec r pol f seen s <> Fuel -> expand_rec r pol f' seen s = expand_rec r pol f seen s.
Proof. exact expand_rec_mono. Qed.
Print Assumptions C13_more_fuel_same_answer.
Theorem C13_fuel_irrelevant : forall (r : fenv) pol s f, S (length r) <= f ->
  expand_rec r pol f [] s = expand r pol s /\ expand r pol s <> Fuel.
Proof. exact expand_fuel_irrelevant. Qed.
Print Assumptions C13_fuel_irrelevant.

(* \${...} is left as the literal ${...}; the load-time pass keeps the escape *)
Theorem C13_escape : forall (r : fenv) pol (l t : str),
  no_dollar l -> no_dollar t ->
  expand r pol (l ++ ch_bslash :: ch_dollar :: ch_lbrace :: t) =
  Ok (if keeps_escapes pol then l ++ ch_bslash :: ch_dollar :: ch_lbrace :: t
      else l ++ ch_dollar :: ch_lbrace :: t).
Proof. exact expand_escape. Qed.
Print Assumptions C13_escape.

(* an escaped reference in an env value reaches the command as the literal text: load-time
   pass followed by the generation-time pass *)
Theorem C13_escape_end_to_end : forall (early late : fenv) pol (l t : str),
  no_dollar l -> no_dollar t -> keeps_escapes pol = false ->
  rbind (expand early PDefer (l ++ ch_bslash :: ch_dollar :: ch_lbrace :: t)) (expand late pol)
  = Ok (l ++ ch_dollar :: ch_lbrace :: t).
Proof. exact escape_two_passes. Qed.
Print Assumptions C13_escape_end_to_end.

(* non-vacuity and the repository's own unit tests, replayed on the model *)
Definition E_ (l : list (string * string)) : fenv := map (fun '(a, b) => (S_ a, S_ b)) l.
Open Scope string_scope.
Example C13_ex_recursive : expand (E_ [("A", "a(${B})"); ("B", "b()")]) PError (S_ "x${A}x") = Ok (S_ "xa(b())x").
Proof. vm_compute. reflexivity. Qed.
Example C13_ex_escaped : expand (E_ [("A", "\${a}")]) PError (S_ "${A} simple string") = Ok (S_ "${a} simple string").
Proof. vm_compute. reflexivity. Qed.
Example C13_ex_cycle : expand (E_ [("A", "${B}"); ("B", "x${A}")]) PError (S_ "${A}") = Err (ECycle (S_ "A")).
Proof. vm_compute. reflexivity. Qed.
Example C13_ex_unclosed : expand (E_ []) PError (S_ "simple ${A") = Err (EUnclosed 7).
Proof. vm_compute. reflexivity. Qed.
Definition EVtest (s : str) : evr :=
  if str_eqb s (S_ "1+1") then EvOk (S_ "2") else if str_eqb s (S_ "1+2") then EvOk (S_ "3") else EvErr.
Example C13_ex_eval : eval EVtest (S_ "foo $(1+$(1+1)) after_foo") = Ok (S_ "foo 3 after_foo").
Proof. vm_compute. reflexivity. Qed.
Example C13_ex_eval_escaped : eval EVtest (S_ "foo $$(1+1) $(1+1)") = Ok (S_ "foo $$(1+1) 2").
Proof. vm_compute. reflexivity. Qed.
Example C13_ex_multibyte : expand (E_ [("A", "a")]) PError (S_ "é${A}é") = Ok (S_ "éaé").
Proof. vm_compute. reflexivity. Qed.

(* a chain of 100 variables expands, one of 101 is refused with the typed error *)
Definition vname (i : nat) : str := app (S_ "V") (show_dec (N.of_nat i)).
Definition chain (n : nat) : fenv :=
  app (map (fun i => (vname i, app (S_ "${") (app (vname (S i)) (S_ "}")))) (seq 0 n)) [(vname n, S_ "end")].
Example C13_ex_depth_ok : expand (chain 99) PError (S_ "${V0}") = Ok (S_ "end").
Proof. vm_compute. reflexivity. Qed.
Example C13_ex_depth_refused : expand (chain 100) PError (S_ "${V0}") = Err (ETooDeep (vname 100)).
Proof. vm_compute. reflexivity. Qed.
