(* C10 — a build's statements do not depend on what else was selected.
   Proofs: proofs/GenerateFacts.v (generate_shape). *)
From Coq Require Import Ascii String List NArith.
Import ListNotations.
Require Import Laze.model.Base Laze.model.Env Laze.model.Allow Laze.model.Ninja Laze.model.Ctx
        Laze.model.Resolver Laze.model.Imports Laze.model.Generate
        Laze.proofs.StmtFacts Laze.proofs.GenerateFacts.
Open Scope list_scope.

(* configure_build takes no argument derived from the selection (builders/apps/partition/local
   mode); the file contains exactly the statements of the selected pairs that configure.  Hence
   for two runs on the same project that both select a pair, every statement of that pair is in
   both files. *)
Theorem C10_stmts_independent :
  forall H EV b le select disable cli_env bsel1 asel1 local1 part1 g1 bsel2 asel2 local2 part2 g2
         bs1 bins1 bs2 bins2 bm info es t,
  generate H EV b le bsel1 asel1 local1 part1 select disable cli_env = Ok g1 ->
  generate H EV b le bsel2 asel2 local2 part2 select disable cli_env = Ok g2 ->
  selected_builders b bsel1 = Ok bs1 -> selected_bins b asel1 local1 = Ok bins1 ->
  selected_builders b bsel2 = Ok bs2 -> selected_bins b asel2 local2 = Ok bins2 ->
  In bm (part_filter b part1 (pairs bs1 bins1)) ->
  In bm (part_filter b part2 (pairs bs2 bins2)) ->
  configure_build H EV b le (fst bm) (snd bm) select disable cli_env = Ok (Built info es) ->
  In t (map show_stmt es) ->
  In t (map show_stmt (gr_stmts g1)) /\ In t (map show_stmt (gr_stmts g2)).
Proof.
  intros H EV b le select disable cli_env bsel1 asel1 local1 part1 g1 bsel2 asel2 local2 part2 g2
         bs1 bins1 bs2 bins2 bm info es t G1 G2 B1 A1 B2 A2 I1 I2 HC Ht.
  destruct (generate_shape H EV b le bsel1 asel1 local1 part1 select disable cli_env g1 G1) as (_ & _ & bsa & binsa & Eb & Ea & M1).
  destruct (generate_shape H EV b le bsel2 asel2 local2 part2 select disable cli_env g2 G2) as (_ & _ & bsb & binsb & Eb2 & Ea2 & M2).
  rewrite B1 in Eb. rewrite A1 in Ea. rewrite B2 in Eb2. rewrite A2 in Ea2.
  inversion Eb; inversion Ea; inversion Eb2; inversion Ea2; subst.
  split; [apply M1|apply M2]; exists bm, info, es; auto.
Qed.
Print Assumptions C10_stmts_independent.

(* the selected pairs are the cartesian product in builder-major order, filtered *)
Theorem C10_pairs_order : forall (bs : list nat) (bins : list module),
  pairs bs bins = flat_map (fun a => map (fun x => (a, x)) bins) bs.
Proof. reflexivity. Qed.
Print Assumptions C10_pairs_order.

(* partitions: the N shards of count:k/N cover the list of pairs, each keeps its order, and they
   are disjoint (their sizes add up); the same cover for hash: with any assignment of names to shards *)
Require Import Laze.proofs.PartitionFacts.
From Coq Require Import Permutation Arith.

Theorem C10_count_cover : forall (A : Type) n, 1 <= n -> forall (l : list A) i,
  Permutation (concat (map (fun k => count_filter k n i l) (seq 1 n))) l.
Proof. exact @count_shards_cover. Qed.
Print Assumptions C10_count_cover.

Theorem C10_count_ordered : forall (A : Type) m n (l : list A) i, sublist (count_filter m n i l) l.
Proof. exact @count_shard_ordered. Qed.
Print Assumptions C10_count_ordered.

Theorem C10_count_disjoint : forall (A : Type) n (l : list A), 1 <= n ->
  length (concat (map (fun k => count_filter k n 0 l) (seq 1 n))) = length l.
Proof. exact @count_shards_disjoint. Qed.
Print Assumptions C10_count_disjoint.

Theorem C10_hash_cover : forall (A : Type) (shard_of : A -> nat) n (l : list A),
  (forall x, 1 <= shard_of x <= n) ->
  Permutation (concat (map (fun k => filter (fun x => Nat.eqb (shard_of x) k) l) (seq 1 n))) l.
Proof. exact @hash_shards_cover. Qed.
Print Assumptions C10_hash_cover.

Example C10_ex : count_filter 2 3 0 [1; 2; 3; 4; 5; 6; 7] = [2; 5].
Proof. reflexivity. Qed.

(* WHAT a selection selects (proofs/SelectionFacts.v): --builders gives exactly the named builders, one per name, in
   command-line order; --apps / local mode give exactly the binaries whose name is selected and — in local mode — whose
   directory is the start directory; and every configured build of a run is the configuration of such a pair: no build
   outside the --builders / --apps / local-mode selection. *)
Require Import Laze.proofs.SelectionFacts.
Theorem C10_builders_exactly_named : forall b l bs, selected_builders b (SelSome l) = Ok bs ->
  Forall2 (fun n i => bag_index b n = Some i /\ exists c, bag_get b i = Some c /\ c_is_builder c = true) (nodup_str l) bs.
Proof. exact selected_builders_named. Qed.
Print Assumptions C10_builders_exactly_named.

Theorem C10_apps_exactly_selected : forall b apps local bins, selected_bins b apps local = Ok bins ->
  forall m, In m bins <->
    In m (all_modules b) /\ m_is_binary m = true /\ selects apps (m_name m) = true /\
    match local with None => True | Some dir => exists r, m_relpath m = Some r /\ Path.path_eq r dir = true end.
Proof. exact selected_bins_spec. Qed.
Print Assumptions C10_apps_exactly_selected.

Theorem C10_no_build_outside_the_selection :
  forall H EV b le bsel asel local part select disable cli_env g,
  generate H EV b le bsel asel local part select disable cli_env = Ok g ->
  exists bs bins, selected_builders b bsel = Ok bs /\ selected_bins b asel local = Ok bins /\
    forall info, In info (gr_builds g) ->
      exists i m es, In i bs /\ In m bins /\ configure_build H EV b le i m select disable cli_env = Ok (Built info es).
Proof. exact builds_within_selection. Qed.
Print Assumptions C10_no_build_outside_the_selection.
