(* C14 — var_options render list variables without stray separators.
   Property theorems only; proofs are in proofs/EnvFacts.v. *)
From Coq Require Import Ascii String List.
Import ListNotations.
Require Import Laze.model.Base Laze.model.Env Laze.model.Allow Laze.model.Ctx Laze.proofs.EnvFacts Laze.proofs.FinalizeFacts.
Open Scope list_scope.

(* the rendering loop of the code equals: start, then prefix+value+suffix of every non-empty
   element separated by joiner (default one space), then end *)
Theorem C14_flatten_spec : forall o v, flatten_opts o v = render_spec o v.
Proof. exact flatten_opts_spec. Qed.
Print Assumptions C14_flatten_spec.

(* an empty list (or only empty elements) yields start+end *)
Theorem C14_empty : forall o l, forallb is_empty l = true ->
  flatten_opts o (EList l) = odflt [] (mo_start o) ++ odflt [] (mo_end o).
Proof. exact render_all_empty. Qed.
Print Assumptions C14_empty.

(* empty elements in any position are invisible: no leading, trailing or doubled joiner *)
Theorem C14_ignores_empty : forall o l,
  flatten_opts o (EList l) = flatten_opts o (EList (filter nonempty l)).
Proof. exact render_ignores_empty. Qed.
Print Assumptions C14_ignores_empty.

(* exactly one joiner between consecutive rendered elements, none before the first or after the last *)
Theorem C14_joiners : forall o x xs,
  flatten_opts o (EList (x :: xs)) =
  match filter nonempty (x :: xs) with
  | [] => odflt [] (mo_start o) ++ odflt [] (mo_end o)
  | y :: ys =>
      odflt [] (mo_start o) ++
      (wrap (odflt [] (mo_prefix o)) (odflt [] (mo_suffix o)) y ++
       flat_map (fun z => odflt [" "%char] (mo_joiner o) ++ wrap (odflt [] (mo_prefix o)) (odflt [] (mo_suffix o)) z) ys)
      ++ odflt [] (mo_end o)
  end.
Proof. exact render_nonempty_list. Qed.
Print Assumptions C14_joiners.

(* from: takes the elements of the named variable, rendered with the variable's own options *)
Theorem C14_from : forall e key o other ov,
  mo_from o = Some other -> env_get other e = Some ov -> env_get key e = None ->
  exists fe, flatten_with_opts [(key, o)] e = Ok fe /\ alookup key fe = Some (render_spec o ov).
Proof. exact from_single_opt. Qed.
Print Assumptions C14_from.

Theorem C14_from_missing : forall e key o other t,
  mo_from o = Some other -> env_get other e = None ->
  flatten_with_opts ((key, o) :: t) e = Err (EFromMissing key).
Proof. exact from_missing. Qed.
Print Assumptions C14_from_missing.

Theorem C14_from_both : forall e key o other ov v t,
  mo_from o = Some other -> env_get other e = Some ov -> env_get key e = Some v ->
  flatten_with_opts ((key, o) :: t) e = Err (EFromBoth key).
Proof. exact from_both. Qed.
Print Assumptions C14_from_both.

(* in a whole env: a variable with options (and no from:) is rendered by render_spec, one
   without options by the plain space join *)
Theorem C14_env : forall opts e key v fe,
  flatten_with_opts opts e = Ok fe -> env_get key e = Some v ->
  (forall o, alookup key opts = Some o -> mo_from o = None) -> NoDup (akeys opts) ->
  alookup key fe = Some (match alookup key opts with Some o => render_spec o v | None => flatten_key v end).
Proof. exact flatten_with_opts_plain. Qed.
Print Assumptions C14_env.

(* non-vacuity: concrete renderings, including the shapes that used to go wrong *)
Definition o_ex := {| mo_from := None; mo_joiner := Some (S_ ","); mo_prefix := Some (S_ "-l");
                      mo_suffix := None; mo_start := Some (S_ "["); mo_end := Some (S_ "]") |}.
Example C14_ex1 : flatten_opts o_ex (EList [S_ "a"; S_ ""; S_ "b"; S_ ""]) = S_ "[-la,-lb]".
Proof. vm_compute. reflexivity. Qed.
Example C14_ex2 : flatten_opts o_ex (EList []) = S_ "[]".
Proof. vm_compute. reflexivity. Qed.
Example C14_ex3 : flatten_opts o_ex (EList [S_ ""; S_ ""; S_ "x"]) = S_ "[-lx]".
Proof. vm_compute. reflexivity. Qed.
Example C14_ex_from :
  flatten_with_opts [(S_ "LIBS", {| mo_from := Some (S_ "libs"); mo_joiner := None; mo_prefix := Some (S_ "-l");
                                     mo_suffix := None; mo_start := None; mo_end := None |})]
                    [(S_ "libs", EList [S_ "m"; S_ "c"])]
  = Ok [(S_ "libs", S_ "m c"); (S_ "LIBS", S_ "-lm -lc")].
Proof. vm_compute. reflexivity. Qed.

(* options set on a context apply to its descendants unless they define their own: after
   ContextBag::finalize a context that declares var_options keeps them, one that declares none has
   the FINAL var_options of its parent *)
Theorem C14_inherited : forall b0 bf, finalize b0 = Ok bf ->
  let b1 := if mem_str (S_ "default") (bag_names b0) then b0 else b0 ++ [context_default] in
  forall j c, bag_get bf j = Some c ->
    exists c1, bag_get b1 j = Some c1 /\
      c_var_options c =
      match c_var_options c1 with
      | Some own => Some own
      | None => match c_parent_index c with
                | Some p => match bag_get bf p with Some pc => c_var_options pc | None => None end
                | None => None end
      end.
Proof. exact finalize_var_options_inherited. Qed.
Print Assumptions C14_inherited.
