(* C18 — laze builds what was asked for and reports ninja's verdict.
   Proofs: proofs/TasksFacts.v. *)
From Coq Require Import Ascii String List NArith Arith Bool.
Import ListNotations.
Require Import Laze.model.Base Laze.model.Env Laze.model.Ninja Laze.model.Ctx Laze.model.Generate
        Laze.model.Tasks Laze.proofs.TasksFacts.
Open Scope list_scope.

(* one ninja invocation on the generated file; explicit targets = outputs of exactly the builds
   selected by --builders/--apps (none only when nothing was selected, where every build of the
   file is a requested one); -j/-k/-v are passed through; exit status 1 iff ninja fails *)
Theorem C18_plain_build : forall ninja_ok task_ok builds file c,
  mc_task c = None -> mc_generate_only c = false ->
  let targets := if is_all (mc_builders c) && is_all (mc_apps c) then None
                 else Some (map bi_out (filter (selected_build c) builds)) in
  let argv := ninja_argv file (Nat.ltb 0 (mc_verbose c)) targets (mc_jobs c) (Some (mc_keep_going c)) in
  main_after_generate ninja_ok task_ok builds file c =
  match targets with
  | Some [] => {| o_actions := []; o_exit := 0 |}      (* the selection matches no configured build: nothing to build *)
  | _ => {| o_actions := [ANinja argv]; o_exit := if ninja_ok argv then 0 else 1 |}
  end.
Proof. exact plain_build. Qed.
Print Assumptions C18_plain_build.

(* no build outside the selection: ninja is never started with an empty target list unless the
   command line selects every builder and every app (after fix 7aa44f9; an empty list would make
   ninja build every default target of the file, which after a cache hit is the wider run's) *)
Theorem C18_never_everything_by_accident : forall ninja_ok task_ok builds file c argv,
  mc_task c = None ->
  In (ANinja argv) (o_actions (main_after_generate ninja_ok task_ok builds file c)) ->
  (is_all (mc_builders c) && is_all (mc_apps c) = true /\
   argv = ninja_argv file (Nat.ltb 0 (mc_verbose c)) None (mc_jobs c) (Some (mc_keep_going c))) \/
  (exists t ts, map bi_out (filter (selected_build c) builds) = t :: ts /\
   argv = ninja_argv file (Nat.ltb 0 (mc_verbose c)) (Some (t :: ts)) (mc_jobs c) (Some (mc_keep_going c))).
Proof. exact plain_build_targets. Qed.
Print Assumptions C18_never_everything_by_accident.

Theorem C18_generate_only : forall ninja_ok task_ok builds file c,
  mc_task c = None -> mc_generate_only c = true ->
  main_after_generate ninja_ok task_ok builds file c = {| o_actions := []; o_exit := 0 |}.
Proof. exact generate_only_runs_nothing. Qed.
Print Assumptions C18_generate_only.

(* the argument vector consists of -f <file>, the requested flags with their values, the targets;
   nothing else (in particular no -G) *)
Theorem C18_flags : forall file verbose targets jobs kg,
  exists flags, ninja_argv file verbose targets jobs kg = [S_ "-f"; file] ++ flags ++ odflt [] targets /\
    (verbose = true -> In (S_ "-v") flags) /\
    (forall x, In x flags -> x = S_ "-v" \/ x = S_ "-j" \/ x = S_ "-k" \/
               (exists j, jobs = Some j /\ x = show_dec (N.of_nat j)) \/ (exists k, kg = Some k /\ x = show_dec (N.of_nat k))).
Proof. exact ninja_argv_shape. Qed.
Print Assumptions C18_flags.

(* clean: ninja's clean tool (cleandead with --unused) on the build file of the mode and nothing else:
   -f <file> [-v] -t clean|cleandead; exit 1 iff ninja fails; nothing is generated *)
Theorem C18_clean : forall ninja_ok file verbose unused,
  main_clean ninja_ok file verbose unused =
  {| o_actions := [ANinja ([S_ "-f"; file] ++ (if verbose then [S_ "-v"] else []) ++
                           [S_ "-t"; if unused then S_ "cleandead" else S_ "clean"])];
     o_exit := if ninja_ok (clean_argv file verbose unused) then 0 else 1 |}.
Proof. intros ninja_ok file verbose unused. unfold main_clean, clean_argv, ninja_argv. destruct verbose; reflexivity. Qed.
Print Assumptions C18_clean.
