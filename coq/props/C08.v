(* C08 — a cache hit is indistinguishable from regenerating.
   Model: model/Cache.v (the machine over run / kill / edit histories and its instance with the
   loader and generator of Load.v / Generate.v). Proofs: proofs/CacheFacts.v, CacheNarrow.v,
   CacheInstance.v, LoadFrame.v. *)
From Coq Require Import Ascii String List NArith Arith Bool.
Import ListNotations.
Require Import Laze.model.Base Laze.model.Env Laze.model.Ninja Laze.model.Ctx Laze.model.Generate
        Laze.model.Load Laze.model.Cache.
Require Import Laze.proofs.CacheFacts Laze.proofs.CacheNarrow Laze.proofs.CacheInstance Laze.proofs.LoadFrame Laze.proofs.LoadNames Laze.proofs.CacheOrder Laze.proofs.CacheClosed.
Open Scope list_scope.

Section C08.
  Variable H : list ascii -> N.                   (* DefaultHasher *)
  Variable EV : str -> evr.                       (* evalexpr *)
  Variable bd : str.
  Variable store : str -> N -> list ydoc.         (* content of version v of file f *)

  Notation world := (world vtree cargs tstate gen_result).
  Notation coherent := (Inv vtree cargs tstate gen_result cprecheck (cload_ts bd store) (cgen H EV bd store) cis_local).

  (* After ANY history of runs (complete, failing, killed at any of the seven fault points) and
     arbitrary changes of the tree, a cache that exists was written by a complete run, on some tree
     whose loaded files it records, next to the complete ninja file of that run. *)
  Theorem C08_reachable_coherent : forall (t0 : vtree) (ops : list (op vtree cargs)),
    coherent (fold_left (cstep H EV bd store) ops (fresh vtree cargs tstate gen_result t0)).
  Proof. exact (reachable_coherent H EV bd store). Qed.

  (* A run that is served from the cache in a coherent build directory writes nothing; the ninja
     file on disk is the complete file r of a generation of the CURRENT tree for the cached
     arguments; and — same build-dir/root/binary spelling, same -D list, no --partition, --apps
     narrowed in global mode only — a run with the same arguments in an
     empty build directory succeeds, configures exactly the builds the hit hands to main that the
     arguments select, and writes only statements that are in the file on disk. *)
  Theorem C08_hit_is_fresh : forall a k (w w' : world) r',
    coherent w -> crun H EV bd store a k w = (w', OHit r') ->
    w' = w /\
    exists c r,
      s_cache _ _ _ (get_slot _ _ _ _ w (cis_local a)) = Some c /\
      s_ninja _ _ _ (get_slot _ _ _ _ w (cis_local a)) = NComplete r /\
      r' = cview a r /\ caccepts (c_args _ _ _ c) r a = true /\ cts_valid (c_ts _ _ _ c) (w_tree _ _ _ _ w) = true /\
      (ca_le (c_args _ _ _ c) = ca_le a -> ca_define (c_args _ _ _ c) = ca_define a -> ca_partition a = None ->
       (ca_local a = None \/ ca_apps a = ca_apps (c_args _ _ _ c)) -> ca_local (c_args _ _ _ c) = ca_local a ->
       exists g',
         snd (crun H EV bd store a 0 (fresh _ _ _ _ (w_tree _ _ _ _ w))) = ORegen g' /\
         (forall x, In x (gr_builds g') <->
                    In x (gr_builds r') /\ selects (ca_builders a) (bi_builder x) = true /\ selects (ca_apps a) (bi_binary x) = true) /\
         (forall t, In t (map show_stmt (gr_stmts g')) -> In t (map show_stmt (gr_stmts r)))).
  Proof. exact (hit_is_fresh_final H EV bd store). Qed.

  (* ... and in ORDER: in global mode (no --partition, same -D list) what main selects from the hit's
     result is, element by element, the build list of the run in an empty build directory — so ninja
     targets and task executions come in the same order as without the cache. *)
  Theorem C08_hit_builds_ordered : forall a k (w w' : world) r',
    coherent w -> crun H EV bd store a k w = (w', OHit r') ->
    forall c, s_cache _ _ _ (get_slot _ _ _ _ w (cis_local a)) = Some c ->
    ca_le (c_args _ _ _ c) = ca_le a -> ca_define (c_args _ _ _ c) = ca_define a -> ca_partition a = None ->
    ca_local a = None -> ca_local (c_args _ _ _ c) = None ->
    forall g', snd (crun H EV bd store a 0 (fresh _ _ _ _ (w_tree _ _ _ _ w))) = ORegen g' ->
    gr_builds g' = filter (fun x => selects (ca_builders a) (bi_builder x) && selects (ca_apps a) (bi_binary x)) (gr_builds r').
  Proof. exact (hit_builds_ordered H EV bd store). Qed.

  (* With --partition the cache is only accepted for the same selection (same builders in the same
     order, same set of apps): a run with the same arguments in an empty build directory then
     produces the cached generation itself. *)
  Theorem C08_hit_with_partition : forall a k (w w' : world) r',
    coherent w -> crun H EV bd store a k w = (w', OHit r') -> ca_partition a <> None ->
    exists c r,
      s_cache _ _ _ (get_slot _ _ _ _ w (cis_local a)) = Some c /\
      s_ninja _ _ _ (get_slot _ _ _ _ w (cis_local a)) = NComplete r /\ r' = cview a r /\
      (ca_le (c_args _ _ _ c) = ca_le a -> ca_define (c_args _ _ _ c) = ca_define a ->
       ca_local (c_args _ _ _ c) = ca_local a ->
       snd (crun H EV bd store a 0 (fresh _ _ _ _ (w_tree _ _ _ _ w))) = ORegen r /\
       (forall x, In x (gr_builds r) <->
                  In x (gr_builds r') /\ selects (ca_builders a) (bi_builder x) = true /\ selects (ca_apps a) (bi_binary x) = true)).
  Proof. intros a k w w' r'. exact (hit_with_partition H EV bd store a k w w' r' (load_frame_holds bd store)). Qed.

  (* The cache is never accepted after the binary, --partition, --select, --disable, --define (as an
     environment), the start directory or a recorded file changed; narrower selections only when no
     name could be unknown, and with --partition only for the same selection. *)
  Theorem C08_never_after_change : forall c r a, caccepts c r a = true ->
    ca_bin c = ca_bin a /\
    ca_partition c = ca_partition a /\
    sel_superset (ca_builders c) (ca_builders a) = true /\ sel_superset (ca_apps c) (ca_apps a) = true /\
    (ca_partition a <> None -> sel_same_order (ca_builders c) (ca_builders a) = true /\ sel_same_set (ca_apps c) (ca_apps a) = true) /\
    names_known (ca_builders c) (ca_builders a) (map bi_builder (gr_builds r)) = true /\
    names_known (ca_apps c) (ca_apps a) (map bi_binary (gr_builds r)) = true /\
    (forall p q, ca_local a = Some p -> ca_local c = Some q -> p = q) /\
    ca_select c = ca_select a /\ ca_disable c = ca_disable a /\
    (exists x y, cli_env c = Ok x /\ cli_env a = Ok y /\ env_same x y = true) /\
    ca_info a = false.                  (* a run with --info-export never reads the cache *)
  Proof. exact caccepts_spec. Qed.

  (* ... and a recorded file that changed (other version, or gone) invalidates it *)
  Theorem C08_changed_file_invalidates : forall (ts : tstate) (t : vtree) f v,
    In (f, v) (fst ts) -> alookup f t <> Some v -> cts_valid ts t = false.
  Proof. exact changed_file_invalidates. Qed.

  (* ... and so does a file that appears where the loader had looked for one and found none (a
     lazefile candidate of an import that takes precedence over the one that was loaded; fix d85df0c) *)
  Theorem C08_appeared_file_invalidates : forall (ts : tstate) (t : vtree) f,
    In f (snd ts) -> alookup f t <> None -> cts_valid ts t = false.
  Proof. exact appeared_file_invalidates. Qed.

  (* a run with --info-export never reads the cache; the first run after the cache file of its mode was
     damaged (truncated by a kill inside its write, a full disk) is not served from it either *)
  Theorem C08_info_export_never_hits : forall a k w, ca_info a = true -> forall r, snd (crun H EV bd store a k w) <> OHit r.
  Proof. exact (info_export_never_hits H EV bd store). Qed.
  Theorem C08_damaged_cache_never_hits : forall a k (w : world), forall r,
    snd (crun H EV bd store a k (cstep H EV bd store w (Corrupt (cis_local a)))) <> OHit r.
  Proof. exact (damaged_cache_never_hits H EV bd store). Qed.

  (* An unchanged project with an identical command line is served from the cache. *)
  Theorem C08_identical_command_line_hits : forall a (w w1 : world) r, ca_info a = false ->
    crun H EV bd store a 0 w = (w1, ORegen r) -> exists k, crun H EV bd store a k w1 = (w1, OHit (cview a r)).
  Proof. exact (identical_command_line_hits H EV bd store). Qed.

  (* The loader reads only the files it records, and depends on the absence only of the files it
     records as absent: `imports:` included (the lazefile of an imported directory is the first of
     laze-lib.yml, laze.yml, laze-project.yml that exists). *)
  Theorem C08_load_frame : forall t1 t2 ts, cload_ts bd store t1 = Ok ts -> cts_valid ts t2 = true ->
    cload_ts bd store t2 = Ok ts /\ load (ytree_of store t2) project_file bd = load (ytree_of store t1) project_file bd.
  Proof. exact (load_frame_holds bd store). Qed.

  (* C08 meets C01 and C02: what a run hands to main — regenerated or served from the cache, after ANY history of
     runs, kills, edits and damaged cache files in the build directory — consists of builds that are the resolver's
     result on the current tree: closed under hard dependencies, free of conflicts and of disabled modules *)
  Theorem C08_reported_builds_closed : forall t0 ops a k w' o,
    crun H EV bd store a k (fold_left (cstep H EV bd store) ops (fresh vtree cargs tstate gen_result t0)) = (w', o) ->
    forall r, o = OHit r \/ o = ORegen r -> forall info, In info (gr_builds r) -> build_closed info.
  Proof. exact (reported_builds_closed H EV bd store). Qed.
  Theorem C08_reported_builds_exclusive : forall t0 ops a k w' o,
    crun H EV bd store a k (fold_left (cstep H EV bd store) ops (fresh vtree cargs tstate gen_result t0)) = (w', o) ->
    forall r, o = OHit r \/ o = ORegen r -> forall info, In info (gr_builds r) -> build_exclusive (ca_disable a) info.
  Proof. exact (reported_builds_exclusive H EV bd store). Qed.
End C08.
Print Assumptions C08_reported_builds_closed.
Print Assumptions C08_reported_builds_exclusive.
Print Assumptions C08_reachable_coherent.
Print Assumptions C08_hit_is_fresh.
Print Assumptions C08_hit_builds_ordered.
Print Assumptions C08_hit_with_partition.
Print Assumptions C08_never_after_change.
Print Assumptions C08_changed_file_invalidates.
Print Assumptions C08_appeared_file_invalidates.
Print Assumptions C08_identical_command_line_hits.
Print Assumptions C08_info_export_never_hits.
Print Assumptions C08_damaged_cache_never_hits.
Print Assumptions C08_load_frame.

(* The order of operations of the pinned tree (stale cache kept while the ninja file is rewritten,
   new cache written before the flush) does NOT have the property: *)
Theorem C08_pinned_order_refuted_failed_run :
  let w := fold_left tstep [Run 1 0; Run 9 0] (fresh nat nat nat nat 0) in
  exists r, snd (trun 1 0 w) = OHit r /\ s_ninja _ _ _ (w_global _ _ _ _ w) = NPartial.
Proof. exact pinned_order_refuted_failed_run. Qed.
Theorem C08_pinned_order_refuted_unflushed :
  let w := fold_left tstep [Run 1 7] (fresh nat nat nat nat 0) in
  exists r, snd (trun 1 0 w) = OHit r /\ s_ninja _ _ _ (w_global _ _ _ _ w) = NPartial.
Proof. exact pinned_order_refuted_unflushed. Qed.
Print Assumptions C08_pinned_order_refuted_failed_run.

(* non-vacuity: a two-run history in the toy instance ends in a hit *)
Example C08_hit_exists :
  let run := mrun nat nat nat nat (fun _ => Ok tt) (fun t => Ok t) tgen Nat.eqb (fun c _ a => Nat.eqb c a) (fun _ r => r) (fun _ => false) in
  let w1 := fst (run 1 0 (fresh nat nat nat nat 5)) in
  snd (run 1 0 w1) = OHit 6.
Proof. reflexivity. Qed.

(* Without the record of absent files the frame does not hold (the tree before fix d85df0c): two
   trees that agree on every file the loader read, where the second has a lazefile of higher
   precedence in the imported directory, load differently. *)
Example C08_absent_files_needed :
  let dproj := {| d_contexts := None; d_builders := None; d_modules := None; d_apps := None;
                  d_includes := None; d_subdirs := None; d_defaults_module := None; d_defaults_app := None;
                  d_imports := Some [S_ "lib"] |} in
  let dmod := fun n => {| d_contexts := None; d_builders := None;
                  d_modules := Some (Some [{| ym_name := Some n; ym_context := CNone; ym_depends := None; ym_selects := None;
                     ym_uses := None; ym_provides := None; ym_provides_unique := None; ym_conflicts := None; ym_notify_all := false;
                     ym_sources := None; ym_tasks := None; ym_build := None; ym_env_local := None; ym_env_export := None;
                     ym_env_global := None; ym_blocklist := None; ym_allowlist := None; ym_srcdir := None;
                     ym_is_build_dep := false; ym_is_global_build_dep := false; ym_download := None |}]);
                  d_apps := None; d_includes := None; d_subdirs := None; d_defaults_module := None; d_defaults_app := None;
                  d_imports := None |} in
  let store := fun (f : str) (v : N) =>
     if str_eqb f (S_ "laze-project.yml") then [dproj]
     else if str_eqb f (S_ "lib/laze.yml") then [dmod (S_ "old")] else [dmod (S_ "new")] in
  let t1 := [(S_ "laze-project.yml", 1%N); (S_ "lib/laze.yml", 1%N)] in
  let t2 := t1 ++ [(S_ "lib/laze-lib.yml", 1%N)] in
  match cload_ts (S_ "build") store t1 with
  | Ok ts =>
      (* every recorded file is unchanged in t2 ... *)
      forallb (fun fv => match alookup (fst fv) t2 with Some v => N.eqb v (snd fv) | None => false end) (fst ts) = true /\
      (* ... only the recorded absence is violated ... *)
      snd ts = [S_ "lib/laze-lib.yml"] /\ cts_valid ts t2 = false /\
      (* ... and the two trees load different projects *)
      match load (ytree_of store t1) project_file (S_ "build"), load (ytree_of store t2) project_file (S_ "build") with
      | Ok b1, Ok b2 => map (fun c => map fst (c_modules c)) b1 <> map (fun c => map fst (c_modules c)) b2
      | _, _ => False
      end
  | _ => False
  end.
Proof. vm_compute. repeat split; try reflexivity. discriminate. Qed.
