(* C12 — dependency resolution follows the documented greedy order.
   Property theorems only; proofs in proofs/ResolverSpec.v. *)
From Coq Require Import Ascii String List NArith.
Import ListNotations.
Require Import Laze.model.Base Laze.model.Env Laze.model.Allow Laze.model.Ninja Laze.model.Ctx
        Laze.model.Resolver Laze.proofs.ResolverFacts Laze.proofs.ResolverSpec.
Open Scope list_scope.

(* The resolver refines the big-step specification [ev] (ResolverSpec.v: ~50 lines without
   fuel, snapshots or error plumbing): success yields a derivation of "taken, resulting state",
   failure a derivation of "refused". *)
Theorem C12_refines : forall lookup provs f st m,
  (forall st', resolve_deep lookup provs f st m = Ok st' -> ev lookup provs st m (Some st')) /\
  (forall e, resolve_deep lookup provs f st m = Err e -> ev lookup provs st m None).
Proof. exact resolve_refines. Qed.
Print Assumptions C12_refines.

(* select order: CLI selects, then the app's own, then the builder's context module *)
Theorem C12_select_order : forall binary builder_name cli,
  m_selects (build_binary binary builder_name cli) =
  cli ++ m_selects binary ++ [Hard (ctx_module_name builder_name)].
Proof. reflexivity. Qed.
Print Assumptions C12_select_order.

(* a module is taken when first reached and never moves *)
Theorem C12_first_reached : forall lookup provs,
  (forall n m, lookup n = Some m -> m_name m = n) ->
  (forall n ps p, provs n = Some ps -> In p ps -> exists mp, lookup p = Some mp /\ In n (provides_of mp)) ->
  forall app, (forall a0, lookup (m_name app) = Some a0 -> provides_of a0 = provides_of app) ->
  forall f st m st', Good lookup app st -> okmod lookup app m ->
    resolve_deep lookup provs f st m = Ok st' -> exists l, sel st' = sel st ++ l.
Proof. exact first_reached. Qed.
Print Assumptions C12_first_reached.

(* an optional dependency that cannot be resolved leaves the build exactly as if it had not
   been written (same state: selection, if-then registrations, disabled and provided maps) *)
Theorem C12_optional_transparent : forall lookup provs rec n ds cur,
  (forall ps, provs n = Some ps -> exists c, rlist lookup rec n ps cur 0 = Ok (c, 0)) ->
  (exists e, by_name lookup rec cur n = Err e) ->
  deps lookup provs rec (Soft n :: ds) cur = deps lookup provs rec ds cur.
Proof. exact optional_transparent. Qed.
Print Assumptions C12_optional_transparent.

Theorem C12_ifthen_registers : forall lookup provs rec o n ds cur,
  selected o cur = false ->
  deps lookup provs rec (IfThenHard o n :: ds) cur = deps lookup provs rec ds (add_ifthen o (Hard n) cur).
Proof. exact ifthen_registers. Qed.
Print Assumptions C12_ifthen_registers.

(* shadowing: the definition in the context nearest to the builder *)
Theorem C12_shadowing : forall cs1 c cs2 n m,
  (forall c', In c' cs1 -> alookup n (c_modules c') = None) ->
  alookup n (c_modules c) = Some m ->
  find_module (cs1 ++ c :: cs2) n = Some m.
Proof. exact nearest_definition. Qed.
Print Assumptions C12_shadowing.

(* provider order: the context's own providers first (definition order), then the parent's *)
Theorem C12_provider_order : forall own parent n ps pps,
  alookup n own = Some ps -> alookup n parent = Some pps ->
  alookup n (union_provided own parent) = Some (iset_union ps pps).
Proof. exact provider_order. Qed.
Print Assumptions C12_provider_order.

(* non-vacuity: the example traced with `laze -vv` while designing: an optional failure after
   selections, a unique provider and a late if-then activation *)
Definition mm (n : string) (s : list dep) (c p : list string) : module :=
  let m := module_new (S_ n) None in
  {| m_name := m_name m; m_context_name := m_context_name m; m_selects := s; m_imports := [];
     m_provides := Some (map S_ p); m_conflicts := Some (map S_ c); m_notify_all := false; m_blocklist := None;
     m_allowlist := None; m_sources := []; m_sources_optional := None; m_tasks := []; m_build := None;
     m_env_local := []; m_env_export := []; m_env_global := []; m_env_early := []; m_relpath := None;
     m_srcdir := None; m_build_dep_files := None; m_is_build_dep := false; m_is_global_build_dep := false;
     m_is_binary := false; m_context_id := None; m_defined_in := None; m_download := None |}.
Open Scope string_scope.
Definition mods := [ mm "ctxmod" [] [] []; mm "a" [Soft (S_ "b"); Hard (S_ "feat"); IfThenHard (S_ "c") (S_ "d")] [] [];
  mm "b" [Hard (S_ "nonexist")] [] []; mm "c" [] [] []; mm "d" [] [] []; mm "p1" [] [] ["feat"]; mm "p2" [] ["feat"] ["feat"];
  mm "context::b1" [Hard (S_ "ctxmod"); Hard (S_ "context::default")] [] []; mm "context::default" [] [] [] ].
Definition lk (n : str) := find (fun m => str_eqb n (m_name m)) mods.
Definition pv (n : str) := if str_eqb n (S_ "feat") then Some [S_ "p1"; S_ "p2"] else None.
Definition app := mm "app" [Hard (S_ "a"); Hard (S_ "c"); Hard (S_ "context::b1")] [] [].
Example C12_ex :
  match resolve_deep lk pv 20 (init_state []) app with
  | Ok s => map (fun m => string_of_list_ascii (m_name m)) (sel s) | _ => [] end
  = ["app"; "a"; "p1"; "c"; "d"; "context::b1"; "ctxmod"; "context::default"].
Proof. vm_compute. reflexivity. Qed.

(* The fuel of the model's resolver is not part of its meaning: more fuel never changes an answer that is not
   "out of fuel", two sufficient amounts give one answer, and for a loaded project every amount from the model's
   bound on gives the answer of resolve_build, which is a proper one (selection or refusal). *)
Require Import Laze.model.Load Laze.proofs.ResolverFuel.
Theorem C12_more_fuel_same_answer : forall lookup provs f f' st m, f <= f' ->
  resolve_deep lookup provs f st m <> Fuel -> resolve_deep lookup provs f' st m = resolve_deep lookup provs f st m.
Proof. exact resolve_deep_mono. Qed.
Print Assumptions C12_more_fuel_same_answer.
Theorem C12_fuel_irrelevant : forall t pf bd b builder bname binary cli_selects disabled0 f,
  load t pf bd = Ok b -> In binary (all_modules b) -> resolver_fuel b <= f ->
  resolve_with_fuel f b builder bname binary cli_selects disabled0 = resolve_build b builder bname binary cli_selects disabled0 /\
  resolve_build b builder bname binary cli_selects disabled0 <> Fuel.
Proof. exact resolve_fuel_irrelevant. Qed.
Print Assumptions C12_fuel_irrelevant.
