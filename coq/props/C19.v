(* C19 — generated files are ordered before their users (downloads are not modelled).
   Theorems on the mechanisms: build order, union of exported build-dep files, global build
   deps; the composition into the `|` sections is exercised by the byte-exact correspondence.
   Proofs: proofs/OrderFacts.v, proofs/StmtFacts.v. *)
From Coq Require Import Ascii String List NArith.
Import ListNotations.
Require Import Laze.model.Base Laze.model.Env Laze.model.Allow Laze.model.Ninja Laze.model.Ctx
        Laze.model.Resolver Laze.model.Imports Laze.model.Generate
        Laze.proofs.StmtFacts Laze.proofs.OrderFacts.
Open Scope list_scope.

(* every build-dep module precedes its users in the build order (so its exported files are
   known when the user's statements are rendered) *)
Theorem C19_order_topological : forall g target res u d,
  dependencies_of g target = Some res -> In u res -> In d (gdeps g u) ->
  exists pre post, res = pre ++ u :: post /\ In d pre.
Proof. exact dependencies_of_before. Qed.
Print Assumptions C19_order_topological.

(* the order-only files a module imports are exactly the exported files of its build deps *)
Theorem C19_imported_files : forall (look : module -> list str) l f acc,
  In f (fold_left (fun files d => iset_union files (look d)) l acc) <->
  In f acc \/ exists d, In d l /\ In f (look d).
Proof. exact imported_files_spec. Qed.
Print Assumptions C19_imported_files.

(* global build deps are added to the build deps of every module that is not one itself *)
Theorem C19_global_included : forall gds g acc,
  In g gds -> exists y, In y (fold_left (fun acc d => mset_insert d acc) gds acc) /\ module_eqb g y = true.
Proof. exact global_deps_included. Qed.
Print Assumptions C19_global_included.

(* a cycle among build dependencies is reported (and the build dropped), not emitted *)
Definition gcyc := fold_left (fun g nd => g_register_dependency g (fst nd) (snd nd))
  [(S_ "a", S_ "b"); (S_ "b", S_ "a"); ([], S_ "a"); ([], S_ "b")] g_empty.
Example C19_ex_cycle : dependencies_of gcyc [] = None.
Proof. vm_compute. reflexivity. Qed.
