(* C19 — generated files and downloads are ordered before their users.
   Theorems on the mechanisms: build order, union of exported build-dep files, global build
   deps; the composition into the `|` sections is exercised by the byte-exact correspondence.
   The download clause is a theorem about every configured build (proofs/DownloadOrder.v).
   Proofs: proofs/OrderFacts.v, proofs/StmtFacts.v, proofs/DownloadOrder.v. *)
From Coq Require Import Ascii String List NArith.
Import ListNotations.
Require Import Laze.model.Base Laze.model.Env Laze.model.Allow Laze.model.Ninja Laze.model.Ctx
        Laze.model.Resolver Laze.model.Imports Laze.model.Generate
        Laze.model.Expand Laze.model.Path Laze.model.Load
        Laze.proofs.StmtFacts Laze.proofs.OrderFacts Laze.proofs.DownloadOrder.
Open Scope list_scope.

(* every build-dep module precedes its users in the build order (so its exported files are
   known when the user's statements are rendered) *)
Theorem C19_order_topological : forall g target res u d,
  dependencies_of g target = Some res -> In u res -> In d (gdeps g u) ->
  exists pre post, res = pre ++ u :: post /\ In d pre.
Proof. exact dependencies_of_before. Qed.
Print Assumptions C19_order_topological.

(* the order-only files a module imports are exactly the exported files of its build deps *)
Theorem C19_imported_files : forall (look : module -> list str) l f acc,
  In f (fold_left (fun files d => iset_union files (look d)) l acc) <->
  In f acc \/ exists d, In d l /\ In f (look d).
Proof. exact imported_files_spec. Qed.
Print Assumptions C19_imported_files.

(* WHOSE files: the build deps of a module (second component of build_env) are exactly the is_build_dep modules of
   its import list other than itself (proofs/BuildDeps.v) — and that list is exactly the selected modules reachable
   through active imports, cycles included (C04_imports_are_the_reachable_modules, proofs/ImportsClosure.v). So every
   is_build_dep module a module uses or depends on TRANSITIVELY is waited for: *)
Require Laze.proofs.ImportsClosure.
Require Import Laze.proofs.BuildDeps Laze.proofs.ImportsBuild.
Theorem C19_build_deps_of_a_module : forall genv ms provs self e bd,
  build_env genv ms provs self = Ok (e, bd) ->
  (forall y, In y (odflt [] bd) -> In y (imports_postorder ms provs self) /\ is_dep_of self y = true) /\
  (forall d, In d (imports_postorder ms provs self) -> is_dep_of self d = true ->
             exists y, In y (odflt [] bd) /\ module_eqb d y = true).
Proof. exact build_env_build_deps. Qed.
Print Assumptions C19_build_deps_of_a_module.

Theorem C19_transitive_build_deps_are_waited_for :
  forall t pf bd0 b, load t pf bd0 = Ok b ->
  forall builder bname binary cli_selects disabled0 rst, In binary (all_modules b) ->
  resolve_build b builder bname binary cli_selects disabled0 = Ok rst ->
  forall genv self e bd d, In self (sel rst) ->
  build_env genv (sel rst) (provby rst) self = Ok (e, bd) ->
  ImportsClosure.reach (sel rst) (provby rst) self d -> is_dep_of self d = true ->
  exists y, In y (odflt [] bd) /\ module_eqb d y = true.
Proof.
  intros t pf bd0 b HL builder bname binary cli_selects disabled0 rst Hb HR genv self e bd d Hs HB Hreach Hdep.
  apply (proj2 (build_env_build_deps _ _ _ _ _ _ HB)); [|exact Hdep].
  apply (build_imports_are_reachable t pf bd0 b HL builder bname binary cli_selects disabled0 rst Hb HR self d Hs). exact Hreach.
Qed.
Print Assumptions C19_transitive_build_deps_are_waited_for.

(* global build deps are added to the build deps of every module that is not one itself *)
Theorem C19_global_included : forall gds g acc,
  In g gds -> exists y, In y (fold_left (fun acc d => mset_insert d acc) gds acc) /\ module_eqb g y = true.
Proof. exact global_deps_included. Qed.
Print Assumptions C19_global_included.

(* a cycle among build dependencies is reported (and the build dropped), not emitted *)
Definition gcyc := fold_left (fun g nd => g_register_dependency g (fst nd) (snd nd))
  [(S_ "a", S_ "b"); (S_ "b", S_ "a"); ([], S_ "a"); ([], S_ "b")] g_empty.
Example C19_ex_cycle : dependencies_of gcyc [] = None.
Proof. vm_compute. reflexivity. Qed.
(* ... in general: an order that is delivered contains no cycle, and a cycle among the dependencies the
   target reaches (by one or more edges back to a node) makes dependencies_of deliver nothing — the
   build is dropped (configure_build answers NoBuild), never emitted in some arbitrary order *)
Theorem C19_order_has_no_cycle : forall g target res u,
  dependencies_of g target = Some res -> In u res -> ~ reach1 g u u.
Proof. exact order_has_no_cycle. Qed.
Print Assumptions C19_order_has_no_cycle.
Theorem C19_reachable_cycle_drops : forall g target u,
  reach g target u -> reach1 g u u -> dependencies_of g target = None.
Proof. exact reachable_cycle_drops. Qed.
Print Assumptions C19_reachable_cycle_drops.

(* --- downloads --- *)
(* In the statements of every configured build: the modules are visited in the build order of the
   build info (C19_order_topological: build deps first). A module at any position of it has for EACH of its sources either `build <source>: phony || <its own
   build-dep files>` or — having none and not downloading itself — `build <source>: phony <tag file>`
   for the download directory, of ANY downloading module of the build order (before or after it), that
   contains its source directory. *)
Theorem C19_download_order : forall H EV b le builder binary select disable cli_env info entries,
  configure_build H EV b le builder binary select disable cli_env = Ok (Built info entries) ->
  exists (in_order : list (module * env * option (list module))) merge_opts ms,
    map (fun mm => m_name (fst (fst mm))) in_order = bi_build_order info /\
    forall pre m menv mdeps post srcdir,
      in_order = pre ++ (m, menv, mdeps) :: post -> m_srcdir m = Some srcdir -> m_build m = None ->
      exists flat, flatten_with_opts_option merge_opts menv = Ok flat /\
        forall source, In source (all_sources m ms) ->
          exists srcpath, expand_eval EV flat PEmpty (path_push srcdir source) = Ok srcpath /\
            (forall ld, m_build_dep_files m = Some ld ->
                        In (show_stmt (phony_after srcpath None (Some (sort_paths ld)))) (map show_stmt entries)) /\
            (forall sx tf, m_build_dep_files m = None -> m_download m = None ->
                           expand_eval EV flat PIgnore srcdir = Ok sx -> containing_path (dldirs_all in_order) sx = Some tf ->
                           In (show_stmt (phony_after srcpath (Some [tf]) None)) (map show_stmt entries)).
Proof. exact configured_build_download_order. Qed.
Print Assumptions C19_download_order.

(* the table of download directories is collected before the module loop from ALL modules of the build
   order (fix: independent of the order of visiting); a step of the loop never changes it and only adds
   statements; every downloading module of the order is in it *)
Theorem C19_download_table : forall H EV rules merge_opts ms gdeps objdir bn an st m menv mdeps st',
  module_step H EV rules merge_opts ms gdeps objdir bn an st (m, menv, mdeps) = Ok st' ->
  (exists t, ls_entries st' = ls_entries st ++ t) /\ ls_dldirs st' = ls_dldirs st.
Proof.
  intros H EV rules merge_opts ms gdeps objdir bn an st m menv mdeps st' HS.
  destruct (module_step_download H EV _ _ _ _ _ _ _ _ _ _ _ _ HS) as (X & D & _). split; [exact X|exact D].
Qed.
Theorem C19_download_table_complete : forall (l : list (module * env * option (list module))) m menv mdeps srcdir d,
  In (m, menv, mdeps) l -> m_srcdir m = Some srcdir -> m_download m = Some d ->
  exists tf, alookup srcdir (dldirs_all l) = Some tf.
Proof. exact dldirs_all_has. Qed.
Print Assumptions C19_download_table_complete.
Print Assumptions C19_download_table.

(* a registered directory that contains the path is found, and what is found contains the path *)
Theorem C19_download_dir_found : forall dirs p k v,
  In (k, v) dirs -> path_starts_with p k = true -> containing_path dirs p <> None.
Proof. exact containing_path_some. Qed.
Theorem C19_download_dir_sound : forall dirs p tf,
  containing_path dirs p = Some tf ->
  exists k, In (k, tf) dirs /\ (path_eq k p = true \/ path_starts_with p k = true).
Proof. exact containing_path_sound. Qed.
Print Assumptions C19_download_dir_found.
Print Assumptions C19_download_dir_sound.

(* the loader: a module with `download:` is a build dependency, exports the tag file of its download
   directory among its own build-dep files (so by C19_download_order each of ITS sources waits for
   it, and so does every module that imports it), and has that directory as source directory *)
Theorem C19_downloader_waits : forall build_dir y context is_binary filename root defaults m d,
  convert_module build_dir y context is_binary filename root defaults = Ok m -> ym_download y = Some d ->
  let m0 := init_module (ym_name y) context is_binary filename root defaults in
  let dir := dl_srcdir build_dir d (odflt [ch_dot] (m_relpath m0)) (m_name m0) in
  m_download m = Some d /\ m_is_build_dep m = true /\
  (exists ld, m_build_dep_files m = Some ld /\ In (dl_tagfile d dir) ld) /\
  (ym_srcdir y = None -> m_srcdir m = Some dir).
Proof. exact convert_module_download. Qed.
Print Assumptions C19_downloader_waits.

(* containment is by path component: the stored directory carries a "./" the user's spelling lacks *)
Example C19_ex_containing :
  containing_path [(S_ "build/dl/./ext", S_ "build/dl/./ext/.laze-downloaded")] (S_ "build/dl/ext/src/core")
  = Some (S_ "build/dl/./ext/.laze-downloaded")
  /\ containing_path [(S_ "build/dl/./ext", S_ "t")] (S_ "build/dl/extra") = None.
Proof. vm_compute. split; reflexivity. Qed.
