(* C06 — the generated ninja file is a well-formed build graph (partial: see below).
   Proved: the file is the header followed by the ordered union of the configured builds'
   statement sets, in which identical statements collapse (every statement text occurs once) and
   first occurrences keep their place. The executable predicate wf_manifestb (one statement per
   output, rules defined once and before use, app outputs are targets) is evaluated on every
   file of the model and of the implementation; its general proof (which needs hash injectivity
   and a case analysis over all statement kinds) is not done. *)
From Coq Require Import Ascii String List NArith.
Import ListNotations.
Require Import Laze.model.Base Laze.model.Env Laze.model.Allow Laze.model.Ninja Laze.model.Ctx
        Laze.model.Resolver Laze.model.Imports Laze.model.Generate Laze.model.Checks
        Laze.proofs.StmtFacts Laze.proofs.GenerateFacts.
Open Scope list_scope.

Theorem C06_file_shape_partial : forall H EV b le bsel asel local part select disable cli_env g,
  generate H EV b le bsel asel local part select disable cli_env = Ok g ->
  gr_file g = header le ++ concat (map show_stmt (gr_stmts g)) /\
  NoDup (map show_stmt (gr_stmts g)) /\
  exists bs bins,
    selected_builders b bsel = Ok bs /\ selected_bins b asel local = Ok bins /\
    let tuples := part_filter b part (pairs bs bins) in
    forall t, In t (map show_stmt (gr_stmts g)) <->
              exists bm info es, In bm tuples /\
                configure_build H EV b le (fst bm) (snd bm) select disable cli_env = Ok (Built info es) /\
                In t (map show_stmt es).
Proof. exact generate_shape. Qed.
Print Assumptions C06_file_shape_partial.

(* inserting into a statement set never moves or removes what is there *)
Theorem C06_first_occurrence_kept : forall es acc, exists t,
  fold_left (fun a e => sset_insert e a) es acc = acc ++ t.
Proof. exact sset_fold_prefix. Qed.
Print Assumptions C06_first_occurrence_kept.

(* non-vacuity of the checker: a two-statement file with its rule first is accepted, the same
   file with the rule after its use, or with one output twice, is rejected *)
Definition r_ex := {| nr_name := S_ "CC_1"; nr_command := S_ "cc"; nr_description := None; nr_export := None;
                      nr_deps := None; nr_rspfile := None; nr_rspfile_content := None; nr_pool := None; nr_always := false |}.
Definition b_ex o := {| nb_rule := S_ "CC_1"; nb_inputs := Some [S_ "a.c"]; nb_outs := [S_ o]; nb_deps := None;
                        nb_env := None; nb_always := false |}.
Example C06_ex_ok : wf_manifestb [SRule r_ex; SBuild (b_ex "a.o")] [S_ "a.o"] = true.
Proof. vm_compute. reflexivity. Qed.
Example C06_ex_rule_late : wf_manifestb [SBuild (b_ex "a.o"); SRule r_ex] [] = false.
Proof. vm_compute. reflexivity. Qed.
Example C06_ex_dup_out : wf_manifestb [SRule r_ex; SBuild (b_ex "a.o"); SBuild (b_ex "a.o")] [] = false.
Proof. vm_compute. reflexivity. Qed.
