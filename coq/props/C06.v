(* C06 — the generated ninja file is a well-formed build graph (partial: see below).
   Proved: the file is the header followed by the ordered union of the configured builds'
   statement sets, in which identical statements collapse (every statement text occurs once) and
   first occurrences keep their place; and the clause "rules before use": every build statement
   that uses a rule other than phony comes after a statement that reads as the definition of a
   rule of that name (C06_rules_before_use, for every project and selection, downloads, custom
   builds, LINK and POST_LINK included); every configured build's output file is a target of the
   file (C06_outputs_are_targets); the object, download-directory and tag-file paths that laze
   chooses extend the build directory — objects for every source path (an absolute one is made
   relative first), downloads for relative names (C06_objects_under_build_dir,
   C06_downloads_under_build_dir). The executable predicate wf_manifestb (additionally: one
   statement per output, rules defined once, app outputs are targets) is evaluated on every file
   of the model and of the implementation; the one-producer-per-output clause is not a theorem —
   it is false for the inputs of the open findings K06. *)
From Coq Require Import Ascii String List NArith.
Import ListNotations.
Require Import Laze.model.Base Laze.model.Env Laze.model.Allow Laze.model.Ninja Laze.model.Ctx
        Laze.model.Resolver Laze.model.Imports Laze.model.Generate Laze.model.Checks
        Laze.model.Path Laze.proofs.StmtFacts Laze.proofs.GenerateFacts Laze.proofs.WfFacts Laze.proofs.OutTargets Laze.proofs.RuleOnce Laze.proofs.EscapeFacts.
Open Scope list_scope.

Theorem C06_file_shape_partial : forall H EV b le bsel asel local part select disable cli_env g,
  generate H EV b le bsel asel local part select disable cli_env = Ok g ->
  gr_file g = header le ++ concat (map show_stmt (gr_stmts g)) /\
  NoDup (map show_stmt (gr_stmts g)) /\
  exists bs bins,
    selected_builders b bsel = Ok bs /\ selected_bins b asel local = Ok bins /\
    let tuples := part_filter b part (pairs bs bins) in
    forall t, In t (map show_stmt (gr_stmts g)) <->
              exists bm info es, In bm tuples /\
                configure_build H EV b le (fst bm) (snd bm) select disable cli_env = Ok (Built info es) /\
                In t (map show_stmt es).
Proof. exact generate_shape. Qed.
Print Assumptions C06_file_shape_partial.

(* rules before use, on the statement texts (what ninja reads) *)
Theorem C06_rules_before_use : forall H EV b le bsel asel local part select disable cli_env g,
  generate H EV b le bsel asel local part select disable cli_env = Ok g ->
  forall pre bld suf, gr_stmts g = pre ++ SBuild bld :: suf ->
    nb_rule bld = S_ "phony" \/
    exists x, In x pre /\ exists r, show_stmt x = show_rule r /\ nr_name r = nb_rule bld.
Proof. exact generate_rules_before_use. Qed.
Print Assumptions C06_rules_before_use.

(* inserting into a statement set never moves or removes what is there *)
Theorem C06_first_occurrence_kept : forall es acc, exists t,
  fold_left (fun a e => sset_insert e a) es acc = acc ++ t.
Proof. exact sset_fold_prefix. Qed.
Print Assumptions C06_first_occurrence_kept.

(* every configured build's output file is a target of the file: a build statement of the file has
   exactly that path as its output (LINK, or POST_LINK when the builder's chain has such a rule) *)
Theorem C06_outputs_are_targets : forall H EV b le bsel asel local part select disable cli_env g,
  generate H EV b le bsel asel local part select disable cli_env = Ok g ->
  forall info, In info (gr_builds g) ->
  exists bld, In (show_stmt (SBuild bld)) (map show_stmt (gr_stmts g)) /\ nb_outs bld = [bi_out info].
Proof. exact generated_outputs_are_targets. Qed.
Print Assumptions C06_outputs_are_targets.

(* the paths laze chooses itself: objects extend <build-dir> (they are <build-dir>/objects/...) when the
   source path with its new extension is relative and builder and app names are relative; download
   directories and their tag files extend <build-dir> (<build-dir>/dl/...) for relative dldir /
   relpath / module name *)
Theorem C06_objects_under_build_dir : forall build_dir bn an shareable src h rout,
  is_absolute bn = false -> is_absolute an = false ->
  exists rest, object_path (path_push build_dir (S_ "objects")) bn an shareable src h rout = build_dir ++ rest.
Proof. exact object_under_build_dir. Qed.
Print Assumptions C06_objects_under_build_dir.
Theorem C06_downloads_under_build_dir : forall build_dir d relpath name,
  match dl_dldir d with Some dir => is_absolute dir = false | None => is_absolute relpath = false /\ is_absolute name = false end ->
  (exists rest, dl_srcdir build_dir d relpath name = build_dir ++ rest) /\
  (exists rest, dl_tagfile d (dl_srcdir build_dir d relpath name) = build_dir ++ rest).
Proof. exact download_under_build_dir. Qed.
Print Assumptions C06_downloads_under_build_dir.

(* every rule is defined once: all rule statements of a generated file are NAMED rules (<name>_<hash>), the
   printed text mentions hashed fields only, so rule statements with one name have one text — and the file
   keeps each text once (C06_file_shape_partial). The premise is the collision-freeness of the rule hash,
   stated as the hypothesis it is (as comb_inj in C07). *)
Theorem C06_rules_are_named : forall H EV b le bsel asel local part select disable cli_env g,
  generate H EV b le bsel asel local part select disable cli_env = Ok g ->
  forall r, In (SRule r) (gr_stmts g) -> exists r0, r = named H r0.
Proof. exact generate_rules_named. Qed.
Print Assumptions C06_rules_are_named.
Theorem C06_rule_defined_once : forall H EV b le bsel asel local part select disable cli_env g,
  (forall r1 r2, rule_hash H r1 = rule_hash H r2 -> hashed_view r1 = hashed_view r2) ->
  generate H EV b le bsel asel local part select disable cli_env = Ok g ->
  forall r1 r2, In (SRule r1) (gr_stmts g) -> In (SRule r2) (gr_stmts g) -> nr_name r1 = nr_name r2 ->
  show_rule r1 = show_rule r2.
Proof. exact generate_rule_defined_once. Qed.
Print Assumptions C06_rule_defined_once.
(* what the hash has to cover for this: a rule that differs from another only in a field that is printed
   but not hashed would break it — `always` is hashed since 26f0f40 and is not printed in the rule block *)
Example C06_named_name : forall H r, nr_name (named H r) = nr_name r ++ S_ "_" ++ show_dec (rule_hash H r).
Proof. reflexivity. Qed.

(* the path lists of build statements: a path containing blanks or colons is written escaped (fix 20ce961),
   and ninja's path reader gives the path back and stops at the separator that follows *)
Theorem C06_paths_read_back : forall p rest,
  forallb plain_char p = true -> at_sep rest -> read_path (escape_path p ++ rest) = (p, rest).
Proof. exact escape_read_back. Qed.
Print Assumptions C06_paths_read_back.

(* non-vacuity of the checker: a two-statement file with its rule first is accepted, the same
   file with the rule after its use, or with one output twice, is rejected *)
Definition r_ex := {| nr_name := S_ "CC_1"; nr_command := S_ "cc"; nr_description := None; nr_export := None;
                      nr_deps := None; nr_rspfile := None; nr_rspfile_content := None; nr_pool := None; nr_always := false |}.
Definition b_ex o := {| nb_rule := S_ "CC_1"; nb_inputs := Some [S_ "a.c"]; nb_outs := [S_ o]; nb_deps := None;
                        nb_env := None; nb_always := false |}.
Example C06_ex_ok : wf_manifestb [SRule r_ex; SBuild (b_ex "a.o")] [S_ "a.o"] = true.
Proof. vm_compute. reflexivity. Qed.
Example C06_ex_rule_late : wf_manifestb [SBuild (b_ex "a.o"); SRule r_ex] [] = false.
Proof. vm_compute. reflexivity. Qed.
Example C06_ex_dup_out : wf_manifestb [SRule r_ex; SBuild (b_ex "a.o"); SBuild (b_ex "a.o")] [] = false.
Proof. vm_compute. reflexivity. Qed.
