(* C02 — conflicting, disabled or uniquely-provided modules never coexist.
   Property theorems only; proofs in proofs/ResolverInv.v and proofs/GenerateFacts.v. *)
From Coq Require Import Ascii String List NArith.
Import ListNotations.
Require Import Laze.model.Base Laze.model.Env Laze.model.Allow Laze.model.Ninja Laze.model.Ctx
        Laze.model.Resolver Laze.model.Generate Laze.model.Checks
        Laze.proofs.ResolverInv Laze.proofs.GenerateFacts.
Open Scope list_scope.

(* for every lookup function, provider map, fuel and app: no selected module is named in the
   disabled set or provides a disabled name, and for any two selected modules with different
   names, nothing listed under conflicts of one names the other or is provided by it.  The
   statement mentions no order: it holds whichever of the two was reached first. *)
Theorem C02_resolver_exclusive : forall lookup provs D0 f app st',
  resolve_deep lookup provs f (init_state D0) app = Ok st' ->
  no_disabled D0 (sel st') /\ no_conflict (sel st').
Proof. exact resolve_exclusive. Qed.
Print Assumptions C02_resolver_exclusive.

(* two different selected modules never both provide a name that one of them claims as unique
   (provides_unique x is loaded as provides x + conflicts x) *)
Theorem C02_unique : forall lookup provs D0 f app st' a b x,
  resolve_deep lookup provs f (init_state D0) app = Ok st' ->
  In a (sel st') -> In b (sel st') -> m_name a <> m_name b ->
  In x (conflicts_of a) -> In x (provides_of a) -> ~ In x (provides_of b).
Proof. exact resolve_unique. Qed.
Print Assumptions C02_unique.

(* for a configured build of the generator, with D0 = disables of the builder's context chain
   plus --disable *)
Theorem C02_configured : forall H EV b le builder binary select disable cli_env info entries,
  configure_build H EV b le builder binary select disable cli_env = Ok (Built info entries) ->
  exists rst,
    bi_modules info = map m_name (sel rst) /\
    let D0 := fold_left (fun a x => iset_insert x a) disable (collect_disabled b builder) in
    no_disabled D0 (sel rst) /\ no_conflict (sel rst).
Proof. exact configured_build_exclusive. Qed.
Print Assumptions C02_configured.

Theorem C02_disabled_set : forall b builder disable y,
  In y (fold_left (fun a x => iset_insert x a) disable (collect_disabled b builder)) <->
  In y (collect_disabled b builder) \/ In y disable.
Proof. exact disabled0_In. Qed.
Print Assumptions C02_disabled_set.

(* the executable check applied to the implementation's module lists is the same predicate *)
Theorem C02_checker_spec : forall D0 ms,
  exclusiveb D0 ms = true <-> no_disabled D0 ms /\ no_conflict ms.
Proof. exact exclusiveb_spec. Qed.
Print Assumptions C02_checker_spec.
