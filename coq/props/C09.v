(* C09 — generation is deterministic. The model is a function of the parsed project and the
   command line, so what has to be shown is that nothing the code iterates in an unspecified
   order reaches it: Env maps act per key (so the iteration order of an env is unobservable),
   and the YAML maps whose order does reach the output are iterated in document order (model:
   association lists in file order; code: IndexMap after the C09 fix). The inventory of the
   remaining unordered containers is checked against the sources on every run. *)
From Coq Require Import Ascii String List NArith Permutation.
Import ListNotations.
Require Import Laze.model.Base Laze.model.Env Laze.proofs.BaseFacts Laze.proofs.EnvFacts Laze.proofs.OrderInv.
Open Scope list_scope.

(* merging does not depend on the order in which the merged env's entries are visited *)
Theorem C09_merge_order_invariant : forall self other other' k,
  NoDup (akeys other) -> Permutation other other' ->
  env_get k (merge self other) = env_get k (merge self other').
Proof. exact merge_perm. Qed.
Print Assumptions C09_merge_order_invariant.

(* flattening is per key *)
Theorem C09_flatten_keywise : forall e k,
  alookup k (flatten e) = option_map flatten_key (env_get k e).
Proof. exact flatten_lookup. Qed.
Print Assumptions C09_flatten_keywise.

(* lookups in a map do not depend on the order of its entries *)
Theorem C09_lookup_perm : forall (l l' : env) k,
  NoDup (akeys l) -> Permutation l l' -> alookup k l = alookup k l'.
Proof. exact alookup_perm. Qed.
Print Assumptions C09_lookup_perm.
