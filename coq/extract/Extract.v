(* Extraction of the executable model. Directives in use: ExtrOcamlBasic (bool, option,
   unit, list, prod, sumbool, sumor -> OCaml natives) and ExtrOcamlString (ascii -> char,
   string -> char list). N, positive, nat stay extracted inductives. *)
Require Import Laze.model.Driver.
Require Import ExtrOcamlBasic ExtrOcamlString.
Extraction Language OCaml.
Extraction "model.ml" handle handle2 handle3 handle4 handle5 handle6.
