(* Reads one request per line on stdin, prints the model's reply per line. *)
let explode s = List.init (String.length s) (String.get s)
let implode l = let b = Buffer.create 64 in List.iter (Buffer.add_char b) l; Buffer.contents b
let () =
  try
    while true do
      let line = input_line stdin in
      if String.trim line <> "" then begin
        print_string (implode (Model.handle6 (explode line)));
        print_newline ()
      end
    done
  with End_of_file -> ()
