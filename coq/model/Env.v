(* Env.v — mirrors src/nested_env/mod.rs (EnvKey, Env, MergeOption). Definitions only. *)
From Coq Require Import Ascii String.
From Coq Require Import List Arith Bool NArith.
Import ListNotations.
Require Import Laze.model.Base.
Open Scope list_scope.

Inductive envkey := Single (s : str) | EList (l : list str).        (* mod.rs:19-23 *)

Record mergeopt := {                                                 (* mod.rs:25-33 *)
  mo_from : option str; mo_joiner : option str; mo_prefix : option str;
  mo_suffix : option str; mo_start : option str; mo_end : option str }.

(* EnvKey::merge, mod.rs:36-49: list onto list appends, everything else replaces *)
Definition merge_key (self other : envkey) : envkey :=
  match self, other with
  | EList a, EList b => EList (a ++ b)
  | _, _ => other
  end.

(* Env: an im::HashMap<String, EnvKey>; modelled as an association list with unique keys.
   Only lookup/insert/merge are used on it, iteration order never reaches a result
   (see proofs/EnvFacts.v: merge is keywise). *)
Definition env := list (str * envkey).

Definition env_get (k : str) (e : env) : option envkey := alookup k e.
Definition env_insert (k : str) (v : envkey) (e : env) : env := ainsert k v e.

(* Env::merge, mod.rs:124-136 *)
Definition merge_entry (self : env) (kv : str * envkey) : env :=
  match env_get (fst kv) self with
  | None => env_insert (fst kv) (snd kv) self
  | Some old => env_insert (fst kv) (merge_key old (snd kv)) self
  end.
Definition merge (self other : env) : env := fold_left merge_entry other self.

(* EnvKey::flatten, mod.rs:51-56 *)
Definition flatten_key (v : envkey) : str :=
  match v with Single s => s | EList l => intercalate [" "%char] l end.

Definition is_empty (s : str) : bool := match s with [] => true | _ => false end.

(* EnvKey::flatten_with_opts, mod.rs:58-106 (after the C14 fix): the list loop.
   [first] is the loop's flag, [res] the accumulated output. *)
Fixpoint flatten_loop (joiner pre suf : str) (l : list str) (first : bool) (res : str) : str :=
  match l with
  | [] => res
  | s :: t =>
      if is_empty s then flatten_loop joiner pre suf t first res
      else
        let res1 := if first then res else res ++ joiner in
        flatten_loop joiner pre suf t false (res1 ++ pre ++ s ++ suf)
  end.

Definition flatten_opts (o : mergeopt) (v : envkey) : str :=
  let res0 := odflt [] (mo_start o) in
  let pre := odflt [] (mo_prefix o) in
  let suf := odflt [] (mo_suffix o) in
  let body :=
    match v with
    | Single s => res0 ++ pre ++ s ++ suf
    | EList l => flatten_loop (odflt [" "%char] (mo_joiner o)) pre suf l true res0
    end in
  body ++ odflt [] (mo_end o).

Definition fenv := list (str * str).   (* flattened env: HashMap<&String, String> *)

(* Env::flatten, mod.rs:138-150 *)
Definition flatten (e : env) : fenv := map (fun kv => (fst kv, flatten_key (snd kv))) e.

(* Env::flatten_with_opts, mod.rs:151-195 *)
Definition flatten_first (opts : list (str * mergeopt)) (e : env) : fenv :=
  map (fun kv => (fst kv, match alookup (fst kv) opts with
                          | Some o => flatten_opts o (snd kv)
                          | None => flatten_key (snd kv) end)) e.

Fixpoint apply_from (e : env) (opts : list (str * mergeopt)) (acc : fenv) : res fenv :=
  match opts with
  | [] => Ok acc
  | (key, o) :: t =>
      match mo_from o with
      | None => apply_from e t acc
      | Some other =>
          match env_get other e with
          | None => Err (EFromMissing key)
          | Some ov =>
              match alookup key acc with
              | Some _ => Err (EFromBoth key)
              | None => apply_from e t (ainsert key (flatten_opts o ov) acc)
              end
          end
      end
  end.

Definition flatten_with_opts (opts : list (str * mergeopt)) (e : env) : res fenv :=
  apply_from e opts (flatten_first opts e).

Definition flatten_with_opts_option (opts : option (list (str * mergeopt))) (e : env) : res fenv :=
  match opts with Some o => flatten_with_opts o e | None => Ok (flatten e) end.

(* str::split_once on a pattern *)
Fixpoint split_once (pat : str) (s : str) (acc : str) : option (str * str) :=
  if is_prefix pat s then Some (rev acc, skipn (length pat) s)
  else match s with [] => None | c :: t => split_once pat t (c :: acc) end.

(* Env::assign_from_string, mod.rs:249-268: "+=" is tried before "=" *)
Definition assign_from_string (e : env) (a : str) : res env :=
  match split_once (S_ "+=") a [] with
  | Some (var, value) => Ok (merge e [(var, EList [value])])
  | None =>
      match split_once (S_ "=") a [] with
      | Some (var, value) => Ok (merge e [(var, Single value)])
      | None => Err EParse
      end
  end.
