(* Base.v — byte strings, results, small list utilities, request tokens.
   Definitions only (no property proofs); basic characterising lemmas of the
   utilities live in proofs/BaseFacts.v. *)
From Coq Require Import Ascii String.
From Coq Require Import List Arith Bool NArith.
Import ListNotations.
Open Scope list_scope.

(* Rust String / &str as a list of bytes (UTF-8 carried as bytes). *)
Definition str := list ascii.
Definition S_ (s : string) : str := list_ascii_of_string s.

Fixpoint str_eqb (a b : str) : bool :=
  match a, b with
  | [], [] => true
  | x :: a', y :: b' => Ascii.eqb x y && str_eqb a' b'
  | _, _ => false
  end.

Definition byte_n (c : ascii) : N := N_of_ascii c.

(* bytewise lexicographic order = Rust's Ord on String *)
Fixpoint str_leb (a b : str) : bool :=
  match a, b with
  | [], _ => true
  | _ :: _, [] => false
  | x :: a', y :: b' =>
      if N.ltb (byte_n x) (byte_n y) then true
      else if N.ltb (byte_n y) (byte_n x) then false
      else str_leb a' b'
  end.

Definition mem_str (x : str) (l : list str) : bool := existsb (str_eqb x) l.

Fixpoint dedup_go (seen : list str) (l : list str) : list str :=   (* keeps first occurrences: IndexSet insertion *)
  match l with
  | [] => []
  | x :: t => if mem_str x seen then dedup_go seen t else x :: dedup_go (x :: seen) t
  end.
Definition nodup_str (l : list str) : list str := dedup_go [] l.

(* association lists with first-match lookup *)
Fixpoint alookup {V} (k : str) (l : list (str * V)) : option V :=
  match l with
  | [] => None
  | (k', v) :: t => if str_eqb k k' then Some v else alookup k t
  end.

(* IndexMap::insert / HashMap::insert: replace the value in place if the key exists, else append *)
Fixpoint ainsert {V} (k : str) (v : V) (l : list (str * V)) : list (str * V) :=
  match l with
  | [] => [(k, v)]
  | (k', v') :: t => if str_eqb k k' then (k', v) :: t else (k', v') :: ainsert k v t
  end.

Definition akeys {V} (l : list (str * V)) : list str := map fst l.

Fixpoint insert_sorted {V} (kv : str * V) (l : list (str * V)) : list (str * V) :=
  match l with
  | [] => [kv]
  | kv' :: t => if str_leb (fst kv) (fst kv') then kv :: kv' :: t else kv' :: insert_sorted kv t
  end.
Definition sort_by_key {V} (l : list (str * V)) : list (str * V) := fold_right insert_sorted [] l.

Fixpoint intercalate (sep : str) (l : list str) : str :=
  match l with
  | [] => []
  | [x] => x
  | x :: t => x ++ sep ++ intercalate sep t
  end.

Definition odflt {A} (d : A) (o : option A) : A := match o with Some a => a | None => d end.

(* prefix test and "find substring" *)
Fixpoint is_prefix (p s : str) : bool :=
  match p, s with
  | [], _ => true
  | x :: p', y :: s' => Ascii.eqb x y && is_prefix p' s'
  | _ :: _, [] => false
  end.

(* ---------- results ---------- *)
Inductive err :=
| EMissing (k : str)          (* missing variable *)
| EUnclosed (pos : N)         (* unclosed brace at byte offset *)
| ECycle (k : str)            (* cycle involving variable *)
| ETooDeep (k : str)          (* variables nested more than max_depth levels deep (fix: a typed error instead of a stack overflow) *)
| EExpr (e : str)             (* expression error; carries the expression text *)
| EFromMissing (k : str)      (* var_options from: names a non-existing variable *)
| EFromBoth (k : str)         (* variable has both values and from: *)
| ENeedEv (e : str)            (* harness protocol only: evalexpr result for e not supplied yet *)
| EParse                      (* malformed request / assignment *)
| EOther (tag : str).

Inductive res (A : Type) := Ok (a : A) | Err (e : err) | Panic (site : N) | Fuel.
Arguments Ok {A}. Arguments Err {A}. Arguments Panic {A}. Arguments Fuel {A}.

(* evalexpr::eval as seen by the model: a value, an error, or (harness protocol) not supplied *)
Inductive evr := EvOk (v : str) | EvErr | EvNeed.

(* Result::unwrap()/expect(): an Err becomes a panic at [site]; the protocol marker passes through *)
Definition unwrap_res {A} (site : N) (x : res A) : res A :=
  match x with Ok v => Ok v | Err (ENeedEv e) => Err (ENeedEv e) | Err _ => Panic site | Panic n => Panic n | Fuel => Fuel end.

Definition rbind {A B} (x : res A) (f : A -> res B) : res B :=
  match x with Ok a => f a | Err e => Err e | Panic n => Panic n | Fuel => Fuel end.
Definition rmap {A B} (f : A -> B) (x : res A) : res B := rbind x (fun a => Ok (f a)).

Fixpoint rmapM {A B} (f : A -> res B) (l : list A) : res (list B) :=
  match l with
  | [] => Ok []
  | x :: t => rbind (f x) (fun y => rbind (rmapM f t) (fun ys => Ok (y :: ys)))
  end.

(* ---------- hex, numbers, tokens (the request protocol shared with laze's oracle hook) ---------- *)
Open Scope N_scope.
Definition hexdigit (n : N) : ascii :=
  ascii_of_N (if N.ltb n 10 then 48 + n else 87 + n).     (* 0-9 a-f *)
Definition hex_byte (c : ascii) : str :=
  let n := byte_n c in [hexdigit (N.div n 16); hexdigit (N.modulo n 16)].
Definition hex (s : str) : str :=
  match s with [] => ["."%char] | _ => flat_map hex_byte s end.

Definition unhexdigit (c : ascii) : option N :=
  let n := byte_n c in
  if N.leb 48 n && N.leb n 57 then Some (n - 48)
  else if N.leb 97 n && N.leb n 102 then Some (n - 87)
  else if N.leb 65 n && N.leb n 70 then Some (n - 55)
  else None.
Fixpoint unhex_go (s : str) : option str :=
  match s with
  | [] => Some []
  | a :: b :: t =>
      match unhexdigit a, unhexdigit b, unhex_go t with
      | Some x, Some y, Some r => Some (ascii_of_N (16 * x + y) :: r)
      | _, _, _ => None
      end
  | _ => None
  end.
Definition unhex (s : str) : option str :=
  match s with ["."%char] => Some [] | _ => unhex_go s end.

Fixpoint parse_dec_go (s : str) (acc : N) : option N :=
  match s with
  | [] => Some acc
  | c :: t => let n := byte_n c in
              if N.leb 48 n && N.leb n 57 then parse_dec_go t (10 * acc + (n - 48)) else None
  end.
Definition parse_dec (s : str) : option N := match s with [] => None | _ => parse_dec_go s 0 end.

Fixpoint show_dec_go (fuel : nat) (n : N) (acc : str) : str :=
  match fuel with
  | O => acc
  | S f => let d := ascii_of_N (48 + N.modulo n 10) in
           if N.ltb n 10 then d :: acc else show_dec_go f (N.div n 10) (d :: acc)
  end.
Definition show_dec (n : N) : str := show_dec_go (S (N.to_nat (N.log2 n))) n [].

Definition is_space (c : ascii) : bool :=
  let n := byte_n c in N.eqb n 32 || N.eqb n 9 || N.eqb n 10 || N.eqb n 13.

Close Scope N_scope.

(* split on whitespace *)
Fixpoint tokens_go (s : str) (cur : str) (acc : list str) : list str :=
  match s with
  | [] => rev (match cur with [] => acc | _ => rev cur :: acc end)
  | c :: t => if is_space c
              then tokens_go t [] (match cur with [] => acc | _ => rev cur :: acc end)
              else tokens_go t (c :: cur) acc
  end.
Definition tokens (s : str) : list str := tokens_go s [] [].

Definition unwords (l : list str) : str := intercalate [" "%char] l.

(* token-stream readers: each returns the value and the remaining tokens *)
Definition rd A := list str -> option (A * list str).
Definition rd_raw : rd str := fun ts => match ts with t :: r => Some (t, r) | [] => None end.
Definition rd_s : rd str := fun ts =>
  match ts with t :: r => match unhex t with Some s => Some (s, r) | None => None end | [] => None end.
Definition rd_opt : rd (option str) := fun ts =>
  match ts with
  | t :: r => if str_eqb t ["-"%char] then Some (None, r)
              else match unhex t with Some s => Some (Some s, r) | None => None end
  | [] => None end.
Definition rd_n : rd N := fun ts =>
  match ts with t :: r => match parse_dec t with Some n => Some (n, r) | None => None end | [] => None end.
Fixpoint rd_many {A} (p : rd A) (n : nat) : rd (list A) := fun ts =>
  match n with
  | O => Some ([], ts)
  | S n' => match p ts with
            | Some (a, r) => match rd_many p n' r with Some (l, r') => Some (a :: l, r') | None => None end
            | None => None end
  end.
Definition rd_bind {A B} (p : rd A) (f : A -> rd B) : rd B := fun ts =>
  match p ts with Some (a, r) => f a r | None => None end.
Definition rd_ret {A} (a : A) : rd A := fun ts => Some (a, ts).
Definition rd_list {A} (p : rd A) : rd (list A) := rd_bind rd_n (fun n => rd_many p (N.to_nat n)).
(* "-" or <n> item... *)
Definition rd_optlist {A} (p : rd A) : rd (option (list A)) := fun ts =>
  match ts with
  | t :: r => if str_eqb t ["-"%char] then Some (None, r)
              else match rd_list p ts with Some (l, r') => Some (Some l, r') | None => None end
  | [] => None end.
