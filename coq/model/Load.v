(* Load.v — mirrors src/data.rs: the parsed YAML documents (after serde), the file work-list
   (subdirs / includes), convert_context, init_module / convert_module, defaults, and the
   order in which the bag is filled. Local `imports:` (data/import/local.rs without symlink) are
   modelled: the imported directory's lazefile, its import root, ${root} and the names of unnamed
   modules; git and command imports are not. Definitions only. *)
From Coq Require Import Ascii String.
From Coq Require Import List Arith Bool NArith.
Import ListNotations.
Require Import Laze.model.Base Laze.model.Env Laze.model.Expand Laze.model.Path Laze.model.Allow
        Laze.model.Ninja Laze.model.Ctx.
Open Scope list_scope.

(* StringOrMapVecString: a plain string or a map key -> list (keys in document order) *)
Inductive depspec := DStr (s : str) | DMap (kvs : list (str * list str)).

Inductive ctxspec := CNone | CSingle (c : str) | CList (l : list str).

Record ytask := {
  yt_cmd : list str; yt_required_vars : option (list str); yt_required_modules : option (list str);
  yt_export : option (list export_spec); yt_build : bool; yt_workdir : option str }.

Record yctx := {
  yc_name : str; yc_parent : option str; yc_env : option env;
  yc_selects : option (list str); yc_disables : option (list str);
  yc_provides : option (list str); yc_provides_unique : option (list str);
  yc_rules : option (list rule); yc_var_options : option (list (str * mergeopt));
  yc_tasks : option (list (str * ytask)); yc_is_builder : bool }.

Record ymod := {
  ym_name : option str; ym_context : ctxspec;
  ym_depends : option (list depspec); ym_selects : option (list depspec); ym_uses : option (list str);
  ym_provides : option (list str); ym_provides_unique : option (list str); ym_conflicts : option (list str);
  ym_notify_all : bool;
  ym_sources : option (list depspec);
  ym_tasks : option (list (str * ytask));
  ym_build : option custom_build;
  ym_env_local : option env; ym_env_export : option env; ym_env_global : option env;
  ym_blocklist : option (list str); ym_allowlist : option (list str);
  ym_srcdir : option str; ym_is_build_dep : bool; ym_is_global_build_dep : bool;
  ym_download : option download }.

Definition ymod_default : ymod :=
  {| ym_name := None; ym_context := CNone; ym_depends := None; ym_selects := None; ym_uses := None;
     ym_provides := None; ym_provides_unique := None; ym_conflicts := None; ym_notify_all := false;
     ym_sources := None; ym_tasks := None; ym_build := None; ym_env_local := None; ym_env_export := None;
     ym_env_global := None; ym_blocklist := None; ym_allowlist := None; ym_srcdir := None;
     ym_is_build_dep := false; ym_is_global_build_dep := false; ym_download := None |}.

Record ydoc := {
  d_contexts : option (list yctx); d_builders : option (list yctx);
  d_modules : option (option (list ymod)); d_apps : option (option (list ymod));
  d_includes : option (list str); d_subdirs : option (list str);
  d_defaults_module : option ymod; d_defaults_app : option ymod;
  d_imports : option (list str) }.       (* imports: [{path: p}] — local imports, by directory *)

Definition ytree := list (str * list ydoc).       (* file name -> its documents *)

(* ---------- errors ---------- *)
Definition e_nofile := EOther (S_ "file-not-found").
Definition e_noimport := EOther (S_ "no-lazefile-in-import").
Definition e_early := EOther (S_ "early-expansion").

(* ---------- dependency strings ---------- *)
Definition ch_qmark : ascii := "?"%char.
Definition ch_minus : ascii := "-"%char.

(* dependency_from_string: looks at the first byte if there is one (after the C15 fix; the pinned
   code indexed byte 0 and panicked on the empty string) *)
Definition dependency_from_string (s : str) : res dep :=
  match s with
  | [] => Ok (Hard [])
  | c :: t => Ok (if Ascii.eqb c ch_qmark then Soft t else Hard s)
  end.
Definition dependency_from_string_if (s other : str) : res dep :=
  match s with
  | [] => Ok (IfThenHard other [])
  | c :: t => Ok (if Ascii.eqb c ch_qmark then IfThenSoft other t else IfThenHard other s)
  end.

Definition deps_of_spec (d : depspec) : res (list dep) :=
  match d with
  | DStr s => rmap (fun x => [x]) (dependency_from_string s)
  | DMap kvs => rmap (@concat dep)
                  (rmapM (fun kv => rmapM (fun v => dependency_from_string_if v (fst kv)) (snd kv)) kvs)
  end.
Definition deps_of_specs (l : list depspec) : res (list dep) := rmap (@concat dep) (rmapM deps_of_spec l).

(* process_removes *)
Definition starts_minus (s : str) : bool := match s with c :: _ => Ascii.eqb c ch_minus | [] => false end.
Definition process_removes (l : list dep) : list dep :=
  let removals := flat_map (fun d => if starts_minus (dep_name d) then [tl (dep_name d)] else []) l in
  filter (fun d => negb (starts_minus (dep_name d) || mem_str (dep_name d) removals)) l.

(* ---------- early env and tasks ---------- *)
Definition expand_envkey (vals : fenv) (v : envkey) : res envkey :=
  match v with
  | Single s => rmap Single (expand vals PDefer s)
  | EList l => rmap EList (rmapM (expand vals PDefer) l)
  end.
(* Env::expand *)
Definition env_expand (e : env) (values : env) : res env :=
  let vals := flatten values in
  rmapM (fun kv => rmap (fun v => (fst kv, v)) (expand_envkey vals (snd kv))) e.

Definition task_of (t : ytask) : task :=
  {| t_cmd := yt_cmd t; t_required_vars := yt_required_vars t; t_required_modules := yt_required_modules t;
     t_export := yt_export t; t_build := yt_build t; t_workdir := yt_workdir t |}.

(* Task::with_env (load time): cmd and workdir expanded with Defer *)
Definition task_early (vals : fenv) (t : task) : res task :=
  rbind (rmapM (expand vals PDefer) (t_cmd t)) (fun cmd =>
  rbind (match t_workdir t with Some w => rmap Some (expand vals PDefer w) | None => Ok None end) (fun wd =>
  Ok {| t_cmd := cmd; t_required_vars := t_required_vars t; t_required_modules := t_required_modules t;
        t_export := t_export t; t_build := t_build t; t_workdir := wd |})).
Definition convert_tasks (tasks : list (str * ytask)) (early : env) : res (list (str * task)) :=
  let vals := flatten early in
  rmapM (fun nt => rmap (fun t => (fst nt, t)) (task_early vals (task_of (snd nt)))) tasks.

Definition relpath_of (filename : str) : str :=
  match parent filename with [] => [ch_dot] | p => p end.

(* ---------- init_module ---------- *)
Definition module_from (defaults : module) (name : str) (context : option str) : module :=
  {| m_name := name; m_context_name := match context with Some c => c | None => m_context_name defaults end;
     m_selects := m_selects defaults; m_imports := m_imports defaults; m_provides := m_provides defaults;
     m_conflicts := m_conflicts defaults; m_notify_all := m_notify_all defaults;
     m_blocklist := m_blocklist defaults; m_allowlist := m_allowlist defaults;
     m_sources := m_sources defaults; m_sources_optional := m_sources_optional defaults;
     m_tasks := m_tasks defaults; m_build := m_build defaults;
     m_env_local := m_env_local defaults; m_env_export := m_env_export defaults;
     m_env_global := m_env_global defaults; m_env_early := m_env_early defaults;
     m_relpath := m_relpath defaults; m_srcdir := m_srcdir defaults;
     m_build_dep_files := m_build_dep_files defaults; m_is_build_dep := m_is_build_dep defaults;
     m_is_global_build_dep := m_is_global_build_dep defaults; m_is_binary := m_is_binary defaults;
     m_context_id := m_context_id defaults; m_defined_in := m_defined_in defaults;
     m_download := m_download defaults |}.

Record minit := { mi_m : module }.

(* an unnamed module is named after its directory, relative to the import root inside an import
   (after the C15 fix 8d614e3: a file included from outside the import root keeps the whole
   directory; the code before unwrapped the StripPrefixError) *)
Definition init_module (name : option str) (context : option str) (is_binary : bool) (filename : str)
           (root : option str) (defaults : option module) : module :=
  let relpath := parent filename in
  let nm := match name with
            | Some n => n
            | None => match root with
                      | Some r => match strip_prefix relpath r with Some x => x | None => relpath end
                      | None => relpath
                      end
            end in
  let m0 := match defaults with Some d => module_from d nm context | None => module_new nm context end in
  {| m_name := m_name m0; m_context_name := m_context_name m0; m_selects := m_selects m0;
     m_imports := m_imports m0; m_provides := m_provides m0; m_conflicts := m_conflicts m0;
     m_notify_all := m_notify_all m0; m_blocklist := m_blocklist m0; m_allowlist := m_allowlist m0;
     m_sources := m_sources m0; m_sources_optional := m_sources_optional m0; m_tasks := m_tasks m0;
     m_build := m_build m0; m_env_local := m_env_local m0; m_env_export := m_env_export m0;
     m_env_global := m_env_global m0; m_env_early := m_env_early m0;
     m_relpath := Some (relpath_of filename); m_srcdir := m_srcdir m0;
     m_build_dep_files := m_build_dep_files m0; m_is_build_dep := m_is_build_dep m0;
     m_is_global_build_dep := m_is_global_build_dep m0; m_is_binary := is_binary;
     m_context_id := m_context_id m0; m_defined_in := Some filename; m_download := m_download m0 |}.

Definition opt_extend (a : option (list str)) (b : list str) : option (list str) := Some (odflt [] a ++ b).

(* optional sources: IndexMap key -> list, appended per key in order of first appearance *)
Definition optsrc_add (acc : list (str * list str)) (kv : str * list str) : list (str * list str) :=
  ainsert (fst kv) (odflt [] (alookup (fst kv) acc) ++ snd kv) acc.

(* convert_module, data.rs:651-900 *)
Definition e_bad_name := EOther (S_ "module-name").
(* check_module_name (serde): a module name must not start with "context::" *)
Definition name_ok (y : ymod) : res unit :=
  match ym_name y with
  | Some n => if is_prefix (S_ "context::") n then Err e_bad_name else Ok tt
  | None => Ok tt
  end.

Definition root_value (root : option str) : str := match root with Some r => r | None => [ch_dot] end.

Definition convert_module (build_dir : str) (y : ymod) (context : option str) (is_binary : bool) (filename : str)
           (root : option str) (defaults : option module) : res module :=
  let m := init_module (ym_name y) context is_binary filename root defaults in
  rbind (name_ok y) (fun _ =>
  rbind (deps_of_specs (odflt [] (ym_selects y))) (fun sel1 =>
  rbind (rmapM dependency_from_string (odflt [] (ym_uses y))) (fun uses =>
  rbind (deps_of_specs (odflt [] (ym_depends y))) (fun depends =>
  let selects := process_removes (m_selects m ++ sel1 ++ depends) in
  let imports := process_removes (m_imports m ++ uses ++ depends) in
  let conflicts := match ym_conflicts y with Some l => opt_extend (m_conflicts m) l | None => m_conflicts m end in
  let provides := match ym_provides y with Some l => opt_extend (m_provides m) l | None => m_provides m end in
  let conflicts := match ym_provides_unique y with Some l => opt_extend conflicts l | None => conflicts end in
  let provides := match ym_provides_unique y with Some l => opt_extend provides l | None => provides end in
  let env_local := match ym_env_local y with Some e => merge (m_env_local m) e | None => m_env_local m end in
  let env_export := match ym_env_export y with Some e => merge (m_env_export m) e | None => m_env_export m end in
  let env_global := match ym_env_global y with Some e => merge (m_env_global m) e | None => m_env_global m end in
  let plain := flat_map (fun s => match s with DStr x => [x] | DMap _ => [] end) (odflt [] (ym_sources y)) in
  let optional := fold_left optsrc_add
                    (flat_map (fun s => match s with DStr _ => [] | DMap kvs => kvs end) (odflt [] (ym_sources y))) [] in
  let sources_optional := match optional with
                          | [] => m_sources_optional m
                          | _ => Some (fold_left optsrc_add optional (odflt [] (m_sources_optional m))) end in
  let blocklist := match m_blocklist m with
                   | Some d => Some (d ++ odflt [] (ym_blocklist y))
                   | None => ym_blocklist y end in
  let allowlist := match m_allowlist m with
                   | Some d => Some (d ++ odflt [] (ym_allowlist y))
                   | None => ym_allowlist y end in
  let relpath := odflt [ch_dot] (m_relpath m) in
  let srcdir0 := match ym_download y with
                 | Some d => dl_srcdir build_dir d relpath (m_name m)
                 | None => if str_eqb relpath [ch_dot] then [] else relpath end in
  (* a downloading module exports its tag file and always is a build dependency *)
  let dep_files := match ym_download y with
                   | Some d => Some (iset_insert (dl_tagfile d srcdir0) (odflt [] (m_build_dep_files m)))
                   | None => m_build_dep_files m end in
  let srcdir := match ym_srcdir y with Some s => s | None => srcdir0 end in
  let early := env_insert (S_ "srcdir") (Single srcdir)
                 (env_insert (S_ "root") (Single (root_value root))
                    (env_insert (S_ "relpath") (Single relpath) (m_env_early m))) in
  let env_local1 := merge env_local early in
  let wrap (x : res env) : res env := match x with Err _ => Err e_early | o => o end in
  rbind (wrap (env_expand env_local1 early)) (fun el =>
  rbind (wrap (env_expand env_export early)) (fun ee =>
  rbind (wrap (env_expand env_global early)) (fun eg =>
  rbind (match ym_tasks y with
         | Some ts => rmap (fun t => (t, true)) (match convert_tasks ts early with Err _ => Err e_early | o => o end)
         | None => Ok (m_tasks m, false) end) (fun '(tasks, own_tasks) =>
  let task_marks := if own_tasks then map (fun nt => S_ "::task::" ++ fst nt) tasks else [] in
  let provides := if own_tasks then opt_extend provides task_marks else provides in
  let conflicts := if own_tasks then opt_extend conflicts task_marks else conflicts in
  let eg1 := if is_binary then env_insert (S_ "appdir") (Single relpath) eg else eg in
  Ok {| m_name := m_name m; m_context_name := m_context_name m; m_selects := selects; m_imports := imports;
        m_provides := provides; m_conflicts := conflicts;
        m_notify_all := m_notify_all m || ym_notify_all y;
        m_blocklist := blocklist; m_allowlist := allowlist;
        m_sources := m_sources m ++ plain; m_sources_optional := sources_optional;
        m_tasks := tasks; m_build := ym_build y;
        m_env_local := el; m_env_export := ee; m_env_global := eg1; m_env_early := early;
        m_relpath := Some relpath; m_srcdir := Some srcdir;
        m_build_dep_files := dep_files;
        m_is_build_dep := match ym_download y with Some _ => true | None => ym_is_build_dep y end;
        m_is_global_build_dep := ym_is_global_build_dep y;
        m_is_binary := is_binary; m_context_id := m_context_id m; m_defined_in := Some filename;
        m_download := ym_download y |})))))))).

(* convert_context, data.rs:463-620: the context and its context module *)
Definition convert_context (y : yctx) (is_builder : bool) (filename : str) (root : option str) : res (context * module) :=
  let name := yc_name y in
  let is_default := str_eqb name (S_ "default") in
  let parent := odflt (S_ "default") (yc_parent y) in
  let relpath := relpath_of filename in
  let early := env_insert (S_ "root") (Single (root_value root)) (env_insert (S_ "relpath") (Single relpath) []) in
  rbind (match yc_tasks y with
         | Some ts => rmap Some (match convert_tasks ts early with Err _ => Err e_early | o => o end)
         | None => Ok None end) (fun tasks =>
  rbind (match yc_env y with
         | Some e => rmap Some (match env_expand e early with Err _ => Err e_early | o => o end)
         | None => Ok None end) (fun env1 =>
  rbind (rmapM dependency_from_string (odflt [] (yc_selects y))) (fun sels =>
  let c := {| c_name := name; c_parent_name := if is_default then None else Some parent;
              c_parent_index := None; c_modules := [];
              c_rules := match yc_rules y with
                         | Some rs => Some (fold_left (fun acc r => ainsert (r_name r) r acc) rs [])
                         | None => None end;
              c_env := env1; c_disable := yc_disables y; c_provided := None;
              c_var_options := yc_var_options y; c_tasks := tasks; c_env_early := early;
              c_is_builder := is_builder; c_defined_in := Some filename |} in
  let m0 := init_module (Some (ctx_module_name name)) (Some name) false filename root None in
  let provides := match yc_provides y, yc_provides_unique y with
                  | Some p, Some u => Some (p ++ u) | Some p, None => Some p
                  | None, Some u => Some u | None, None => None end in
  let conflicts := match yc_disables y, yc_provides_unique y with
                   | Some d, Some u => Some (d ++ u) | Some d, None => Some d
                   | None, Some u => Some u | None, None => None end in
  let m := {| m_name := m_name m0; m_context_name := m_context_name m0;
              m_selects := sels ++ (if is_default then [] else [Hard (ctx_module_name parent)]);
              m_imports := []; m_provides := provides; m_conflicts := conflicts;
              m_notify_all := false; m_blocklist := None; m_allowlist := None; m_sources := [];
              m_sources_optional := None; m_tasks := []; m_build := None; m_env_local := [];
              m_env_export := []; m_env_global := []; m_env_early := []; m_relpath := m_relpath m0;
              m_srcdir := None; m_build_dep_files := None; m_is_build_dep := false;
              m_is_global_build_dep := false; m_is_binary := false; m_context_id := None;
              m_defined_in := Some filename; m_download := None |} in
  Ok (c, m)))).

(* ---------- the file work-list, data.rs:406-461 ---------- *)
(* a loaded document with its bookkeeping *)
Record ldoc := { ld_doc : ydoc; ld_file : str; ld_idx : nat; ld_included_by : option nat; ld_root : option str }.

(* FileInclude: file name, (including document, import root) *)
Definition finc := (str * (option nat * option str))%type.
Definition finc_by (i : finc) : option nat := fst (snd i).
Definition finc_root (i : finc) : option str := snd (snd i).
Definition fkey := (str * option str)%type.
Definition finc_key (i : finc) : fkey := (fst i, finc_root i).
Definition ostr_eqb (a b : option str) : bool :=
  match a, b with None, None => true | Some x, Some y => str_eqb x y | _, _ => false end.
(* after the C15/C17 fix the work list is keyed by the file name and the import root: a file is
   loaded once (per import root), whoever lists it *)
Definition finc_eqb (a b : finc) : bool := str_eqb (fst a) (fst b) && ostr_eqb (finc_root a) (finc_root b).
Definition finc_insert (x : finc) (l : list finc) : list finc := if existsb (finc_eqb x) l then l else l ++ [x].

Definition path_join (a b : str) : str := path_push a b.

(* data/import.rs get_lazefile: the first of these names that exists in the imported directory *)
Definition lazefile_names : list str := [S_ "laze-lib.yml"; S_ "laze.yml"; S_ "laze-project.yml"].
Definition file_exists (t : ytree) (f : str) : bool := match alookup f t with Some _ => true | None => false end.
Definition get_lazefile (t : ytree) (dir : str) : option str :=
  find (file_exists t) (map (path_join dir) lazefile_names).
(* the candidates that were looked for before the chosen one: what is loaded depends on their
   absence (import::preferred_over, fix d85df0c) *)
Fixpoint take_until_exists (t : ytree) (l : list str) : list str :=
  match l with
  | [] => []
  | f :: r => if file_exists t f then [] else f :: take_until_exists t r
  end.
Definition preferred_over (t : ytree) (dir : str) : list str :=
  match get_lazefile t dir with
  | Some _ => take_until_exists t (map (path_join dir) lazefile_names)
  | None => []
  end.

Definition new_docs (inc : finc) (start : nat) (ds : list ydoc) : list ldoc :=
  map (fun id => {| ld_doc := snd id; ld_file := fst inc; ld_idx := start + fst id;
                    ld_included_by := finc_by inc; ld_root := finc_root inc |})
      (combine (seq 0 (length ds)) ds).

(* what one document adds to the work list: its subdirs, then its imports, then its includes;
   subdirs and includes stay in the import root of the file, an import starts a new one *)
Definition step_doc (t : ytree) (inc : finc) (p : list finc) (d : ldoc) : res (list finc) :=
  let dir := parent (fst inc) in
  let p1 := fold_left (fun p s => finc_insert (path_join (path_join dir s) (S_ "laze.yml"), (Some (ld_idx d), finc_root inc)) p)
                      (odflt [] (d_subdirs (ld_doc d))) p in
  rbind (fold_left (fun acc s => rbind acc (fun p =>
            match get_lazefile t s with
            | Some f => Ok (finc_insert (f, (Some (ld_idx d), Some (parent f))) p)
            | None => Err e_noimport
            end)) (odflt [] (d_imports (ld_doc d))) (Ok p1)) (fun p2 =>
  Ok (fold_left (fun p s => finc_insert (path_join dir s, (Some (ld_idx d), finc_root inc)) p)
                (odflt [] (d_includes (ld_doc d))) p2)).

Definition step_pending (t : ytree) (inc : finc) (start : nat) (ds : list ydoc) (pending : list finc) : res (list finc) :=
  fold_left (fun acc d => rbind acc (fun p => step_doc t inc p d)) (new_docs inc start ds) (Ok pending).

(* fuel-bounded work-list; Fuel = more steps than the bound (never: proofs/LoadTotal.v) *)
Fixpoint load_files (fuel : nat) (t : ytree) (pending : list finc) (pos : nat) (docs : list ldoc) : res (list ldoc * list finc) :=
  match fuel with
  | O => Fuel
  | S f =>
      match nth_error pending pos with
      | None => Ok (docs, pending)
      | Some inc =>
          match alookup (fst inc) t with
          | None => Err e_nofile
          | Some ds =>
              match step_pending t inc (length docs) ds pending with
              | Ok pending1 => load_files f t pending1 (S pos) (docs ++ new_docs inc (length docs) ds)
              | Err e => Err e
              | Panic n => Panic n
              | Fuel => Fuel
              end
          end
      end
  end.

(* at most one step per (file, import root); roots are directories of files of the tree *)
Definition load_fuel (t : ytree) : nat := S (S (length t * S (length t))).

(* the files whose absence the loaded documents depended on *)
Definition absent_of (t : ytree) (docs : list ldoc) : list str :=
  flat_map (fun d => flat_map (preferred_over t) (odflt [] (d_imports (ld_doc d)))) docs.

(* defaults, data.rs:925-985 (after the C15 fix: a context list in defaults and a failing
   conversion are errors; the pinned code panicked) *)
Definition e_defaults := EOther (S_ "defaults").
Definition get_defaults (build_dir : str) (d : ldoc) (dmap : list (nat * module)) (key_is_app : bool) : res (option module) :=
  let inherited := match ld_included_by d with
                   | Some i => match find (fun km => Nat.eqb (fst km) i) dmap with Some km => Some (snd km) | None => None end
                   | None => None end in
  let own := if key_is_app then d_defaults_app (ld_doc d) else d_defaults_module (ld_doc d) in
  match own with
  | Some y =>
      match ym_context y with
      | CList _ => Err e_defaults
      | c =>
          let ctx := match c with CSingle s => Some s | _ => None end in
          match convert_module build_dir y ctx key_is_app (ld_file d) (ld_root d) inherited with
          | Ok m => Ok (Some m)
          | Err _ => Err e_defaults
          | Panic n => Panic n
          | Fuel => Fuel
          end
      end
  | None => Ok inherited
  end.

Definition contexts_of (c : ctxspec) : list (option str) :=
  match c with CNone => [None] | CSingle s => [Some s] | CList l => map Some l end.

Definition add_modules (build_dir : str) (b : bag) (d : ldoc) (mods : list ymod) (is_binary : bool) (defaults : option module) : res bag :=
  fold_left (fun acc y => rbind acc (fun b =>
     fold_left (fun acc c => rbind acc (fun b =>
        rbind (convert_module build_dir y c is_binary (ld_file d) (ld_root d) defaults) (add_module b)))
        (contexts_of (ym_context y)) (Ok b))) mods (Ok b).

(* load(), data.rs:395-1067: project file -> finalized bag with merged provides *)
Definition load (t : ytree) (project_file : str) (build_dir : str) : res bag :=
  rbind (load_files (load_fuel t) t [(project_file, (None, None))] 0 []) (fun '(docs, _) =>
  (* contexts and builders of all documents, contexts before builders within a document *)
  rbind (fold_left (fun acc d => rbind acc (fun '(b, cms) =>
           fold_left (fun acc lb => rbind acc (fun '(b, cms) =>
              fold_left (fun acc y => rbind acc (fun '(b, cms) =>
                 rbind (convert_context y (snd lb || yc_is_builder y) (ld_file d) (ld_root d)) (fun '(c, m) =>
                 rbind (add_context b c) (fun b' => Ok (b', cms ++ [m])))))
                (odflt [] (fst lb)) (Ok (b, cms))))
             [(d_contexts (ld_doc d), false); (d_builders (ld_doc d), true)] (Ok (b, cms))))
         docs (Ok ([], []))) (fun '(b0, ctx_modules) =>
  rbind (finalize b0) (fun b1 =>
  rbind (fold_left (fun acc m => rbind acc (fun b => add_module b m)) ctx_modules (Ok b1)) (fun b2 =>
  rbind (fold_left (fun acc d => rbind acc (fun '(b, mmap, amap) =>
           rbind (get_defaults build_dir d mmap false) (fun mdef =>
           rbind (get_defaults build_dir d amap true) (fun adef =>
           let has_sub := match d_subdirs (ld_doc d) with Some _ => true | None => false end in
           let mmap1 := match has_sub, mdef with true, Some m => mmap ++ [(ld_idx d, m)] | _, _ => mmap end in
           let amap1 := match has_sub, adef with true, Some m => amap ++ [(ld_idx d, m)] | _, _ => amap end in
           rbind (match d_modules (ld_doc d) with
                  | Some (Some l) => add_modules build_dir b d l false mdef
                  | _ => Ok b end) (fun b4 =>
           rbind (match d_apps (ld_doc d) with
                  | Some (Some l) => add_modules build_dir b4 d l true adef
                  | Some None => add_modules build_dir b4 d [ymod_default] true adef
                  | None => Ok b4 end) (fun b5 => Ok (b5, mmap1, amap1)))))))
         docs (Ok (b2, [], []))) (fun '(b3, _, _) =>
  Ok (merge_provides b3)))))).
