(* Tasks.v — mirrors src/main.rs:330-490 (what `laze build [task]` does after generation),
   src/task_runner.rs (run_tasks) and NinjaCmd::run's argument vector (src/ninja/mod.rs).
   Process spawning is abstracted by two oracles: does ninja succeed on this argv, does the task
   of (builder, app) succeed. Definitions only. *)
From Coq Require Import Ascii String.
From Coq Require Import List Arith Bool NArith.
Import ListNotations.
Require Import Laze.model.Base Laze.model.Env Laze.model.Ninja Laze.model.Ctx Laze.model.Generate.
Open Scope list_scope.

Record mcli := {
  mc_builders : selector; mc_apps : selector;
  mc_task : option str;
  mc_generate_only : bool; mc_multiple : bool;
  mc_keep_going : nat; mc_jobs : option nat; mc_verbose : nat }.

Inductive action := ANinja (argv : list str) | ATask (builder app : str).

Record outcome := { o_actions : list action; o_exit : nat }.

(* NinjaCmd::run: -f <file> [-v] [-j N] [-k K] targets *)
Definition ninja_argv (file : str) (verbose : bool) (targets : option (list str))
           (jobs keep_going : option nat) : list str :=
  [S_ "-f"; file] ++ (if verbose then [S_ "-v"] else []) ++
  match jobs with Some j => [S_ "-j"; show_dec (N.of_nat j)] | None => [] end ++
  match keep_going with Some k => [S_ "-k"; show_dec (N.of_nat k)] | None => [] end ++
  odflt [] targets.

Definition selected_build (c : mcli) (b : build_info) : bool :=
  selects (mc_builders c) (bi_builder b) && selects (mc_apps c) (bi_binary b).

Definition is_all (s : selector) : bool := match s with SelAll => true | SelSome _ => false end.

(* `laze clean [--unused]`: ninja's clean / cleandead tool on the build file of the mode; nothing is
   generated (main.rs, the `clean` arm) *)
Definition clean_argv (file : str) (verbose unused : bool) : list str :=
  ninja_argv file verbose (Some [S_ "-t"; if unused then S_ "cleandead" else S_ "clean"]) None None.
Definition main_clean (ninja_ok : list str -> bool) (file : str) (verbose unused : bool) : outcome :=
  let argv := clean_argv file verbose unused in
  {| o_actions := [ANinja argv]; o_exit := if ninja_ok argv then 0 else 1 |}.

Section Main.
  Variable ninja_ok : list str -> bool.
  Variable task_ok : str -> str -> bool.

  (* run_tasks: stop after keep_going failures (0 = never stop) *)
  Fixpoint run_tasks (keep_going : nat) (targets : list build_info) (errors : nat) : list action * nat :=
    match targets with
    | [] => ([], errors)
    | b :: t =>
        let a := ATask (bi_builder b) (bi_binary b) in
        if task_ok (bi_builder b) (bi_binary b) then
          let '(acts, e) := run_tasks keep_going t errors in (a :: acts, e)
        else
          let errors1 := S errors in
          if Nat.ltb 0 keep_going && Nat.leb keep_going errors1 then ([a], errors1)
          else let '(acts, e) := run_tasks keep_going t errors1 in (a :: acts, e)
    end.

  Definition task_of_build (name : str) (b : build_info) : option (task + taskerr) := alookup name (bi_tasks b).

  (* main.rs after generation *)
  Definition main_after_generate (builds : list build_info) (file : str) (c : mcli) : outcome :=
    match mc_task c with
    | None =>
        if mc_generate_only c then {| o_actions := []; o_exit := 0 |}
        else
          let targets := if is_all (mc_builders c) && is_all (mc_apps c) then None
                         else Some (map bi_out (filter (selected_build c) builds)) in
          let argv := ninja_argv file (Nat.ltb 0 (mc_verbose c)) targets (mc_jobs c) (Some (mc_keep_going c)) in
          (* an empty explicit target list would make ninja build every default target of the file: a
             selection that matches no configured build starts no ninja (after fix 7aa44f9) *)
          match targets with
          | Some [] => {| o_actions := []; o_exit := 0 |}
          | _ => {| o_actions := [ANinja argv]; o_exit := if ninja_ok argv then 0 else 1 |}
          end
    | Some name =>
        let matching := filter (fun b => selected_build c b &&
                                         match task_of_build name b with Some _ => true | None => false end) builds in
        let runnable := filter (fun b => match task_of_build name b with Some (inl _) => true | _ => false end) matching in
        match runnable with
        | [] => {| o_actions := []; o_exit := 1 |}                        (* no matching target *)
        | _ =>
            if Nat.ltb 1 (length matching) && negb (mc_multiple c) then {| o_actions := []; o_exit := 1 |}
            else
              let ninja_targets := flat_map (fun b => match task_of_build name b with
                                                      | Some (inl t) => if t_build t then [bi_out b] else []
                                                      | _ => [] end) runnable in
              let need_ninja := negb (match ninja_targets with [] => true | _ => false end) && negb (mc_generate_only c) in
              let argv := ninja_argv file (Nat.ltb 0 (mc_verbose c)) (Some ninja_targets) (mc_jobs c) None in
              if need_ninja && negb (ninja_ok argv) then {| o_actions := [ANinja argv]; o_exit := 1 |}
              else
                let '(acts, errors) := run_tasks (mc_keep_going c) runnable 0 in
                {| o_actions := (if need_ninja then [ANinja argv] else []) ++ acts;
                   o_exit := if Nat.ltb 0 errors then 1 else 0 |}
        end
    end.
End Main.
