(* Ctx.v — mirrors src/model/{module,context,context_bag,rule,task,dependency}.rs: the data the
   loader produces and the queries generation makes on it. Definitions only. *)
From Coq Require Import Ascii String.
From Coq Require Import List Arith Bool NArith.
Import ListNotations.
Require Import Laze.model.Base Laze.model.Env Laze.model.Allow Laze.model.Path Laze.model.Ninja.
Open Scope list_scope.

Inductive dep := Hard (n : str) | Soft (n : str) | IfThenHard (o n : str) | IfThenSoft (o n : str).
Definition dep_name (d : dep) : str :=
  match d with Hard n | Soft n | IfThenHard _ n | IfThenSoft _ n => n end.

Record task := {
  t_cmd : list str; t_required_vars : option (list str); t_required_modules : option (list str);
  t_export : option (list export_spec); t_build : bool; t_workdir : option str }.

Record rule := {
  r_name : str; r_cmd : str; r_in : option str; r_out : option str; r_gcc_deps : option str;
  r_rspfile : option str; r_rspfile_content : option str; r_pool : option str;
  r_description : option str; r_export : option (list export_spec);
  r_always : bool; r_shareable : bool }.

Record custom_build := { cb_gcc_deps : option str; cb_cmd : list str; cb_out : option (list str) }.

(* download.rs: only `git: {url, commit}` is supported by the generator *)
Inductive dl_source := DlGitCommit (url commit : str) | DlUnsupported.
Record download := { dl_source_of : dl_source; dl_patches : option (list str); dl_dldir : option str }.

(* Download::srcdir / tagfile, download.rs:45-72 *)
Definition dl_srcdir (build_dir : str) (d : download) (relpath name : str) : str :=
  let base := path_push build_dir (S_ "dl") in
  match dl_dldir d with
  | Some dir => path_push base dir
  | None => path_push (path_push base relpath) name
  end.
Definition dl_tagfile_download (srcdir : str) : str := path_push srcdir (S_ ".laze-downloaded").
Definition dl_tagfile_patched (srcdir : str) : str := path_push srcdir (S_ ".laze-patched").
Definition dl_tagfile (d : download) (srcdir : str) : str :=
  match dl_patches d with Some _ => dl_tagfile_patched srcdir | None => dl_tagfile_download srcdir end.

Record module := {
  m_name : str; m_context_name : str;
  m_selects : list dep; m_imports : list dep;
  m_provides : option (list str); m_conflicts : option (list str);
  m_notify_all : bool;
  m_blocklist : option (list str); m_allowlist : option (list str);
  m_sources : list str; m_sources_optional : option (list (str * list str));
  m_tasks : list (str * task);
  m_build : option custom_build;
  m_env_local : env; m_env_export : env; m_env_global : env; m_env_early : env;
  m_relpath : option str; m_srcdir : option str;
  m_build_dep_files : option (list str);
  m_is_build_dep : bool; m_is_global_build_dep : bool; m_is_binary : bool;
  m_context_id : option nat; m_defined_in : option str;
  m_download : option download }.

(* Module::new *)
Definition module_new (name : str) (context_name : option str) : module :=
  {| m_name := name; m_context_name := odflt (S_ "default") context_name;
     m_selects := []; m_imports := []; m_provides := None; m_conflicts := None;
     m_notify_all := false; m_blocklist := None; m_allowlist := None;
     m_sources := []; m_sources_optional := None; m_tasks := []; m_build := None;
     m_env_local := []; m_env_export := []; m_env_global := []; m_env_early := [];
     m_relpath := None; m_srcdir := None; m_build_dep_files := None;
     m_is_build_dep := false; m_is_global_build_dep := false; m_is_binary := false;
     m_context_id := None; m_defined_in := None; m_download := None |}.

Record context := {
  c_name : str; c_parent_name : option str; c_parent_index : option nat;
  c_modules : list (str * module);                    (* IndexMap<String, Module> *)
  c_rules : option (list (str * rule));               (* IndexMap keyed by rule name *)
  c_env : option env;
  c_disable : option (list str);
  c_provided : option (list (str * list str));        (* providable -> IndexSet of module names *)
  c_var_options : option (list (str * mergeopt));
  c_tasks : option (list (str * task));
  c_env_early : env;
  c_is_builder : bool;
  c_defined_in : option str }.

Definition context_new (name : str) (parent : option str) : context :=
  {| c_name := name; c_parent_name := parent; c_parent_index := None; c_modules := [];
     c_rules := None; c_env := None; c_disable := None; c_provided := None;
     c_var_options := None; c_tasks := None; c_env_early := []; c_is_builder := false;
     c_defined_in := None |}.

Definition bag := list context.

Definition ctx_module_name (n : str) : str := S_ "context::" ++ n.

(* Context::new_default *)
Definition context_default : context :=
  let c := context_new (S_ "default") None in
  {| c_name := c_name c; c_parent_name := None; c_parent_index := None;
     c_modules := [(S_ "context::default", module_new (S_ "context::default") (Some (S_ "default")))];
     c_rules := None; c_env := None; c_disable := None; c_provided := None; c_var_options := None;
     c_tasks := None; c_env_early := []; c_is_builder := false; c_defined_in := None |}.

Definition bag_names (b : bag) : list str := map c_name b.
Definition bag_get (b : bag) (i : nat) : option context := nth_error b i.
Definition bag_index (b : bag) (n : str) : option nat := index_of n (bag_names b) 0.

Definition set_ctx (b : bag) (i : nat) (c : context) : bag :=
  firstn i b ++ c :: skipn (S i) b.

Definition with_parent_index (c : context) (p : option nat) : context :=
  {| c_name := c_name c; c_parent_name := c_parent_name c; c_parent_index := p;
     c_modules := c_modules c; c_rules := c_rules c; c_env := c_env c; c_disable := c_disable c;
     c_provided := c_provided c; c_var_options := c_var_options c; c_tasks := c_tasks c;
     c_env_early := c_env_early c; c_is_builder := c_is_builder c; c_defined_in := c_defined_in c |}.
Definition with_env (c : context) (e : option env) : context :=
  {| c_name := c_name c; c_parent_name := c_parent_name c; c_parent_index := c_parent_index c;
     c_modules := c_modules c; c_rules := c_rules c; c_env := e; c_disable := c_disable c;
     c_provided := c_provided c; c_var_options := c_var_options c; c_tasks := c_tasks c;
     c_env_early := c_env_early c; c_is_builder := c_is_builder c; c_defined_in := c_defined_in c |}.
Definition with_var_options (c : context) (v : option (list (str * mergeopt))) : context :=
  {| c_name := c_name c; c_parent_name := c_parent_name c; c_parent_index := c_parent_index c;
     c_modules := c_modules c; c_rules := c_rules c; c_env := c_env c; c_disable := c_disable c;
     c_provided := c_provided c; c_var_options := v; c_tasks := c_tasks c;
     c_env_early := c_env_early c; c_is_builder := c_is_builder c; c_defined_in := c_defined_in c |}.
Definition with_provided (c : context) (p : option (list (str * list str))) : context :=
  {| c_name := c_name c; c_parent_name := c_parent_name c; c_parent_index := c_parent_index c;
     c_modules := c_modules c; c_rules := c_rules c; c_env := c_env c; c_disable := c_disable c;
     c_provided := p; c_var_options := c_var_options c; c_tasks := c_tasks c;
     c_env_early := c_env_early c; c_is_builder := c_is_builder c; c_defined_in := c_defined_in c |}.
Definition with_modules (c : context) (ms : list (str * module)) (p : option (list (str * list str))) : context :=
  {| c_name := c_name c; c_parent_name := c_parent_name c; c_parent_index := c_parent_index c;
     c_modules := ms; c_rules := c_rules c; c_env := c_env c; c_disable := c_disable c;
     c_provided := p; c_var_options := c_var_options c; c_tasks := c_tasks c;
     c_env_early := c_env_early c; c_is_builder := c_is_builder c; c_defined_in := c_defined_in c |}.

Definition bag_tree (b : bag) : tree := {| t_names := bag_names b; t_parents := map c_parent_index b |}.

(* errors of the loader / bag *)
Definition e_dup_context := EOther (S_ "duplicate-context").
Definition e_unknown_parent := EOther (S_ "unknown-parent").
Definition e_parent_cycle := EOther (S_ "parent-cycle").
Definition e_unknown_context := EOther (S_ "unknown-context").
Definition e_dup_module := EOther (S_ "duplicate-module").

(* add_context_or_builder *)
Definition add_context (b : bag) (c : context) : res bag :=
  if mem_str (c_name c) (bag_names b) then Err e_dup_context else Ok (b ++ [c]).

(* count_parents, with fuel (the chain is acyclic after the cycle check) *)
Fixpoint count_parents (fuel : nat) (b : bag) (i : nat) : nat :=
  match fuel with
  | O => 0
  | S f => match bag_get b i with
           | Some c => match c_parent_index c with Some p => S (count_parents f b p) | None => 0 end
           | None => 0 end
  end.

(* stable sort of (index, count) by count *)
Fixpoint insert_by_count (x : nat * nat) (l : list (nat * nat)) : list (nat * nat) :=
  match l with
  | [] => [x]
  | y :: t => if Nat.ltb (snd x) (snd y) then x :: y :: t else y :: insert_by_count x t
  end.
Definition sort_by_count (l : list (nat * nat)) : list (nat * nat) :=
  fold_left (fun acc x => insert_by_count x acc) l [].

Definition topo_order (b : bag) : list (nat * nat) :=
  sort_by_count (map (fun i => (i, count_parents (length b) b i)) (seq 0 (length b))).

(* finalize, step 2 (context_bag.rs): merge parent env into each context, parents first *)
Definition inherit_env (b : bag) (nm : nat * nat) : bag :=
  match snd nm with
  | O => b
  | _ => match bag_get b (fst nm) with
         | Some c =>
             match c_parent_index c with
             | Some p =>
                 match bag_get b p with
                 | Some pc =>
                     match c_env pc with
                     | Some penv =>
                         set_ctx b (fst nm) (with_env c (Some (match c_env c with
                                                                | Some own => merge penv own
                                                                | None => penv end)))
                     | None => b
                     end
                 | None => b end
             | None => b end
         | None => b end
  end.

(* finalize, var_options: inherited only when the context has none *)
Definition inherit_var_options (b : bag) (nm : nat * nat) : bag :=
  match snd nm with
  | O => b
  | _ => match bag_get b (fst nm) with
         | Some c =>
             match c_var_options c with
             | Some _ => b
             | None =>
                 match c_parent_index c with
                 | Some p => match bag_get b p with
                             | Some pc => set_ctx b (fst nm) (with_var_options c (c_var_options pc))
                             | None => b end
                 | None => b end
             end
         | None => b end
  end.

(* ContextBag::finalize *)
Definition finalize (b0 : bag) : res bag :=
  let b1 := if mem_str (S_ "default") (bag_names b0) then b0 else b0 ++ [context_default] in
  match resolve_parents (bag_names b1) (map c_parent_name b1) with
  | None => Err e_unknown_parent
  | Some ps =>
      if negb (acyclic ps) then Err e_parent_cycle else
      let b2 := map (fun cp => with_parent_index (fst cp) (snd cp)) (combine b1 ps) in
      let order := topo_order b2 in
      let b3 := fold_left inherit_env order b2 in
      Ok (fold_left inherit_var_options order b3)
  end.

(* IndexSet insert *)
Definition iset_insert (x : str) (l : list str) : list str := if mem_str x l then l else l ++ [x].

Definition provided_add (prov : option (list (str * list str))) (provided mname : str) : option (list (str * list str)) :=
  let p := odflt [] prov in
  Some (ainsert provided (iset_insert mname (odflt [] (alookup provided p))) p).

Definition with_context_id (m : module) (i : nat) : module :=
  {| m_name := m_name m; m_context_name := m_context_name m; m_selects := m_selects m;
     m_imports := m_imports m; m_provides := m_provides m; m_conflicts := m_conflicts m;
     m_notify_all := m_notify_all m; m_blocklist := m_blocklist m; m_allowlist := m_allowlist m;
     m_sources := m_sources m; m_sources_optional := m_sources_optional m; m_tasks := m_tasks m;
     m_build := m_build m; m_env_local := m_env_local m; m_env_export := m_env_export m;
     m_env_global := m_env_global m; m_env_early := m_env_early m; m_relpath := m_relpath m;
     m_srcdir := m_srcdir m; m_build_dep_files := m_build_dep_files m;
     m_is_build_dep := m_is_build_dep m; m_is_global_build_dep := m_is_global_build_dep m;
     m_is_binary := m_is_binary m; m_context_id := Some i; m_defined_in := m_defined_in m;
     m_download := m_download m |}.

(* ContextBag::add_module *)
Definition add_module (b : bag) (m : module) : res bag :=
  match bag_index b (m_context_name m) with
  | None => Err e_unknown_context
  | Some i =>
      match bag_get b i with
      | None => Err e_unknown_context
      | Some c =>
          match alookup (m_name m) (c_modules c) with
          | Some _ => Err e_dup_module
          | None =>
              let prov := match m_provides m with
                          | Some l => fold_left (fun p x => provided_add p x (m_name m)) l (c_provided c)
                          | None => c_provided c end in
              Ok (set_ctx b i (with_modules c (c_modules c ++ [(m_name m, with_context_id m i)]) prov))
          end
      end
  end.

(* merge_provides *)
Definition iset_union (a b : list str) : list str := fold_left (fun acc x => iset_insert x acc) b a.

Definition union_provided (own parent : list (str * list str)) : list (str * list str) :=
  (* keys of own (values united with the parent's), then the parent's other keys *)
  map (fun kv => (fst kv, match alookup (fst kv) parent with
                          | Some ps => iset_union (snd kv) ps
                          | None => snd kv end)) own ++
  filter (fun kv => match alookup (fst kv) own with Some _ => false | None => true end) parent.

Definition shadow_filter (mods : list (str * module)) (prov : list (str * list str)) : list (str * list str) :=
  map (fun kv =>
         (fst kv, filter (fun providing =>
                            match alookup providing mods with
                            | Some m => match m_provides m with
                                        | Some ps => mem_str (fst kv) ps
                                        | None => false end
                            | None => true end) (snd kv))) prov.

Definition merge_provides_one (b : bag) (nm : nat * nat) : bag :=
  match snd nm with
  | O => b
  | _ => match bag_get b (fst nm) with
         | Some c =>
             let pprov := match c_parent_index c with
                          | Some p => match bag_get b p with Some pc => c_provided pc | None => None end
                          | None => None end in
             let combined := match c_provided c, pprov with
                             | Some own, Some pp => Some (union_provided own pp)
                             | Some own, None => Some own
                             | None, pp => pp end in
             set_ctx b (fst nm) (with_provided c (option_map (shadow_filter (c_modules c)) combined))
         | None => b end
  end.
Definition merge_provides (b : bag) : bag := fold_left merge_provides_one (topo_order b) b.

(* the chain of contexts from [i] up to the root (context_iter), with fuel *)
Fixpoint chain_up (fuel : nat) (b : bag) (i : nat) : list nat :=
  match fuel with
  | O => []
  | S f => i :: match bag_get b i with
                | Some c => match c_parent_index c with Some p => chain_up f b p | None => [] end
                | None => [] end
  end.
Definition chain (b : bag) (i : nat) : list nat := chain_up (length b) b i.       (* self first *)
Definition parents_root_first (b : bag) (i : nat) : list nat := rev (chain b i).   (* get_parents *)

Definition ctxs_of (b : bag) (l : list nat) : list context :=
  flat_map (fun i => match bag_get b i with Some c => [c] | None => [] end) l.

(* Context::resolve_module: nearest definition up the chain *)
Fixpoint find_module (cs : list context) (n : str) : option module :=
  match cs with
  | [] => None
  | c :: t => match alookup n (c_modules c) with Some m => Some m | None => find_module t n end
  end.
Definition resolve_module (b : bag) (builder : nat) (n : str) : option module :=
  find_module (ctxs_of b (chain b builder)) n.

(* Context::collect_rules: root first; key = in or name; IndexMap insert semantics *)
Definition rule_key (r : rule) : str := match r_in r with Some i => i | None => r_name r end.
Definition collect_rules (b : bag) (builder : nat) : list (str * rule) :=
  fold_left (fun acc c => match c_rules c with
                          | Some rs => fold_left (fun a kr => ainsert (rule_key (snd kr)) (snd kr) a) rs acc
                          | None => acc end)
            (ctxs_of b (parents_root_first b builder)) [].

(* generate.rs get_rule: first value whose *name* matches *)
Fixpoint get_rule (name : str) (rules : list (str * rule)) : option rule :=
  match rules with
  | [] => None
  | (_, r) :: t => if str_eqb (r_name r) name then Some r else get_rule name t
  end.

(* Context::collect_disabled_modules: IndexSet, root first *)
Definition collect_disabled (b : bag) (builder : nat) : list str :=
  fold_left (fun acc c => match c_disable c with
                          | Some l => fold_left (fun a x => iset_insert x a) l acc
                          | None => acc end)
            (ctxs_of b (parents_root_first b builder)) [].

(* all binaries, in context order then definition order *)
Definition all_modules (b : bag) : list module := flat_map (fun c => map snd (c_modules c)) b.
Definition builders (b : bag) : list (nat * context) :=
  filter (fun ic => c_is_builder (snd ic)) (combine (seq 0 (length b)) b).
