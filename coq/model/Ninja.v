(* Ninja.v — mirrors src/ninja/mod.rs (NinjaRule, NinjaBuild, their Display impls, hashing,
   alias helpers) and src/model/shared.rs (VarExportSpec). Definitions only. *)
From Coq Require Import Ascii String.
From Coq Require Import List Arith Bool NArith.
Import ListNotations.
Require Import Laze.model.Base Laze.model.Env Laze.model.Expand Laze.model.Path Laze.model.Hash.
Open Scope list_scope.

Definition nl : str := [ascii_of_N 10].

Definition export_spec := (str * option str)%type.      (* VarExportSpec {variable, content} *)

Record nrule := {
  nr_name : str; nr_command : str; nr_description : option str;
  nr_export : option (list export_spec);
  nr_deps : option str;                 (* NinjaRuleDeps::GCC(depfile) *)
  nr_rspfile : option str; nr_rspfile_content : option str; nr_pool : option str;
  nr_always : bool }.

(* impl Display for NinjaRule *)
Definition show_rule (r : nrule) : str :=
  S_ "rule " ++ nr_name r ++ nl ++ S_ "  command = " ++ nr_command r ++ nl ++
  match nr_description r with Some d => S_ "  description = " ++ d ++ nl | None => [] end ++
  match nr_deps r with Some d => S_ "  deps = gcc" ++ nl ++ S_ "  depfile = " ++ d ++ nl | None => [] end ++
  match nr_rspfile r with Some d => S_ "  rspfile = " ++ d ++ nl | None => [] end ++
  match nr_rspfile_content r with Some d => S_ "  rspfile_content = " ++ d ++ nl | None => [] end ++
  match nr_pool r with Some d => S_ "  pool = " ++ d ++ nl | None => [] end ++
  nl.

(* impl Hash for NinjaRule: the byte stream fed to the hasher *)
Definition rule_hash_bytes (r : nrule) : list ascii :=
  enc_str (nr_name r) ++ enc_str (nr_command r) ++ enc_opt_str (nr_description r) ++
  match nr_deps r with Some s => enc_u64 1 ++ enc_str s | None => [] end ++
  match nr_pool r with Some _ => enc_opt_str (nr_pool r) | None => [] end ++
  (if nr_always r then [ascii_of_N 1] else []) ++          (* hashed only when set (after the C06 fix) *)
  enc_opt_str (nr_rspfile r) ++ enc_opt_str (nr_rspfile_content r) ++
  match nr_deps r with Some s => enc_str s | None => [] end.

Section Hashed.
  (* H : the hasher (bytes -> u64). Executions instantiate it with siphash13. *)
  Variable H : list ascii -> N.

  Definition rule_hash (r : nrule) : N := H (rule_hash_bytes r).          (* get_hash(None) *)
  Definition with_name (r : nrule) (n : str) : nrule :=
    {| nr_name := n; nr_command := nr_command r; nr_description := nr_description r;
       nr_export := nr_export r; nr_deps := nr_deps r; nr_rspfile := nr_rspfile r;
       nr_rspfile_content := nr_rspfile_content r; nr_pool := nr_pool r; nr_always := nr_always r |}.
  (* named(): NAME_<hash> *)
  Definition named (r : nrule) : nrule :=
    with_name r (nr_name r ++ S_ "_" ++ show_dec (rule_hash r)).
End Hashed.

Section Expanding.
  Variable EV : str -> evr.

  (* VarExportSpec::apply_env: the content (or ${variable}) expanded with IfMissing::Empty;
     expansion errors are propagated (after the C15 fix; the pinned code unwrapped them) *)
  Definition apply_export (env : fenv) (e : export_spec) : res export_spec :=
    let content := match snd e with Some c => c | None => S_ "${" ++ fst e ++ S_ "}" end in
    rmap (fun v => (fst e, Some v)) (expand_eval EV env PEmpty content).

  Definition export_prefix (l : list export_spec) : str :=
    flat_map (fun e => match snd e with
                       | Some v => fst e ++ S_ "=""" ++ v ++ S_ """ && "
                       | None => [] end) l.

  (* NinjaRule::expand *)
  Definition rule_expand (env : fenv) (r : nrule) : res nrule :=
    rbind (match nr_export r with
           | Some l => rmap Some (rmapM (apply_export env) l)
           | None => Ok None end) (fun exp =>
    rbind (expand_eval EV env PIgnore (nr_command r)) (fun cmd =>
    rbind (match nr_deps r with
           | Some s => rmap Some (expand_eval EV env PIgnore s)
           | None => Ok None end) (fun deps =>
    Ok {| nr_name := nr_name r;
          nr_command := match exp with Some l => export_prefix l | None => [] end ++ cmd;
          nr_description := nr_description r; nr_export := nr_export r; nr_deps := deps;
          nr_rspfile := nr_rspfile r; nr_rspfile_content := nr_rspfile_content r;
          nr_pool := nr_pool r; nr_always := nr_always r |}))).
End Expanding.

Record nbuild := {
  nb_rule : str;
  nb_inputs : option (list str);
  nb_outs : list str;                  (* sorted by the builder's outs(); single out() not *)
  nb_deps : option (list str);         (* sorted by the builder *)
  nb_env : option (list (str * str));
  nb_always : bool }.

(* escape_path (as in ninja's ninja_syntax.py): in the path lists of a build statement ninja splits at
   blanks and colons; "$ " -> "$$ ", then " " -> "$ ", ":" -> "$:" — written as one pass *)
Definition ch_dollar : ascii := "$"%char.
Definition ch_blank : ascii := " "%char.
Definition ch_colon : ascii := ":"%char.
Fixpoint escape_path (p : str) : str :=
  match p with
  | [] => []
  | c :: t =>
      if Ascii.eqb c ch_blank then ch_dollar :: ch_blank :: escape_path t
      else if Ascii.eqb c ch_colon then ch_dollar :: ch_colon :: escape_path t
      else if Ascii.eqb c ch_dollar then
             match t with
             | d :: _ => if Ascii.eqb d ch_blank then ch_dollar :: ch_dollar :: escape_path t else ch_dollar :: escape_path t
             | [] => [ch_dollar]
             end
      else c :: escape_path t
  end.

(* impl Display for NinjaBuild *)
Definition cont : str := S_ " $" ++ nl ++ S_ "    ".
Definition show_build (b : nbuild) : str :=
  S_ "build" ++ flat_map (fun o => " "%char :: escape_path o) (nb_outs b) ++ S_ ":" ++ cont ++ nb_rule b ++
  match nb_inputs b with Some l => flat_map (fun p => cont ++ escape_path p) l | None => [] end ++
  (if match nb_deps b with Some _ => true | None => false end || nb_always b then
     cont ++ S_ "|" ++
     match nb_deps b with Some l => flat_map (fun p => cont ++ escape_path p) l | None => [] end ++
     (if nb_always b then cont ++ S_ "ALWAYS" else [])
   else []) ++
  nl ++
  match nb_env b with Some l => flat_map (fun kv => S_ "  " ++ fst kv ++ S_ " = " ++ snd kv ++ nl) l | None => [] end ++
  nl.

Definition build_from_rule (r : nrule) : nbuild :=
  {| nb_rule := nr_name r; nb_inputs := None; nb_outs := []; nb_deps := None; nb_env := None;
     nb_always := nr_always r |}.

(* ninja::alias / alias_multiple *)
Definition alias_build (input alias_name : str) : nbuild :=
  {| nb_rule := S_ "phony"; nb_inputs := Some [input]; nb_outs := [alias_name];
     nb_deps := None; nb_env := None; nb_always := false |}.
Definition alias_multiple_build (inputs : list str) (alias_name : str) : nbuild :=
  {| nb_rule := S_ "phony"; nb_inputs := Some inputs; nb_outs := [alias_name];
     nb_deps := None; nb_env := None; nb_always := false |}.
Definition alias (input alias_name : str) : str := show_build (alias_build input alias_name).
Definition alias_multiple (inputs : list str) (alias_name : str) : str :=
  show_build (alias_multiple_build inputs alias_name).

(* the entries of a build's statement set: rule blocks and build statements. The code keeps
   their printed text in an IndexSet<String>; the model keeps the structure next to the text
   (two entries are the same entry iff their text is equal) *)
Inductive stmt := SRule (r : nrule) | SBuild (b : nbuild).
Definition show_stmt (s : stmt) : str := match s with SRule r => show_rule r | SBuild b => show_build b end.
Definition sset_insert (s : stmt) (l : list stmt) : list stmt :=
  if existsb (fun x => str_eqb (show_stmt x) (show_stmt s)) l then l else l ++ [s].
